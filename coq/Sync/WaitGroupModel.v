(* may::sync::WaitGroup (src/sync/wait_group.rs) as a client program of CondvarModel: `count` lives under a private
   mutex (the abstract C05 mutex of CondvarModel), next to a private Condvar.

     clone()   lock; *count += 1; unlock                              WC1 (data)  WC2 (unlock)
     drop()    lock; *count -= 1; if *count == 0 { notify_all }; unlock
                                                                       WD0 (lock, when the drop is part of wait)  WD1 (data; notify_all -> WDN)
                                                                       WDN (inside Condvar::notify_all)            WD2 (unlock)
     wait()    lock; *count == 1 ?; unlock                            WW1 (read)  WW2 (unlock)
               == 1:  return   (dropping self: the drop sequence)     -> WD0 .. WD2 -> WRet
               else:  drop(self) (the drop sequence); lock; while *count > 0 { cvar.wait }; unlock; return
                                                                       -> WD0 .. WD2 -> WL0 (lock)  WL (test; wait -> WLw)  WLx (unlock) -> WRet
     WRet: the point where wait() returns (a ghost check, then idle)

   The data accesses of one critical section are one transition; `viol` records an access without the mutex and is
   proved never to be raised (as for the Barrier).  Ghost: `hl`, one entry (the owner) per live handle; a call needs a
   handle (`In a hl`), clone adds one, the data step of drop removes one; `early` is raised if a wait() returns while a
   handle is alive. *)
From Coq Require Import List Arith ZArith Bool Lia.
Import ListNotations.
Require Import MayV.Sync.CondvarModel MayV.Sync.BarrierModel.

Inductive wpcT := WIdle | WC1 | WC2 | WD0 | WD1 | WDN | WD2 | WW1 | WW2 | WL0 | WL | WLw | WLx | WRet | WGone.
Inductive wcont := KDrop | KFast | KSlow.   (* what follows the drop sequence: nothing / the fast return of wait / the wait loop *)

Record wst := { wcs : st; wcnt : nat; wpc : nat -> wpcT; wk : nat -> wcont; wco : nat -> bool;
                hl : list nat; wviol : bool; early : bool }.

Inductive waction :=
  | WClone (a : nat) | WDrop (a : nat) | WWait (a : nat) (co : bool)
  | WGive (a a' : nat)                   (* an idle actor hands one of its handles to another actor (moves it to another thread) *)
  | WStep (a : nat)
  | WInner (a : nat) (c : action)
  | WEnv (c : action).

Fixpoint remove_one (a : nat) (l : list nat) : list nat :=
  match l with [] => [] | x :: r => if Nat.eqb x a then r else x :: remove_one a r end.
Definition has (a : nat) (l : list nat) : bool := existsb (Nat.eqb a) l.

Definition w_cs (s : wst) c := {| wcs := c; wcnt := wcnt s; wpc := wpc s; wk := wk s; wco := wco s; hl := hl s; wviol := wviol s; early := early s |}.
Definition w_pc (s : wst) a p := {| wcs := wcs s; wcnt := wcnt s; wpc := bupd (wpc s) a p; wk := wk s; wco := wco s; hl := hl s; wviol := wviol s; early := early s |}.
Definition w_call (s : wst) c a p k co := {| wcs := c; wcnt := wcnt s; wpc := bupd (wpc s) a p; wk := bupd (wk s) a k; wco := bupd (wco s) a co; hl := hl s; wviol := wviol s; early := early s |}.
Definition w_data (s : wst) c a p n l v := {| wcs := c; wcnt := n; wpc := bupd (wpc s) a p; wk := wk s; wco := wco s; hl := l; wviol := v; early := early s |}.

Definition wstep (s : wst) (ac : waction) : option wst :=
  match ac with
  | WClone a => match wpc s a with
      | WIdle => if has a (hl s)
                 then match step (wcs s) (Lock a) with Some c => Some (w_call s c a WC1 KDrop (wco s a)) | None => None end
                 else None
      | _ => None end
  | WDrop a => match wpc s a with
      | WIdle => if has a (hl s)
                 then match step (wcs s) (Lock a) with Some c => Some (w_call s c a WD1 KDrop (wco s a)) | None => None end
                 else None
      | _ => None end
  | WWait a co => match wpc s a with
      | WIdle => if has a (hl s)
                 then match step (wcs s) (Lock a) with Some c => Some (w_call s c a WW1 KDrop co) | None => None end
                 else None
      | _ => None end
  | WGive a a' => match wpc s a with
      | WIdle => if has a (hl s)
                 then Some {| wcs := wcs s; wcnt := wcnt s; wpc := wpc s; wk := wk s; wco := wco s; hl := a' :: remove_one a (hl s); wviol := wviol s; early := early s |}
                 else None
      | _ => None end
  | WStep a =>
      let v := wviol s || negb (holds (wcs s) a) in
      match wpc s a with
      | WC1 => Some (w_data s (wcs s) a WC2 (S (wcnt s)) (a :: hl s) v)
      | WC2 => match step (wcs s) (Unlock a false) with Some c => Some (w_pc (w_cs s c) a WIdle) | None => None end
      | WW1 => Some {| wcs := wcs s; wcnt := wcnt s; wpc := bupd (wpc s) a WW2; wk := bupd (wk s) a (if Nat.eqb (wcnt s) 1 then KFast else KSlow);
                       wco := wco s; hl := hl s; wviol := v; early := early s |}
      | WW2 => match step (wcs s) (Unlock a false) with Some c => Some (w_pc (w_cs s c) a WD0) | None => None end
      | WD0 => match step (wcs s) (Lock a) with Some c => Some (w_pc (w_cs s c) a WD1) | None => None end
      | WD1 => if Nat.eqb (pred (wcnt s)) 0
               then match step (wcs s) (NotifyAll a) with
                    | Some c => Some (w_data s c a WDN (pred (wcnt s)) (remove_one a (hl s)) v)
                    | None => None end
               else Some (w_data s (wcs s) a WD2 (pred (wcnt s)) (remove_one a (hl s)) v)
      | WD2 => match step (wcs s) (Unlock a false) with
               | Some c => Some (w_pc (w_cs s c) a (match wk s a with KDrop => WIdle | KFast => WRet | KSlow => WL0 end))
               | None => None end
      | WL0 => match step (wcs s) (Lock a) with Some c => Some (w_pc (w_cs s c) a WL) | None => None end
      | WL => if Nat.ltb 0 (wcnt s)
              then match step (wcs s) (Wait a (wco s a) None) with
                   | Some c => Some {| wcs := c; wcnt := wcnt s; wpc := bupd (wpc s) a WLw; wk := wk s; wco := wco s; hl := hl s; wviol := v; early := early s |}
                   | None => None end
              else Some {| wcs := wcs s; wcnt := wcnt s; wpc := bupd (wpc s) a WLx; wk := wk s; wco := wco s; hl := hl s; wviol := v; early := early s |}
      | WLx => match step (wcs s) (Unlock a false) with Some c => Some (w_pc (w_cs s c) a WRet) | None => None end
      | WRet => Some {| wcs := wcs s; wcnt := wcnt s; wpc := bupd (wpc s) a WIdle; wk := wk s; wco := wco s; hl := hl s; wviol := wviol s;
                        early := early s || match hl s with [] => false | _ => true end |}
      | _ => None end
  | WInner a c =>
      if inner_ok a c
      then match wpc s a with
           | WLw => match step (wcs s) c with
                    | Some c' => Some (w_pc (w_cs s c') a (if pc_idle (apc (A c' a)) then WL else if pc_dead (apc (A c' a)) then WGone else WLw))
                    | None => None end
           | WDN => match step (wcs s) c with
                    | Some c' => Some (w_pc (w_cs s c') a (if pc_idle (apc (A c' a)) then WD2 else WDN))
                    | None => None end
           | _ => None end
      else None
  | WEnv c => if env_ok c then match step (wcs s) c with Some c' => Some (w_cs s c') | None => None end else None
  end.

(* the creator (actor 0) holds the first handle: WaitGroup::new() has count = 1 *)
Definition winit : wst :=
  {| wcs := init; wcnt := 1; wpc := fun _ => WIdle; wk := fun _ => KDrop; wco := fun _ => false; hl := [O]; wviol := false; early := false |}.
Inductive WReach : wst -> Prop :=
| WR0 : WReach winit
| WRS s a s' : WReach s -> wstep s a = Some s' -> WReach s'.
Fixpoint wrun (s : wst) (l : list waction) : option wst :=
  match l with [] => Some s | a :: l' => match wstep s a with Some s' => wrun s' l' | None => None end end.
