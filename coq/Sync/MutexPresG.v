(* C05 - preservation of the global assertion ginv *)
From Coq Require Import List Arith Bool Lia.
Import ListNotations.
Require Import MayV.Sync.MutexModel MayV.Sync.MutexInv.

Section S.
Variable isco : nat -> bool.
Notation step := (step isco).
Lemma pres_G s ac s' : Inv s -> step s ac = Some s' -> ginv s'.
Proof.
  intros Hi H. destruct (IG _ Hi) as (G1 & G2 & G3 & G4 & G5 & G6).
  step_cases H; unfold ginv; cbn; num;
    repeat match goal with |- _ /\ _ => split end; auto; try lia.
  all: try (pose proof (IA _ Hi a) as Ha; unfold ainv, waiting, halfgone in Ha; rewrite Epc in Ha; cbn in Ha).
  all: try (constructor; tauto).
  all: try (rewrite remove_len by tauto; lia).
  all: try (apply nodup_remove; assumption).
  all: try (intros b0 Hb; apply G4; right; assumption).
  all: try (intros b0 Hb; apply in_app_or in Hb; destruct Hb as [Hb|[<-|[]]]; [specialize (G4 b0 Hb)|]; lia).
  all: try (intros _; discriminate).
  all: try (intros _; brk; try (apply G5; congruence);
            intro E; try (apply (f_equal (@length nat)) in E; rewrite remove_len in E by tauto; cbn in E; lia);
            rewrite E in *; cbn in *; brk; fin0).
  all: try (b_facts Hi (ab (A s a)); b_facts Hi (aw (A s a)); rewrite E in *; cbn in *; fin0).
  all: brk; congruence.
Qed.


End S.
