(* Preservation of the spsc channel invariant, part 2: accounting, no-lost-wake-up, disconnect. *)
From Coq Require Import List Arith Bool Lia.
Import ListNotations.
Require Import MayV.Sync.ChanSpscModel MayV.Sync.ChanSpscInv.

Ltac use Hi := 
  pose proof (I_rc _ Hi) as Prc; pose proof (I_tslot _ Hi) as Pts; pose proof (I_kslot _ Hi) as Pks;
  pose proof (I_c1 _ Hi) as Pc1; pose proof (I_c2 _ Hi) as Pc2; pose proof (I_c3 _ Hi) as Pc3; pose proof (I_c4 _ Hi) as Pc4;
  pose proof (I_s1 _ Hi) as Ps1; pose proof (I_s2 _ Hi) as Ps2.

Lemma pres_alive s ac s' : Inv s -> step true s ac = Some s' -> ralive (R s') = false -> rp (R s') = RIdle.
Proof. intros Hi H. pose proof (I_alive _ Hi) as P. go H; fin. Qed.

Lemma pres_acc s ac s' : Inv s -> step true s ac = Some s' -> sent s' = rcvd s' ++ drpd s' ++ q s'.
Proof.
  intros Hi H. pose proof (I_acc _ Hi) as P. pose proof (I_drpd _ Hi) as P1. pose proof (I_alive _ Hi) as P2.
  go H; auto.
  all: try (assert (D : drpd s = []) by (apply P1; [destruct (ralive (R s)); auto; specialize (P2 eq_refl); discriminate | discriminate]); rewrite D in * ).
  all: rewrite P; cbn [app]; rewrite ?app_nil_r, <- ?app_assoc; cbn [app]; auto.
Qed.

Lemma pres_drpd s ac s' : Inv s -> step true s ac = Some s' -> ralive (R s') = true -> rp (R s') <> RPd1 -> drpd s' = [].
Proof. intros Hi H. pose proof (I_alive _ Hi) as P. pose proof (I_drpd _ Hi) as P1. go H; fin; try (apply P1; congruence). Qed.

Lemma pres_pd s ac s' : Inv s -> step true s ac = Some s' -> ralive (R s') = false \/ rp (R s') = RPd1 -> pdrop s' = true.
Proof. intros Hi H. pose proof (I_alive _ Hi) as P. pose proof (I_pd _ Hi) as P1. go H; fin. Qed.

Lemma pres_ord s ac s' : Inv s -> step true s ac = Some s' -> sent s' = seq 0 (sn (Sn s')).
Proof. intros Hi H. pose proof (I_ord _ Hi) as P. go H; auto. rewrite seq_S, P. reflexivity. Qed.

Lemma pres_t5 s ac s' : Inv s -> step true s ac = Some s' -> t5reg (R s') = true -> slot s' = None -> ttok s' = true \/ holdsT (Sn s') = true.
Proof. intros Hi H. use Hi. pose proof (I_t5 _ Hi) as P. go H; fin. Qed.

Lemma pres_t6 s ac s' : Inv s -> step true s ac = Some s' -> t6reg (R s') = true -> slot s' <> None -> q s' <> [] -> sp (Sn s') = STake.
Proof. intros Hi H. use Hi. pose proof (I_t6 _ Hi) as P. go H; fin. Qed.

Lemma pres_t7 s ac s' : Inv s -> step true s ac = Some s' -> rp (R s') = RPark -> slot s' <> None -> chans s' = 0 -> sp (Sn s') = STake.
Proof. intros Hi H. use Hi. pose proof (I_t7 _ Hi) as P. go H; fin. Qed.

Lemma pres_c6 s ac s' : Inv s -> step true s ac = Some s' -> rp (R s') = KChans \/ rp (R s') = RSusp -> slotC s' = true -> q s' <> [] -> sp (Sn s') = STake.
Proof. intros Hi H. use Hi. pose proof (I_c6 _ Hi) as P. go H; fin. Qed.

Lemma pres_c7 s ac s' : Inv s -> step true s ac = Some s' -> rp (R s') = RSusp -> slotC s' = true -> chans s' = 0 -> sp (Sn s') = STake.
Proof. intros Hi H. use Hi. pose proof (I_c7 _ Hi) as P. go H; fin. Qed.

Lemma pres_d1 s ac s' : Inv s -> step true s ac = Some s' -> rp (R s') = RPop2 -> chans s' = 0.
Proof. intros Hi H. use Hi. pose proof (I_d1 _ Hi) as P. go H; fin. Qed.

Lemma pres_d2 s ac s' : Inv s -> step true s ac = Some s' ->
  (rp (R s') = RClear /\ rdata (R s') = RDisc) \/ (rp (R s') = RIdle /\ rres (R s') = RDisc) -> chans s' = 0 /\ q s' = [].
Proof. intros Hi H. use Hi. pose proof (I_d2 _ Hi) as P. pose proof (I_d1 _ Hi) as P1. go H; fin. Qed.

Lemma pres_r1 s ac s' : Inv s -> step true s ac = Some s' -> rdead (R s') = true -> chans s' = 0.
Proof. intros Hi H. use Hi. pose proof (I_r1 _ Hi) as P. go H; fin. Qed.

Lemma pres_r2 s ac s' : Inv s -> step true s ac = Some s' -> rdead (R s') = true ->
  match rp (R s') with RPark | RSusp | KStore | KEmpty | KChans | KTake | KRun | RStore => False | _ => True end.
Proof. intros Hi H. use Hi. pose proof (I_r1 _ Hi) as P. pose proof (I_r2 _ Hi) as P2. go H; fin. Qed.

Lemma pres_r3 s ac s' : Inv s -> step true s ac = Some s' -> rdead (R s') = true -> rp (R s') = RIdle ->
  match rres (R s') with REmpty => False | _ => True end.
Proof. intros Hi H. use Hi. pose proof (I_r1 _ Hi) as P. pose proof (I_r2 _ Hi) as P2. pose proof (I_r3 _ Hi) as P3. pose proof (I_rdata _ Hi) as P4. go H; fin.
  specialize (P4 eq_refl). destruct (rdata (R s)); tauto.
Qed.
