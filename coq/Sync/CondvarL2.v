(* layer 2 of the Condvar invariant: the flag structure of the queue and of the blockers in the hands of notifiers *)
From Coq Require Import List Arith ZArith Bool Lia.
Import ListNotations.
Require Import MayV.Sync.CondvarModel MayV.Sync.CondvarInv MayV.Sync.CondvarTac MayV.Sync.CondvarL1.
Open Scope Z_scope.

Record Inv2 (s : st) : Prop := {
  F_q : forall b, In b (q s) -> unp (Bk s b) = false;
  F_held : forall b, In b (held s) -> unp (Bk s b) = false /\ ~ In b (q s);
  F_cov : forall b, (1 <= b < nextb s)%nat -> unp (Bk s b) = false -> In b (q s) \/ In b (held s);
  F_ndq : NoDup (q s);
  F_ndh : NoDup (held s);
  F_k2 : forall a, cls_of (apc (A s a)) = CK2 -> unp (Bk s (aw (A s a))) = false /\ In (aw (A s a)) (held s);
  F_kd : forall x y, x <> y -> cls_of (apc (A s x)) = CK2 -> cls_of (apc (A s y)) = CK2 -> aw (A s x) <> aw (A s y) }.

Lemma inv2_init : Inv2 init.
Proof. constructor; cbn; intros; try tauto; try discriminate; try constructor; try lia. Qed.

(* facts about a pop: q s = v :: l *)
Ltac popfacts Hi H1 :=
  try match goal with E : q ?s = ?v :: ?l |- _ =>
    assert (Hv : In v (q s)) by (rewrite E; left; reflexivity);
    assert (Hl : forall z, In z l -> In z (q s)) by (intros; rewrite E; right; assumption);
    assert (Hvl : ~ In v l /\ NoDup l) by (pose proof (F_ndq _ Hi) as Nq; rewrite E in Nq; inversion Nq; auto);
    assert (Hlv : forall z, In z (q s) -> z = v \/ In z l) by (intros z; rewrite E; cbn; intuition);
    pose proof (R_q _ H1 v Hv) as Rv; pose proof (F_q _ Hi v Hv) as Fv; pose proof (F_held _ Hi v) as Fhv
  end.
Ltac vsubst := repeat match goal with e : ?v = _ |- _ => is_var v; subst v end.
Ltac fin := vsubst; ap; try solve [intuition (auto; try discriminate; try congruence; try lia)].

Lemma l2_q s ac s' : Inv1 s -> Inv2 s -> step s ac = Some s' -> forall b, In b (q s') -> unp (Bk s' b) = false.
Proof.
  intros H1 Hi H. destruct ac; step_cases0 H; simp_st; try exact (F_q _ Hi).
  all: popfacts Hi H1; intros b Hb; pose proof (F_q _ Hi b) as Fb; pose proof (R_q _ H1 b) as Rb;
       pose proof (F_held _ Hi (aw (A s a))) as Fw; pose proof (R_a _ H1 a) as Ra.
  all: try (pose proof (F_k2 _ Hi a) as Fk; rewrite Epc in Fk; cbn [cls_of] in Fk).
  all: upd_tac; simp_act; lists; fin.
Qed.

Lemma l2_held s ac s' : Inv1 s -> Inv2 s -> step s ac = Some s' -> forall b, In b (held s') -> unp (Bk s' b) = false /\ ~ In b (q s').
Proof.
  intros H1 Hi H. destruct ac; step_cases0 H; simp_st; try exact (F_held _ Hi).
  all: popfacts Hi H1; intros b Hb; pose proof (F_held _ Hi b) as Fb; pose proof (R_held _ H1 b) as Rb;
       pose proof (F_held _ Hi (aw (A s a))) as Fw; pose proof (R_a _ H1 a) as Ra.
  all: try (pose proof (F_k2 _ Hi a) as Fk; rewrite Epc in Fk; cbn [cls_of] in Fk).
  all: try (pose proof (Hl b)).
  all: upd_tac; simp_act; lists; fin.
Qed.

Lemma l2_cov s ac s' : Inv1 s -> Inv2 s -> step s ac = Some s' ->
  forall b, (1 <= b < nextb s')%nat -> unp (Bk s' b) = false -> In b (q s') \/ In b (held s').
Proof.
  intros H1 Hi H. destruct ac; step_cases0 H; simp_st; try exact (F_cov _ Hi).
  all: popfacts Hi H1; intros b Hr; pose proof (F_cov _ Hi b) as Fb;
       pose proof (F_held _ Hi (aw (A s a))) as Fw; pose proof (R_a _ H1 a) as Ra.
  all: try (pose proof (F_k2 _ Hi a) as Fk; rewrite Epc in Fk; cbn [cls_of] in Fk).
  all: try (pose proof (Hlv b)).
  all: upd_tac; simp_act; lists; fin.
Qed.

Lemma l2_nd s ac s' : Inv1 s -> Inv2 s -> step s ac = Some s' -> NoDup (q s') /\ NoDup (held s').
Proof.
  intros H1 Hi H.
  destruct ac; step_cases0 H; simp_st; try (split; [exact (F_ndq _ Hi) | exact (F_ndh _ Hi)]).
  all: popfacts Hi H1; pose proof (F_ndq _ Hi) as Nq0; pose proof (F_ndh _ Hi) as Nh0; split; nd; fin.
  all: try (intro I; apply (R_q _ H1) in I; lia).
Qed.

Lemma l2_k2 s ac s' : Inv1 s -> Inv2 s -> step s ac = Some s' ->
  forall y, cls_of (apc (A s' y)) = CK2 -> unp (Bk s' (aw (A s' y))) = false /\ In (aw (A s' y)) (held s').
Proof.
  intros H1 Hi H. destruct ac; step_cases0 H; simp_st; try exact (F_k2 _ Hi).
  all: popfacts Hi H1; intros y; pose proof (F_k2 _ Hi y) as Fy; pose proof (F_kd _ Hi y a) as Fd; pose proof (R_a _ H1 y) as Ry; pose proof (R_a _ H1 a) as Ra.
  all: try (pose proof (F_k2 _ Hi a) as Fk; rewrite Epc in Fk; cbn [cls_of] in Fk).
  all: upd_tac; simp_act; try rewrite Epc in *; clsr; cbn [cls_of] in *; upd_tac; simp_act; lists; fin.
Qed.

Lemma l2_kd s ac s' : Inv1 s -> Inv2 s -> step s ac = Some s' ->
  forall x y, x <> y -> cls_of (apc (A s' x)) = CK2 -> cls_of (apc (A s' y)) = CK2 -> aw (A s' x) <> aw (A s' y).
Proof.
  intros H1 Hi H. destruct ac; step_cases0 H; simp_st; try exact (F_kd _ Hi).
  all: popfacts Hi H1; intros x y; pose proof (F_kd _ Hi x y) as Fxy; pose proof (F_k2 _ Hi x) as Fx; pose proof (F_k2 _ Hi y) as Fy;
       pose proof (F_held _ Hi (aw (A s x))) as Fhx; pose proof (F_held _ Hi (aw (A s y))) as Fhy.
  all: upd_tac; simp_act; try rewrite Epc in *; clsr; cbn [cls_of] in *; fin.
Qed.

Lemma inv2_step s ac s' : Inv1 s -> Inv2 s -> step s ac = Some s' -> Inv2 s'.
Proof.
  intros H1 Hi H. constructor.
  - eapply l2_q; eauto.
  - eapply l2_held; eauto.
  - eapply l2_cov; eauto.
  - eapply l2_nd; eauto.
  - eapply l2_nd; eauto.
  - eapply l2_k2; eauto.
  - eapply l2_kd; eauto.
Qed.

Lemma inv2_reach s : Reach s -> Inv2 s.
Proof. intro R. induction R; [apply inv2_init | eapply inv2_step; eauto using inv1_reach]. Qed.
