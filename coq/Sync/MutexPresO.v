(* C05 - interference freedom: the assertion of an actor that does not move is preserved *)
From Coq Require Import List Arith Bool Lia.
Import ListNotations.
Require Import MayV.Sync.MutexModel MayV.Sync.MutexInv MayV.Sync.MutexPresA.

Section S.
Variable isco : nat -> bool.
Notation step := (step isco).

Lemma pres_A_other s ac s' a' : Inv s -> a' <> actor_of ac ->
  step s ac = Some s' -> ainv s' a'.
Proof.
  intros Hi Hne H. destruct (IG _ Hi) as (G1 & G2 & G3 & G4 & G5 & G6).
  pose proof (IA _ Hi a') as Ho. unfold ainv, waiting, halfgone in Ho.
  step_cases H; cbn [actor_of] in Hne.
  all: unfold ainv, set_pc, waiting, halfgone; cbn; rewrite ?(upd_neq (A s) a a') by auto.
  all: destruct (apc (A s a')) eqn:Eo; cbn in Ho |- *.
  all: try a_facts Hi a; brk; num.
  all: repeat match goal with |- _ /\ _ => split end; intros; brk; fin.
  all: upd_tac; cbn in *; unfold fresh in *; cbn in *; brk; fin.
  all: try (b_facts Hi (ab (A s a)); b_facts Hi (aw (A s a)); fin).
  all: try (destruct (Nat.eq_dec (afor (A s a)) a') as [ef|nef]; [rewrite ef in *; brk; fin | fin]).
  all: try (intros [?|?]; fin0).
  all: try (exfalso; apply G5; [congruence | apply length_zero_iff_nil; lia]).
  all: try (match goal with H : _ \/ _ |- _ \/ _ => destruct H; [left|right]; congruence end).
  all: try (match goal with e : afor (A _ ?x) = _ |- _ => rewrite e in *; cbn in *; brk; fin end).
  all: try (let Hf := fresh "Hf" in pose proof (IA _ Hi (afor (A s a'))) as Hf; unfold ainv in Hf;
            destruct Hf as (Hf1 & Hf2 & Hf3 & _); brk;
            destruct (Nat.eq_dec (afor (A s a')) a) as [ea|nea]; [rewrite ea in *; brk; fin | fin]).
  all: try (repeat match goal with e : context [upd _ _ _ _] |- _ => rewrite upd_neq in e by assumption; cbn in e end;
            first [congruence | exfalso; congruence]).
Qed.
End S.
