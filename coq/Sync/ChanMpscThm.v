(* Theorems about the mpsc channel model: every reachable state satisfies the invariant; C06 / C07
   statements for the mpsc instance. *)
From Coq Require Import List Arith Bool Lia.
Import ListNotations.
Require Import MayV.Sync.ChanMpscModel MayV.Sync.ChanMpscInv MayV.Sync.ChanMpscPres1 MayV.Sync.ChanMpscPres2.

Lemma inv_step s ac s' : Inv s -> step s ac = Some s' -> Inv s'.
Proof.
  intros Hi H. constructor.
  - eapply pres_rc; eauto.
  - eapply pres_rdata; eauto.
  - eapply pres_rb; eauto.
  - eapply pres_slot; eauto.
  - eapply pres_slotreg; eauto.
  - eapply pres_B; eauto.
  - eapply pres_wait; eauto.
  - eapply pres_S; eauto.
  - eapply pres_live; eauto.
  - eapply pres_acc; eauto.
  - eapply pres_drpd; eauto.
  - eapply pres_alive; eauto.
  - eapply pres_pd; eauto.
  - eapply pres_ord; eauto.
  - eapply pres_w5; eauto.
  - eapply pres_w6; eauto.
  - eapply pres_w7; eauto.
  - eapply pres_d1; eauto.
  - eapply pres_d2; eauto.
  - eapply pres_r1; eauto.
  - eapply pres_r2; eauto.
  - eapply pres_r3; eauto.
Qed.

Theorem inv_reach s : Reach s -> Inv s.
Proof. induction 1; [apply inv_init | eapply inv_step; eauto]. Qed.

(* ------------------------------------------------------------------------------------------ *)
(* list facts *)
Lemma nodup_map_pair (a : nat) (l : list nat) : NoDup l -> NoDup (map (pair a) l).
Proof.
  induction 1 as [|x l N _ IH]; cbn; constructor; auto.
  intro I. apply in_map_iff in I. destruct I as [y [E I]]. inversion E; subst. contradiction.
Qed.
Lemma nodup_by_filter (l : list val) : (forall a, NoDup (filter (from a) l)) -> NoDup l.
Proof.
  induction l as [|x l IH]; intros H; constructor.
  - intro I. specialize (H (fst x)). cbn in H. unfold from at 1 in H. rewrite Nat.eqb_refl in H.
    inversion H; subst. apply H2. apply filter_In. split; auto. unfold from. apply Nat.eqb_refl.
  - apply IH. intro a. specialize (H a). cbn in H. destruct (from a x); auto. now inversion H.
Qed.
Lemma prefix_of_seq (f : nat -> val) l1 : forall l2 s n, l1 ++ l2 = map f (seq s n) -> l1 = map f (seq s (length l1)) /\ length l1 <= n.
Proof.
  induction l1 as [|x l1 IH]; intros l2 s n E; cbn; [split; [reflexivity | lia]|].
  destruct n as [|n]; cbn in E; [discriminate|]. inversion E; subst.
  destruct (IH _ _ _ H1) as [E1 L]. split; [f_equal; exact E1 | lia].
Qed.

(* ------------------------------------------------------------------------------------------ *)
(* C06 (i): accounting, exactly once, nothing invented, per-sender order *)

(* the values pushed by successful sends, in push order, are exactly: what the receiver was handed
   (in that order), then what drop_port / the final free dropped, then what is still queued *)
Theorem mpsc_accounting s : Reach s -> sent s = rcvd s ++ drpd s ++ q s.
Proof. intro H. exact (I_acc _ (inv_reach _ H)). Qed.

(* each handle's pushed values are (a,0), (a,1), ... in push order *)
Theorem mpsc_sender_sequence s a : Reach s -> filter (from a) (sent s) = map (pair a) (seq 0 (sn (Sd s a))).
Proof. intro H. exact (I_ord _ (inv_reach _ H) a). Qed.

Theorem mpsc_sent_distinct s : Reach s -> NoDup (sent s).
Proof.
  intro H. apply nodup_by_filter. intro a. rewrite (mpsc_sender_sequence s a H).
  apply nodup_map_pair, seq_NoDup.
Qed.

(* every value whose send returned Ok is in exactly one of: received, dropped, still queued;
   and nothing is received (or dropped) that was not sent *)
Theorem mpsc_exactly_once s : Reach s ->
  NoDup (rcvd s ++ drpd s ++ q s) /\
  (forall v, In v (sent s) <-> In v (rcvd s) \/ In v (drpd s) \/ In v (q s)).
Proof.
  intro H. pose proof (mpsc_accounting s H) as E. split.
  - rewrite <- E. apply mpsc_sent_distinct; auto.
  - intro v. rewrite E, !in_app_iff. tauto.
Qed.

(* per-sender order: what the receiver got from handle a is (a,0) ... (a,k-1), in this order,
   a prefix of what a sent *)
Theorem mpsc_per_sender_order s a : Reach s ->
  exists k, k <= sn (Sd s a) /\ filter (from a) (rcvd s) = map (pair a) (seq 0 k).
Proof.
  intro H. pose proof (mpsc_sender_sequence s a H) as E. rewrite (mpsc_accounting s H), filter_app in E.
  destruct (prefix_of_seq _ _ _ _ _ E) as [E1 L]. eexists. split; [exact L | exact E1].
Qed.

Corollary mpsc_per_sender_order_full s a : Reach s ->
  filter (from a) (sent s) = map (pair a) (seq 0 (sn (Sd s a))) /\
  exists k, k <= sn (Sd s a) /\ filter (from a) (rcvd s) = map (pair a) (seq 0 k).
Proof. intro H. split; [exact (mpsc_sender_sequence s a H) | exact (mpsc_per_sender_order s a H)]. Qed.

(* ------------------------------------------------------------------------------------------ *)
(* C06 (ii) / C07 (iii): no lost wake-up *)

(* a receiver suspended in park with no wake-up reason yet, while a value is queued or every sender
   is gone, always has a waker in flight: a sender (or the last dropper) about to take to_wake, or
   one that has taken the receiver's blocker and is about to unpark it *)
Theorem mpsc_no_lost_wakeup s : Reach s ->
  rp (R s) = RWait -> reason (Bk s (rb (R s))) = None -> (q s <> [] \/ chans s = 0) ->
  exists a, sp (Sd s a) = STake \/ (sp (Sd s a) = SUnpark /\ sw (Sd s a) = rb (R s)).
Proof.
  intros H W N C. pose proof (inv_reach _ H) as Hi.
  assert (Hreg : inreg (R s) = true) by (unfold inreg; rewrite W; reflexivity).
  destruct (I_slotreg _ Hi Hreg) as [Sl|Sl].
  - assert (Sn : slot s <> None) by congruence.
    destruct C as [C|C].
    + destruct (I_w6 _ Hi) as [a Ha]; auto. { unfold w6reg. rewrite W. reflexivity. } exists a. auto.
    + destruct (I_w7 _ Hi) as [a Ha]; auto. { unfold w7reg. rewrite W. reflexivity. } exists a. auto.
  - destruct (I_w5 _ Hi) as [T|[T|[a Ha]]]; auto. { unfold w5reg. rewrite W. reflexivity. }
    + exfalso. destruct (I_B _ Hi (rb (R s))) as (_ & _ & B3 & _). apply B3; auto. apply (I_wait _ Hi W).
    + contradiction.
    + exists a. auto.
Qed.

Definition senders_quiet (s : st) : Prop := forall a, sp (Sd s a) = SIdle.

(* quiescent form: when no sender has a step left, a receiver that is (still) suspended without a
   wake-up reason faces an empty queue and a live sender - nobody is parked next to a queued value or
   after the last sender is gone *)
Corollary mpsc_quiescent_not_stranded s : Reach s -> senders_quiet s ->
  rp (R s) = RWait -> reason (Bk s (rb (R s))) = None -> q s = [] /\ chans s <> 0.
Proof.
  intros H Q W N.
  assert (X : ~ (q s <> [] \/ chans s = 0)).
  { intro C. destruct (mpsc_no_lost_wakeup s H W N C) as [a [Ha|[Ha _]]]; rewrite (Q a) in Ha; discriminate. }
  split; [destruct (q s); [reflexivity | exfalso; apply X; left; discriminate] | intro; apply X; auto].
Qed.

(* ------------------------------------------------------------------------------------------ *)
(* C07 (iii): disconnect *)

Lemma alive_counted s a : Inv s -> sst (Sd s a) = Alive -> chans s <> 0.
Proof. apply live_pos. Qed.

(* once every sender is gone no new one appears and nothing is pushed any more *)
Theorem mpsc_disconnect_stable s ac s' : Reach s -> step s ac = Some s' -> chans s = 0 ->
  chans s' = 0 /\ (q s' = q s \/ q s' = tl (q s) \/ q s' = []).
Proof.
  intros H St C. pose proof (inv_reach _ H) as Hi.
  step_cases St; guards; unf; prj; try (split; [assumption | auto]); try congruence.
  all: try (rewrite Eq; cbn; auto).
  all: try match goal with E : sst (Sd ?s0 ?a) = Alive, Hi : Inv ?s0 |- _ => exfalso; apply (live_pos s0 a Hi E); congruence end.
  all: try (exfalso; busy; contradiction).
Qed.

(* a call answers Disconnected only when every sender is gone AND the queue has been drained *)
Theorem mpsc_disconnected_means_drained s : Reach s ->
  rp (R s) = RIdle -> rres (R s) = RDisc -> chans s = 0 /\ q s = [].
Proof. intros H P E. apply (I_d2 _ (inv_reach _ H)). right. auto. Qed.

(* a call that starts after the last sender is gone never parks, never polls the deadline and answers
   a value or Disconnected - not Empty, not Timeout *)
Theorem mpsc_call_after_disconnect s : Reach s -> rdead (R s) = true ->
  chans s = 0 /\
  match rp (R s) with RPark | RWait | RDeadline => False | _ => True end /\
  (rp (R s) = RIdle -> match rres (R s) with REmpty | RTimeout | RCancel => False | _ => True end).
Proof.
  intros H D. pose proof (inv_reach _ H) as Hi. repeat split.
  - apply (I_r1 _ Hi D).
  - apply (I_r2 _ Hi D).
  - apply (I_r3 _ Hi D).
Qed.

(* ------------------------------------------------------------------------------------------ *)
(* C07 (iv): the receiver is gone *)

Theorem mpsc_port_dropped_flag s : Reach s -> ralive (R s) = false -> pdrop s = true.
Proof. intros H D. apply (I_pd _ (inv_reach _ H)). auto. Qed.

(* a send that starts after the receiver was dropped pushes nothing and answers Err(t) *)
Theorem mpsc_send_after_port_drop s a : Reach s -> sdead (Sd s a) = true ->
  sp (Sd s a) = SChk \/ (sp (Sd s a) = SIdle /\ sres (Sd s a) = false).
Proof.
  intros H D. destruct (I_S _ (inv_reach _ H) a) as (_ & _ & _ & _ & S5). apply S5. exact D.
Qed.

Corollary mpsc_receiver_gone s a : Reach s ->
  (ralive (R s) = false -> pdrop s = true) /\
  (sdead (Sd s a) = true -> sp (Sd s a) = SChk \/ (sp (Sd s a) = SIdle /\ sres (Sd s a) = false)).
Proof. intro H. split; [exact (mpsc_port_dropped_flag s H) | exact (mpsc_send_after_port_drop s a H)]. Qed.

(* `channels` counts exactly the live handles: the `bad number of channels` panic is unreachable *)
Theorem mpsc_channels_counts_live s : Reach s ->
  chans s = length (live s) /\ forall a, sp (Sd s a) = SSub -> chans s <> 0.
Proof.
  intros H. pose proof (inv_reach _ H) as Hi. split; [apply (I_live _ Hi)|].
  intros a E. pose proof (busy_pos s a Hi) as X. rewrite E in X. exact (X I).
Qed.

(* ------------------------------------------------------------------------------------------ *)
(* non-vacuity: concrete reachable states *)

(* the receiver parks, handle 0 sends: the sender takes the blocker and unparks; the receiver gets (0,0) *)
Definition sch_wake : list action :=
  [Recv false; RStep; RStep; RStep; RStep;          (* store, pop None, channels > 0, park -> suspended *)
   Send 0; SStep 0; SStep 0].                        (* port_dropped.load, push *)
Example wake_pending :
  let s := run init sch_wake in
  Reach s /\ rp (R s) = RWait /\ reason (Bk s (rb (R s))) = None /\ q s = [(0, 0)] /\ sp (Sd s 0) = STake.
Proof. split; [apply reach_run; constructor | vm_compute; auto]. Qed.

Example wake_delivers :
  let s := run init (sch_wake ++ [SStep 0; SStep 0; RStep; RStep]) in
  Reach s /\ rp (R s) = RIdle /\ rres (R s) = ROk (0, 0) /\ rcvd s = [(0, 0)] /\ q s = [].
Proof. split; [apply reach_run; constructor | vm_compute; auto]. Qed.

(* the receiver parks, the last sender is dropped: woken, answers Disconnected *)
Example disconnect_wakes :
  let s := run init [Recv true; RStep; RStep; RStep; RStep; DropChan 0; SStep 0; SStep 0; SStep 0; RStep; RStep; RStep; RStep] in
  Reach s /\ rp (R s) = RIdle /\ rres (R s) = RDisc /\ chans s = 0.
Proof. split; [apply reach_run; constructor | vm_compute; auto]. Qed.

(* values left when the receiver is dropped are drained; a later send fails *)
Example drop_port_drains :
  let s := run init [Send 0; SStep 0; SStep 0; SStep 0; DropPort; RStep; RStep; RStep; Send 0; SStep 0] in
  Reach s /\ drpd s = [(0, 0)] /\ sdead (Sd s 0) = true /\ sres (Sd s 0) = false /\ sent s = [(0, 0)].
Proof. split; [apply reach_run; constructor | vm_compute; auto]. Qed.
