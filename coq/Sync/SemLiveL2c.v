(* Preservation of the overlay invariant of SemLive.v, clause L2 (flagged registered blockers are attached or held by their agent): the cases E4, P0, K1, K4
   (env = the actions other than Step).  Script in SemLiveTac.v; assembled in SemLiveC.v. *)
From Coq Require Import List Arith ZArith Bool Lia.
Import ListNotations.
Require Import MayV.Sync.SemModel MayV.Sync.SemInv MayV.Sync.SemTac MayV.Sync.SemCase MayV.Sync.SemLive MayV.Sync.SemLiveTac.
Open Scope Z_scope.

Lemma pres_L2_E4 s o a s' : Inv s -> LInv s o -> apc (A s a) = E4 -> step s (Step a) = Some s' -> L2 s' (lstep s o (Step a)).
Proof. intros Hi HL Epc H. l2_pre HL. lsetup_at Hi H Epc. all: l2_script Hi s o a P1 P2 P3. Qed.

Lemma pres_L2_P0 s o a s' : Inv s -> LInv s o -> apc (A s a) = P0 -> step s (Step a) = Some s' -> L2 s' (lstep s o (Step a)).
Proof. intros Hi HL Epc H. l2_pre HL. lsetup_at Hi H Epc. all: l2_script Hi s o a P1 P2 P3. Qed.

Lemma pres_L2_K1 s o a s' : Inv s -> LInv s o -> apc (A s a) = K1 -> step s (Step a) = Some s' -> L2 s' (lstep s o (Step a)).
Proof. intros Hi HL Epc H. l2_pre HL. lsetup_at Hi H Epc. all: l2_script_K1 Hi s o a P1 P2. Qed.

Lemma pres_L2_K4 s o a s' : Inv s -> LInv s o -> apc (A s a) = K4 -> step s (Step a) = Some s' -> L2 s' (lstep s o (Step a)).
Proof. intros Hi HL Epc H. l2_pre HL. lsetup_at Hi H Epc. all: l2_script Hi s o a P1 P2 P3. Qed.
