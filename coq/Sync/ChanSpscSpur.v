(* spsc channel model: environment interference with the blocked receiver.
   (b) spurious returns of std::thread::park (action Spur): the thread receiver's loop tolerates them - no
       value is lost, Disconnected is never answered early, Receiver::recv never answers Empty, and a receiver
       that parks again has registered again (no lost wake-up);
   (a) cancellation of the coroutine receiver at its cancellation points (action RCan): nothing is popped,
       and the cancelled coroutine is in nobody's hands afterwards (not in wait_co, not with the sender,
       not in the run queue): no second resumption.
   All theorems of ChanSpscThm / ChanSpscDrop are proved for the model WITH these actions (Reach includes
   them); this file adds the statements that are about them. *)
From Coq Require Import List Arith Bool Lia.
Import ListNotations.
Require Import MayV.Sync.ChanSpscModel MayV.Sync.ChanSpscInv MayV.Sync.ChanSpscThm.

(* a spurious return moves the receiver to its next try_recv and changes nothing else: queue, logs, slot,
   token and sender are untouched *)
Theorem spsc_spurious_return_changes_nothing f s s' : step f s Spur = Some s' ->
  rp (R s) = RPark /\ rp (R s') = RPop1 /\ rc (R s') = CFin /\
  q s' = q s /\ sent s' = sent s /\ rcvd s' = rcvd s /\ drpd s' = drpd s /\
  slot s' = slot s /\ ttok s' = ttok s /\ chans s' = chans s /\ Sn s' = Sn s.
Proof.
  intro H. unfold step in H. destruct (rp (R s)) eqn:E; try discriminate. inversion H; subst. cbn. auto 12.
Qed.

(* which API call is running: Receiver::recv (the loop) never runs a plain try_recv round, so it never
   answers Empty - whatever number of spurious returns it sees *)
Definition ainv (s : st) : Prop :=
  rapi (R s) = ARecv -> rc (R s) <> CTry /\ (rp (R s) = RIdle -> rres (R s) <> REmpty).

Lemma ainv_step s ac s' : Inv s -> ainv s -> step true s ac = Some s' -> ainv s'.
Proof.
  intros Hi A H. unfold ainv in *. pose proof (I_rdata _ Hi) as D.
  go H; auto; try discriminate.
  all: try (intro X; specialize (A X); destruct A as [A1 A2]; split; [congruence | intros; try discriminate; auto]).
  all: try (intros _; split; [congruence | intros; discriminate]).
  all: try (intro X; destruct (A X) as [A1 A2]; congruence).
  specialize (D eq_refl). intro Y. rewrite Y in D. exact D.
Qed.

Lemma ainv_reach s : Reach true s -> ainv s.
Proof.
  induction 1 as [|s a s' Hr IH Hs]; [intro X; discriminate | eapply ainv_step; eauto; apply inv_reach; auto].
Qed.

Theorem spsc_recv_never_answers_empty s : Reach true s ->
  rapi (R s) = ARecv -> rp (R s) = RIdle -> rres (R s) <> REmpty.
Proof. intros H A P. destruct (ainv_reach s H A) as [_ X]. auto. Qed.

(* no early Disconnected, with spurious returns in the model: an answer Disconnected means every sender is
   gone and the queue is drained (this is spsc_disconnected_means_drained; restated here because Reach now
   contains Spur) *)
Theorem spsc_no_early_disconnect_with_spurious_returns s : Reach true s ->
  rp (R s) = RIdle -> rres (R s) = RDisc -> chans s = 0 /\ q s = [] /\ sent s = rcvd s ++ drpd s.
Proof.
  intros H P E. destruct (spsc_disconnected_means_drained s H P E) as [C Q]. repeat split; auto.
  pose proof (spsc_accounting s H) as A. rewrite Q, app_nil_r in A. exact A.
Qed.

(* a receiver that is parked (again) has a registered blocker or a waker in flight: if a value is queued
   or the sender is gone and no token is pending, the sender is about to take the blocker or about to
   unpark the thread (this is spsc_thread_no_lost_wakeup: it holds in every round of the loop) *)
Theorem spsc_parked_again_is_registered_again s : Reach true s ->
  rp (R s) = RPark -> ttok s = false -> (q s <> [] \/ chans s = 0) ->
  sp (Sn s) = STake \/ (sp (Sn s) = SUnpark /\ sw (Sn s) = WT).
Proof. exact (spsc_thread_no_lost_wakeup s). Qed.

(* ---- cancellation of the coroutine receiver ---- *)
Theorem spsc_cancel_pops_nothing f s s' : step f s RCan = Some s' ->
  (rp (R s) = KStore \/ rp (R s) = RSusp \/ rp (R s) = KRun) /\
  rp (R s') = RIdle /\ rres (R s') = RCancel /\
  q s' = q s /\ sent s' = sent s /\ rcvd s' = rcvd s /\ drpd s' = drpd s /\ chans s' = chans s /\ Sn s' = Sn s.
Proof.
  intro H. unfold step in H. destruct (rp (R s)) eqn:E; try discriminate.
  - inversion H; subst. cbn. auto 12.
  - inversion H; subst. cbn. auto 12.
  - destruct (runq s); [|discriminate]. inversion H; subst. cbn. auto 12.
Qed.

(* an idle receiver's coroutine is nowhere: whoever ended the call (a value, Disconnected, the Cancel
   panic) left no handle of the coroutine behind, so it cannot be resumed a second time *)
Theorem spsc_idle_receiver_coroutine_is_nowhere s : Reach true s -> rp (R s) = RIdle ->
  slotC s = false /\ holdsC (Sn s) = false /\ runq s = false.
Proof.
  intros H P. pose proof (inv_reach _ H) as Hi.
  assert (K : kreg (R s) = false) by (unfold kreg; rewrite P; reflexivity).
  repeat split.
  - destruct (slotC s) eqn:E; auto. destruct (I_c1 _ Hi E) as [X _]. congruence.
  - destruct (holdsC (Sn s)) eqn:E; auto. destruct (I_c2 _ Hi E) as [X _]. congruence.
  - destruct (runq s) eqn:E; auto. pose proof (I_c3 _ Hi E). congruence.
Qed.

Corollary spsc_cancelled_coroutine_is_nowhere s s' : Reach true s -> step true s RCan = Some s' ->
  slotC s' = false /\ holdsC (Sn s') = false /\ runq s' = false.
Proof.
  intros H St. apply spsc_idle_receiver_coroutine_is_nowhere; [eapply RS; eauto|].
  destruct (spsc_cancel_pops_nothing _ _ _ St) as (_ & P & _). exact P.
Qed.

(* ------------------------------------------------------------------------------------------ *)
(* non-vacuity *)

(* the thread receiver parks, park returns spuriously, the round finds nothing, the receiver registers and
   parks again; then a send arrives: taken, unparked, delivered *)
Definition sch_spur : list action :=
  [Recv false; RStep; RStep; RStep; RStep; RStep;      (* pop None, channels 1, store, pop None, channels 1: RPark *)
   Spur; RStep; RStep;                                 (* try_recv (CFin): Empty -> next round *)
   RStep; RStep; RStep; RStep; RStep].                 (* try_recv (CFirst) Empty, store, re-check Empty: RPark *)
Example spurious_return_parks_again :
  let s := run true init sch_spur in
  Reach true s /\ rp (R s) = RPark /\ slot s = Some WT /\ ttok s = false /\ rcvd s = [].
Proof. split; [apply reach_run; constructor | vm_compute; auto 10]. Qed.
Example spurious_return_then_send_delivers :
  let s := run true init (sch_spur ++ [Send; SStep; SStep; SStep; SStep; RStep; RStep]) in
  Reach true s /\ rp (R s) = RIdle /\ rres (R s) = ROk 0 /\ rcvd s = [0] /\ q s = [].
Proof. split; [apply reach_run; constructor | vm_compute; auto 10]. Qed.

(* a spurious return that finds a value leaves the old blocker in wait_co; the next send takes it and
   unparks a thread that is not parked: a stale token, eaten by one extra round of the next recv *)
Definition sch_stale : list action :=
  [Recv false; RStep; RStep; RStep; RStep; RStep;      (* RPark, registered *)
   Send; SStep; SStep;                                 (* push 0 (the take is still to come) *)
   Spur; RStep].                                       (* spurious return: try_recv finds 0 *)
Example spurious_return_finds_value_and_leaves_stale_blocker :
  let s := run true init sch_stale in
  Reach true s /\ rp (R s) = RIdle /\ rres (R s) = ROk 0 /\ slot s = Some WT /\ sp (Sn s) = STake.
Proof. split; [apply reach_run; constructor | vm_compute; auto 10]. Qed.
Example stale_token_is_tolerated :
  let s := run true init (sch_stale ++ [SStep; SStep;                              (* take the stale blocker, unpark: token *)
                                        Recv false; RStep; RStep; RStep; RStep; RStep;  (* Empty, store, Empty: RPark *)
                                        RStep; RStep; RStep;                             (* token: returns at once; Empty; next round *)
                                        RStep; RStep; RStep; RStep; RStep]) in           (* Empty, store, Empty *)
  Reach true s /\ rp (R s) = RPark /\ ttok s = false /\ slot s = Some WT /\ rcvd s = [0] /\ q s = [].
Proof. split; [apply reach_run; constructor | vm_compute; auto 10]. Qed.

(* the coroutine receiver is suspended, a send schedules it, the cancel is found when it is resumed: the
   value stays queued, the Receiver's drop (unwinding) drops it - exactly once *)
Definition sch_cancel : list action :=
  [Recv true; RStep; RStep; RStep; RStep; RStep;       (* pop None, channels 1; kernel: store co, is_empty, channels 1: RSusp *)
   Send; SStep; SStep; SStep; SStep;                   (* push 0, take the coroutine, schedule it *)
   RCan].
Example cancel_at_resumption_leaves_value_queued :
  let s := run true init sch_cancel in
  Reach true s /\ rp (R s) = RIdle /\ rres (R s) = RCancel /\ q s = [0] /\ rcvd s = [] /\ slot s = None /\ runq s = false.
Proof. split; [apply reach_run; constructor | vm_compute; auto 10]. Qed.
Example cancelled_receiver_drop_drops_the_value_once :
  let s := run true init (sch_cancel ++ [DropPort; RStep; RStep; RStep]) in
  Reach true s /\ ralive (R s) = false /\ q s = [] /\ rcvd s = [] /\ drpd s = [0] /\ sent s = [0].
Proof. split; [apply reach_run; constructor | vm_compute; auto 10]. Qed.
