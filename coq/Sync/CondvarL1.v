(* layer 1 of the Condvar invariant: ranges and freshness of blocker ids *)
From Coq Require Import List Arith ZArith Bool Lia.
Import ListNotations.
Require Import MayV.Sync.CondvarModel MayV.Sync.CondvarInv MayV.Sync.CondvarTac.
Open Scope Z_scope.

Record Inv1 (s : st) : Prop := {
  R_nb : (1 <= nextb s)%nat;
  R_a : forall a, (ab (A s a) < nextb s)%nat /\ (aw (A s a) < nextb s)%nat /\ (cls_of (apc (A s a)) = CK2 -> (1 <= aw (A s a))%nat);
  R_q : forall b, In b (q s) -> (1 <= b < nextb s)%nat;
  R_held : forall b, In b (held s) -> (1 <= b < nextb s)%nat;
  R_giv : forall b, In b (giv s) -> (1 <= b < nextb s)%nat;
  R_flg : forall b, In b (flg s) -> (1 <= b < nextb s)%nat;
  R_fresh : forall b, (nextb s <= b)%nat -> Bk s b = fresh O }.

Lemma inv1_init : Inv1 init.
Proof. constructor; cbn; intros; try tauto; try lia; auto. repeat split; try lia. discriminate. Qed.

Lemma inv1_step s ac s' : Inv1 s -> step s ac = Some s' -> Inv1 s'.
Proof.
  intros Hi H.
  destruct ac; step_cases0 H; destruct Hi as [Hn Ha Hq Hh Hg Hf Hfr]; constructor; simp_st; auto.
  all: intros zz; intros; pose proof (Ha a) as Haa; pose proof (Ha zz) as Haz;
       pose proof (Hq zz) as Hqz; pose proof (Hh zz) as Hhz; pose proof (Hg zz) as Hgz; pose proof (Hf zz) as Hfz; pose proof (Hfr zz) as Hfrz.
  all: try match goal with E : q _ = ?v :: ?l |- _ =>
         assert (Hv : In v (q s)) by (rewrite E; left; reflexivity);
         assert (Hl : In zz l -> In zz (q s)) by (rewrite E; right; assumption);
         pose proof (Hq v Hv) end.
  all: upd_tac; simp_act; lists; try rewrite Epc in *; clsr; cbn [cls_of] in *.
  all: try solve [intuition (auto; try discriminate; try lia)].
  all: try solve [exfalso; lia].
  all: try solve [apply Hfr; lia].
Qed.

Lemma inv1_reach s : Reach s -> Inv1 s.
Proof. intro R. induction R; [apply inv1_init | eapply inv1_step; eauto]. Qed.
