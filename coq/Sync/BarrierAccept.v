(* Trace acceptor for the client programs of the Condvar: may::sync::Barrier (src/sync/barrier.rs) and
   may::sync::WaitGroup (src/sync/wait_group.rs), as a PRODUCT acceptor over BarrierModel / WaitGroupModel.

   The recorded events are those of the Condvar acceptor (Sync/CondvarAccept.v: the shared accesses of condvar.rs,
   blocking.rs, park.rs, the call-level events of the mutex) plus the scenario's API records

     71 bar.new(n, gens)     72 bar.arrive(g, who)  right before Barrier::wait     73 bar.leave(g, leader)  right after it
                             (g = 255: the party does not know its generation - more parties than n share the barrier)
     74 wg.new               75 wg.clone(who)  76 wg.drop(who)  77 wg.wait(who)  right before the call
     78 wg.done(who)  right after WaitGroup::wait returned          79 wg.give(k)  the creator moves a clone to worker k

   Every Condvar-level event is planned by CondvarAccept.plan_ev on the Condvar component of the client state; the model
   actions of the plan are then LIFTED to transitions of the client model (bstep / wstep), so the client model runs in
   lock step with the code: lock() is BArrive / WClone / WDrop / WWait or the lock inside wait(); the accesses to the data
   under the mutex (count, generation_id) are not recorded, their effect shows in the control flow - a follower calls
   Condvar::wait, the leader / the last drop calls notify_all, wait_while leaves the loop - and each such decision of the
   code must be the decision the model takes from ITS count / generation (else the trace is rejected).  API records are
   checked against the model: a party announces generation g = the model's generation in progress, it leaves as leader iff
   the model's path went through the leader branch, with lgen = g; a wait-group call needs a live handle of the caller;
   wg.done finds the caller at the return point of wait() (where the model checks "no handle alive").

   Soundness: every state along an accepted trace is BReach n / WReach (so every C11.iii / C11.iv theorem applies to it),
   and the Condvar component moves exactly as CondvarAccept says (accept_refines_condvar: the product acceptor accepts only
   traces the Condvar acceptor accepts, with the API records read as code 70). *)
From Coq Require Import List ZArith Bool Arith Lia.
Import ListNotations.
Require Import MayV.Sync.CondvarModel MayV.Sync.CondvarAccept MayV.Sync.BarrierModel MayV.Sync.WaitGroupModel.
Open Scope Z_scope.

Inductive cmode := MNone | MBar (n : nat) (s : bst) | MWg (s : wst).
Record caux := { cidx : nat -> nat;    (* actor -> scenario index *)
                 cop : nat -> nat;     (* pending API call: 0 none; barrier: 1 announced, 2 returned; wait group: 1 clone 2 drop 3 wait *)
                 cg : nat -> nat;      (* barrier: the generation announced *)
                 cl : nat -> bool }.   (* barrier: the last wait() returned as leader *)
Definition caux0 := {| cidx := fun _ => O; cop := fun _ => O; cg := fun _ => O; cl := fun _ => false |}.
Definition pst := (cmode * (aux * caux))%type.
Definition p_init : pst := (MNone, (aux0, caux0)).

Definition set_cidx (y : caux) a k := {| cidx := upd (cidx y) a k; cop := cop y; cg := cg y; cl := cl y |}.
Definition set_cop (y : caux) a o g := {| cidx := cidx y; cop := upd (cop y) a o; cg := upd (cg y) a g; cl := cl y |}.
Definition set_ret (y : caux) a l := {| cidx := cidx y; cop := upd (cop y) a 2%nat; cg := cg y; cl := upd (cl y) a l |}.

Definition bpc_eqb (x y : bpcT) : bool :=
  match x, y with
  | BIdle, BIdle | BIn, BIn | BLoop, BLoop | BWait, BWait | BNotify, BNotify | BExit, BExit | BExitL, BExitL | BGone, BGone => true
  | _, _ => false end.
Definition wpc_eqb (x y : wpcT) : bool :=
  match x, y with
  | WIdle, WIdle | WC1, WC1 | WC2, WC2 | WD0, WD0 | WD1, WD1 | WDN, WDN | WD2, WD2 | WW1, WW1 | WW2, WW2
  | WL0, WL0 | WL, WL | WLw, WLw | WLx, WLx | WRet, WRet | WGone, WGone => true
  | _, _ => false end.

(* ---------------------------------------------------------------------------------------- Barrier: lifting *)
Section Bar.
Variable n : nat.
Variable co : nat -> bool.      (* the actor is a coroutine *)
Variable pnd : nat -> bool.     (* the actor has announced a wait() *)

Definition bthen (r : option bst) (a : nat) (p : bpcT) (k : bst -> option bst) : option bst :=
  match r with Some s1 => if bpc_eqb (bpc s1 a) p then k s1 else None | None => None end.

(* one action of the Condvar model as transitions of the barrier program; the unrecorded data steps (count += 1 ... ;
   the test of wait_while) are taken right before the call they lead to *)
Definition bl1 (s : bst) (c : action) : option bst :=
  match c with
  | Lock a => if pnd a then bthen (bstep n s (BArrive a (co a))) a BIn Some else None
  | Unlock a false =>
      match bpc s a with
      | BLoop => bthen (bstep n s (BStep a)) a BExit (fun s1 => bthen (bstep n s1 (BStep a)) a BIdle Some)
      | BExit | BExitL => bthen (bstep n s (BStep a)) a BIdle Some
      | _ => None end
  | Wait a co' None =>
      if Bool.eqb co' (bco s a)
      then match bpc s a with
           | BIn => bthen (bstep n s (BStep a)) a BLoop (fun s1 => bthen (bstep n s1 (BStep a)) a BWait Some)
           | BLoop => bthen (bstep n s (BStep a)) a BWait Some
           | _ => None end
      else None
  | NotifyAll a => match bpc s a with BIn => bthen (bstep n s (BStep a)) a BNotify Some | _ => None end
  | Step a | Resume a | Choose a _ => bstep n s (BInner a c)
  | Cancel _ | Tick _ => bstep n s (BEnv c)
  | _ => None
  end.
Fixpoint bls (s : bst) (l : list action) : option bst :=
  match l with [] => Some s | c :: l' => match bl1 s c with Some s' => bls s' l' | None => None end end.
End Bar.

(* ---------------------------------------------------------------------------------------- WaitGroup: lifting *)
Section Wg.
Variable co : nat -> bool.
Variable opf : nat -> nat.      (* the pending API call of the actor *)

Definition wthen (r : option wst) (a : nat) (ok : wpcT -> bool) (k : wst -> option wst) : option wst :=
  match r with Some s1 => if ok (wpc s1 a) then k s1 else None | None => None end.
Definition after_data (p : wpcT) : bool := match p with WC2 | WW2 | WD2 | WLx => true | _ => false end.
Definition after_unlock (p : wpcT) : bool := match p with WIdle | WD0 | WL0 | WRet => true | _ => false end.

Definition wl1 (s : wst) (c : action) : option wst :=
  match c with
  | Lock a =>
      match wpc s a with
      | WIdle => match opf a with
                 | 1%nat => wthen (wstep s (WClone a)) a (wpc_eqb WC1) Some
                 | 2%nat => wthen (wstep s (WDrop a)) a (wpc_eqb WD1) Some
                 | 3%nat => wthen (wstep s (WWait a (co a))) a (wpc_eqb WW1) Some
                 | _ => None end
      | WD0 => wthen (wstep s (WStep a)) a (wpc_eqb WD1) Some
      | WL0 => wthen (wstep s (WStep a)) a (wpc_eqb WL) Some
      | _ => None end
  | Unlock a false =>
      match wpc s a with
      | WC1 | WW1 | WD1 | WL => wthen (wstep s (WStep a)) a after_data (fun s1 => wthen (wstep s1 (WStep a)) a after_unlock Some)
      | WC2 | WW2 | WD2 | WLx => wthen (wstep s (WStep a)) a after_unlock Some
      | _ => None end
  | Wait a co' None =>
      if Bool.eqb co' (wco s a)
      then match wpc s a with WL => wthen (wstep s (WStep a)) a (wpc_eqb WLw) Some | _ => None end
      else None
  | NotifyAll a => match wpc s a with WD1 => wthen (wstep s (WStep a)) a (wpc_eqb WDN) Some | _ => None end
  | Step a | Resume a | Choose a _ => wstep s (WInner a c)
  | Cancel _ | Tick _ => wstep s (WEnv c)
  | _ => None
  end.
Fixpoint wls (s : wst) (l : list action) : option wst :=
  match l with [] => Some s | c :: l' => match wl1 s c with Some s' => wls s' l' | None => None end end.
End Wg.

(* ---------------------------------------------------------------------------------------- the acceptor *)
Definition is_co (x : aux) (a : nat) : bool := Nat.eqb (kind x a) 2.
Definition isnil {X} (l : list X) : bool := match l with [] => true | _ => false end.
Definition placeholder (k : nat) : nat := (50 + k)%nat.

Definition paccept_ev (p : pst) (e : list Z) : option pst :=
  let '(m, (x, y)) := p in
  match e with
  | [code; za; o; v] =>
    let a := Z.to_nat za in
    if negb (started x)
    then match m, code with
         | MNone, 0 => Some (m, (set_started x, y))
         | _, _ => None end
    else
    match m with
    | MNone =>
        (* before the object exists: cv.new / actor records only *)
        if Z.eqb code 71 then (if Z.leb 1 o then Some (MBar (Z.to_nat o) binit, (x, y)) else None)
        else if Z.eqb code 74
        then match wstep winit (WGive 0 a) with Some s => Some (MWg s, (x, y)) | None => None end
        else match plan_ev init x e with
             | Some pl => if isnil (acts pl) && post pl init then Some (m, (nxt pl init, if Z.eqb code 1 then set_cidx y a (Z.to_nat o) else y)) else None
             | None => None end
    | MBar n s =>
        if Z.eqb code 72
        then (* bar.arrive(g, who): the caller is outside, the generation in progress is g *)
             if Nat.eqb (cop y a) 0 && bpc_eqb (bpc s a) BIdle && (Z.eqb o 255 || Nat.eqb (gen s) (Z.to_nat o))
             then Some (m, (x, set_cop y a 1%nat (Z.to_nat o))) else None
        else if Z.eqb code 73
        then (* bar.leave(g, leader): wait() has returned; it joined generation g; leader as the model says *)
             if Nat.eqb (cop y a) 2 && bpc_eqb (bpc s a) BIdle && Nat.eqb (cg y a) (Z.to_nat o) && (Z.eqb o 255 || Nat.eqb (lgen s a) (Z.to_nat o))
                && Bool.eqb (cl y a) (zb v) && Nat.ltb (lgen s a) (gen s)
             then Some (m, (x, set_cop y a 0%nat 0%nat)) else None
        else if Z.leb 71 code && Z.leb code 79 then None
        else match plan_ev (cs s) x e with
             | Some pl =>
                 match bls n (is_co x) (fun i => Nat.eqb (cop y i) 1) s (acts pl) with
                 | Some s' =>
                     if post pl (cs s')
                     then let y1 := if Z.eqb code 1 then set_cidx y a (Z.to_nat o) else y in
                          let y2 := if Nat.eqb (cop y a) 1 && negb (bpc_eqb (bpc s a) BIdle) && bpc_eqb (bpc s' a) BIdle
                                    then set_ret y1 a (bpc_eqb (bpc s a) BExitL) else y1 in
                          Some (MBar n s', (nxt pl (cs s'), y2))
                     else None
                 | None => None end
             | None => None end
    | MWg s =>
        if Z.eqb code 75 || Z.eqb code 76 || Z.eqb code 77
        then (* wg.clone / wg.drop / wg.wait (who): the caller is outside and owns a handle (a worker takes the one the
                creator left for it) *)
             if Nat.eqb (cop y a) 0 && wpc_eqb (wpc s a) WIdle
             then let s1 := if has a (hl s) then Some s else wstep s (WGive (placeholder (cidx y a)) a) in
                  match s1 with
                  | Some s2 => if has a (hl s2) then Some (MWg s2, (x, set_cop y a (Z.to_nat (code - 74)) 0%nat)) else None
                  | None => None end
             else None
        else if Z.eqb code 78
        then (* wg.done: the return point of wait() *)
             if Nat.eqb (cop y a) 3 && wpc_eqb (wpc s a) WRet
             then match wstep s (WStep a) with Some s' => Some (MWg s', (x, set_cop y a 0%nat 0%nat)) | None => None end
             else None
        else if Z.eqb code 79
        then (* wg.give(k): the creator, outside every call, leaves a handle for worker k *)
             if Nat.eqb (cop y a) 0
             then match wstep s (WGive a (placeholder (Z.to_nat o))) with Some s' => Some (MWg s', (x, y)) | None => None end
             else None
        else if Z.leb 71 code && Z.leb code 79 then None
        else match plan_ev (wcs s) x e with
             | Some pl =>
                 match wls (is_co x) (cop y) s (acts pl) with
                 | Some s' =>
                     if post pl (wcs s')
                     then let y1 := if Z.eqb code 1 then set_cidx y a (Z.to_nat o) else y in
                          (* a clone / drop call is over when the caller is outside again *)
                          let y2 := if (Nat.eqb (cop y a) 1 || Nat.eqb (cop y a) 2) && negb (wpc_eqb (wpc s a) WIdle) && wpc_eqb (wpc s' a) WIdle
                                    then set_cop y1 a 0%nat 0%nat else y1 in
                          Some (MWg s', (nxt pl (wcs s'), y2))
                     else None
                 | None => None end
             | None => None end
    end
  | _ => None
  end.

Fixpoint paccept_all (p : pst) (tr : list (list Z)) : option pst :=
  match tr with
  | [] => Some p
  | e :: l => match paccept_ev p e with Some p' => paccept_all p' l | None => None end
  end.

(* final-state monitors: the Condvar accounting identity; no data access without the mutex; for the barrier everybody who
   arrived has left; for the wait group no wait returned early and every handle was released *)
Definition pmon_cs (m : cmode) : st := match m with MNone => init | MBar _ s => cs s | MWg s => wcs s end.
Definition pmonitors_ok (p : pst) : bool :=
  let '(m, (x, y)) := p in
  monitors_ok (pmon_cs m, x) &&
  match m with
  | MNone => true
  | MBar _ s => negb (viol s) && isnil (inl s)
  | MWg s => negb (wviol s) && negb (early s) && isnil (hl s)
  end.

(* ---------------------------------------------------------------------------------------- soundness *)
Close Scope Z_scope.

Ltac split_match H :=
  repeat match type of H with
  | context [match ?t with _ => _ end] => let E := fresh "Em" in destruct t eqn:E; try discriminate
  | context [if ?t then _ else _] => let E := fresh "Ei" in destruct t eqn:E; try discriminate
  end.

Lemma bl1_reach n co pnd s c s' : BReach n s -> bl1 n co pnd s c = Some s' -> BReach n s'.
Proof.
  intros R H. unfold bl1, bthen in H. split_match H.
  all: try solve [eapply BRS; [exact R | exact H]].
  all: try (inversion H; subst; clear H).
  all: repeat match goal with E : bstep _ ?x ?ac = Some ?y |- _ => first [ assert (BReach n y) by (eapply BRS; [|exact E]; assumption); clear E ] end.
  all: try assumption.
  all: eapply BRS; eauto.
Qed.
Lemma bls_reach n co pnd l : forall s s', BReach n s -> bls n co pnd s l = Some s' -> BReach n s'.
Proof.
  induction l as [|c l IH]; cbn [bls]; intros s s' R H; [inversion H; subst; exact R|].
  destruct (bl1 n co pnd s c) as [s1|] eqn:E; [|discriminate]. eapply IH; [eapply bl1_reach; eauto | exact H].
Qed.

Lemma wl1_reach co opf s c s' : WReach s -> wl1 co opf s c = Some s' -> WReach s'.
Proof.
  intros R H. unfold wl1, wthen in H. split_match H.
  all: try solve [eapply WRS; [exact R | exact H]].
  all: try (inversion H; subst; clear H).
  all: repeat match goal with E : wstep ?x ?ac = Some ?y |- _ => first [ assert (WReach y) by (eapply WRS; [|exact E]; assumption); clear E ] end.
  all: try assumption.
  all: eapply WRS; eauto.
Qed.
Lemma wls_reach co opf l : forall s s', WReach s -> wls co opf s l = Some s' -> WReach s'.
Proof.
  induction l as [|c l IH]; cbn [wls]; intros s s' R H; [inversion H; subst; exact R|].
  destruct (wl1 co opf s c) as [s1|] eqn:E; [|discriminate]. eapply IH; [eapply wl1_reach; eauto | exact H].
Qed.

Inductive PReach : cmode -> Prop :=
| PR0 : PReach MNone
| PRB n s : BReach n s -> PReach (MBar n s)
| PRW s : WReach s -> PReach (MWg s).

Lemma paccept_ev_ok p e p' : PReach (fst p) -> paccept_ev p e = Some p' -> PReach (fst p').
Proof.
  intros R H. destruct p as [m [x y]]. cbn [fst] in R. unfold paccept_ev in H.
  destruct e as [|code [|za [|o [|v [|? ?]]]]]; try discriminate.
  destruct (negb (started x)).
  { destruct m; try discriminate. destruct code; try discriminate. inversion H; subst. exact R. }
  destruct m as [|n s|s].
  - split_match H; inversion H; subst; cbn [fst]; try constructor; try exact R.
    all: try apply BR0.
    all: try (eapply WRS; [constructor | eassumption]).
  - inversion R; subst. split_match H; inversion H; subst; cbn [fst]; try (constructor; assumption).
    all: constructor; eapply bls_reach; eauto.
  - inversion R; subst. split_match H; inversion H; subst; cbn [fst]; try (constructor; assumption).
    all: constructor.
    all: try solve [eapply WRS; eauto].
    all: try solve [eapply wls_reach; eauto].
    all: repeat match goal with E : Some _ = Some _ |- _ => inversion E; subst; clear E end; try assumption; try solve [eapply WRS; eauto].
    all: match goal with E : (if ?c then _ else _) = Some _ |- _ => destruct c; [inversion E; subst; assumption | eapply WRS; eauto] end.
Qed.

Theorem paccept_all_reach tr : forall p p', PReach (fst p) -> paccept_all p tr = Some p' -> PReach (fst p').
Proof.
  induction tr as [|e l IH]; cbn [paccept_all]; intros p p' R H; [inversion H; subst; exact R|].
  destruct (paccept_ev p e) as [p1|] eqn:E; [|discriminate]. eapply IH; [eapply paccept_ev_ok; eauto | exact H].
Qed.

(* every state along an accepted trace is a reachable state of the client model (and of the Condvar model under it) *)
Corollary accepted_barrier_trace_reaches tr n s xy : paccept_all p_init tr = Some (MBar n s, xy) -> BReach n s.
Proof. intro H. pose proof (paccept_all_reach tr p_init _ PR0 H) as R. cbn in R. inversion R; subst. assumption. Qed.
Corollary accepted_wg_trace_reaches tr s xy : paccept_all p_init tr = Some (MWg s, xy) -> WReach s.
Proof. intro H. pose proof (paccept_all_reach tr p_init _ PR0 H) as R. cbn in R. inversion R; subst. assumption. Qed.

(* ---------------------------------------------------------------------------------------- the Condvar component *)
(* lifting does to the Condvar component exactly what the Condvar action does *)
Ltac bproj H :=
  repeat match type of H with
  | context [match bpc ?s ?a with _ => _ end] => let E := fresh "Eb" in destruct (bpc s a) eqn:E; try discriminate
  | context [match step ?c ?x with _ => _ end] => let E := fresh "Es" in destruct (step c x) eqn:E; try discriminate
  | context [if ?t then _ else _] => let E := fresh "Ei" in destruct t eqn:E; try discriminate
  end.
Lemma bupd_same {X} (f : nat -> X) i v : bupd f i v i = v.
Proof. unfold bupd. now rewrite Nat.eqb_refl. Qed.

Lemma bl1_step n co pnd s c s' : bl1 n co pnd s c = Some s' -> step (cs s) c = Some (cs s').
Proof.
  intros H. unfold bl1, bthen in H.
  destruct c as [a|a p|a co' d|a|a|a|a|a e|a|t]; try discriminate.
  - (* Lock *) destruct (pnd a); [|discriminate]. unfold bstep in H. bproj H. inversion H; subst; cbn; first [assumption | reflexivity].
  - (* Unlock *) destruct p; [discriminate|].
    destruct (bpc s a) eqn:Eb0; try discriminate; unfold bstep in H; rewrite ?Eb0 in H; cbn [cs cnt gen bpc lgen bco arr ldr ret lret inl viol] in H;
      rewrite ?bupd_same in H; cbn [bpc_eqb] in H; bproj H; cbn [cs cnt gen bpc lgen bco arr ldr ret lret inl viol] in *;
      rewrite ?bupd_same in *; try discriminate; inversion H; subst; cbn; first [assumption | reflexivity].
  - (* Wait *) destruct d; [discriminate|]. destruct (Bool.eqb co' (bco s a)) eqn:Eco; [|discriminate]. apply eqb_prop in Eco. subst co'.
    destruct (bpc s a) eqn:Eb0; try discriminate; unfold bstep in H; rewrite ?Eb0 in H; cbn [cs cnt gen bpc lgen bco arr ldr ret lret inl viol] in H;
      rewrite ?bupd_same in H; cbn [bpc_eqb] in H; bproj H; cbn [cs cnt gen bpc lgen bco arr ldr ret lret inl viol] in *;
      rewrite ?bupd_same in *; try discriminate; inversion H; subst; cbn; first [assumption | reflexivity].
  - (* NotifyAll *)
    destruct (bpc s a) eqn:Eb0; try discriminate; unfold bstep in H; rewrite ?Eb0 in H; bproj H; cbn [cs cnt gen bpc lgen bco arr ldr ret lret inl viol] in *;
      rewrite ?bupd_same in *; try discriminate; inversion H; subst; cbn; first [assumption | reflexivity].
  - unfold bstep in H. bproj H; inversion H; subst; cbn; first [assumption | reflexivity].
  - unfold bstep in H. bproj H; inversion H; subst; cbn; first [assumption | reflexivity].
  - unfold bstep in H. bproj H; inversion H; subst; cbn; first [assumption | reflexivity].
  - unfold bstep in H. bproj H; inversion H; subst; cbn; first [assumption | reflexivity].
  - unfold bstep in H. bproj H; inversion H; subst; cbn; first [assumption | reflexivity].
Qed.
Lemma bls_steps n co pnd l : forall s s', bls n co pnd s l = Some s' -> steps (cs s) l = Some (cs s').
Proof.
  induction l as [|c l IH]; cbn [bls steps]; intros s s' H; [inversion H; reflexivity|].
  destruct (bl1 n co pnd s c) as [s1|] eqn:E; [|discriminate]. rewrite (bl1_step _ _ _ _ _ _ E). apply IH. exact H.
Qed.

Ltac wproj H :=
  repeat match type of H with
  | context [match wpc ?s ?a with _ => _ end] => let E := fresh "Eb" in destruct (wpc s a) eqn:E; try discriminate
  | context [match step ?c ?x with _ => _ end] => let E := fresh "Es" in destruct (step c x) eqn:E; try discriminate
  | context [match wk ?s ?a with _ => _ end] => let E := fresh "Ek" in destruct (wk s a) eqn:E; try discriminate
  | context [if ?t then _ else _] => let E := fresh "Ei" in destruct t eqn:E; try discriminate
  end.
Ltac wnorm H := unfold w_data, w_call, w_pc, w_cs in H; cbn [wcs wcnt wpc wk wco hl wviol early] in H; rewrite ?bupd_same in H; cbn [wpc_eqb after_data after_unlock] in H.
Ltac wfinish H := unfold w_data, w_call, w_pc, w_cs in *; cbn [wcs wcnt wpc wk wco hl wviol early] in *; rewrite ?bupd_same in *; try discriminate; inversion H; subst; cbn [wcs wcnt wpc wk wco hl wviol early]; first [assumption | reflexivity | congruence].

Lemma wl1_step co opf s c s' : wl1 co opf s c = Some s' -> step (wcs s) c = Some (wcs s').
Proof.
  intros H. unfold wl1, wthen in H.
  destruct c as [a|a p|a co' d|a|a|a|a|a e|a|t]; try discriminate.
  - (* Lock *)
    destruct (wpc s a) eqn:Eb0; try discriminate.
    + destruct (opf a) as [|[|[|[|k]]]]; try discriminate; unfold wstep in H; rewrite Eb0 in H; wproj H; wnorm H; wproj H; wfinish H.
    + unfold wstep in H; rewrite Eb0 in H; wproj H; wnorm H; wproj H; wfinish H.
    + unfold wstep in H; rewrite Eb0 in H; wproj H; wnorm H; wproj H; wfinish H.
  - (* Unlock *) destruct p; [discriminate|].
    destruct (wpc s a) eqn:Eb0; try discriminate; unfold wstep in H; rewrite ?Eb0 in H; wnorm H; wproj H; wnorm H; wproj H; wnorm H; wfinish H.
  - (* Wait *) destruct d; [discriminate|]. destruct (Bool.eqb co' (wco s a)) eqn:Eco; [|discriminate]. apply eqb_prop in Eco. subst co'.
    destruct (wpc s a) eqn:Eb0; try discriminate; unfold wstep in H; rewrite ?Eb0 in H; wnorm H; wproj H; wnorm H; wfinish H.
  - (* NotifyAll *)
    destruct (wpc s a) eqn:Eb0; try discriminate; unfold wstep in H; rewrite ?Eb0 in H; wnorm H; wproj H; wnorm H; wfinish H.
  - unfold wstep in H. wproj H; wfinish H.
  - unfold wstep in H. wproj H; wfinish H.
  - unfold wstep in H. wproj H; wfinish H.
  - unfold wstep in H. wproj H; wfinish H.
  - unfold wstep in H. wproj H; wfinish H.
Qed.
Lemma wls_steps co opf l : forall s s', wls co opf s l = Some s' -> steps (wcs s) l = Some (wcs s').
Proof.
  induction l as [|c l IH]; cbn [wls steps]; intros s s' H; [inversion H; reflexivity|].
  destruct (wl1 co opf s c) as [s1|] eqn:E; [|discriminate]. rewrite (wl1_step _ _ _ _ _ E). apply IH. exact H.
Qed.
Open Scope Z_scope.

(* the product acceptor accepts only what the Condvar acceptor accepts: its Condvar component and Condvar-level
   bookkeeping move exactly as CondvarAccept.accept_ev says, the API records being read as code 70 *)
Definition ev70 (e : list Z) : list Z :=
  match e with
  | [code; a; o; v] => if Z.leb 71 code && Z.leb code 79 then [70; a; o; v] else e
  | _ => e end.
Definition proj (p : pst) : ast := (pmon_cs (fst p), fst (snd p)).

Lemma accept70 s x a o v : started x = true -> accept_ev (s, x) [70; a; o; v] = Some (s, x).
Proof. intro S. unfold accept_ev. rewrite S. reflexivity. Qed.

Lemma zrange_eq code k : Z.eqb code k = true -> (71 <=? k) && (k <=? 79) = true -> (71 <=? code) && (code <=? 79) = true.
Proof. intros E R. apply Z.eqb_eq in E. subst. exact R. Qed.

Theorem accept_refines_condvar p e p' : paccept_ev p e = Some p' -> accept_ev (proj p) (ev70 e) = Some (proj p').
Proof.
  intros H. destruct p as [m [x y]]. unfold paccept_ev in H.
  destruct e as [|code [|za [|o [|v [|? ?]]]]]; try discriminate.
  unfold proj. cbn [fst snd]. destruct (started x) eqn:St; cbn [negb] in H.
  2: { destruct m; try discriminate. destruct code; try discriminate. inversion H; subst. cbn. unfold accept_ev. rewrite St. reflexivity. }
  destruct m as [|n s|s]; cbn [pmon_cs].
  - (* before the object exists *)
    destruct (Z.eqb code 71) eqn:E71.
    { destruct (Z.leb 1 o); [|discriminate]. inversion H; subst. cbn [fst snd pmon_cs cs binit].
      unfold ev70. rewrite (zrange_eq _ _ E71 eq_refl). apply accept70. exact St. }
    destruct (Z.eqb code 74) eqn:E74.
    { destruct (wstep winit (WGive 0 (Z.to_nat za))) as [w|] eqn:Ew; [|discriminate]. inversion H; subst. cbn [fst snd pmon_cs].
      unfold ev70. rewrite (zrange_eq _ _ E74 eq_refl).
      assert (Ec : wcs w = init) by (unfold wstep in Ew; cbn in Ew; inversion Ew; reflexivity).
      rewrite Ec. apply accept70. exact St. }
    destruct (plan_ev init x [code; za; o; v]) as [pl|] eqn:Ep; [|discriminate].
    destruct (isnil (acts pl) && post pl init) eqn:Eo; [|discriminate]. apply andb_prop in Eo. destruct Eo as [En Eo].
    inversion H; subst. cbn [fst snd pmon_cs].
    assert (R71 : (71 <=? code) && (code <=? 79) = false).
    { destruct ((71 <=? code) && (code <=? 79)) eqn:R; [|reflexivity]. exfalso. apply andb_prop in R. destruct R as [R1 R2].
      apply Z.leb_le in R1. apply Z.leb_le in R2. unfold plan_ev in Ep.
      assert (C : code = 71 \/ code = 72 \/ code = 73 \/ code = 74 \/ code = 75 \/ code = 76 \/ code = 77 \/ code = 78 \/ code = 79) by lia.
      destruct C as [C|[C|[C|[C|[C|[C|[C|[C|C]]]]]]]]; subst code; discriminate. }
    unfold ev70. rewrite R71. unfold accept_ev. rewrite St, Ep.
    destruct (acts pl); [|discriminate]. cbn [steps]. rewrite Eo. reflexivity.
  - (* Barrier *)
    destruct (Z.eqb code 72) eqn:E72.
    { split_match H. inversion H; subst. cbn [fst snd pmon_cs]. unfold ev70. rewrite (zrange_eq _ _ E72 eq_refl). apply accept70. exact St. }
    destruct (Z.eqb code 73) eqn:E73.
    { split_match H. inversion H; subst. cbn [fst snd pmon_cs]. unfold ev70. rewrite (zrange_eq _ _ E73 eq_refl). apply accept70. exact St. }
    destruct ((71 <=? code) && (code <=? 79)) eqn:R71; [discriminate|].
    destruct (plan_ev (cs s) x [code; za; o; v]) as [pl|] eqn:Ep; [|discriminate].
    destruct (bls n (is_co x) (fun i => Nat.eqb (cop y i) 1) s (acts pl)) as [s1|] eqn:Eb; [|discriminate].
    destruct (post pl (cs s1)) eqn:Eo; [|discriminate]. inversion H; subst. cbn [fst snd pmon_cs].
    unfold ev70. rewrite R71. unfold accept_ev. rewrite St, Ep, (bls_steps _ _ _ _ _ _ Eb), Eo. reflexivity.
  - (* WaitGroup *)
    destruct (Z.eqb code 75 || Z.eqb code 76 || Z.eqb code 77) eqn:E75.
    { assert (R : (71 <=? code) && (code <=? 79) = true).
      { apply orb_prop in E75. destruct E75 as [E75|E]; [apply orb_prop in E75; destruct E75 as [E|E]|]; apply (zrange_eq _ _ E eq_refl). }
      destruct (Nat.eqb (cop y (Z.to_nat za)) 0 && wpc_eqb (wpc s (Z.to_nat za)) WIdle); [|discriminate].
      assert (W : forall s2, (if has (Z.to_nat za) (hl s) then Some s else wstep s (WGive (placeholder (cidx y (Z.to_nat za))) (Z.to_nat za))) = Some s2 -> wcs s2 = wcs s).
      { intros s2 E. destruct (has (Z.to_nat za) (hl s)); [inversion E; reflexivity|]. unfold wstep in E. split_match E. inversion E. reflexivity. }
      destruct (if has (Z.to_nat za) (hl s) then Some s else wstep s (WGive (placeholder (cidx y (Z.to_nat za))) (Z.to_nat za))) as [s2|] eqn:E2; [|discriminate].
      destruct (has (Z.to_nat za) (hl s2)); [|discriminate]. inversion H; subst. cbn [fst snd pmon_cs].
      rewrite (W s2 eq_refl). unfold ev70. rewrite R. apply accept70. exact St. }
    destruct (Z.eqb code 78) eqn:E78.
    { destruct (Nat.eqb (cop y (Z.to_nat za)) 3 && wpc_eqb (wpc s (Z.to_nat za)) WRet) eqn:Ec; [|discriminate].
      apply andb_prop in Ec. destruct Ec as [_ Ec].
      destruct (wstep s (WStep (Z.to_nat za))) as [s2|] eqn:E2; [|discriminate]. inversion H; subst. cbn [fst snd pmon_cs].
      assert (W : wcs s2 = wcs s).
      { unfold wstep in E2. destruct (wpc s (Z.to_nat za)); cbn in Ec; try discriminate. inversion E2. reflexivity. }
      rewrite W. unfold ev70. rewrite (zrange_eq _ _ E78 eq_refl). apply accept70. exact St. }
    destruct (Z.eqb code 79) eqn:E79.
    { destruct (Nat.eqb (cop y (Z.to_nat za)) 0); [|discriminate].
      destruct (wstep s (WGive (Z.to_nat za) (placeholder (Z.to_nat o)))) as [s2|] eqn:E2; [|discriminate]. inversion H; subst. cbn [fst snd pmon_cs].
      assert (W : wcs s2 = wcs s) by (unfold wstep in E2; split_match E2; inversion E2; reflexivity).
      rewrite W. unfold ev70. rewrite (zrange_eq _ _ E79 eq_refl). apply accept70. exact St. }
    destruct ((71 <=? code) && (code <=? 79)) eqn:R71; [discriminate|].
    destruct (plan_ev (wcs s) x [code; za; o; v]) as [pl|] eqn:Ep; [|discriminate].
    destruct (wls (is_co x) (cop y) s (acts pl)) as [s1|] eqn:Eb; [|discriminate].
    destruct (post pl (wcs s1)) eqn:Eo; [|discriminate]. inversion H; subst. cbn [fst snd pmon_cs].
    unfold ev70. rewrite R71. unfold accept_ev. rewrite St, Ep, (wls_steps _ _ _ _ _ Eb), Eo. reflexivity.
Qed.

Corollary accept_all_refines_condvar tr : forall p p', paccept_all p tr = Some p' -> accept_all (proj p) (map ev70 tr) = Some (proj p').
Proof.
  induction tr as [|e l IH]; cbn [paccept_all accept_all map]; intros p p' H; [inversion H; reflexivity|].
  destruct (paccept_ev p e) as [p1|] eqn:E; [|discriminate]. rewrite (accept_refines_condvar _ _ _ E). apply IH. exact H.
Qed.
