(* Trace acceptor for the TIMED mpsc model (ChanMpscTime): the acceptor of ChanMpscAccept run on the overlay.
   The plan of an event is computed by ChanMpscAccept.plan_ev on the base state; its actions are executed
   by the overlay's tstep, so a `Fire RT` is accepted only at / after the park's deadline and an `RDl e` only
   with e = (deadline <= now).  The clock comes from the scenario: event 19 clk(now_ns) is logged right before
   rt.call and right before rt.ret; the acceptor advances the model clock to it (a clock that runs backwards is
   rejected).  Between two clk events the acceptor advances the clock only when it must: to the park's deadline
   when the trace shows that the timer woke the receiver.  The model clock therefore never runs ahead of the
   real (virtual) clock unless the real timer fired early - in which case the next clk event is rejected. *)
From Coq Require Import List ZArith Bool Arith Lia NArith.
Import ListNotations.
Require Import MayV.Sync.ChanMpscModel MayV.Sync.ChanMpscAccept MayV.Sync.ChanMpscTime.
Local Open Scope N_scope.

Definition tast := (tst * aux)%type.
Definition ta_init : tast := (tinit, aux0).

Definition tick_to (ts : tst) (t : N) : option tst :=
  if now ts <=? t then tstep ts (Tick (t - now ts)) else None.

Fixpoint tsteps (ts : tst) (l : list action) (d : N) : option tst :=
  match l with
  | [] => Some ts
  | a :: l' =>
      let ts1 := match a with
                 | Fire RT => if now ts <? pdl ts then tick_to ts (pdl ts) else Some ts
                 | _ => Some ts end in
      let ta := match a with RecvTimeout co => TRecvTimeout co d | _ => A a end in
      match ts1 with
      | Some ts1 => match tstep ts1 ta with Some ts' => tsteps ts' l' d | None => None end
      | None => None end
  end.

Definition taccept_ev (sx : tast) (e : list Z) : option tast :=
  let (ts, x) := sx in
  if started x
  then match e with
       | [c; _; o; v] =>
           if Z.eqb c 19
           then match tick_to ts (Z.to_N o) with Some ts' => Some (ts', x) | None => None end
           else match plan_ev (base ts) x e with
                | Some p => match tsteps ts (acts p) (Z.to_N v) with
                            | Some ts' => if post p (base ts') then Some (ts', nxt p (base ts')) else None
                            | None => None end
                | None => None end
       | _ => None end
  else match e with
       | [1%Z; _; _; _] => Some (ts, {| started := true; ract := ract x; hof := hof x; ph := ph x; opk := opk x; qt := qt x; qh := qh x; nb := nb x |})
       | _ => Some sx end.

(* the two candidate orders of ChanMpscAccept.branch, on the overlay *)
Definition tbranch (sx : tast) (e : list Z) : list tast :=
  let (ts, x) := sx in
  match e with
  | [code; _; _; v] =>
      if (Z.eqb code 21 || Z.eqb code 27) && zb v && Nat.eqb (nb x) 1 && at_r (base ts) RStore
      then match tstep ts (A RStep) with Some ts' => [sx; (ts', set_nb x 2%nat)] | None => [sx] end
      else [sx]
  | _ => [sx]
  end.
Definition taccept1 (e : list Z) (sx : tast) : list tast := match taccept_ev sx e with Some sx' => [sx'] | None => [] end.
Definition taccept_evm (l : list tast) (e : list Z) : option (list tast) :=
  match firstn 8 (flat_map (taccept1 e) (flat_map (fun sx => tbranch sx e) l)) with
  | [] => None
  | l' => Some l'
  end.
Fixpoint taccept_allm (l : list tast) (tr : list (list Z)) : option (list tast) :=
  match tr with
  | [] => Some l
  | e :: tr' => match taccept_evm l e with Some l' => taccept_allm l' tr' | None => None end
  end.
Definition tm_initm : list tast := [ta_init].
Definition tmonitors_ok (sx : tast) : bool := monitors_ok (base (fst sx), snd sx).
Definition tmonitors_okm (l : list tast) : bool := existsb tmonitors_ok l.

(* ------------------------------------------------------------------------------------------ *)
(* soundness: every state along an accepted trace is a reachable state of the timed model (hence its base
   component a reachable state of ChanMpscModel: treach_base) *)
Lemma tick_to_reach ts t ts' : TReach ts -> tick_to ts t = Some ts' -> TReach ts'.
Proof. unfold tick_to. intros H E. destruct (now ts <=? t); [|discriminate]. eapply TRS; eauto. Qed.

Lemma tsteps_reach l : forall ts d ts', TReach ts -> tsteps ts l d = Some ts' -> TReach ts'.
Proof.
  induction l as [|a l IH]; cbn [tsteps]; intros ts d ts' Hr H; [inversion H; subst; exact Hr|].
  match type of H with match ?t1 with _ => _ end = _ => destruct t1 as [ts1|] eqn:E1; [|discriminate] end.
  assert (R1 : TReach ts1).
  { destruct a; try (inversion E1; subst; exact Hr). destruct r; try (inversion E1; subst; exact Hr).
    destruct (now ts <? pdl ts); [eapply tick_to_reach; eauto | inversion E1; subst; exact Hr]. }
  match type of H with match ?t2 with _ => _ end = _ => destruct t2 as [ts2|] eqn:E2; [|discriminate] end.
  eapply IH; [eapply TRS; eauto | exact H].
Qed.

Lemma taccept_ev_ok sx e sx' : TReach (fst sx) -> taccept_ev sx e = Some sx' -> TReach (fst sx').
Proof.
  intros Hr H. destruct sx as [ts x]. unfold taccept_ev in H. cbn [fst] in Hr.
  destruct (started x).
  - destruct e as [|c [|a [|o [|v [|? ?]]]]]; try discriminate.
    destruct (Z.eqb c 19).
    + destruct (tick_to ts (Z.to_N o)) eqn:E; [|discriminate].
      inversion H; subst. cbn [fst]. eapply tick_to_reach; eauto.
    + destruct (plan_ev (base ts) x [c; a; o; v]) as [p|] eqn:P; [|discriminate].
      destruct (tsteps ts (acts p) (Z.to_N v)) as [ts1|] eqn:E; [|discriminate].
      destruct (post p (base ts1)); [|discriminate]. inversion H; subst. cbn [fst]. eapply tsteps_reach; eauto.
  - repeat match type of H with
           | match ?t with _ => _ end = Some _ => destruct t eqn:?; try discriminate
           end; inversion H; subst; exact Hr.
Qed.

Definition tall_reach (l : list tast) : Prop := forall sx, In sx l -> TReach (fst sx).

Lemma tbranch_ok sx e : TReach (fst sx) -> tall_reach (tbranch sx e).
Proof.
  intros Hr sx' I. destruct sx as [ts x]. unfold tbranch in I.
  repeat match type of I with
  | In _ (match ?t with _ => _ end) => destruct t eqn:?
  | In _ (if ?t then _ else _) => destruct t eqn:?
  end; cbn [In] in I; intuition (subst; cbn [fst] in *; auto).
  eapply TRS; eauto.
Qed.

Lemma taccept_evm_ok l e l' : tall_reach l -> taccept_evm l e = Some l' -> tall_reach l'.
Proof.
  intros Hl H sx I. unfold taccept_evm in H.
  assert (J : In sx (firstn 8 (flat_map (taccept1 e) (flat_map (fun sx0 => tbranch sx0 e) l)))).
  { destruct (firstn 8 _); [discriminate | inversion H; subst; exact I]. }
  apply in_firstn in J. apply in_flat_map in J. destruct J as [sx1 [J1 J2]].
  apply in_flat_map in J1. destruct J1 as [sx0 [J0 J1]].
  unfold taccept1 in J2. destruct (taccept_ev sx1 e) as [sx2|] eqn:E; [|destruct J2].
  destruct J2 as [<-|[]]. eapply taccept_ev_ok; [|exact E]. exact (tbranch_ok sx0 e (Hl _ J0) _ J1).
Qed.

Theorem taccept_allm_reach tr : forall l l', tall_reach l -> taccept_allm l tr = Some l' -> tall_reach l'.
Proof.
  induction tr as [|e tr IH]; cbn [taccept_allm]; intros l l' Hl H; [inversion H; subst; exact Hl|].
  destruct (taccept_evm l e) as [l1|] eqn:E; [|discriminate]. eapply IH; [eapply taccept_evm_ok; eauto | exact H].
Qed.

Corollary taccepted_trace_reaches tr l : taccept_allm tm_initm tr = Some l ->
  forall sx, In sx l -> TReach (fst sx) /\ Reach (base (fst sx)).
Proof.
  intros H sx I. assert (T : TReach (fst sx)).
  { apply (taccept_allm_reach tr tm_initm l); [|exact H|exact I]. intros sx0 [<-|[]]. constructor. }
  split; [exact T | apply treach_base; exact T].
Qed.
