(* SyncFlag, second half of C10.v: waiters registered before the store of fire() are all woken -
   stated as safety: in a quiescent state after a user-level fire() nobody is parked. *)
From Coq Require Import List Arith ZArith Bool Lia.
Import ListNotations.
Require Import MayV.Sync.FlagModel MayV.Sync.FlagInv MayV.Sync.FlagLive MayV.Sync.FlagLiveA MayV.Sync.FlagLiveB.
Open Scope Z_scope.

Section T.
Variable MAX : Z.
Hypothesis MAXpos : 0 < MAX.
Notation step := (step MAX).
Notation Reach := (Reach MAX).
Notation Inv := (Inv MAX).

Lemma linv_step s o ac s' : Inv s -> LInv MAX s o -> step s ac = Some s' -> LInv MAX s' (lstep s o ac).
Proof.
  intros Hi HL H. constructor;
    [ eapply pres_G1 | eapply pres_G2 | eapply pres_G3 | eapply pres_F1 | eapply pres_F6 | eapply pres_F2 | eapply pres_F3 | eapply pres_F5 ]; eauto.
Qed.

Lemma linv_reach s o : ReachL MAX s o -> Inv s /\ LInv MAX s o.
Proof.
  intros R. induction R as [|s o a s' R [IH1 IH2] H].
  - split; [apply inv_init; exact MAXpos | apply linv_init].
  - split; [eapply inv_step; eauto | eapply linv_step; eauto].
Qed.

(* no actor has an enabled transition of its own: everybody is idle or suspended in its park *)
Definition Quiescent (s : st) : Prop := forall a, step s (Step a) = None.

Lemma quiescent_pc s : Quiescent s ->
  forall a, apc (A s a) = Idle \/ (apc (A s a) = WW /\ reason (Bk s (ab (A s a))) = None).
Proof.
  intros Q a. pose proof (Q a) as Qa. unfold FlagModel.step in Qa.
  destruct (apc (A s a)) eqn:E; try (left; reflexivity).
  all: cbv zeta in Qa; repeat match type of Qa with
       | context [if ?c then _ else _] => destruct c
       | context [match q ?s with _ => _ end] => destruct (q s) eqn:?
       | context [match dep ?x with _ => _ end] => destruct (dep x) eqn:?
       | context [match reason ?b with _ => _ end] => destruct (reason b) as [[|]|] eqn:?
       end; try discriminate.
  right. split; reflexivity || assumption.
Qed.

(* C10.v, "waiters registered before the store are all popped": once a user-level fire() has
   executed its store (with fewer than MAX waiters in flight at that moment, as for the latch),
   a quiescent state has nobody parked - every wait has returned *)
Theorem fired_quiescent_nobody_parked s : Reach s -> Quiescent s -> ufired s = true -> fbound s < MAX ->
  forall a, apc (A s a) = Idle.
Proof.
  intros R Q U B a. destruct (reach_reachL MAX _ R) as [o RL]. destruct (linv_reach _ _ RL) as [HI HL].
  pose proof (quiescent_pc s Q) as QP.
  destruct (QP a) as [I|[I Rn]]; [exact I | exfalso].
  assert (NK : forall x p, apc (A s x) = p -> p <> Idle -> p <> WW -> False).
  { intros x p E N1 N2. destruct (QP x) as [J|[J _]]; congruence. }
  destruct (IG2 _ _ _ HL a) as [Ow B1]; [unfold attpc; rewrite I; reflexivity|].
  destruct (IA _ _ HI a) as (Lt & _).
  set (b := ab (A s a)) in *.
  destruct (in_dec Nat.eq_dec b (q s)) as [Iq|Nq].
  - destruct (IF1 _ _ _ HL U B b Iq) as [[W _]|[w Lw]].
    + unfold own in W. rewrite Ow in W. congruence.
    + destruct (apc (A s w)) eqn:E; try discriminate; eapply NK; eauto; discriminate.
  - destruct (IF2 _ _ _ HL b (conj B1 Lt) Nq) as [D|[_ [K|K]]]; [| eapply NK; eauto; discriminate | eapply NK; eauto; discriminate].
    destruct (IF3 _ _ _ HL b D) as [W _]; [unfold own; rewrite Ow; reflexivity|].
    unfold own in W. rewrite Ow in W. exact (W I Rn).
Qed.
End T.

(* non-vacuity: two waiters park, a user fires; run to the end: fired, everybody idle *)
Definition sch2 : list action :=
  [Wait 0%nat false; Step 0%nat; Step 0%nat; Step 0%nat; Step 0%nat;
   Wait 1%nat true; Step 1%nat; Step 1%nat; Step 1%nat; Step 1%nat;
   Fire 2%nat; Step 2%nat;
   Step 2%nat; Step 2%nat; Step 2%nat; Step 2%nat;     (* pop, flag, token, take_release for waiter 0 *)
   Step 2%nat; Step 2%nat; Step 2%nat; Step 2%nat;     (* the same for waiter 1 *)
   Step 2%nat;                                         (* pop: None *)
   Step 0%nat; Step 1%nat].
Example fired_all_woken_somewhere :
  let s := run 9223372036854775807 init sch2 in
  FlagModel.Reach 9223372036854775807 s /\ ufired s = true /\ fbound s = 0 /\ q s = [] /\
  apc (A s 0%nat) = Idle /\ apc (A s 1%nat) = Idle /\ apc (A s 2%nat) = Idle /\ ares (A s 0%nat) = true /\ ares (A s 1%nat) = true.
Proof. cbv zeta. split; [apply reach_run; constructor | vm_compute; repeat split; reflexivity]. Qed.
