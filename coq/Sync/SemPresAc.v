(* Preservation of SemInv.Inv, ainv of the stepping actor: the cases K2, K3, K4, Y0, Y0c, G0 (env = the actions other than Step).
   Script in SemPresTac.v; assembled in SemPresA.v. *)
From Coq Require Import List Arith ZArith Bool Lia.
Import ListNotations.
Require Import MayV.Sync.SemModel MayV.Sync.SemInv MayV.Sync.SemTac MayV.Sync.SemCase MayV.Sync.SemPresTac.
Open Scope Z_scope.

Lemma pres_A_self_K2 s a s' : Inv s -> apc (A s a) = K2 -> step s (Step a) = Some s' -> ainv s' a.
Proof. intros Hi Epc H. g_facts Hi. step_at H Epc. all: as_script Hi s a. Qed.

Lemma pres_A_self_K3 s a s' : Inv s -> apc (A s a) = K3 -> step s (Step a) = Some s' -> ainv s' a.
Proof. intros Hi Epc H. g_facts Hi. step_at H Epc. all: as_script Hi s a. Qed.

Lemma pres_A_self_K4 s a s' : Inv s -> apc (A s a) = K4 -> step s (Step a) = Some s' -> ainv s' a.
Proof. intros Hi Epc H. g_facts Hi. step_at H Epc. all: as_script Hi s a. Qed.

Lemma pres_A_self_Y0 s a s' : Inv s -> apc (A s a) = Y0 -> step s (Step a) = Some s' -> ainv s' a.
Proof. intros Hi Epc H. g_facts Hi. step_at H Epc. all: as_script Hi s a. Qed.

Lemma pres_A_self_Y0c s a s' : Inv s -> apc (A s a) = Y0c -> step s (Step a) = Some s' -> ainv s' a.
Proof. intros Hi Epc H. g_facts Hi. step_at H Epc. all: as_script Hi s a. Qed.

Lemma pres_A_self_G0 s a s' : Inv s -> apc (A s a) = G0 -> step s (Step a) = Some s' -> ainv s' a.
Proof. intros Hi Epc H. g_facts Hi. step_at H Epc. all: as_script Hi s a. Qed.
