(* mpmc channel invariant, preservation part 5: value accounting. *)
From Coq Require Import List Arith Bool Lia.
Import ListNotations.
Require Import MayV.Sync.ChanMpmcModel MayV.Sync.ChanMpmcInv.
Require Import MayV.Sync.ChanMpmcTac.
Lemma filter_snoc {X} (f : X -> bool) l x : filter f (l ++ [x]) = filter f l ++ (if f x then [x] else []).
Proof. rewrite filter_app. reflexivity. Qed.

Lemma pres_acc c s ac s' : Inv s -> step true true c s ac = Some s' -> sent s' = map snd (rlog s') ++ drpd s' ++ q s'.
Proof.
  intros Hi H. pose proof (I_acc _ Hi) as P. pose proof (I_drpd _ Hi) as P1.
  step_cases H; boolh; unf; prj; auto.
  all: rfacts Hi.
  all: try match goal with E : rst (Rv ?s0 ?r) = Alive |- _ => pose proof (alive_rx _ _ Hi E) end.
  all: try (assert (D : drpd s = []) by (apply P1; assumption); rewrite D in * ).
  all: rewrite P, ?map_app; cbn [map snd app]; rewrite ?app_nil_r, <- ?app_assoc; cbn [app]; auto.
Qed.

Lemma pres_drpd c s ac s' : Inv s -> step true true c s ac = Some s' -> rxp s' <> 0 -> drpd s' = [].
Proof.
  intros Hi H. pose proof (I_drpd _ Hi) as P.
  step_cases H; boolh; unf; prj; auto; try (intros; apply P; lia).
  all: rfacts Hi; try (assert (rxp s = 0) by tauto; congruence).
  all: try match goal with E : rst (Rv ?s0 ?r) = Alive |- _ => pose proof (alive_rx _ _ Hi E) end.
  all: intros; apply P; auto.
Qed.

Lemma pres_ord c s ac s' : Inv s -> step true true c s ac = Some s' -> forall a, filter (from a) (sent s') = map (pair a) (seq 0 (sn (Sd s' a))).
Proof.
  intros Hi H a0. pose proof (I_ord _ Hi a0) as P.
  step_cases H; boolh; unf; prj; auto; upd_tac; prj; auto.
  - rewrite filter_snoc, P. unfold from at 1. cbn [fst]. rewrite Nat.eqb_refl. rewrite seq_S, map_app. reflexivity.
  - rewrite filter_snoc, P. unfold from at 1. cbn [fst]. destruct (Nat.eqb_spec a a0); [congruence|]. now rewrite app_nil_r.
Qed.
