(* Tactics shared by the preservation proofs of the overlay invariant of SemLive.v, and the proof
   script of each clause as one Ltac.  The preservation lemmas are proved per control point of the
   stepping actor (one lemma per pc, `step_at` instead of the full case split of `step_cases`), a few
   control points per file (SemLiveL<k><group>.v), so that the files build in parallel; SemLiveA..E.v
   assemble `pres_L1 .. pres_L9` from them by an explicit case split. *)
From Coq Require Import List Arith ZArith Bool Lia.
Import ListNotations.
Require Import MayV.Sync.SemModel MayV.Sync.SemInv MayV.Sync.SemTac MayV.Sync.SemCase MayV.Sync.SemLive.
Open Scope Z_scope.

Ltac ostep_red :=
  unfold lstep;
  repeat match goal with
  | E : apc ?x = _ |- context [match apc ?x with _ => _ end] => rewrite E
  | E : q ?s = _ |- context [match q ?s with _ => _ end] => rewrite E
  | E : ?c = true |- context [if ?c then _ else _] => rewrite E
  | E : ?c = false |- context [if ?c then _ else _] => rewrite E
  | E : reason ?b = _ |- context [match reason ?b with _ => _ end] => rewrite E
  end;
  cbv beta iota zeta;
  unfold set_ag, set_dl, set_rp, set_sc, set_fl; cbn [ag dl rp sc fl].

Ltac prj := cbn [cnt q nextb A Bk ini uposts succ ung giv pre hand owe mk].
Ltac prj_all := cbn [cnt q nextb A Bk ini uposts succ ung giv pre hand owe mk apc ab aw actx atimed acomp av ares tok parked reason unp rel owner fresh ag dl rp sc fl] in *.

(* discharge arithmetic premises of implications in the context *)
Ltac arith_prem := repeat match goal with
  | H : ?P -> _ |- _ =>
      match P with
      | (_ <= _)%nat => idtac | (_ < _)%nat => idtac | (_ <= _ < _)%nat => idtac
      end;
      let Q := fresh "Q" in assert (Q : P) by lia; specialize (H Q); clear Q
  end.

(* the whole case split (all actions, all control points) *)
Ltac lsetup Hi H :=
  g_facts Hi; step_cases H; ostep_red; prj.
(* one control point of a Step (E : apc (A s a) = <pc>), or an action other than Step *)
Ltac lsetup_at Hi H E :=
  g_facts Hi; step_at H E; ostep_red; prj.

Ltac upd_hyps := repeat match goal with
  | H : context [upd ?f ?i ?v ?i] |- _ => rewrite (upd_eq f i v) in H
  | H : context [upd ?f ?i ?v ?j] |- _ => rewrite (upd_neq f i j v) in H by (first [assumption | congruence | lia])
  end.
Ltac upd_hyps2 := upd_hyps; repeat match goal with
  | H : context [upd ?f ?i ?v ?j] |- _ =>
      let e := fresh "e" in destruct (Nat.eq_dec j i) as [e|e];
      [ rewrite e in H; rewrite (upd_eq f i v) in H | rewrite (upd_neq f i j v e) in H ]
  end.
Ltac ctxsplit s a := try (destruct (actx (A s a)) eqn:Ectx; cbn [ret_pc] in * ).
(* split on the return context only where the step returns through ret_pc *)
Ltac ctxsplit_ret s a := try match goal with |- context [ret_pc _] => destruct (actx (A s a)) eqn:Ectx; cbn [ret_pc] in * end.
Ltac pcs := repeat match goal with E : apc _ = _ |- _ => rewrite E in * end; cbn [apc actx] in *.
Ltac subst_vars := repeat match goal with e : ?v = _ |- _ => is_var v; subst v end.
Ltac rw_owner := repeat match goal with e : owner _ = _ |- _ => progress (rewrite e in * ) end.
Ltac rw_ag := repeat match goal with e : ag _ _ = _ |- _ => progress (rewrite e in * ) end.
Ltac unf_set := unfold set_pc, set_ctx, set_res, set_av.

Lemma w2_unreg s o : Inv s -> apc (A s o) = W2 -> ~ In (ab (A s o)) (ung s) /\ ~ In (ab (A s o)) (giv s).
Proof.
  intros Hi E. pose proof (IA _ Hi o) as Ha. unfold ainv in Ha. rewrite E in Ha. cbn in Ha. tauto.
Qed.

(* ---- the scripts: the goal is the clause in the state after the step, already reduced by
   lsetup / lsetup_at (one goal per branch of the step); Hi : Inv s, HL : LInv s o ---- *)

(* L6 (parked); needs P6 : L6 s o unfolded *)
Ltac l6_script Hi s a P6 :=
  let x := fresh "x" in
  intro x; pose proof (P6 x) as Px; pose proof (P6 a) as Pa;
  a_facts Hi a; a_facts Hi x; b_facts Hi (nextb s);
  unf_set; upd_tac; prj_all;
  subst_vars;
  ctxsplit_ret s a;
  intros; brk; try mem.

(* L7 (fresh blockers) *)
Ltac l7_script Hi s a P7 :=
  let x := fresh "x" in
  intro x; pose proof (P7 x) as Px;
  a_facts Hi a;
  upd_tac; prj_all;
  subst_vars;
  intros; brk; arith_prem; brk; try mem.

(* L1 (agents) *)
Ltac l1_script Hi s a P1 :=
  let x := fresh "x" in
  intro x; pose proof (P1 x) as Px; pose proof (P1 a) as Pa;
  a_facts Hi a; a_facts Hi x; b_facts Hi (nextb s);
  try match goal with E : NoDup (?n :: _) |- _ => inversion E; subst end;
  try match goal with E : q _ = _ :: _ |- _ => rewrite E in * end;
  unf_set; upd_tac; prj_all; lists;
  subst_vars;
  ctxsplit_ret s a;
  unfold agentpc in *; repeat match goal with E : apc _ = _ |- _ => rewrite E in * end; cbn [apc] in *;
  try match goal with Q : forall b, ?n = b \/ _ -> (_ <= b < _)%nat |- _ => pose proof (Q n (or_introl eq_refl)) end;
  intros; brk; try mem.

(* L3 (unflagged registered blockers) *)
Ltac l3_script Hi s a P3 :=
  let x := fresh "x" in let Px := fresh "Px" in
  intro x; pose proof (P3 x) as Px; pose proof (P3 (ab (A s a))) as Pb; pose proof (P3 (aw (A s a))) as Pw;
  a_facts Hi a; b_facts Hi x;
  unf_set; upd_tac; upd_hyps; prj_all; lists;
  subst_vars; rw_owner;
  ctxsplit_ret s a; pcs;
  intros; brk; arith_prem; brk; try mem;
  (destruct Px as [[Px _]|Px]; [subst x|mem]; destruct (rel (Bk s (ab (A s a)))) eqn:Erel; brk; mem).

(* L2 (flagged registered blockers are attached or held by their agent) *)
Ltac l2_script Hi s o a P1 P2 P3 :=
  let x := fresh "x" in
  intro x; pose proof (P2 x) as Px; pose proof (P3 x) as Ux; pose proof (P1 a) as Aa; pose proof (P1 (ag o x)) as Ag;
  unf_set; upd_tac; upd_hyps; prj_all; lists;
  try assumption;
  a_facts Hi a; b_facts Hi x;
  try match goal with E : q _ = _ :: _ |- _ => rewrite E in * end;
  subst_vars; upd_hyps; prj_all;
  rw_owner; rw_ag;
  ctxsplit_ret s a; pcs; lists;
  intros; brk; arith_prem; brk; try mem.

(* L4 (a flagged blocker gets its token) *)
Ltac l4_script Hi s o a P1 P4 :=
  let x := fresh "x" in
  intro x; pose proof (P4 x) as Px; pose proof (P1 a) as Aa; pose proof (P1 (ag o x)) as Ag;
  unf_set; upd_tac; upd_hyps2; prj_all; lists;
  try assumption;
  a_facts Hi a; b_facts Hi x;
  try match goal with E : NoDup (?n :: _) |- _ => b_facts Hi n; inversion E; subst end;
  try match goal with E : q _ = _ :: _ |- _ => rewrite E in * end;
  subst_vars; upd_hyps; prj_all;
  rw_ag;
  ctxsplit_ret s a; pcs; lists;
  intros; brk; arith_prem; brk; try mem.

(* L5 (a delivered token is seen by the owner) *)
Ltac l5_script Hi s a P5 P6 P7 :=
  let x := fresh "x" in
  intro x; pose proof (P5 x) as Px; pose proof (P6 a) as Pa; pose proof (P6 (owner (Bk s x))) as Po; pose proof (P7 x) as Fx; pose proof (P7 (nextb s)) as Fn;
  unf_set; upd_tac; upd_hyps2; prj_all; lists;
  try assumption;
  a_facts Hi a; a_facts Hi O; b_facts Hi x;
  subst_vars; upd_hyps; prj_all;
  rw_owner;
  ctxsplit_ret s a; pcs; lists;
  intros; brk; arith_prem; brk; try mem.

(* L8 (every flagged registered blocker is settled exactly once) *)
Ltac l8_script Hi s a P7 P8 :=
  let x := fresh "x" in
  intro x; pose proof (P8 x) as Px; pose proof (P7 x) as Fx; pose proof (P7 (nextb s)) as Fn;
    pose proof (w2_unreg s (owner (Bk s x)) Hi) as W2x;
  unf_set; upd_tac; upd_hyps2; prj_all; lists;
  try assumption;
  a_facts Hi a; b_facts Hi x;
  try match goal with E : NoDup (?n :: _) |- _ => inversion E; subst end;
  subst_vars; upd_hyps; prj_all;
  rw_owner;
  ctxsplit_ret s a; pcs; lists;
  intros; brk; arith_prem; brk; try mem;
  try match goal with H : (?n <= 1)%nat |- _ => let E := fresh "En" in destruct (Nat.eq_dec n 1) as [E|E] end; brk; try mem.

(* L9 (success and failure exclude each other) *)
Ltac l9_script Hi s a P7 P8 P9 :=
  let x := fresh "x" in
  intro x; pose proof (P9 x) as Px; pose proof (P8 x) as Sx; pose proof (P7 x) as Fx; pose proof (P7 (nextb s)) as Fn;
  unf_set; upd_tac; upd_hyps2; prj_all; lists;
  try assumption;
  a_facts Hi a; a_facts Hi O; b_facts Hi x;
  subst_vars; upd_hyps; prj_all;
  rw_owner;
  ctxsplit_ret s a; pcs; lists;
  intros; brk; arith_prem; brk; try mem;
  try match goal with H : (_ + ?c <= 1)%nat |- _ => let E := fresh "En" in destruct (Nat.eq_dec c 1) as [E|E] end; brk; try mem.

(* ---- what each script needs from the overlay invariant of the state before the step ---- *)
Ltac l1_pre HL := pose proof (IL1 _ _ HL) as P1; unfold L1 in *.
Ltac l6_pre HL := pose proof (IL6 _ _ HL) as P6; unfold L6 in *.
Ltac l7_pre HL := pose proof (IL7 _ _ HL) as P7; unfold L7 in *.
Ltac l3_pre HL := pose proof (IL3 _ _ HL) as P3; unfold L3, att, own, attpc, inpark in *.
Ltac l2_pre HL := pose proof (IL2 _ _ HL) as P2; pose proof (IL3 _ _ HL) as P3; pose proof (IL1 _ _ HL) as P1;
  unfold L1, L2, L3, att, holds34, own, attpc, inpark, agentpc in *.
Ltac l4_pre HL := pose proof (IL4 _ _ HL) as P4; pose proof (IL1 _ _ HL) as P1; unfold L1, L4, holds3, agentpc in *.
Ltac l5_pre HL := pose proof (IL5 _ _ HL) as P5; pose proof (IL6 _ _ HL) as P6; pose proof (IL7 _ _ HL) as P7;
  unfold L5, L6, L7, own, prepark, inpark in *.
Ltac l8_pre HL := pose proof (IL8 _ _ HL) as P8; pose proof (IL7 _ _ HL) as P7; unfold L7, L8, own in *.
Ltac l9_pre HL := pose proof (IL9 _ _ HL) as P9; pose proof (IL8 _ _ HL) as P8; pose proof (IL7 _ _ HL) as P7;
  unfold L7, L8, L9, own, prepark, inpark in *.

(* L2 at K1 (the pop): the popped blocker n is unflagged, so it is not x; the agent map changes at n only *)
Ltac l2_script_K1 Hi s o a P1 P2 :=
  let x := fresh "x" in let Ix := fresh "Ix" in let Nx := fresh "Nx" in
  intros x Ix; pose proof (P2 x Ix) as Px; pose proof (P1 (ag o x)) as Ag;
  match goal with Eq : q s = ?n :: _ |- _ =>
    assert (Nx : x <> n) by
      (let Hx := fresh in let Hn := fresh in
       pose proof (IB _ Hi x) as Hx; pose proof (IB _ Hi n) as Hn; unfold binv in Hx, Hn;
       intros ->; rewrite Eq in *; cbn [In] in *; intuition congruence);
    rewrite (upd_neq (ag o) n x a Nx)
  end;
  unf_set; upd_tac; prj_all;
  subst_vars; rw_owner; rw_ag; pcs;
  mem.
