(* Preservation of SemInv.Inv, ainv of the stepping actor: the cases E1, E2, E3, E4, P0, K1 (env = the actions other than Step).
   Script in SemPresTac.v; assembled in SemPresA.v. *)
From Coq Require Import List Arith ZArith Bool Lia.
Import ListNotations.
Require Import MayV.Sync.SemModel MayV.Sync.SemInv MayV.Sync.SemTac MayV.Sync.SemCase MayV.Sync.SemPresTac.
Open Scope Z_scope.

Lemma pres_A_self_E1 s a s' : Inv s -> apc (A s a) = E1 -> step s (Step a) = Some s' -> ainv s' a.
Proof. intros Hi Epc H. g_facts Hi. step_at H Epc. all: as_script Hi s a. Qed.

Lemma pres_A_self_E2 s a s' : Inv s -> apc (A s a) = E2 -> step s (Step a) = Some s' -> ainv s' a.
Proof. intros Hi Epc H. g_facts Hi. step_at H Epc. all: as_script Hi s a. Qed.

Lemma pres_A_self_E3 s a s' : Inv s -> apc (A s a) = E3 -> step s (Step a) = Some s' -> ainv s' a.
Proof. intros Hi Epc H. g_facts Hi. step_at H Epc. all: as_script Hi s a. Qed.

Lemma pres_A_self_E4 s a s' : Inv s -> apc (A s a) = E4 -> step s (Step a) = Some s' -> ainv s' a.
Proof. intros Hi Epc H. g_facts Hi. step_at H Epc. all: as_script Hi s a. Qed.

Lemma pres_A_self_P0 s a s' : Inv s -> apc (A s a) = P0 -> step s (Step a) = Some s' -> ainv s' a.
Proof. intros Hi Epc H. g_facts Hi. step_at H Epc. all: as_script Hi s a. Qed.

Lemma pres_A_self_K1 s a s' : Inv s -> apc (A s a) = K1 -> step s (Step a) = Some s' -> ainv s' a.
Proof. intros Hi Epc H. g_facts Hi. step_at H Epc. all: as_script Hi s a. Qed.
