(* C05 - second invariant, for the progress half (no stranded waiter):
     N1   somebody counted            -> the lock has an owner (actor or blocker in transit)
     HX   owner is an actor           -> it is inside the critical section or in its unlock/pop/flag steps
     PK   suspended                   -> registered in its park
     QN/Q1/Q2  the queue is duplicate free and holds unflagged live registrations (QP); so does a popped,
          not yet flagged blocker
     K1   lock in transit to b        -> b flagged, its owner still waits (or has gone with release set)
     N2a  lock in transit to b        -> the unparker is still before its token store, or the token has
          been delivered (Tdeliv: a suspended owner has a resume reason or the token; an owner that will
          still look at the token finds it)
     N2b  lock in transit to b, owner gone -> the unparker is still before its take_release *)
From Coq Require Import List Arith Bool Lia.
Import ListNotations.
Require Import MayV.Sync.MutexModel MayV.Sync.MutexInv.

(* extra invariants for the progress (no stranded waiter) half *)
Definition holdpc (p : pc) : bool := match p with CS | CSw | H1 | H2 | U0 => true | _ => false end.

Definition QP (s : st) (b : nat) : Prop :=
  let k := Bk s b in let o := A s (owner k) in
  unp k = false /\ ab o = b /\ 1 <= b /\ (waiting o = true \/ (halfgone o = true /\ rel k = true)).

Definition Tdeliv (s : st) (b : nat) : Prop :=
  let k := Bk s b in let o := A s (owner k) in
  (apc o = W -> reason k <> None \/ tok k = true) /\
  (match apc o with L2 | P | P1 | H1 | H2 | H3 | H3w | H4 | U0 => True | _ => False end -> tok k = true).

Record Inv2 (s : st) : Prop := {
  N1 : ent s <> [] -> holder s <> HNone;
  HX : forall x, holder s = HA x -> holdpc (apc (A s x)) = true;
  PK : forall a, apc (A s a) = W -> parked (Bk s (ab (A s a))) = true;
  QN : NoDup (q s);
  Q1 : forall b, In b (q s) -> QP s b;
  Q2 : forall x, apc (A s x) = H2 -> QP s (aw (A s x)) /\ ~ In (aw (A s x)) (q s);
  K1 : forall b, holder s = HB b ->
         let k := Bk s b in let o := A s (owner k) in
         unp k = true /\ ab o = b /\ 1 <= b /\ (waiting o = true \/ (halfgone o = true /\ rel k = true));
  N2a : forall b, holder s = HB b ->
         (apc (A s (ag (Bk s b))) = H3 /\ aw (A s (ag (Bk s b))) = b) \/ Tdeliv s b;
  N2b : forall b, holder s = HB b -> apc (A s (owner (Bk s b))) = Exit ->
         (apc (A s (ag (Bk s b))) = H3 \/ apc (A s (ag (Bk s b))) = H3w \/ apc (A s (ag (Bk s b))) = H4) /\ aw (A s (ag (Bk s b))) = b
}.

Lemma inv2_init : Inv2 init.
Proof.
  constructor; cbn; intros; try discriminate; try tauto; try constructor.
Qed.

(* close a goal about the owner of a blocker by rewriting what is known about that owner *)
Ltac ownrw :=
  repeat match goal with E : owner (Bk _ ?b) = _ |- context [owner (Bk _ ?b)] => rewrite E end;
  repeat match goal with E : apc (A _ ?x) = _ |- context [apc (A _ ?x)] => rewrite E end;
  repeat match goal with E : actx (A _ ?x) = _ |- context [actx (A _ ?x)] => rewrite E end; cbn; fin0.
