(* Preservation of the mpsc channel invariant, part 2: no-lost-wake-up and disconnect clauses. *)
From Coq Require Import List Arith Bool Lia.
Import ListNotations.
Require Import MayV.Sync.ChanMpscModel MayV.Sync.ChanMpscInv.



(* keep an existential witness across a step of actor a *)
Ltac keep_wit P :=
  let w := fresh "w" in let Hw := fresh "Hw" in
  destruct P as [w Hw]; exists w; upd_tac; prj; boolh; try solve [intuition congruence].


Ltac useP P := try (let X := fresh "X" in assert (X := P ltac:(first [reflexivity|assumption]) ltac:(first [assumption|reflexivity|congruence])); clear P; rename X into P).
Ltac ex_try tac := first [ solve [tac] | match goal with w : nat |- _ => solve [exists w; tac] end ].
Ltac w5fin := upd_tac; prj; bdes; prj; try solve [ tauto | congruence | discriminate | intuition (try congruence; try discriminate) ].
Ltac try3 := first [ solve [left; w5fin] | solve [right; left; w5fin] | solve [right; right; match goal with w : nat |- _ => exists w; w5fin end] ].

Lemma pres_w5 s ac s' : Inv s -> step s ac = Some s' -> w5reg (R s') = true -> slot s' = None ->
  tok (Bk s' (rb (R s'))) = true \/ reason (Bk s' (rb (R s'))) <> None \/ exists a, sp (Sd s' a) = SUnpark /\ sw (Sd s' a) = rb (R s').
Proof.
  intros Hi H. pose proof (I_w5 _ Hi) as P. pose proof (I_rc _ Hi) as P1. pose proof (I_slotreg _ Hi) as P2.
  pose proof (I_B _ Hi (rb (R s))) as P3. unfold binv in P3.
  go H; auto; try discriminate; intros W Sl; try discriminate; useP P.
  all: try (destruct P as [T|[T|[w [T1 T2]]]]; try3).
  all: destruct (rp (R s)) eqn:Erp; try discriminate; prj.
  all: try (destruct (P2 eq_refl) as [Q|Q]; [inversion Q; subst|discriminate]; right; right; exists a; upd_tac; prj; split; congruence).
  all: try match goal with Est : sst (Sd ?s0 (sto (Sd ?s0 ?a))) = Unborn, Hi : Inv ?s0 |- _ =>
      pose proof (I_S _ Hi (sto (Sd s0 a))) as Q; unfold sinv in Q; rewrite Est in Q; boolh;
      repeat match goal with H : ?x = ?x -> _ |- _ => specialize (H eq_refl) end;
      destruct P as [T|[T|[w [T1 T2]]]]; [left; exact T | right; left; exact T | right; right; exists w];
      rewrite !upd_neq by congruence; auto end.
  all: destruct (Nat.eq_dec (sw (Sd s a)) (rb (R s))) as [e|ne]; [left; rewrite <- e; upd_tac; reflexivity|].
  all: rewrite !(upd_neq (Bk s)) by congruence.
  all: destruct P as [T|[T|[w [T1 T2]]]]; [left; exact T | right; left; exact T | right; right; exists w].
  all: rewrite upd_neq by congruence; auto.
Qed.


Ltac useP3 P := try (let X := fresh "X" in assert (X := P ltac:(first [reflexivity|assumption]) ltac:(first [assumption|reflexivity|congruence]) ltac:(first [assumption|reflexivity|congruence])); clear P; rename X into P).
Ltac sto_facts := try match goal with Est : sst (Sd ?s0 (sto (Sd ?s0 ?a))) = Unborn, Hi : Inv ?s0 |- _ =>
      let Q := fresh "Q" in pose proof (I_S _ Hi (sto (Sd s0 a))) as Q; unfold sinv in Q; rewrite Est in Q; boolh; spec end.
(* the witness of P survives, or the stepping actor is the new witness *)
Ltac wit P a := first [ solve [exists a; upd_tac; prj; congruence]
                      | solve [let w := fresh "w" in let Hw := fresh "Hw" in destruct P as [w Hw]; exists w; rewrite ?upd_neq by congruence; auto] ].

Lemma pres_w6 s ac s' : Inv s -> step s ac = Some s' -> w6reg (R s') = true -> slot s' <> None -> q s' <> [] -> exists a, sp (Sd s' a) = STake.
Proof.
  intros Hi H. pose proof (I_w6 _ Hi) as P. pose proof (I_rc _ Hi) as P1.
  go H; auto; try discriminate; intros W Sl Qn; try discriminate; try congruence; useP3 P; auto.
  all: sto_facts.
  all: try (wit P a).
Qed.

Lemma pres_w7 s ac s' : Inv s -> step s ac = Some s' -> w7reg (R s') = true -> slot s' <> None -> chans s' = 0 -> exists a, sp (Sd s' a) = STake.
Proof.
  intros Hi H. pose proof (I_w7 _ Hi) as P. pose proof (I_rc _ Hi) as P1.
  go H; auto; try discriminate; intros W Sl Qn; try discriminate; try congruence; useP3 P; auto.
  all: sto_facts.
  all: try (wit P a).
Qed.

Lemma live_pos s a : Inv s -> sst (Sd s a) = Alive -> chans s <> 0.
Proof.
  intros Hi E. destruct (I_live _ Hi) as [L _]. pose proof (I_S _ Hi a) as Q. unfold sinv in Q. boolh.
  assert (In a (live s)) by tauto. destruct (live s); [contradiction | cbn in L; lia].
Qed.

Lemma pres_d1 s ac s' : Inv s -> step s ac = Some s' -> rp (R s') = RPop2 -> chans s' = 0.
Proof.
  intros Hi H. pose proof (I_d1 _ Hi) as P.
  go H; auto; try discriminate; intros Q; try (specialize (P Q); discriminate).
  pose proof (I_S _ Hi a) as Q1. unfold sinv in Q1. rewrite Esp in Q1. boolh. pose proof (live_pos _ _ Hi H). tauto.
Qed.

(* a sender that is inside send / clone / before its fetch_sub is counted in `channels` *)
Lemma busy_pos s a : Inv s -> match sp (Sd s a) with SChk | SPush | SAdd | SSub => True | _ => False end -> chans s <> 0.
Proof.
  intros Hi E. pose proof (I_S _ Hi a) as Q1. unfold sinv in Q1. boolh. apply (live_pos s a Hi). destruct (sp (Sd s a)); tauto.
Qed.
Ltac busy := match goal with E : sp (Sd ?s0 ?a) = _, Hi : Inv ?s0 |- _ =>
   let X := fresh "X" in pose proof (busy_pos s0 a Hi) as X; rewrite E in X; specialize (X I) end.

Lemma pres_d2 s ac s' : Inv s -> step s ac = Some s' ->
  (rp (R s') = RClear /\ rdata (R s') = RDisc) \/ (rp (R s') = RIdle /\ rres (R s') = RDisc) -> chans s' = 0 /\ q s' = [].
Proof.
  intros Hi H. pose proof (I_d2 _ Hi) as P. pose proof (I_d1 _ Hi) as P1.
  go H; auto; try discriminate; intros Q.
  all: try solve [destruct Q as [[Q1 Q2]|[Q1 Q2]]; discriminate].
  all: try solve [apply P; destruct Q as [[Q1 Q2]|[Q1 Q2]]; try discriminate; auto].
  all: destruct (P Q) as [C0 Q0]; try discriminate; busy; congruence.
Qed.

Lemma pres_r1 s ac s' : Inv s -> step s ac = Some s' -> rdead (R s') = true -> chans s' = 0.
Proof.
  intros Hi H. pose proof (I_r1 _ Hi) as P.
  go H; auto; try discriminate; intros Q; boolh; auto.
  all: try (specialize (P Q); try discriminate; busy; congruence).
Qed.

Lemma pres_r2 s ac s' : Inv s -> step s ac = Some s' -> rdead (R s') = true -> match rp (R s') with RPark | RWait | RDeadline => False | _ => True end.
Proof.
  intros Hi H. pose proof (I_r2 _ Hi) as P. pose proof (I_r1 _ Hi) as P1.
  go H; auto; try discriminate; intros Q; boolh; auto.
  all: try (specialize (P Q); tauto).
  all: try (specialize (P1 Q); congruence).
Qed.

Lemma pres_r3 s ac s' : Inv s -> step s ac = Some s' -> rdead (R s') = true -> rp (R s') = RIdle ->
  match rres (R s') with REmpty | RTimeout | RCancel => False | _ => True end.
Proof.
  intros Hi H. pose proof (I_r3 _ Hi) as P. pose proof (I_r1 _ Hi) as P1. pose proof (I_r2 _ Hi) as P2. pose proof (I_rdata _ Hi) as P3.
  go H; auto; try discriminate; intros Q Q'; boolh; auto; try discriminate.
  all: try (specialize (P3 eq_refl); destruct (rdata (R s)); tauto).
  all: try (specialize (P2 Q); tauto).
  all: try (specialize (P1 Q); congruence).
Qed.


Lemma pres_rdata s ac s' : Inv s -> step s ac = Some s' -> rp (R s') = RClear -> match rdata (R s') with ROk _ | RDisc => True | _ => False end.
Proof.
  intros Hi H. pose proof (I_rdata _ Hi) as P.
  go H; auto; try discriminate.
Qed.
