(* Preservation of SemInv.Inv, ainv of the stepping actor: the cases env, W0, W0c, W1, W2, WP, WW (env = the actions other than Step).
   Script in SemPresTac.v; assembled in SemPresA.v. *)
From Coq Require Import List Arith ZArith Bool Lia.
Import ListNotations.
Require Import MayV.Sync.SemModel MayV.Sync.SemInv MayV.Sync.SemTac MayV.Sync.SemCase MayV.Sync.SemPresTac.
Open Scope Z_scope.

Lemma pres_A_self_env s ac s' : Inv s -> is_step ac = false -> step s ac = Some s' -> ainv s' (actor ac).
Proof.
  intros Hi Hn H. g_facts Hi. destruct ac as [a t|a|a|a|a|a]; try discriminate Hn; cbn [actor]; step_cases H.
  all: as_script Hi s a.
Qed.

Lemma pres_A_self_W0 s a s' : Inv s -> apc (A s a) = W0 -> step s (Step a) = Some s' -> ainv s' a.
Proof. intros Hi Epc H. g_facts Hi. step_at H Epc. all: as_script Hi s a. Qed.

Lemma pres_A_self_W0c s a s' : Inv s -> apc (A s a) = W0c -> step s (Step a) = Some s' -> ainv s' a.
Proof. intros Hi Epc H. g_facts Hi. step_at H Epc. all: as_script Hi s a. Qed.

Lemma pres_A_self_W1 s a s' : Inv s -> apc (A s a) = W1 -> step s (Step a) = Some s' -> ainv s' a.
Proof. intros Hi Epc H. g_facts Hi. step_at H Epc. all: as_script Hi s a. Qed.

Lemma pres_A_self_W2 s a s' : Inv s -> apc (A s a) = W2 -> step s (Step a) = Some s' -> ainv s' a.
Proof. intros Hi Epc H. g_facts Hi. step_at H Epc. all: as_script Hi s a. Qed.

Lemma pres_A_self_WP s a s' : Inv s -> apc (A s a) = WP -> step s (Step a) = Some s' -> ainv s' a.
Proof. intros Hi Epc H. g_facts Hi. step_at H Epc. all: as_script Hi s a. Qed.

Lemma pres_A_self_WW s a s' : Inv s -> apc (A s a) = WW -> step s (Step a) = Some s' -> ainv s' a.
Proof. intros Hi Epc H. g_facts Hi. step_at H Epc. all: as_script Hi s a. Qed.
