(* Preservation of the overlay invariant of SemLive.v, part C: L2 (flagged registered blockers are attached or held by their agent). *)
From Coq Require Import List Arith ZArith Bool Lia.
Import ListNotations.
Require Import MayV.Sync.SemModel MayV.Sync.SemInv MayV.Sync.SemTac MayV.Sync.SemLive MayV.Sync.SemLiveA MayV.Sync.SemLiveB.
Open Scope Z_scope.

Lemma pres_L2 s o ac s' : Inv s -> LInv s o -> step s ac = Some s' -> L2 s' (lstep s o ac).
Proof.
  intros Hi HL H. pose proof (IL2 _ _ HL) as P2. pose proof (IL3 _ _ HL) as P3. pose proof (IL1 _ _ HL) as P1.
  unfold L1, L2, L3, att, holds34, own, attpc, inpark, agentpc in *.
  lsetup Hi H; intro x; pose proof (P2 x) as Px; pose proof (P3 x) as Ux; pose proof (P1 a) as Aa; pose proof (P1 (ag o x)) as Ag.
  all: unfold set_pc, set_ctx, set_res, set_av; upd_tac; upd_hyps; prj_all; lists.
  all: try assumption.
  all: a_facts Hi a; b_facts Hi x; b_facts Hi (ab (A s a)); b_facts Hi (aw (A s a)).
  all: try match goal with E : NoDup (?n :: _) |- _ => b_facts Hi n; inversion E; subst end.
  all: try match goal with E : q _ = _ :: _ |- _ => rewrite E in * end.
  all: repeat match goal with e : ?v = _ |- _ => is_var v; subst v end; upd_hyps; prj_all.
  all: repeat match goal with e : owner _ = _ |- _ => progress (rewrite e in * ) end.
  all: repeat match goal with e : ag _ _ = _ |- _ => progress (rewrite e in * ) end.
  all: ctxsplit s a; pcs; lists.
  all: intros; brk; arith_prem; brk; try mem.
Qed.
