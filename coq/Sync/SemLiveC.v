(* Preservation of the overlay invariant of SemLive.v, part C: L2 (flagged registered blockers are attached or held by their agent).
   Each lemma is assembled from one lemma per control point of the stepping actor (files SemLiveL2a.v, SemLiveL2b.v, SemLiveL2c.v, SemLiveL2d.v;
   the proof script of the clause is an Ltac in SemLiveTac.v). *)
From Coq Require Import List Arith ZArith Bool Lia.
Import ListNotations.
Require Import MayV.Sync.SemModel MayV.Sync.SemInv MayV.Sync.SemTac MayV.Sync.SemCase MayV.Sync.SemLive.
Require Export MayV.Sync.SemLiveTac.
Require Import MayV.Sync.SemLiveL2a MayV.Sync.SemLiveL2b MayV.Sync.SemLiveL2c MayV.Sync.SemLiveL2d.
Open Scope Z_scope.

Lemma pres_L2 s o ac s' : Inv s -> LInv s o -> step s ac = Some s' -> L2 s' (lstep s o ac).
Proof.
  intros Hi HL H. destruct (is_step ac) eqn:Hn; [|eapply pres_L2_env; eassumption].
  destruct ac as [a t|a|a|a|a|a]; try discriminate Hn. destruct (apc (A s a)) eqn:Epc.
  - rewrite (step_idle s a Epc) in H. discriminate H.
  - eapply pres_L2_W0; eassumption.
  - eapply pres_L2_W0c; eassumption.
  - eapply pres_L2_W1; eassumption.
  - eapply pres_L2_W2; eassumption.
  - eapply pres_L2_WP; eassumption.
  - eapply pres_L2_WW; eassumption.
  - eapply pres_L2_E1; eassumption.
  - eapply pres_L2_E2; eassumption.
  - eapply pres_L2_E3; eassumption.
  - eapply pres_L2_E4; eassumption.
  - eapply pres_L2_P0; eassumption.
  - eapply pres_L2_K1; eassumption.
  - eapply pres_L2_K2; eassumption.
  - eapply pres_L2_K3; eassumption.
  - eapply pres_L2_K4; eassumption.
  - eapply pres_L2_Y0; eassumption.
  - eapply pres_L2_Y0c; eassumption.
  - eapply pres_L2_G0; eassumption.
Qed.
