(* C09 on MutexModel (may::sync::Mutex, the code as it is in /repo): cancellation of a coroutine that is inside
   Mutex::lock.  Nothing of the model is edited; the cancel bit is the model's own [acanc] (set by action Cancel =
   Cancel::cancel's fetch_or, never cleared), [aign] is "the caller has the cancel disabled" (Condvar::wait's
   re-lock), CKick is the delivery (Cancel::cancel's co.take / take, or the cancel re-check of Park::subscribe).

   (iii) no spurious cancel    CInv (new invariant, proved inductive here): an actor inside the Canceled branch of
                               lock() (P2: yield_with's short-cut, C1..C4, the forwarding unlock chain it runs
                               before the cancel panic, Exit) has its cancel bit set and is a coroutine; a resume
                               reason `cancelled` is only ever given to the blocker of a cancelled coroutine.
                               Step form: canceled_branch_needs_cancel.
   (i)   stop                  cancelled_waiter_not_parked: in a quiescent state (nobody can step, no cancel delivery
                               pending) no cancelled coroutine is suspended in lock() - whether its cancel is enabled
                               or disabled (a disabled one is woken too and goes back to wait, the F1 repair).
   (ii)  forward               the C05 handshake theorems in their cancel instantiation. *)
From Coq Require Import List Arith Bool Lia.
Import ListNotations.
Require Import MayV.Sync.MutexModel MayV.Sync.MutexInv MayV.Sync.MutexME MayV.Sync.MutexLiveInv MayV.Sync.MutexLive7
               MayV.Sync.MutexPop MayV.Sync.MutexThm.

(* control points of the Canceled branch of Mutex::lock, including the unlock()/unpark_one chain it runs on its
   way to the cancel panic *)
Definition cancel_pc (x : act) : bool :=
  match apc x with
  | P2 | C1 | C2 | C3 | C4 | Exit => true
  | U0 | H1 | H2 | H3 | H3w | H4 => match actx x with RExit => true | _ => false end
  | _ => false
  end.

Ltac sb := repeat match goal with
  | e : ?x = ?y |- _ => is_var x; subst x
  | e : ?x = ?y |- _ => is_var y; subst y end.

Section S.
Variable isco : nat -> bool.
Notation step := (step isco).
Notation Reach := (Reach isco).

Record CInv (s : st) : Prop := {
  c_co  : forall a, acanc (A s a) = true -> isco a = true;
  c_pc  : forall a, cancel_pc (A s a) = true -> acanc (A s a) = true;
  c_rsn : forall b, reason (Bk s b) = Some RC -> acanc (A s (owner (Bk s b))) = true
}.

Lemma cinv_init : CInv init.
Proof. constructor; cbn; intros; discriminate. Qed.

Lemma acanc_mono s ac s' a : step s ac = Some s' -> acanc (A s a) = true -> acanc (A s' a) = true.
Proof.
  intros H. step_cases H; cbn; unfold set_pc; upd_tac; cbn; intros; sb; auto.
Qed.

(* where a resume reason `cancelled` comes from: it was there before, or this step is the delivery to a cancelled actor *)
Lemma rsn_src s ac s' b : Inv s -> step s ac = Some s' -> reason (Bk s' b) = Some RC ->
  (reason (Bk s b) = Some RC /\ owner (Bk s' b) = owner (Bk s b)) \/ acanc (A s (owner (Bk s' b))) = true.
Proof.
  intros Hi H.
  step_cases H; cbn; unfold fresh; upd_tac; cbn; intros; sb; try discriminate; try (left; split; auto; fail).
  all: try (left; split; [congruence | reflexivity]).
  all: right.
  all: pose proof (IA _ Hi a) as Ia; unfold ainv in Ia; rewrite Epc in Ia;
       destruct Ia as (_ & _ & [Z|O] & _ & L1); [lia | rewrite O].
  all: apply andb_prop in Ec; destruct Ec as [Ec _]; apply andb_prop in Ec; destruct Ec as [_ Ec]; exact Ec.
Qed.

Lemma cinv_step s ac s' : Inv s -> CInv s -> step s ac = Some s' -> CInv s'.
Proof.
  intros Hi [Cc Cp Cr] H. constructor.
  - (* the bit is only set on coroutines *)
    intro a'. specialize (Cc a').
    step_cases H; cbn; try exact Cc; unfold set_pc; upd_tac; cbn; try exact Cc; intros; sb; auto.
  - (* Canceled control points *)
    intro a'. specialize (Cp a'). pose proof (Cr (ab (A s a'))) as Crb.
    pose proof (IA _ Hi a') as Ia. unfold ainv in Ia.
    step_cases H; unfold cancel_pc in *; cbn; try exact Cp; unfold set_pc, ret_pc; upd_tac; cbn; try exact Cp;
      try reflexivity; try discriminate;
      repeat match goal with E : ?x = a' |- _ => subst x | E : a' = ?x |- _ => subst x end;
      try rewrite Epc in *; cbn in *; try (intros; discriminate); try (intros; reflexivity); try exact Cp.
    all: try (destruct (actx (A s a')) eqn:Ectx; cbn in *; try discriminate; try exact Cp; intros; auto).
    all: try (apply andb_prop in Ec; destruct Ec as [Ec _]; exact Ec).
    all: try (destruct Ia as (_ & _ & [Z|O] & _ & L1); [lia | rewrite O in Crb; apply Crb; assumption]).
  - (* resume reasons *)
    intros b R1. destruct (rsn_src s ac s' b Hi H R1) as [[R0 O]|X].
    + rewrite O. eapply acanc_mono; [exact H | apply Cr; exact R0].
    + eapply acanc_mono; [exact H | exact X].
Qed.

Theorem cinv_reach s : Reach s -> CInv s.
Proof.
  induction 1 as [|s a s' R IH H]; [apply cinv_init|].
  eapply cinv_step; eauto. apply inv_reach with (isco := isco). exact R.
Qed.

(* ---- (iii) no spurious cancel ---- *)

(* state form: whoever is inside the Canceled branch (or has left by the cancel panic) was cancelled, and is a coroutine *)
Theorem canceled_branch_only_if_cancelled s a : Reach s -> cancel_pc (A s a) = true ->
  acanc (A s a) = true /\ isco a = true.
Proof.
  intros R P. destruct (cinv_reach s R) as [Cc Cp _]. split; [apply Cp; exact P | apply Cc, Cp; exact P].
Qed.

(* step form: the transition with which park returns Canceled to lock() (the actor enters C1: from the short-cut of
   yield_with, P2, or resumed from the wait with the reason `cancelled`) is taken only by a cancelled coroutine; the
   cancel bit was set BEFORE the transition *)
Theorem canceled_branch_needs_cancel s ac s' a : Reach s -> step s ac = Some s' ->
  apc (A s a) <> C1 -> apc (A s' a) = C1 -> acanc (A s a) = true /\ isco a = true.
Proof.
  intros R H N E. pose proof (inv_reach isco s R) as Hi. destruct (cinv_reach s R) as [Cc Cp Cr].
  assert (X : acanc (A s a) = true).
  { pose proof (IA _ Hi a) as Ia. unfold ainv in Ia. pose proof (Cr (ab (A s a))) as Crb. specialize (Cp a).
    unfold cancel_pc in Cp.
    step_cases H; cbn in E; unfold set_pc, ret_pc in E; revert E; upd_tac; cbn; try congruence; intros E;
      repeat match goal with E0 : ?x = a |- _ => subst x | E0 : a = ?x |- _ => subst x end;
      try rewrite Epc in *; cbn in *; try congruence; try (apply Cp; reflexivity).
    all: try (destruct (actx (A s a)); cbn in *; congruence).
    all: try (destruct Ia as (_ & _ & [Z|O] & _ & L1); [lia | rewrite O in Crb; apply Crb; assumption]). }
  split; [exact X | apply Cc; exact X].
Qed.

(* the same for the cancel panic itself: an actor leaves lock() for good (Exit) only if it was cancelled *)
Theorem cancel_panic_needs_cancel s ac s' a : Reach s -> step s ac = Some s' ->
  apc (A s' a) = Exit -> acanc (A s a) = true /\ isco a = true.
Proof.
  intros R H E. destruct (cinv_reach s' (RS isco s ac s' R H)) as [Cc' Cp' _].
  assert (X' : acanc (A s' a) = true) by (apply Cp'; unfold cancel_pc; rewrite E; reflexivity).
  destruct (cinv_reach s R) as [Cc Cp _].
  destruct (acanc (A s a)) eqn:X; [split; [reflexivity | apply Cc; exact X]|]. exfalso.
  (* the only transition that sets the bit is Cancel, which does not move the actor *)
  assert (P : cancel_pc (A s a) = true).
  { unfold cancel_pc. step_cases H; cbn in E, X'; unfold set_pc, ret_pc in E, X'; revert E X'; upd_tac; cbn; try congruence;
      intros E X'; repeat match goal with E0 : ?x = a |- _ => subst x | E0 : a = ?x |- _ => subst x end;
      try rewrite Epc in *; cbn in *; try congruence.
    all: try (destruct (actx (A s a)); cbn in *; congruence).
    all: try (rewrite E; reflexivity). }
  rewrite (Cp a P) in X. discriminate.
Qed.

(* a thread (an actor that is not a coroutine) never observes a cancellation *)
Corollary thread_never_canceled s a : Reach s -> isco a = false -> cancel_pc (A s a) = false.
Proof.
  intros R T. destruct (cancel_pc (A s a)) eqn:P; [|reflexivity].
  destruct (canceled_branch_only_if_cancelled s a R P) as [_ C]. congruence.
Qed.

(* ---- (i) stop ---- *)

(* quiescence including the canceller: no protocol step, no self-resume and no cancel delivery is enabled *)
Definition CStable (s : st) : Prop := Stable isco s /\ forall a, step s (CKick a) = None.

Theorem cancelled_waiter_not_parked s a : Reach s -> CStable s ->
  isco a = true -> acanc (A s a) = true -> apc (A s a) <> W.
Proof.
  intros R [St Ck] Co Ca Ew. destruct (inv12_reach isco s R) as [Hi Hj].
  pose proof (PK _ Hj a Ew) as Pk. specialize (Ck a). destruct (St a) as [[C|N] _].
  - rewrite Ew in C. discriminate.
  - unfold MutexModel.step in Ck, N. rewrite Ew in Ck, N. rewrite Co, Ca, Pk in Ck. cbn in Ck.
    destruct (reason (Bk s (ab (A s a)))) as [[|]|]; discriminate.
Qed.

(* progress form, for every state: a cancelled coroutine suspended in lock() can be moved on - its resume is enabled
   (a reason has been delivered) or the cancel delivery is enabled *)
Theorem cancelled_waiter_can_move s a : Reach s -> isco a = true -> acanc (A s a) = true -> apc (A s a) = W ->
  step s (Step a) <> None \/ step s (CKick a) <> None.
Proof.
  intros R Co Ca Ew. destruct (inv12_reach isco s R) as [Hi Hj]. pose proof (PK _ Hj a Ew) as Pk.
  unfold MutexModel.step. rewrite Ew, Co, Ca, Pk. cbn.
  destruct (reason (Bk s (ab (A s a)))) as [[|]|]; [left | left | right]; discriminate.
Qed.

(* a cancelled coroutine with the cancel enabled that arrives at the park does not suspend: yield_with's short-cut *)
Theorem cancelled_caller_takes_shortcut s a s' : apc (A s a) = P1 -> acanc (A s a) = true -> aign (A s a) = false ->
  step s (Step a) = Some s' -> apc (A s' a) = P2.
Proof.
  intros E C I H. unfold MutexModel.step in H. rewrite E, C, I in H. cbn in H. injection H as <-.
  cbn. rewrite upd_eq. reflexivity.
Qed.

(* every control point of the Canceled branch is enabled: the cancelled waiter runs through to the panic, except while
   it forwards the lock through unlock(), whose pop never finds the queue empty (C05 pop_never_empty) *)
Theorem canceled_branch_never_blocks s a : Reach s ->
  match apc (A s a) with P2 | C1 | C2 | C3 | C4 => True | _ => False end -> step s (Step a) <> None.
Proof.
  intros R P. apply enabled. destruct (apc (A s a)); try contradiction; reflexivity.
Qed.

(* ---- (ii) forward ---- *)

(* the lock handed to a waiter that meanwhile takes the Canceled branch: the waiter sees the flag at its first look
   (C1) and unlocks on its own behalf before it panics ... *)
Theorem cancelled_waiter_with_handoff_unlocks s a s' : Reach s ->
  apc (A s a) = C1 -> aign (A s a) = false -> unp (Bk s (ab (A s a))) = true -> step s (Step a) = Some s' ->
  holder s = HB (ab (A s a)) /\ holder s' = HA a /\ apc (A s' a) = U0 /\ afor (A s' a) = a /\ actx (A s' a) = RExit.
Proof.
  intros R E I U H. pose proof (inv_reach isco s R) as Hi.
  pose proof (IA _ Hi a) as Ia. unfold ainv in Ia. rewrite E in Ia. destruct Ia as (_ & _ & [Z|O] & _ & L1); [lia|].
  pose proof (IB _ Hi (ab (A s a))) as Ib. unfold binv in Ib. rewrite O in Ib.
  destruct Ib as (_ & _ & _ & B4 & _). destruct (B4 U eq_refl) as [B5 _].
  split; [apply B5; unfold waiting; rewrite E; reflexivity|].
  unfold MutexModel.step in H. rewrite E, U, I in H. injection H as <-. cbn. rewrite upd_eq. cbn. auto.
Qed.

(* ... with the cancel disabled (Condvar::wait's re-lock) it keeps the lock instead: the hand-off is consumed, not lost *)
Theorem cancelled_disabled_waiter_with_handoff_keeps_lock s a s' : Reach s ->
  apc (A s a) = C1 -> aign (A s a) = true -> unp (Bk s (ab (A s a))) = true -> step s (Step a) = Some s' ->
  holder s = HB (ab (A s a)) /\ holder s' = HA a /\ apc (A s' a) = CS.
Proof.
  intros R E I U H. pose proof (inv_reach isco s R) as Hi.
  pose proof (IA _ Hi a) as Ia. unfold ainv in Ia. rewrite E in Ia. destruct Ia as (_ & _ & [Z|O] & _ & L1); [lia|].
  pose proof (IB _ Hi (ab (A s a))) as Ib. unfold binv in Ib. rewrite O in Ib.
  destruct Ib as (_ & _ & _ & B4 & _). destruct (B4 U eq_refl) as [B5 _].
  split; [apply B5; unfold waiting; rewrite E; reflexivity|].
  unfold MutexModel.step in H. rewrite E, U, I in H. injection H as <-. cbn. rewrite upd_eq. cbn. auto.
Qed.

(* ... and without a hand-off it goes back to wait (cancel disabled): nothing to forward, the registration stays *)
Theorem cancelled_disabled_waiter_without_handoff_waits_on s a s' :
  apc (A s a) = C1 -> aign (A s a) = true -> unp (Bk s (ab (A s a))) = false -> step s (Step a) = Some s' ->
  apc (A s' a) = P /\ cnt s' = cnt s /\ q s' = q s /\ holder s' = holder s.
Proof.
  intros E I U H. unfold MutexModel.step in H. rewrite E, U, I in H. injection H as <-. cbn. rewrite upd_eq. cbn. auto.
Qed.

(* a waiter that has left by the cancel panic owns nothing: it is not the holder, not inside *)
Theorem departed_waiter_holds_nothing s a : Reach s -> apc (A s a) = Exit -> holder s <> HA a /\ in_cs (apc (A s a)) = false.
Proof.
  intros R E. destruct (inv12_reach isco s R) as [_ Hj]. split; [|rewrite E; reflexivity].
  intro Hh. pose proof (HX _ Hj a Hh) as P. rewrite E in P. discriminate.
Qed.

End S.
