(* C05 - preservation of Inv2: Q1, Q2 *)
From Coq Require Import List Arith Bool Lia.
Import ListNotations.
Require Import MayV.Sync.MutexModel MayV.Sync.MutexInv MayV.Sync.MutexLiveInv MayV.Sync.MutexLive3.

Section S.
Variable isco : nat -> bool.
Notation step := (step isco).

Lemma q_subset s ac s' b : step s ac = Some s' -> In b (q s') -> In b (q s) \/ (b = nextb s /\ exists a, ac = Step a /\ apc (A s a) = L1).
Proof.
  intros H. step_cases H; cbn; auto.
  all: try (intro J; apply in_app_or in J; destruct J as [J|[J|[]]]; eauto).
  all: try (intro J; left; right; assumption).
Qed.

Lemma not_flagging s (Hi : Inv s) a x : a <> x -> apc (A s a) = H2 -> apc (A s x) = H2 -> False.
Proof.
  intros Hne Ha Hx. pose proof (IA _ Hi a) as I1. pose proof (IA _ Hi x) as I2.
  unfold ainv in *. rewrite Ha in I1. rewrite Hx in I2. cbn in *. brk. congruence.
Qed.

Lemma pres2_Q1 s ac s' : Inv s -> Inv2 s -> step s ac = Some s' -> forall b, In b (q s') -> QP s' b.
Proof.
  intros Hi Hj H b Hb. destruct (IG _ Hi) as (G1 & G2 & G3 & G4 & G5 & G6).
  destruct (q_subset _ _ _ _ H Hb) as [Hold | (-> & a & -> & Epc)].
  - eapply (QP_stable isco); eauto using (Q1 _ Hj).
    intros a -> Ha E. destruct (Q2 _ Hj a Ha) as (_ & Hn). apply Hn. rewrite E. assumption.
  - clear Hb. step_cases H. unfold QP, waiting, halfgone, fresh; cbn. rewrite ?upd_eq. cbn. rewrite ?upd_eq. cbn.
    repeat split; auto.
Qed.

Lemma pres2_Q2 s ac s' : Inv s -> Inv2 s -> step s ac = Some s' ->
  forall x, apc (A s' x) = H2 -> QP s' (aw (A s' x)) /\ ~ In (aw (A s' x)) (q s').
Proof.
  intros Hi Hj H x Hx. destruct (IG _ Hi) as (G1 & G2 & G3 & G4 & G5 & G6).
  assert (Hcase : (apc (A s x) = H2 /\ aw (A s' x) = aw (A s x)) \/
                  (ac = Step x /\ apc (A s x) = H1 /\ exists l, q s = aw (A s' x) :: l /\ q s' = l)).
  { clear Hj. revert Hx. step_cases H; cbn; unfold set_pc; try destruct (actx (A s a)) eqn:Ectx; upd_tac; cbn; intros; try discriminate; eauto 6;
      try (left; split; [assumption|reflexivity]). }
  destruct Hcase as [(Hx0 & E) | (-> & Hx1 & l & E1 & E2)].
  - rewrite E. destruct (Q2 _ Hj x Hx0) as (HQ & Hn). pose proof (IA _ Hi x) as Ix. unfold ainv in Ix. destruct Ix as (_ & Ilt & _).
    split.
    + eapply (QP_stable isco); eauto. intros a -> Ha Ea. destruct (Nat.eq_dec a x) as [->|ne].
      * (* x itself steps from H2: then it is no longer at H2 afterwards *)
        clear - H Hx Hx0. step_cases H; cbn in Hx; rewrite upd_eq in Hx; cbn in Hx; congruence.
      * eapply not_flagging; eauto.
    + intro J. destruct (q_subset _ _ _ _ H J) as [J'|(J' & _)]; [tauto | lia].
  - pose proof (QN _ Hj) as HN. rewrite E1 in HN. inversion HN as [|? ? Hnin Hnd]. split.
    + eapply (QP_stable isco); eauto.
      * apply (Q1 _ Hj). rewrite E1. left; reflexivity.
      * apply G4. rewrite E1. left; reflexivity.
      * intros a Ea Ha. injection Ea as <-. congruence.
    + rewrite E2. assumption.
Qed.
End S.
