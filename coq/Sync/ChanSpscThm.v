(* Theorems about the spsc channel model: C06 / C07 statements for the spsc instance (both receiver
   kinds) on the current code, and the refutation of C07 (iii) for the code before the F6 repair. *)
From Coq Require Import List Arith Bool Lia.
Import ListNotations.
Require Import MayV.Sync.ChanSpscModel MayV.Sync.ChanSpscInv MayV.Sync.ChanSpscPres MayV.Sync.ChanSpscPres2.

Lemma inv_step s ac s' : Inv s -> step true s ac = Some s' -> Inv s'.
Proof.
  intros Hi H. constructor.
  - eapply pres_rc; eauto.
  - eapply pres_rdata; eauto.
  - eapply pres_tslot; eauto.
  - eapply pres_kslot; eauto.
  - eapply pres_c1; eauto.
  - eapply pres_c2; eauto.
  - eapply pres_c3; eauto.
  - eapply pres_c4; eauto.
  - eapply pres_s1; eauto.
  - eapply pres_s2; eauto.
  - eapply pres_s6; eauto.
  - eapply pres_acc; eauto.
  - eapply pres_drpd; eauto.
  - eapply pres_alive; eauto.
  - eapply pres_pd; eauto.
  - eapply pres_ord; eauto.
  - eapply pres_t5; eauto.
  - eapply pres_t6; eauto.
  - eapply pres_t7; eauto.
  - eapply pres_c6; eauto.
  - eapply pres_c7; eauto.
  - eapply pres_d1; eauto.
  - eapply pres_d2; eauto.
  - eapply pres_r1; eauto.
  - eapply pres_r2; eauto.
  - eapply pres_r3; eauto.
Qed.

Theorem inv_reach s : Reach true s -> Inv s.
Proof. induction 1; [apply inv_init | eapply inv_step; eauto]. Qed.

(* ---- C06 (i) ---- *)
Theorem spsc_accounting s : Reach true s -> sent s = rcvd s ++ drpd s ++ q s.
Proof. intro H. exact (I_acc _ (inv_reach _ H)). Qed.

(* the values pushed are 0, 1, 2, ... in this order: all distinct *)
Theorem spsc_sender_sequence s : Reach true s -> sent s = seq 0 (sn (Sn s)).
Proof. intro H. exact (I_ord _ (inv_reach _ H)). Qed.

Theorem spsc_exactly_once s : Reach true s ->
  NoDup (rcvd s ++ drpd s ++ q s) /\ (forall v, In v (sent s) <-> In v (rcvd s) \/ In v (drpd s) \/ In v (q s)).
Proof.
  intro H. pose proof (spsc_accounting s H) as E. split.
  - rewrite <- E, (spsc_sender_sequence s H). apply seq_NoDup.
  - intro v. rewrite E, !in_app_iff. tauto.
Qed.

Lemma prefix_of_seq l1 : forall l2 s n, l1 ++ l2 = seq s n -> l1 = seq s (length l1) /\ length l1 <= n.
Proof.
  induction l1 as [|x l1 IH]; intros l2 s n E; cbn; [split; [reflexivity | lia]|].
  destruct n as [|n]; cbn in E; [discriminate|]. inversion E; subst.
  destruct (IH _ _ _ H1) as [E1 L]. split; [f_equal; exact E1 | lia].
Qed.

(* the receiver got exactly 0, 1, ..., k-1 in this order *)
Theorem spsc_received_in_order s : Reach true s -> exists k, k <= sn (Sn s) /\ rcvd s = seq 0 k.
Proof.
  intro H. pose proof (spsc_sender_sequence s H) as E. rewrite (spsc_accounting s H) in E.
  destruct (prefix_of_seq _ _ _ _ E) as [E1 L]. eexists; split; [exact L | exact E1].
Qed.

Corollary spsc_order_full s : Reach true s ->
  sent s = seq 0 (sn (Sn s)) /\ exists k, k <= sn (Sn s) /\ rcvd s = seq 0 k.
Proof. intro H. split; [exact (spsc_sender_sequence s H) | exact (spsc_received_in_order s H)]. Qed.

(* ---- C06 (ii) / C07 (iii): no lost wake-up, both receiver kinds ---- *)

(* thread receiver: blocked in thread::park without a token while a value is queued or the sender is
   gone => the sender is about to take wait_co, or has taken the thread's blocker and will unpark it *)
Theorem spsc_thread_no_lost_wakeup s : Reach true s ->
  rp (R s) = RPark -> ttok s = false -> (q s <> [] \/ chans s = 0) ->
  sp (Sn s) = STake \/ (sp (Sn s) = SUnpark /\ sw (Sn s) = WT).
Proof.
  intros H W N C. pose proof (inv_reach _ H) as Hi.
  assert (Hreg : treg (R s) = true) by (unfold treg; rewrite W; reflexivity).
  destruct (I_tslot _ Hi Hreg) as [Sl|Sl].
  - assert (Sx : slot s <> None) by congruence. left. destruct C as [C|C].
    + apply (I_t6 _ Hi); auto. unfold t6reg. rewrite W. reflexivity.
    + apply (I_t7 _ Hi); auto.
  - destruct (I_t5 _ Hi) as [T|T]; auto. { unfold t5reg. rewrite W. reflexivity. } { congruence. }
    right. unfold holdsT in T. destruct (sp (Sn s)); try discriminate. destruct (sw (Sn s)); try discriminate. auto.
Qed.

(* coroutine receiver: suspended and not scheduled while a value is queued or the sender is gone =>
   the sender is about to take the coroutine out of wait_co, or holds it and will schedule it *)
Theorem spsc_coroutine_no_lost_wakeup s : Reach true s ->
  rp (R s) = RSusp -> runq s = false -> (q s <> [] \/ chans s = 0) ->
  sp (Sn s) = STake \/ (sp (Sn s) = SUnpark /\ sw (Sn s) = WC).
Proof.
  intros H W N C. pose proof (inv_reach _ H) as Hi.
  assert (Hreg : kreg (R s) = true) by (unfold kreg; rewrite W; reflexivity).
  destruct (I_c4 _ Hi Hreg) as [Sl|[T|T]].
  - left. destruct C as [C|C]; [apply (I_c6 _ Hi); auto | apply (I_c7 _ Hi); auto].
  - right. unfold holdsC in T. destruct (sp (Sn s)); try discriminate. destruct (sw (Sn s)); try discriminate. auto.
  - congruence.
Qed.

(* quiescent form (the sender has no step left): a blocked receiver faces an empty queue and a live sender *)
Corollary spsc_quiescent_not_stranded s : Reach true s -> sp (Sn s) = SIdle ->
  (rp (R s) = RPark /\ ttok s = false) \/ (rp (R s) = RSusp /\ runq s = false) -> q s = [] /\ chans s <> 0.
Proof.
  intros H Q W.
  assert (X : ~ (q s <> [] \/ chans s = 0)).
  { intro C. destruct W as [[W N]|[W N]].
    - destruct (spsc_thread_no_lost_wakeup s H W N C) as [E|[E _]]; congruence.
    - destruct (spsc_coroutine_no_lost_wakeup s H W N C) as [E|[E _]]; congruence. }
  split; [destruct (q s); [reflexivity | exfalso; apply X; left; discriminate] | intro; apply X; auto].
Qed.

(* the suspended coroutine is resumed at most once: it is in exactly one place *)
Theorem spsc_coroutine_single_resumption s : Reach true s ->
  (slotC s = true -> runq s = false /\ holdsC (Sn s) = false) /\ (holdsC (Sn s) = true -> runq s = false) /\
  (runq s = true -> rp (R s) = RSusp \/ rp (R s) = KEmpty \/ rp (R s) = KChans \/ rp (R s) = KTake).
Proof.
  intro H. pose proof (inv_reach _ H) as Hi. repeat split.
  - apply (I_c1 _ Hi); auto.
  - apply (I_c1 _ Hi); auto.
  - apply (I_c2 _ Hi); auto.
  - intro Rq. pose proof (I_c3 _ Hi Rq) as K. unfold kreg in K. destruct (rp (R s)); try discriminate; auto.
Qed.

(* ---- C07 (iii): disconnect ---- *)
Theorem spsc_disconnect_stable s ac s' : Reach true s -> step true s ac = Some s' -> chans s = 0 ->
  chans s' = 0 /\ (q s' = q s \/ q s' = tl (q s) \/ q s' = []).
Proof.
  intros H St C. pose proof (inv_reach _ H) as Hi. pose proof (I_s1 _ Hi) as P1. pose proof (I_s2 _ Hi) as P2.
  step_cases St; boolh; unf; prj; try (split; [assumption | auto]); try congruence.
  all: try (rewrite Eq; cbn; auto).
  all: rw; try (assert (chans s = 1) by auto; congruence).
Qed.

Theorem spsc_disconnected_means_drained s : Reach true s ->
  rp (R s) = RIdle -> rres (R s) = RDisc -> chans s = 0 /\ q s = [].
Proof. intros H P E. apply (I_d2 _ (inv_reach _ H)). right. auto. Qed.

(* a call that starts after the sender is gone never blocks (neither parks the thread nor yields the
   coroutine) and answers a value or Disconnected, not Empty *)
Theorem spsc_call_after_disconnect s : Reach true s -> rdead (R s) = true ->
  chans s = 0 /\
  match rp (R s) with RPark | RSusp | KStore | KEmpty | KChans | KTake | KRun | RStore => False | _ => True end /\
  (rp (R s) = RIdle -> match rres (R s) with REmpty => False | _ => True end).
Proof.
  intros H D. pose proof (inv_reach _ H) as Hi. repeat split.
  - apply (I_r1 _ Hi D).
  - apply (I_r2 _ Hi D).
  - apply (I_r3 _ Hi D).
Qed.

(* ---- C07 (iv) ---- *)
Theorem spsc_port_dropped_flag s : Reach true s -> ralive (R s) = false -> pdrop s = true.
Proof. intros H D. apply (I_pd _ (inv_reach _ H)). auto. Qed.

Theorem spsc_send_after_port_drop s : Reach true s -> sdead (Sn s) = true ->
  sp (Sn s) = SChk \/ (sp (Sn s) = SIdle /\ sres (Sn s) = false).
Proof. intros H D. apply (I_s6 _ (inv_reach _ H) D). Qed.

Corollary spsc_receiver_gone s : Reach true s ->
  (ralive (R s) = false -> pdrop s = true) /\
  (sdead (Sn s) = true -> sp (Sn s) = SChk \/ (sp (Sn s) = SIdle /\ sres (Sn s) = false)).
Proof. intro H. split; [exact (spsc_port_dropped_flag s H) | exact (spsc_send_after_port_drop s H)]. Qed.

(* ---- the code before the F6 repair: the coroutine receiver hangs although the sender is gone ---- *)
Definition stuck (s : st) : Prop :=
  rp (R s) = RSusp /\ runq s = false /\ sp (Sn s) = SIdle /\ salive (Sn s) = false.

(* the receiver fails its try_recv (sender alive), the sender is dropped (finds wait_co empty), then
   the kernel half stores the coroutine and re-checks only the queue *)
Definition sch_f6 : list action := [Recv true; RStep; RStep; DropChan; SStep; SStep; RStep; RStep].

Theorem recv_hang_refuted :
  exists s, Reach false s /\ stuck s /\ chans s = 0 /\ q s = [] /\ slot s = Some WC.
Proof.
  exists (run false init sch_f6). split; [apply reach_run; constructor | vm_compute; intuition].
Qed.

(* in a stuck state no action is enabled any more except calls the dead endpoints cannot make: the
   receiver never returns *)
Theorem recv_hang_is_final :
  forall ac, step false (run false init sch_f6) ac = None.
Proof. intro ac. destruct ac; try destruct co; vm_compute; reflexivity. Qed.

(* the same schedule on the current code: the re-check sees channels == 0, takes the coroutine back
   and the call answers Disconnected *)
Example f6_schedule_now_disconnects :
  let s := run true init (sch_f6 ++ [RStep; RStep; RStep; RStep; RStep; RStep]) in
  Reach true s /\ rp (R s) = RIdle /\ rres (R s) = RDisc.
Proof. split; [apply reach_run; constructor | vm_compute; auto]. Qed.

(* non-vacuity *)
Example spsc_thread_wake :
  let s := run true init [Recv false; RStep; RStep; RStep; RStep; RStep; Send; SStep; SStep] in
  Reach true s /\ rp (R s) = RPark /\ ttok s = false /\ q s = [0] /\ sp (Sn s) = STake.
Proof. split; [apply reach_run; constructor | vm_compute; auto]. Qed.

Example spsc_coroutine_wake_delivers :
  let s := run true init [Recv true; RStep; RStep; RStep; RStep; RStep; Send; SStep; SStep; SStep; SStep; Worker; RStep] in
  Reach true s /\ rp (R s) = RIdle /\ rres (R s) = ROk 0 /\ rcvd s = [0].
Proof. split; [apply reach_run; constructor | vm_compute; auto]. Qed.
