(* layer 4 of the Condvar invariant: delivery of the wake-up token to a flagged blocker *)
From Coq Require Import List Arith ZArith Bool Lia.
Import ListNotations.
Require Import MayV.Sync.CondvarModel MayV.Sync.CondvarInv MayV.Sync.CondvarTac MayV.Sync.CondvarL1 MayV.Sync.CondvarL2 MayV.Sync.CondvarL3.
Open Scope Z_scope.

(* actor x is inside the waiting region of wait_impl (registered, has not come back from park) with blocker b *)
Definition waiting (x : act) (b : nat) : Prop :=
  (apc x = W2 \/ apc x = N1 \/ apc x = WP \/ apc x = WW) /\ ab x = b.

Record Inv4 (s : st) : Prop := {
  T_unf : forall b, unp (Bk s b) = false -> tokd (Bk s b) = false;
  T_flg : forall b, In b (flg s) -> unp (Bk s b) = true /\ tokd (Bk s b) = false /\
                    (apc (A s (bagent (Bk s b))) = K3 \/ apc (A s (bagent (Bk s b))) = A3) /\ aw (A s (bagent (Bk s b))) = b;
  T_cov : forall b, unp (Bk s b) = true -> tokd (Bk s b) = false -> In b (flg s);
  T_dlv : forall b, tokd (Bk s b) = true -> tok (Bk s b) = false -> ~ waiting (A s (owner (Bk s b))) b }.

Lemma inv4_init : Inv4 init.
Proof. constructor; unfold waiting; cbn; intros; try tauto; try discriminate; auto; intuition discriminate. Qed.

Lemma l4_unf s ac s' : Inv1 s -> Inv2 s -> Inv3 s -> Inv4 s -> step s ac = Some s' ->
  forall b, unp (Bk s' b) = false -> tokd (Bk s' b) = false.
Proof.
  intros H1 H2 H3 Hi H. destruct ac; step_cases0 H; simp_st; try exact (T_unf _ Hi).
  all: intros b; pose proof (T_unf _ Hi b) as Tb; pose proof (O_k3 _ H3 a) as Ok3; pose proof (R_fresh _ H1 (nextb s) (le_n _)) as Rf.
  all: upd_tac; simp_act; cl; try rewrite Rf in *; cbn [unp tokd fresh] in *; fin.
Qed.

Lemma l4_flg s ac s' : Inv1 s -> Inv2 s -> Inv3 s -> Inv4 s -> step s ac = Some s' ->
  forall b, In b (flg s') -> unp (Bk s' b) = true /\ tokd (Bk s' b) = false /\
            (apc (A s' (bagent (Bk s' b))) = K3 \/ apc (A s' (bagent (Bk s' b))) = A3) /\ aw (A s' (bagent (Bk s' b))) = b.
Proof.
  intros H1 H2 H3 Hi H. destruct ac; step_cases0 H; simp_st; try exact (T_flg _ Hi).
  all: intros b; pose proof (T_flg _ Hi b) as Tb; pose proof (R_flg _ H1 b) as Rb; pose proof (R_a _ H1 a) as Ra.
  all: try (pose proof (F_k2 _ H2 a) as Fk; pose proof (T_unf _ Hi (aw (A s a))) as Tw; rewrite Epc in Fk; cbn [cls_of] in Fk).
  all: upd_tac; simp_act; lists; upd_tac; simp_act_all; fin.
Qed.

Lemma l4_cov s ac s' : Inv1 s -> Inv2 s -> Inv3 s -> Inv4 s -> step s ac = Some s' ->
  forall b, unp (Bk s' b) = true -> tokd (Bk s' b) = false -> In b (flg s').
Proof.
  intros H1 H2 H3 Hi H. destruct ac; step_cases0 H; simp_st; try exact (T_cov _ Hi).
  all: intros b; pose proof (T_cov _ Hi b) as Tb; pose proof (R_fresh _ H1 (nextb s) (le_n _)) as Rf.
  all: upd_tac; simp_act; lists; try rewrite Rf in *; cbn [unp tokd fresh] in *; fin.
Qed.

Lemma l4_dlv s ac s' : Inv1 s -> Inv2 s -> Inv3 s -> Inv4 s -> step s ac = Some s' ->
  forall b, tokd (Bk s' b) = true -> tok (Bk s' b) = false -> ~ waiting (A s' (owner (Bk s' b))) b.
Proof.
  intros H1 H2 H3 Hi H. destruct ac; step_cases H; simp_st; try exact (T_dlv _ Hi).
  all: intros b; pose proof (T_dlv _ Hi b) as Tb; pose proof (R_fresh _ H1 (nextb s) (le_n _)) as Rf; pose proof (O_owner _ H3 a) as Oa; pose proof (R_a _ H1 a) as Ra.
  all: unfold waiting in *; upd_tac; simp_act; upd_tac; simp_act_all; try rewrite Rf in *; cbn [tok tokd owner fresh] in *.
  all: repeat match goal with e : owner _ = _ |- _ => rewrite e in * end.
  all: try match goal with E : apc (A _ _) = _ |- _ => rewrite E in * end; cbn [cls_of owns] in *; fin.
Qed.

Lemma inv4_step s ac s' : Inv1 s -> Inv2 s -> Inv3 s -> Inv4 s -> step s ac = Some s' -> Inv4 s'.
Proof.
  intros H1 H2 H3 Hi H. constructor.
  - eapply l4_unf; eauto.
  - eapply l4_flg; eauto.
  - eapply l4_cov; eauto.
  - eapply l4_dlv; eauto.
Qed.

Lemma inv4_reach s : Reach s -> Inv4 s.
Proof. intro R. induction R; [apply inv4_init | eapply inv4_step; eauto using inv1_reach, inv2_reach, inv3_reach]. Qed.
