From Coq Require Import List Arith ZArith Bool Lia.
Import ListNotations.
Require Import MayV.Sync.FlagModel.
Open Scope Z_scope.

Section I.
Variable MAX : Z.
Hypothesis MAXpos : 0 < MAX.
Notation step := (step MAX).
Notation Reach := (Reach MAX).

Definition ainv (s : st) (a : nat) : Prop :=
  let x := A s a in
  (ab x < nextb s)%nat /\ (aw x < nextb s)%nat /\
  (In a (infl s) <-> (apc x = W1 \/ apc x = W2)) /\
  match apc x with
  | A1 | A2 => ufired s = true
  | A3 | A4 => ufired s = true /\ unp (Bk s (aw x)) = true
  | F0 => (actx x = RUser /\ dep x = O) \/ ufired s = true
  | E4 => unp (Bk s (ab x)) = true
  | _ => True
  end.

Definition binv (s : st) (b : nat) : Prop :=
  let k := Bk s b in
  (unp k = true -> ufired s = true) /\ (tok k = true -> unp k = true) /\ (reason k = Some RU -> unp k = true) /\
  ((nextb s <= b)%nat -> unp k = false /\ tok k = false /\ reason k = None).

Definition ginv (s : st) : Prop :=
  (0 < cnt s -> ufired s = true) /\ cnt s <= MAX /\
  (ufired s = true -> fbound s < MAX -> MAX - fbound s <= cnt s - nl (infl s)) /\
  NoDup (infl s) /\ (forall a, In (a, true) (obs s) -> ufired s = true) /\ (forall b, In b (q s) -> (b < nextb s)%nat).

Record Inv (s : st) : Prop := { IA : forall a, ainv s a; IB : forall b, binv s b; IG : ginv s }.

Lemma upd_eq {X} (f : nat -> X) i v : upd f i v i = v.
Proof. unfold upd. now rewrite Nat.eqb_refl. Qed.
Lemma upd_neq {X} (f : nat -> X) i j v : j <> i -> upd f i v j = f j.
Proof. unfold upd. intros H. destruct (Nat.eqb_spec j i); congruence. Qed.
Lemma nl_cons x l : nl (x :: l) = nl l + 1.
Proof. unfold nl. cbn [length]. lia. Qed.
Lemma nl_rm x l : NoDup l -> In x l -> nl (rm x l) = nl l - 1.
Proof.
  unfold nl, rm. intros N I.
  assert (H : length (remove Nat.eq_dec x l) = (length l - 1)%nat).
  { induction l as [|y l IH]; cbn; [tauto|]. inversion N; subst. destruct (Nat.eq_dec x y).
    - subst. rewrite notin_remove by assumption. lia.
    - destruct I as [->|I]; [congruence|]. cbn. rewrite IH by assumption. destruct l; [destruct I | cbn; lia]. }
  rewrite H. destruct l; [destruct I | cbn [length]; lia].
Qed.
Lemma nodup_rm x l : NoDup l -> NoDup (rm x l).
Proof.
  unfold rm. induction l as [|y l IH]; cbn; intros N; [constructor|]. inversion N; subst.
  destruct (Nat.eq_dec x y); auto. constructor; auto. intro I. apply in_remove in I. tauto.
Qed.
Lemma in_rm x y l : In y (rm x l) <-> In y l /\ y <> x.
Proof. unfold rm. split; [apply in_remove | intros [P Q]; apply in_in_remove; auto]. Qed.
Lemma nl_nonneg l : 0 <= nl l. Proof. unfold nl. lia. Qed.

Lemma inv_init : Inv (init).
Proof.
  constructor.
  - intro a. unfold ainv; cbn. repeat split; auto; try lia; try tauto; try (intros [H|H]; discriminate).
  - intro b. unfold binv; cbn. repeat split; intros; try discriminate; auto.
  - unfold ginv, nl; cbn. repeat split; try constructor; try lia; try discriminate; try tauto.
Qed.

Ltac inv_some :=
  match goal with H : Some _ = Some _ |- _ => inversion H; subst; clear H end.
Ltac step_cases H :=
  unfold FlagModel.step in H;
  repeat match type of H with
  | context [match ?ac with Wait _ _ => _ | IsFired _ => _ | Fire _ => _ | Step _ => _ | Tmo _ => _ end] => destruct ac
  | context [match apc ?x with _ => _ end] => let E := fresh "Epc" in destruct (apc x) eqn:E
  | context [if ?c then _ else _] => let E := fresh "Ec" in destruct c eqn:E
  | context [match q ?s with _ => _ end] => let E := fresh "Eq" in destruct (q s) eqn:E
  | context [match dep ?x with _ => _ end] => let E := fresh "Ed" in destruct (dep x) eqn:E
  | context [match reason ?b with _ => _ end] => let E := fresh "Er" in destruct (reason b) eqn:E
  | context [match ?r with RU => _ | RT => _ end] => destruct r
  end; try discriminate; inv_some.
Ltac num :=
  repeat match goal with
  | H : (_ <? _) = true |- _ => apply Z.ltb_lt in H
  | H : (_ <? _) = false |- _ => apply Z.ltb_ge in H
  end.
Ltac upd_tac :=
  repeat match goal with
  | |- context [upd ?f ?i ?v ?j] =>
      first [ rewrite (upd_eq f i v) | rewrite (upd_neq f i j v) by congruence
            | let e := fresh "e" in let ne := fresh "ne" in
              destruct (Nat.eq_dec j i) as [e|ne];
              [ rewrite e; rewrite (upd_eq f i v) | rewrite (upd_neq f i j v ne) ] ]
  end.
Ltac brk := repeat match goal with
  | H : _ /\ _ |- _ => destruct H
  | H : ?a = ?a -> _ |- _ => specialize (H eq_refl)
  | H : ?P -> _, H' : ?P |- _ => match type of P with Prop => specialize (H H') end
  | H : true = false -> _ |- _ => clear H
  | H : false = true -> _ |- _ => clear H
  | H : (?n <= ?n)%nat -> _ |- _ => specialize (H (le_n _))
  | E : actx ?x = _, H : context [actx ?x] |- _ => rewrite E in H; cbn in H
  | E : apc ?x = _, H : context [apc ?x] |- _ => rewrite E in H; cbn in H
  end.
Ltac a_facts Hi a :=
  let Ha := fresh "Ha" in
  pose proof (IA _ Hi a) as Ha; unfold ainv in Ha;
  try match goal with E : apc (A _ a) = _ |- _ => rewrite E in Ha end;
  cbn in Ha; brk.
Ltac b_facts Hi b :=
  let Hb := fresh "Hb" in
  pose proof (IB _ Hi b) as Hb; unfold binv in Hb; cbn in Hb; brk.
Ltac g_facts Hi :=
  let G := fresh "G" in pose proof (IG _ Hi) as G; unfold ginv in G; brk.
Ltac lists := rewrite ?nl_cons, ?in_rm, ?in_app_iff in *; cbn [In] in *.
Ltac mem := solve [ assumption | intuition (auto; try congruence; try discriminate; try lia) ].
Ltac nd := repeat match goal with
  | |- NoDup (_ :: _) => constructor
  | |- NoDup (rm _ _) => apply nodup_rm
  end; auto.
Ltac prj := cbn [cnt q nextb A Bk ufired fbound infl obs mk apc ab aw actx atimed dep ares tok parked reason unp rel owner fresh].

Lemma pres_G s ac s' : Inv s -> step s ac = Some s' -> ginv s'.
Proof.
  intros Hi H. g_facts Hi.
  step_cases H; unfold ginv; prj; num.
  all: try match goal with E : apc _ = F0 |- _ =>
         destruct (actx (A s a)) eqn:Ectx; destruct (dep (A s a)) eqn:Edep; destruct (ufired s) eqn:Euf end.
  all: a_facts Hi a; b_facts Hi (ab (A s a)); b_facts Hi (aw (A s a)).
  all: pose proof (nl_nonneg (infl s)).
  all: try rewrite nl_cons; try (rewrite (nl_rm a (infl s)) by mem).
  all: repeat match goal with |- _ /\ _ => split end; intros; lists; nd; try mem; try solve [eauto].
  all: try match goal with H : _ = (_, true) \/ _ |- _ => destruct H as [H|H]; [try discriminate; try congruence | eauto] end.
  all: try match goal with H : (_, _) = (_, true) |- _ => injection H as _ Hc; apply Z.ltb_lt in Hc; auto end.
  all: try match goal with Q : forall b, In b (q _) -> _ , I : In _ (q _) |- _ => apply Q in I; lia end.
  all: try match goal with Q : forall b, In b (_ :: _) -> _ |- _ => apply Q; cbn [In]; tauto end.
  all: try match goal with Q : forall b, In b (q _) -> _ , I : In _ (q _) \/ _ |- _ => destruct I as [I|[I|[]]]; [apply Q in I|]; lia end.
Qed.

Lemma pres_B s ac s' b' : Inv s -> step s ac = Some s' -> binv s' b'.
Proof.
  intros Hi H. g_facts Hi. pose proof (IB _ Hi b') as Hb'. unfold binv in Hb'. cbn zeta in Hb'.
  step_cases H; unfold binv; prj; try exact Hb'.
  all: try match goal with E : apc (A ?s ?a) = F0 |- _ => destruct (actx (A s a)) eqn:Ectx end.
  all: a_facts Hi a; b_facts Hi (ab (A s a)); b_facts Hi (aw (A s a)); b_facts Hi (nextb s).
  all: upd_tac; prj; lists.
  all: repeat match goal with e : ?v = _ |- _ => is_var v; subst v end.
  all: brk; repeat match goal with |- _ /\ _ => split end; intros; brk; try mem.
  match goal with H : (nextb s <= b')%nat -> _ |- _ => apply H; lia end.
Qed.

Lemma pres_A s ac s' a' : Inv s -> step s ac = Some s' -> ainv s' a'.
Proof.
  intros Hi H. g_facts Hi. pose proof (IA _ Hi a') as Ha'. unfold ainv in Ha'. cbn zeta in Ha'.
  step_cases H; unfold ainv, set_pc, set_res; prj; num.
  all: try match goal with E : apc (A ?s ?a) = F0 |- _ => destruct (actx (A s a)) eqn:Ectx end.
  all: try match goal with E : apc (A ?s ?a) = A1 |- _ => destruct (actx (A s a)) eqn:Ectx end.
  all: destruct Ha' as (L1 & L2 & L3 & L4).
  all: a_facts Hi a; b_facts Hi (ab (A s a)); b_facts Hi (aw (A s a)); b_facts Hi (ab (A s a')); b_facts Hi (aw (A s a')).
  all: upd_tac; prj; cbn [ret_pc]; lists.
  all: repeat match goal with e : ?v = _ |- _ => is_var v; subst v end.
  all: try (destruct (apc (A s a')) eqn:Epc').
  all: repeat match goal with |- context [upd ?f ?i ?v ?j] => destruct (Nat.eq_dec j i); [ match goal with e : _ = _ |- _ => rewrite e; rewrite upd_eq end | rewrite upd_neq by assumption ] end; prj.
  all: brk; repeat match goal with |- _ /\ _ => split end; intros; brk; try lia; try mem.
  all: try match goal with Q : forall b, In b (_ :: _) -> _ |- _ => apply Q; cbn [In]; tauto end.
Qed.

Lemma inv_step s ac s' : Inv s -> step s ac = Some s' -> Inv s'.
Proof.
  intros Hi H. constructor; [intro a; eapply pres_A | intro b; eapply pres_B | eapply pres_G]; eauto.
Qed.
Lemma inv_reach s : Reach s -> Inv s.
Proof. induction 1; [apply inv_init | eapply inv_step; eauto]. Qed.

(* C10.v, first half: the flag is never set spuriously -- the counter is positive, and a wait()
   or is_fired() has returned true, only after some user-level fire() has executed its store *)
Theorem no_spurious_fire s : Reach s -> (0 < cnt s -> ufired s = true) /\ (forall a, In (a, true) (obs s) -> ufired s = true).
Proof. intros R. destruct (IG _ (inv_reach _ R)) as (G1 & _ & _ & _ & G5 & _). split; assumption. Qed.

(* C10.v, second half: a latch -- once a user-level fire() has executed its store the counter stays
   positive in every later state (so every later is_fired() answers true and every later wait()
   returns at its first check), provided fewer than MAX waiters were in flight at that store *)
Theorem fired_stays_fired s : Reach s -> ufired s = true -> fbound s < MAX -> 0 < cnt s.
Proof.
  intros R U B. destruct (IG _ (inv_reach _ R)) as (_ & _ & G3 & _). specialize (G3 U B).
  pose proof (nl_nonneg (infl s)). lia.
Qed.
End I.


(* non-vacuity: a waiter parks, a user fires, the waiter is woken and returns true, is_fired says true *)
Definition sch := [Wait 0%nat false; Step 0%nat; Step 0%nat; Step 0%nat; Step 0%nat;
                   Fire 1%nat; Step 1%nat; Step 1%nat; Step 1%nat; Step 1%nat; Step 1%nat; Step 1%nat; Step 0%nat;
                   IsFired 2%nat; Step 2%nat].
Lemma reach_run M l s : Reach M s -> Reach M (run M s l).
Proof.
  revert s. induction l as [|a l IH]; cbn [run]; intros s R; [exact R|].
  destruct (step M s a) eqn:E; [apply IH; eapply RS; eauto | apply IH; exact R].
Qed.
Example latch_somewhere :
  let s := run 9223372036854775807 init sch in
  Reach 9223372036854775807 s /\ ufired s = true /\ fbound s = 0 /\ cnt s = 9223372036854775807 /\ obs s = [(2%nat, true); (0%nat, true)].
Proof. cbv zeta. split; [apply reach_run; constructor | vm_compute; auto]. Qed.
