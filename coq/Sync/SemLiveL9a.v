(* Preservation of the overlay invariant of SemLive.v, clause L9 (success and failure exclude each other): the cases env, W0, W0c, W1, W2, WP, WW, E1, E2, E3, E4
   (env = the actions other than Step).  Script in SemLiveTac.v; assembled in SemLiveE.v. *)
From Coq Require Import List Arith ZArith Bool Lia.
Import ListNotations.
Require Import MayV.Sync.SemModel MayV.Sync.SemInv MayV.Sync.SemTac MayV.Sync.SemCase MayV.Sync.SemLive MayV.Sync.SemLiveTac.
Open Scope Z_scope.

Lemma pres_L9_env s o ac s' : Inv s -> LInv s o -> is_step ac = false -> step s ac = Some s' -> L9 s' (lstep s o ac).
Proof.
  intros Hi HL Hn H. l9_pre HL.
  destruct ac as [a t|a|a|a|a|a]; try discriminate Hn; g_facts Hi; step_cases H; ostep_red; prj.
  all: l9_script Hi s a P7 P8 P9.
Qed.

Lemma pres_L9_W0 s o a s' : Inv s -> LInv s o -> apc (A s a) = W0 -> step s (Step a) = Some s' -> L9 s' (lstep s o (Step a)).
Proof. intros Hi HL Epc H. l9_pre HL. lsetup_at Hi H Epc. all: l9_script Hi s a P7 P8 P9. Qed.

Lemma pres_L9_W0c s o a s' : Inv s -> LInv s o -> apc (A s a) = W0c -> step s (Step a) = Some s' -> L9 s' (lstep s o (Step a)).
Proof. intros Hi HL Epc H. l9_pre HL. lsetup_at Hi H Epc. all: l9_script Hi s a P7 P8 P9. Qed.

Lemma pres_L9_W1 s o a s' : Inv s -> LInv s o -> apc (A s a) = W1 -> step s (Step a) = Some s' -> L9 s' (lstep s o (Step a)).
Proof. intros Hi HL Epc H. l9_pre HL. lsetup_at Hi H Epc. all: l9_script Hi s a P7 P8 P9. Qed.

Lemma pres_L9_W2 s o a s' : Inv s -> LInv s o -> apc (A s a) = W2 -> step s (Step a) = Some s' -> L9 s' (lstep s o (Step a)).
Proof. intros Hi HL Epc H. l9_pre HL. lsetup_at Hi H Epc. all: l9_script Hi s a P7 P8 P9. Qed.

Lemma pres_L9_WP s o a s' : Inv s -> LInv s o -> apc (A s a) = WP -> step s (Step a) = Some s' -> L9 s' (lstep s o (Step a)).
Proof. intros Hi HL Epc H. l9_pre HL. lsetup_at Hi H Epc. all: l9_script Hi s a P7 P8 P9. Qed.

Lemma pres_L9_WW s o a s' : Inv s -> LInv s o -> apc (A s a) = WW -> step s (Step a) = Some s' -> L9 s' (lstep s o (Step a)).
Proof. intros Hi HL Epc H. l9_pre HL. lsetup_at Hi H Epc. all: l9_script Hi s a P7 P8 P9. Qed.

Lemma pres_L9_E1 s o a s' : Inv s -> LInv s o -> apc (A s a) = E1 -> step s (Step a) = Some s' -> L9 s' (lstep s o (Step a)).
Proof. intros Hi HL Epc H. l9_pre HL. lsetup_at Hi H Epc. all: l9_script Hi s a P7 P8 P9. Qed.

Lemma pres_L9_E2 s o a s' : Inv s -> LInv s o -> apc (A s a) = E2 -> step s (Step a) = Some s' -> L9 s' (lstep s o (Step a)).
Proof. intros Hi HL Epc H. l9_pre HL. lsetup_at Hi H Epc. all: l9_script Hi s a P7 P8 P9. Qed.

Lemma pres_L9_E3 s o a s' : Inv s -> LInv s o -> apc (A s a) = E3 -> step s (Step a) = Some s' -> L9 s' (lstep s o (Step a)).
Proof. intros Hi HL Epc H. l9_pre HL. lsetup_at Hi H Epc. all: l9_script Hi s a P7 P8 P9. Qed.

Lemma pres_L9_E4 s o a s' : Inv s -> LInv s o -> apc (A s a) = E4 -> step s (Step a) = Some s' -> L9 s' (lstep s o (Step a)).
Proof. intros Hi HL Epc H. l9_pre HL. lsetup_at Hi H Epc. all: l9_script Hi s a P7 P8 P9. Qed.
