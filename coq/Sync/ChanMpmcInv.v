(* Inductive invariant of the mpmc channel model (ChanMpmcModel) for the current code
   (fix7 = fix7b = true), and the tactics used to prove it. *)
From Coq Require Import List Arith Bool Lia.
Import ListNotations.
Require Import MayV.Sync.ChanMpmcModel.

Lemma reach_run f g h l : forall s, Reach f g h s -> Reach f g h (run f g h s l).
Proof.
  induction l as [|a l IH]; cbn [run]; intros s Hr; [exact Hr|].
  destruct (step f g h s a) eqn:E; [apply IH; eapply RS; eauto | apply IH; exact Hr].
Qed.

Definition from (a : nat) (v : val) : bool := Nat.eqb (fst v) a.
(* the last sender is between its get_value and its post *)
Definition g1of (s : st) : nat :=
  match dropper s with Some a => match sp (Sd s a) with G1 => 1 | _ => 0 end | None => 0 end.
Definition inrep (p : rpc) : bool := match p with Y3s | Y4s | Y3n | Y4n => true | _ => false end.
Definition rbusy (p : rpc) : bool := match p with Y0 | Y1 | Y0b | W0 | WB | Y2 | Y3s | Y4s | Y3n | Y4n | XA | X0 => true | _ => false end.
Definition sbusy (p : spc) : bool := match p with M0 | M1 | M2 | MA | MS => true | _ => false end.

Definition rinv (s : st) (r : nat) : Prop :=
  let x := Rv s r in
  (In r (hold s) <-> rp x = Y2 \/ (rp x = WB /\ rgr x = true)) /\
  (In r (wq s) <-> rp x = WB /\ rgr x = false) /\
  (In r (rep s) <-> inrep (rp x) = true) /\
  (rbusy (rp x) = true -> rst x = Alive) /\
  (rst x = Alive <-> In r (liver s)) /\
  (rst x = Unborn -> rp x = YIdle) /\
  (rp x = Y3n \/ rp x = Y4n \/ rp x = Y4s \/ rp x = Y0b -> txp s = 0) /\
  rp x <> RPanic /\
  (rdead x = true -> txp s = 0 /\ rp x <> W0 /\ rp x <> WB /\
                     (rp x = YIdle -> match rres x with REmpty | RTimeout => False | _ => True end)) /\
  (rp x = YIdle -> rres x = RDisc -> txp s = 0) /\
  (rp x = X1 -> rxp s = 0) /\
  (rp x = Y3n \/ rp x = Y4n -> q s = []).

Definition sinv (s : st) (a : nat) : Prop :=
  let y := Sd s a in
  (In a (pend s) <-> sp y = M2) /\
  (sbusy (sp y) = true -> sst y = Alive) /\
  (sst y = Alive <-> In a (livet s)) /\
  (sst y = Unborn -> sp y = SIdle) /\
  (sdead y = true -> rxp s = 0 /\ (sp y = M0 \/ (sp y = SIdle /\ sres y = false))) /\
  (sp y = G0 \/ sp y = G1 -> dropper s = Some a).

Record Inv (s : st) : Prop := {
  I_R : forall r, rinv s r;
  I_S : forall a, sinv s a;
  I_nd : NoDup (hold s) /\ NoDup (wq s) /\ NoDup (rep s) /\ NoDup (pend s) /\ NoDup (livet s) /\ NoDup (liver s);
  I_cnt : txp s = length (livet s) /\ rxp s = length (liver s);
  I_sem : sv s <> 0 -> wq s = [];
  I_drop : forall a, dropper s = Some a -> (sp (Sd s a) = G0 \/ sp (Sd s a) = G1) /\ txp s = 0;
  (* permits: while a sender exists every permit stands for a queued value *)
  I_e1 : txp s <> 0 -> length (q s) <= sv s + length (hold s) + length (pend s) /\
                       (rxp s <> 0 -> sv s + length (hold s) + length (pend s) <= length (q s));
  (* after the last sender: permits are never destroyed, one is left over for the disconnect *)
  I_j1 : txp s = 0 -> length (q s) <= sv s + length (hold s) + length (rep s) + g1of s;
  I_j2 : txp s = 0 -> dropper s = None -> 1 <= sv s + length (hold s) + length (rep s);
  (* accounting *)
  I_acc : sent s = map snd (rlog s) ++ drpd s ++ q s;
  I_drpd : rxp s <> 0 -> drpd s = [];
  I_ord : forall a, filter (from a) (sent s) = map (pair a) (seq 0 (sn (Sd s a)))
}.

(* ------------------------------------------------------------------------------------------ *)
Lemma upd_eq {X} (f : nat -> X) i v : upd f i v i = v.
Proof. unfold upd. now rewrite Nat.eqb_refl. Qed.
Lemma upd_neq {X} (f : nat -> X) i j v : j <> i -> upd f i v j = f j.
Proof. unfold upd. intros H. destruct (Nat.eqb_spec j i); congruence. Qed.
Lemma in_rm x y l : In y (rm x l) <-> In y l /\ y <> x.
Proof. unfold rm. split; [apply in_remove | intros [A B]; apply in_in_remove; auto]. Qed.
Lemma nodup_rm x l : NoDup l -> NoDup (rm x l).
Proof.
  unfold rm. induction l as [|y l IH]; cbn; intros N; [constructor|]. inversion N; subst.
  destruct (Nat.eq_dec x y); auto. constructor; auto. intro I. apply in_remove in I. tauto.
Qed.
Lemma len_rm x l : NoDup l -> In x l -> S (length (rm x l)) = length l.
Proof.
  unfold rm. induction l as [|y l IH]; cbn; intros N I; [tauto|]. inversion N; subst.
  destruct (Nat.eq_dec x y).
  - subst. rewrite notin_remove by assumption. reflexivity.
  - destruct I as [->|I]; [congruence|]. cbn. rewrite IH by assumption. reflexivity.
Qed.
Lemma rm_notin x l : ~ In x l -> rm x l = l.
Proof. intros. unfold rm. apply notin_remove. assumption. Qed.
Lemma nodup_snoc (l : list nat) n : NoDup l -> ~ In n l -> NoDup (l ++ [n]).
Proof.
  induction l as [|x l IH]; cbn; intros N I; [constructor; [tauto|constructor]|].
  inversion N; subst. constructor; [|apply IH; tauto]. rewrite in_app_iff. cbn. intuition congruence.
Qed.
Lemma is0_true n : is0 n = true -> n = 0.
Proof. unfold is0. apply Nat.eqb_eq. Qed.
Lemma is0_false n : is0 n = false -> n <> 0.
Proof. unfold is0. apply Nat.eqb_neq. Qed.
Lemma r_ready_true x : r_ready x = true -> rp x = YIdle /\ rst x = Alive.
Proof. unfold r_ready. destruct (rp x); try discriminate. destruct (rst x); try discriminate. auto. Qed.
Lemma s_ready_true y : s_ready y = true -> sp y = SIdle /\ sst y = Alive.
Proof. unfold s_ready. destruct (sp y); try discriminate. destruct (sst y); try discriminate. auto. Qed.
Lemma nil_of_notin {X} (l : list X) : (forall x, ~ In x l) -> l = [].
Proof. destruct l; auto. intro H. exfalso. apply (H x). now left. Qed.
Lemma single_live (l : list nat) a b : length l = 1 -> In a l -> In b l -> a = b.
Proof. destruct l as [|x [|y l]]; cbn; try discriminate; intros _ [->|[]] [->|[]]; reflexivity. Qed.

Ltac inv_some := match goal with H : Some _ = Some _ |- _ => inversion H; subst; clear H end.
Ltac step_cases H :=
  unfold step in H;
  repeat match type of H with
  | context [match ?ac with TryRecv _ => _ | Recv _ _ => _ | CloneRx _ _ => _ | DropRx _ => _ | RStep _ => _ | Fire _ _ => _
                          | Send _ => _ | CloneTx _ _ => _ | DropTx _ => _ | SStep _ => _ | Free => _ end] => destruct ac
  | context [r_ready ?x] => let E := fresh "Erd" in destruct (r_ready x) eqn:E
  | context [s_ready ?y] => let E := fresh "Erd" in destruct (s_ready y) eqn:E
  | context [match rp ?x with _ => _ end] => let E := fresh "Erp" in destruct (rp x) eqn:E
  | context [match sp ?y with _ => _ end] => let E := fresh "Esp" in destruct (sp y) eqn:E
  | context [match q ?s with _ => _ end] => let E := fresh "Eq" in destruct (q s) eqn:E
  | context [match sv ?s with _ => _ end] => let E := fresh "Esv" in destruct (sv s) eqn:E
  | context [match txp ?s with _ => _ end] => let E := fresh "Etx" in destruct (txp s) eqn:E
  | context [match rxp ?s with _ => _ end] => let E := fresh "Erx" in destruct (rxp s) eqn:E
  | context [match rst ?y with _ => _ end] => let E := fresh "Est" in destruct (rst y) eqn:E
  | context [match sst ?y with _ => _ end] => let E := fresh "Est" in destruct (sst y) eqn:E
  | context [match rc ?x with _ => _ end] => let E := fresh "Erc" in destruct (rc x) eqn:E
  | context [if ?c then _ else _] => let E := fresh "Ec" in destruct c eqn:E
  end; try discriminate; cbv beta iota in H; inv_some.

Ltac unf := unfold mk, r_pc, r_ret, r_call, r_val, r_gr, r_st, s_pc, s_call, s_res, s_pushed, s_st in *.
Ltac prj := cbn [q sv wq txp rxp Rv Sd sent rlog drpd hold pend rep dropper livet liver freed
                 rp rc rtimed rgr rv rres rst rdead rto sp sst sres sdead sn sto] in *.
Ltac boolh :=
  repeat match goal with
  | H : _ && _ = true |- _ => apply andb_prop in H; destruct H
  | H : negb _ = true |- _ => apply negb_true_iff in H
  | H : is0 _ = true |- _ => apply is0_true in H
  | H : is0 _ = false |- _ => apply is0_false in H
  | H : _ /\ _ |- _ => destruct H
  | H : r_ready _ = true |- _ => apply r_ready_true in H; destruct H
  | H : s_ready _ = true |- _ => apply s_ready_true in H; destruct H
  end.
Ltac upd_tac :=
  repeat match goal with
  | |- context [upd ?f ?i ?v ?j] =>
      first [ rewrite (upd_eq f i v) | rewrite (upd_neq f i j v) by congruence
            | let e := fresh "e" in let ne := fresh "ne" in
              destruct (Nat.eq_dec j i) as [e|ne];
              [ rewrite e in *; rewrite (upd_eq f i v) | rewrite (upd_neq f i j v ne) ] ]
  | H : context [upd ?f ?i ?v ?j] |- _ =>
      first [ rewrite (upd_eq f i v) in H | rewrite (upd_neq f i j v) in H by congruence
            | let e := fresh "e" in let ne := fresh "ne" in
              destruct (Nat.eq_dec j i) as [e|ne];
              [ rewrite e in *; rewrite (upd_eq f i v) in H | rewrite (upd_neq f i j v ne) in H ] ]
  end.
Ltac spec := repeat match goal with H : ?x = ?x -> _ |- _ => specialize (H eq_refl) end.

(* the abstract post: case on the waiter queue *)
Ltac post_cases s :=
  unfold post_sv, post_wq, post_Rv, post_hold in *;
  let E := fresh "Ewq" in destruct (wq s) as [|w wq'] eqn:E.

Lemma inv_init : Inv (init).
Proof.
  constructor; cbn; try tauto; try discriminate; try (intros; discriminate); auto; try lia.
  - intros r. unfold rinv; cbn. destruct (Nat.eqb_spec r 0); cbn; repeat split; try discriminate; try tauto; try lia; auto;
      try (intros [?|[]]; congruence); try (intros [?|[? ?]]; discriminate); try (intros [? ?]; discriminate);
      try (intros [?|[?|[?|?]]]; discriminate); try (intros [?|?]; discriminate).
  - intros a. unfold sinv; cbn. destruct (Nat.eqb_spec a 0); cbn; repeat split; try discriminate; try tauto; try lia; auto;
      try (intros [?|[]]; congruence); try (intros [?|?]; discriminate).
  - repeat split; repeat constructor; intros [].
Qed.
