(* C11.iv, a fact about the wait loop of WaitGroup::wait: `while *count > 0 { count = cvar.wait(count) }`.
   A wake-up of that Condvar::wait is never spurious: the only notifier is the notify_all of the drop that makes the count
   zero, the waits are untimed, and a cancelled waiter does not return (it unwinds).  So whenever the call returns the count is
   zero, the loop body runs at most once, and writing the loop as `if` would not change the behaviour - which is why that
   particular change of the source is not reported as a violation of the property (it is an equivalent program over THIS
   Condvar; over a Condvar with spurious wake-ups it would not be). *)
From Coq Require Import List Arith ZArith Bool Lia.
Import ListNotations.
Require Import MayV.Sync.CondvarModel MayV.Sync.CondvarInv MayV.Sync.CondvarTac MayV.Sync.CondvarPresM
               MayV.Sync.CondvarL1 MayV.Sync.CondvarL2 MayV.Sync.CondvarL3 MayV.Sync.CondvarL4 MayV.Sync.CondvarThm
               MayV.Sync.BarrierModel MayV.Sync.BarrierThm MayV.Sync.BarrierCv MayV.Sync.WaitGroupModel MayV.Sync.WaitGroupThm MayV.Sync.WaitGroupLive.
Close Scope Z_scope.
Open Scope nat_scope.

(* control points of a notifier, and of a waiter that has seen its flag set on the error path *)
Definition noti (p : pc) : bool := match p with K1 | K2 | K3 | K4 | A1 | A2 | A3 | E4 => true | _ => false end.
(* the wait is on its way back with the verdict "notified" *)
Definition okret (x : act) : bool :=
  match apc x with N3 | R2 => negb (aerr x) | P1 => Nat.eqb (ares x) 0 | _ => false end.

Record WInvN (s : wst) : Prop := {
  N_unp : 0 < wcnt s -> forall b, unp (Bk (wcs s) b) = false;
  N_pc : 0 < wcnt s -> forall a, noti (apc (A (wcs s) a)) = false;
  N_dl : forall a, wpc s a = WLw -> adur (A (wcs s) a) = None /\ adl (A (wcs s) a) = None;
  N_ok : forall a, wpc s a = WLw -> okret (A (wcs s) a) = true -> wcnt s = 0 }.

Lemma winvn_init : WInvN winit.
Proof. constructor; cbn; intros; try discriminate; auto. Qed.

(* one step of the Condvar model by an actor of the wait group: Step / Resume / Choose of a call in progress, or the
   environment; what it can do to flags and notifier control points when no flag is set and nobody is notifying *)
Lemma quiet_step c x c' : (forall b, unp (Bk c b) = false) -> (forall a, noti (apc (A c a)) = false) ->
  step c x = Some c' -> (match x with NotifyOne _ | NotifyAll _ => false | _ => true end) = true ->
  (forall b, unp (Bk c' b) = false) /\ (forall a, noti (apc (A c' a)) = false).
Proof.
  intros U P H Ok. destruct x; try discriminate; step_cases H; simp_st; try (split; assumption).
  all: try (pose proof (P a) as Pa; rewrite Epc in Pa; try discriminate).
  all: try (rewrite U in *; discriminate).
  all: split; [intro b; pose proof (U b) | intro y; pose proof (P y)]; upd_tac; simp_act; auto.
  all: try rewrite Epc in *; cbn [noti] in *; auto.
  all: try (destruct (aco (A c a)); reflexivity).
  all: try (unfold fresh; reflexivity).
Qed.

(* on the error path of wait_impl (and in the notify_one it calls) the verdict "error" is recorded *)
Definition errpath (x : act) : bool :=
  match apc x with
  | E1 | E2 | E3 | E4 => true
  | K1 | K2 | K3 | K4 => match actx x with RErr => true | RUser => false end
  | _ => false end.
Definition InvE (s : st) : Prop := forall a, errpath (A s a) = true -> aerr (A s a) = true.
Lemma invE_init : InvE init.
Proof. intros a H. discriminate. Qed.
Lemma invE_step s ac s' : InvE s -> step s ac = Some s' -> InvE s'.
Proof.
  intros He H. destruct ac; step_cases H; intros y; pose proof (He y) as Hy; unfold errpath in *; simp_st; try exact Hy.
  all: upd_tac; simp_act; try exact Hy; try discriminate; auto.
  all: try rewrite Epc in *; try rewrite Ectx in *; cbn in *; auto.
  all: try (destruct (aco (A s a)); cbn; try discriminate; auto; fail).
  all: try (subst y; rewrite ?Epc, ?Ectx in Hy; exact Hy).
  all: try (subst y; rewrite ?Epc, ?Ectx in Hy; intros _; apply Hy; reflexivity).
Qed.
Lemma invE_reach s : Reach s -> InvE s.
Proof. intro R. induction R; [apply invE_init | eapply invE_step; eauto]. Qed.

Lemma dl_step c x c' a : step c x = Some c' -> inner_ok a x = true -> adur (A c a) = None -> adl (A c a) = None ->
  adur (A c' a) = None /\ adl (A c' a) = None.
Proof.
  intros H Ok D1 D2. destruct x; cbn in Ok; try discriminate; apply Nat.eqb_eq in Ok; subst.
  all: step_cases H; simp_st; upd_tac; simp_act; auto; congruence.
Qed.
Lemma okret_step c x c' a : Inv3 c -> InvE c -> step c x = Some c' -> inner_ok a x = true -> okret (A c' a) = true ->
  okret (A c a) = true \/ unp (Bk c (ab (A c a))) = true.
Proof.
  intros I3 IE H Ok R. pose proof (IE a) as Ea. unfold errpath in Ea. destruct x; cbn in Ok; try discriminate; apply Nat.eqb_eq in Ok; subst.
  all: step_cases H; revert R; unfold okret; simp_st; upd_tac; simp_act; try rewrite Epc; cbn; try discriminate; auto.
  all: try (destruct (aco (A c a)); cbn; try discriminate; auto; fail).
  (* R1, verdict Ok: the blocker was flagged *)
  all: try (intros _; right; apply (O_res _ I3 a); [rewrite Epc; reflexivity | assumption]).
  all: try (destruct (aco (A c a)); cbn; intro X; try discriminate X; auto).
  all: try (try rewrite Epc in Ea; try rewrite Ectx in Ea; rewrite (Ea eq_refl) in X; discriminate X).
  all: try (left; assumption).
  all: try (intro X; left; exact X).
  all: try (left; rewrite Ec; reflexivity).
Qed.

Lemma cancel_frame c a c' y : step c (Cancel a) = Some c' -> apc (A c' y) = apc (A c y) /\ adur (A c' y) = adur (A c y) /\ adl (A c' y) = adl (A c y) /\
  aerr (A c' y) = aerr (A c y) /\ ares (A c' y) = ares (A c y) /\ Bk c' = Bk c.
Proof. intro H. cbn in H. inversion H; subst. simp_st. upd_tac; simp_act; auto 10. Qed.

Lemma wn_quiet s ac s' : WReach s -> WInvN s -> wstep s ac = Some s' -> 0 < wcnt s' ->
  (forall b, unp (Bk (wcs s') b) = false) /\ (forall a, noti (apc (A (wcs s') a)) = false).
Proof.
  intros R Hi H. pose proof (winvc_reach _ R) as Vc.
  destruct ac as [a|a|a co|a a'|a|a c|c]; wcases H; wsimp; intro C.
  (* the clone: the count was positive (the cloned handle is alive) *)
  all: try (assert (C0 : 0 < wcnt s) by (pose proof (V_keep _ Vc a) as K; rewrite Eb in K; specialize (K eq_refl);
                                         rewrite (V_cnt _ Vc); destruct (hl s); [destruct K | cbn; lia])).
  all: try (assert (C0 : 0 < wcnt s) by (wnum; lia)).
  all: try solve [wnum; lia].
  all: try solve [split; [apply (N_unp _ Hi C0) | apply (N_pc _ Hi C0)]].
  all: eapply quiet_step; [apply (N_unp _ Hi C0) | apply (N_pc _ Hi C0) | eassumption |].
  all: try reflexivity.
  all: match goal with Ok : inner_ok _ ?c = true |- _ => destruct c; cbn in Ok; try discriminate; reflexivity
                     | Ok : env_ok ?c = true |- _ => destruct c; cbn in Ok; try discriminate; reflexivity end.
Qed.

Lemma wait_call_dl c a co c' : step c (Wait a co None) = Some c' -> adur (A c' a) = None /\ adl (A c' a) = None /\ okret (A c' a) = false.
Proof. intro H. step_cases H. unfold okret. simp_st. upd_tac. simp_act. auto. Qed.

Lemma wn_dl s ac s' : WReach s -> WInvN s -> wstep s ac = Some s' ->
  forall y, wpc s' y = WLw -> adur (A (wcs s') y) = None /\ adl (A (wcs s') y) = None.
Proof.
  intros R Hi H. pose proof (N_dl _ Hi) as Ld.
  destruct ac as [a|a|a co|a a'|a|a c|c]; wcases H; wsimp; try exact Ld; intros y; pose proof (Ld y) as Ly.
  (* WEnv *)
  all: try solve [match goal with Ok : env_ok ?c = true, Es : step _ _ = Some _ |- _ =>
                    destruct c; cbn in Ok; try discriminate;
                    [ destruct (cancel_frame _ _ _ y Es) as (_ & E1 & E2 & _); rewrite E1, E2; exact Ly
                    | rewrite (frame_A _ _ _ y Es) by (cbn; discriminate); exact Ly ] end].
  (* WInner *)
  all: try solve [match goal with Ok : inner_ok ?a _ = true, Es : step _ _ = Some _ |- _ =>
                    destruct (Nat.eq_dec y a) as [e|ne];
                    [ subst y; rewrite bupd_eq | rewrite bupd_neq by assumption; rewrite (inner_pc_frame _ _ _ a y Es Ok ne); exact Ly ];
                    try (intros X; discriminate X); intros _; destruct (Ly Eb) as [D1 D2]; eapply dl_step; eauto end].
  (* calls and the program's own steps *)
  all: match goal with Eb : wpc _ ?a = _ |- _ =>
         destruct (Nat.eq_dec y a) as [e|ne];
         [ subst y; rewrite bupd_eq; try (intros X; discriminate X)
         | rewrite bupd_neq by assumption;
           try match goal with Es : step _ _ = Some _ |- _ => rewrite (frame_A _ _ _ y Es) by (cbn; congruence) end; exact Ly ] end.
  all: intros _; destruct (wait_call_dl _ _ _ _ Es) as (D1 & D2 & _); auto.
Qed.

Lemma wn_ok s ac s' : WReach s -> WInvN s -> wstep s ac = Some s' ->
  forall y, wpc s' y = WLw -> okret (A (wcs s') y) = true -> wcnt s' = 0.
Proof.
  intros R Hi H. pose proof (N_ok _ Hi) as Lo. pose proof (winvc_reach _ R) as Vc. pose proof (wreach_reach _ R) as Rc.
  assert (ZF : forall a, wcnt s = 0 -> keeps (wpc s a) = true -> False).
  { intros a Z K. pose proof (V_keep _ Vc a K) as I. rewrite (V_cnt _ Vc) in Z. destruct (hl s); [destruct I | discriminate]. }
  destruct ac as [a|a|a co|a a'|a|a c|c]; wcases H; wsimp; try exact Lo; intros y; pose proof (Lo y) as Ly.
  (* WEnv *)
  all: try solve [match goal with Ok : env_ok ?c = true, Es : step _ _ = Some _ |- _ =>
                    destruct c; cbn in Ok; try discriminate;
                    [ destruct (cancel_frame _ _ _ y Es) as (E0 & _ & _ & E3 & E4 & _); unfold okret; rewrite E0, E3, E4; exact Ly
                    | rewrite (frame_A _ _ _ y Es) by (cbn; discriminate); exact Ly ] end].
  (* WInner *)
  all: try solve [match goal with Ok : inner_ok ?a _ = true, Es : step _ _ = Some _ |- _ =>
                    destruct (Nat.eq_dec y a) as [e|ne];
                    [ subst y; rewrite bupd_eq | rewrite bupd_neq by assumption; rewrite (inner_pc_frame _ _ _ a y Es Ok ne); exact Ly ];
                    try (intros X; discriminate X); intros _ O;
                    destruct (okret_step _ _ _ a (inv3_reach _ Rc) (invE_reach _ Rc) Es Ok O) as [O1|U]; try (apply Ly; assumption);
                    destruct (wcnt s) eqn:Ecn; try reflexivity; exfalso;
                    assert (C0 : 0 < wcnt s) by lia; rewrite (N_unp _ Hi C0) in U; discriminate end].
  (* calls and the program's own steps *)
  all: match goal with Eb : wpc _ ?a = _ |- _ =>
         destruct (Nat.eq_dec y a) as [e|ne];
         [ subst y; rewrite bupd_eq; try (intros X; discriminate X)
         | rewrite bupd_neq by assumption;
           try match goal with Es : step _ _ = Some _ |- _ => rewrite (frame_A _ _ _ y Es) by (cbn; congruence) end ] end.
  all: try exact Ly.
  (* the count changes: it was zero already (then nobody clones) or stays zero *)
  all: try solve [intros W O; specialize (Ly W O); exfalso; apply (ZF a Ly); rewrite Eb; reflexivity].
  all: try solve [intros W O; specialize (Ly W O); rewrite Ly; reflexivity].
  all: try solve [intros _ O; destruct (wait_call_dl _ _ _ _ Es) as (_ & _ & D3); rewrite D3 in O; discriminate].
Qed.

Lemma winvn_step s ac s' : WReach s -> WInvN s -> wstep s ac = Some s' -> WInvN s'.
Proof.
  intros R Hi H. constructor.
  - intro C. apply (wn_quiet s ac s' R Hi H C).
  - intro C. apply (wn_quiet s ac s' R Hi H C).
  - eapply wn_dl; eauto.
  - eapply wn_ok; eauto.
Qed.
Lemma winvn_reach s : WReach s -> WInvN s.
Proof. intro R. induction R; [apply winvn_init | eapply winvn_step; eauto]. Qed.

Lemma idle_from_wait c x c' a : in_wait (A c a) = true -> inner_ok a x = true -> step c x = Some c' -> apc (A c' a) = Idle -> apc (A c a) = P1.
Proof.
  intros W Ok H I. destruct x; cbn in Ok; try discriminate; apply Nat.eqb_eq in Ok; subst.
  all: unfold in_wait in W; step_cases H; try discriminate; try reflexivity; revert I; simp_st; upd_tac; simp_act; try discriminate.
  all: try (destruct (aco (A c a)); discriminate).
  all: rewrite ?Ectx in *; try discriminate.
Qed.

(* THE THEOREM: when the Condvar::wait inside WaitGroup::wait returns, the count is zero: the loop body runs at most once *)
Theorem wg_wakeup_not_spurious s a c s' : WReach s -> wpc s a = WLw -> wstep s (WInner a c) = Some s' -> wpc s' a = WL -> wcnt s' = 0.
Proof.
  intros R E H E'. pose proof (wreach_reach _ R) as Rc. pose proof (winvn_reach _ R) as Ni.
  pose proof (WJ_a _ (winvj_reach _ R) a) as J. rewrite E in J. cbn in J.
  unfold wstep in H. destruct (inner_ok a c) eqn:Ok; [|discriminate]. rewrite E in H.
  destruct (step (wcs s) c) as [c'|] eqn:Es; [|discriminate]. inversion H; subst; clear H.
  unfold w_pc, w_cs in *. cbn [wcs wcnt wpc] in *. rewrite bupd_eq in E'.
  assert (I : apc (A c' a) = Idle).
  { destruct (apc (A c' a)); cbn in E'; try discriminate; reflexivity. }
  pose proof (idle_from_wait _ _ _ a J Ok Es I) as P.
  apply (N_ok _ Ni a E). unfold okret. rewrite P.
  pose proof (invM_reach _ Rc a) as M. unfold minv in M. cbn zeta in M. destruct M as (_ & _ & M3 & _ & _ & M6 & _).
  destruct (M6 P) as [[Z|O] T]; [rewrite Z; reflexivity|]. exfalso.
  assert (PP : post_park (A (wcs s) a) = true) by (unfold post_park; rewrite P; reflexivity).
  destruct (M3 PP) as [Md _]. specialize (Md (T O)). destruct (N_dl _ Ni a E) as [_ D2]. rewrite D2 in Md. discriminate.
Qed.
