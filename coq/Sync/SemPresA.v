From Coq Require Import List Arith ZArith Bool Lia.
Import ListNotations.
Require Import MayV.Sync.SemModel MayV.Sync.SemInv MayV.Sync.SemTac.
Open Scope Z_scope.

Lemma pres_A_self s ac s' a : Inv s -> step s ac = Some s' ->
  match ac with Wait x _ | TryWait x | Post x | GetValue x | Step x | Fire x => x = a end -> ainv s' a.
Proof.
  intros Hi H Hx. g_facts Hi.
  step_cases H; subst; unfold ainv, sorted_into, mk, set_pc, set_ctx, set_res, set_av; cbn [cnt q nextb A Bk ini uposts succ ung giv pre hand owe].
  all: destruct (actx (A s a)) eqn:Ectx; cbn [ret_pc].
  all: a_facts Hi a; b_facts Hi (ab (A s a)); b_facts Hi (aw (A s a)); b_facts Hi (nextb s).
  all: try match goal with E : NoDup (?n :: _) |- _ => b_facts Hi n; inversion E; subst end.
  all: try match goal with E : q _ = _ :: _ |- _ => rewrite E in * end.
  all: upd_tac; unfold inpark; cbn [apc ab aw actx atimed acomp av ares tok parked reason unp rel owner fresh]; lists.
  all: cbn [apc ab aw actx atimed acomp av ares] in *.
  all: try match goal with e : ab (A ?s ?a) = aw (A ?s ?a) |- _ => rewrite e in * end.
  all: try match goal with e : aw (A ?s ?a) = ab (A ?s ?a) |- _ => rewrite e in * end.
  all: repeat match goal with E : apc _ = _ |- _ => rewrite E end; try rewrite Ectx.
  all: brk; repeat match goal with |- _ /\ _ => split end; intros; brk; ap; brk; try mem.
  all: try match goal with Q : forall b, ?n = b \/ _ -> (1 <= b < _)%nat |- _ => specialize (Q n (or_introl eq_refl)); lia end.
Qed.
