(* Preservation of SemInv.Inv: ainv of the stepping actor.  Assembled from one lemma per control point
   (SemPresAa.v, SemPresAb.v, SemPresAc.v; proof script as_script in SemPresTac.v). *)
From Coq Require Import List Arith ZArith Bool Lia.
Import ListNotations.
Require Import MayV.Sync.SemModel MayV.Sync.SemInv MayV.Sync.SemTac.
Require Export MayV.Sync.SemCase.
Require Import MayV.Sync.SemPresAa MayV.Sync.SemPresAb MayV.Sync.SemPresAc.
Open Scope Z_scope.

Lemma pres_A_self s ac s' a : Inv s -> step s ac = Some s' ->
  match ac with Wait x _ | TryWait x | Post x | GetValue x | Step x | Fire x => x = a end -> ainv s' a.
Proof.
  intros Hi H Hx. assert (Ea : actor ac = a) by (destruct ac; exact Hx). clear Hx. subst a.
  destruct (is_step ac) eqn:Hn; [|eapply pres_A_self_env; eassumption].
  destruct ac as [a t|a|a|a|a|a]; try discriminate Hn. cbn [actor]. destruct (apc (A s a)) eqn:Epc.
  - rewrite (step_idle s a Epc) in H. discriminate H.
  - eapply pres_A_self_W0; eassumption.
  - eapply pres_A_self_W0c; eassumption.
  - eapply pres_A_self_W1; eassumption.
  - eapply pres_A_self_W2; eassumption.
  - eapply pres_A_self_WP; eassumption.
  - eapply pres_A_self_WW; eassumption.
  - eapply pres_A_self_E1; eassumption.
  - eapply pres_A_self_E2; eassumption.
  - eapply pres_A_self_E3; eassumption.
  - eapply pres_A_self_E4; eassumption.
  - eapply pres_A_self_P0; eassumption.
  - eapply pres_A_self_K1; eassumption.
  - eapply pres_A_self_K2; eassumption.
  - eapply pres_A_self_K3; eassumption.
  - eapply pres_A_self_K4; eassumption.
  - eapply pres_A_self_Y0; eassumption.
  - eapply pres_A_self_Y0c; eassumption.
  - eapply pres_A_self_G0; eassumption.
Qed.
