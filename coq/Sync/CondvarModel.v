(* Model of may::sync::Condvar (src/sync/condvar.rs) over
     - an ABSTRACT mutex  `mx : option actor`  with the contract of property C05 (at most one holder;
       lock() by a cancel-disabled caller returns holding the lock once the holders have released;
       unlock releases; a guard forgotten with mem::forget never poisons),
     - the SyncBlocker handshake (src/sync/blocking.rs, CURRENT order: `unparked.store(true)` BEFORE
       `blocker.unpark()`, commit 456533c),
     - the Blocker token (Base/BlockerSpec.v: park returns Ok only with the token, Timeout only at or
       after the deadline, Canceled only for a cancelled coroutine; the token is cleared on EVERY return),
     - an atomic FIFO for `to_wake` (crossbeam SegQueue, assumed linearizable).
   Definitions only.  One transition per shared-memory access, in program order:

     wait / wait_timeout    V0  verify: self.mutex.compare_exchange(0, addr)
       (wait_impl)          D0  cancel.disable_cancel()      state.fetch_add(2)        [coroutines only]
                            W1  to_wake.push(cur)            (cur = a fresh SyncBlocker)
                            W2  mutex::unlock_mutex(lock)    abstract: mx := None
                            N1  cancel.enable_cancel()       state.fetch_sub(2)        [coroutines only]
                            WP  cur.park(dur): token check   -> token: D2/L | WW (suspended, deadline = now + dur)
                            WW  suspended; `Resume` needs a reason: token | deadline reached | cancelled coroutine;
                                the token is cleared whatever the reason
                            D2  cancel.disable_cancel()                                 [coroutines only]
                            L   lock.lock() with the cancel disabled   abstract: enabled when mx = None, mx := Some a
                            R1  `if ret.is_err()`            `Choose a false` (Ok) | `Choose a true` (error)
                            E1  cur.is_unparked()            true: notify_one()  (forward)  | E2
                            E2  cur.set_release()
                            E3  cur.is_unparked()            true: E4 | leave
                            E4  cur.take_release()           true: notify_one()  (forward)  | leave
                            N3  cancel.enable_cancel()                                  [coroutines only]
                            R2  `if ret == Err(Canceled)`    `Choose a false` (Timeout) | `Choose a true` (Canceled)
                            P1  guard_poison(&guard).get()   failed.load          -> return, holding the mutex
                            C1  mem::forget(guard); unlock_mutex(lock)   mx := None -> Dead (cancel panic unwinds)
     notify_one             K1  to_wake.pop()                None: return | Some w: K2
                            K2  w.unparked.store(true)
                            K3  w.blocker.unpark()           token := true
                            K4  w.take_release()             true: notify_one() (forward by the agent) | return
     notify_all             A1  to_wake.pop()                None: return | Some w: A2
                            A2  w.unparked.store(true)       A3  w.blocker.unpark()    -> A1
     user level             Lock a / Unlock a p   the abstract mutex (p: the guard is dropped by a panicking holder: poison)

   The verdict of `park` is a local variable nothing reads before R1 (Ok / error) and R2 (Timeout / Canceled), so
   the model records at the resumption WHICH reasons held (rtok: token set, rtmo: deadline reached, rcan:
   cancelled coroutine) and resolves the verdict where the code first looks at it: any reason that held when
   park returned may be the verdict (exactly BlockerSpec.reason_ok; the timer, an unparker and a canceller race
   for the suspended coroutine and the model does not say who wins).  This is the same set of behaviours as
   choosing at the resumption and it is what lets the trace acceptor follow a coroutine, whose verdict becomes
   visible only through the control flow.

   Unbounded actors and blockers (nat-indexed maps); an idle actor may start any call (wait needs the mutex:
   it takes the guard), so the quantification over schedules covers every client program, including
   wait_while loops.  Environment actions: `Cancel a` (the cancel bit of coroutine a is set, at any time),
   `Tick t` (time passes).

   Ghost state (never read by the code part of `step`):
     giv   flagged blockers whose notification is not settled yet     hand  agents between their pop and the flag store
     held  the blockers those agents hold                             owe   actors that decided to forward, before their pop
     flg   flagged blockers whose token store is still ahead (bagent = the agent)
     nuser / nall   notify_one pops by users / notify_all pops that returned a blocker
     nret  waits that returned notified (Ok)        fnone  forwarded notifications that found the queue empty
     bset  per blocker: how often its notification was settled (consumed or forwarded)   tokd  token store done
     cdis0 the cancel-disable counter at the call *)
From Coq Require Import List Arith ZArith Bool Lia.
Import ListNotations.
Open Scope Z_scope.

Inductive pc :=
  | Idle | V0 | D0 | W1 | W2 | N1 | WP | WW | D2 | L | R1
  | E1 | E2 | E3 | E4
  | K1 | K2 | K3 | K4
  | N3 | R2 | P1 | C1 | Dead
  | A1 | A2 | A3.
Inductive ctx := RUser | RErr.   (* where notify_one returns to: the user, the error path of wait_impl *)

Record act := { apc : pc; ab : nat; aw : nat; actx : ctx; aco : bool; adur : option Z; adl : option Z;
                acomp : bool;                         (* ghost: the pending pop is a forwarded notification *)
                rtok : bool; rtmo : bool; rcan : bool; (* the reasons that held when park returned *)
                aerr : bool;                          (* ret.is_err() as chosen at R1 *)
                ares : nat;                           (* result of the last wait: 0 notified, 1 timed out, 2 canceled *)
                ccan : bool; cdis : nat;              (* cancel bit, cancel-disable counter of the coroutine *)
                cdis0 : nat }.
Record blk := { tok : bool; unp : bool; rel : bool; owner : nat;
                bset : nat; bagent : nat; tokd : bool }.
Record st := { mx : option nat; pois : bool; bound : bool; q : list nat; nextb : nat; now : Z;
               A : nat -> act; Bk : nat -> blk;
               giv : list nat; hand : list nat; held : list nat; owe : list nat; flg : list nat;
               nuser : Z; nall : Z; nret : Z; fnone : Z }.

Definition upd {X} (f : nat -> X) i v := fun j => if Nat.eqb j i then v else f j.
Definition rm := remove Nat.eq_dec.
Definition fresh (o : nat) := {| tok := false; unp := false; rel := false; owner := o; bset := O; bagent := O; tokd := false |}.

(* ---- state setters ---- *)
Definition sA (s : st) A' := {| mx := mx s; pois := pois s; bound := bound s; q := q s; nextb := nextb s; now := now s; A := A'; Bk := Bk s;
  giv := giv s; hand := hand s; held := held s; owe := owe s; flg := flg s; nuser := nuser s; nall := nall s; nret := nret s; fnone := fnone s |}.
Definition sB (s : st) B' := {| mx := mx s; pois := pois s; bound := bound s; q := q s; nextb := nextb s; now := now s; A := A s; Bk := B';
  giv := giv s; hand := hand s; held := held s; owe := owe s; flg := flg s; nuser := nuser s; nall := nall s; nret := nret s; fnone := fnone s |}.
Definition smx (s : st) m p := {| mx := m; pois := p; bound := bound s; q := q s; nextb := nextb s; now := now s; A := A s; Bk := Bk s;
  giv := giv s; hand := hand s; held := held s; owe := owe s; flg := flg s; nuser := nuser s; nall := nall s; nret := nret s; fnone := fnone s |}.
Definition sbound (s : st) v := {| mx := mx s; pois := pois s; bound := v; q := q s; nextb := nextb s; now := now s; A := A s; Bk := Bk s;
  giv := giv s; hand := hand s; held := held s; owe := owe s; flg := flg s; nuser := nuser s; nall := nall s; nret := nret s; fnone := fnone s |}.
Definition sq (s : st) q' n := {| mx := mx s; pois := pois s; bound := bound s; q := q'; nextb := n; now := now s; A := A s; Bk := Bk s;
  giv := giv s; hand := hand s; held := held s; owe := owe s; flg := flg s; nuser := nuser s; nall := nall s; nret := nret s; fnone := fnone s |}.
Definition snow (s : st) t := {| mx := mx s; pois := pois s; bound := bound s; q := q s; nextb := nextb s; now := t; A := A s; Bk := Bk s;
  giv := giv s; hand := hand s; held := held s; owe := owe s; flg := flg s; nuser := nuser s; nall := nall s; nret := nret s; fnone := fnone s |}.
Definition sG (s : st) g h hd o f := {| mx := mx s; pois := pois s; bound := bound s; q := q s; nextb := nextb s; now := now s; A := A s; Bk := Bk s;
  giv := g; hand := h; held := hd; owe := o; flg := f; nuser := nuser s; nall := nall s; nret := nret s; fnone := fnone s |}.
Definition sN (s : st) u al r f := {| mx := mx s; pois := pois s; bound := bound s; q := q s; nextb := nextb s; now := now s; A := A s; Bk := Bk s;
  giv := giv s; hand := hand s; held := held s; owe := owe s; flg := flg s; nuser := u; nall := al; nret := r; fnone := f |}.

(* ---- actor setters ---- *)
Definition set_pc (x : act) p := {| apc := p; ab := ab x; aw := aw x; actx := actx x; aco := aco x; adur := adur x; adl := adl x; acomp := acomp x;
  rtok := rtok x; rtmo := rtmo x; rcan := rcan x; aerr := aerr x; ares := ares x; ccan := ccan x; cdis := cdis x; cdis0 := cdis0 x |}.
Definition set_call (x : act) p co d := {| apc := p; ab := ab x; aw := aw x; actx := actx x; aco := co; adur := d; adl := None; acomp := false;
  rtok := false; rtmo := false; rcan := false; aerr := false; ares := ares x; ccan := ccan x; cdis := cdis x; cdis0 := cdis x |}.
Definition set_ctx (x : act) p c k := {| apc := p; ab := ab x; aw := aw x; actx := c; aco := aco x; adur := adur x; adl := adl x; acomp := k;
  rtok := rtok x; rtmo := rtmo x; rcan := rcan x; aerr := aerr x; ares := ares x; ccan := ccan x; cdis := cdis x; cdis0 := cdis0 x |}.
Definition set_ab (x : act) p n := {| apc := p; ab := n; aw := aw x; actx := actx x; aco := aco x; adur := adur x; adl := adl x; acomp := acomp x;
  rtok := rtok x; rtmo := rtmo x; rcan := rcan x; aerr := aerr x; ares := ares x; ccan := ccan x; cdis := cdis x; cdis0 := cdis0 x |}.
Definition set_aw (x : act) p n := {| apc := p; ab := ab x; aw := n; actx := actx x; aco := aco x; adur := adur x; adl := adl x; acomp := false;
  rtok := rtok x; rtmo := rtmo x; rcan := rcan x; aerr := aerr x; ares := ares x; ccan := ccan x; cdis := cdis x; cdis0 := cdis0 x |}.
Definition set_dl (x : act) p dl := {| apc := p; ab := ab x; aw := aw x; actx := actx x; aco := aco x; adur := adur x; adl := dl; acomp := acomp x;
  rtok := rtok x; rtmo := rtmo x; rcan := rcan x; aerr := aerr x; ares := ares x; ccan := ccan x; cdis := cdis x; cdis0 := cdis0 x |}.
Definition set_rsn (x : act) p t m c := {| apc := p; ab := ab x; aw := aw x; actx := actx x; aco := aco x; adur := adur x; adl := adl x; acomp := acomp x;
  rtok := t; rtmo := m; rcan := c; aerr := aerr x; ares := ares x; ccan := ccan x; cdis := cdis x; cdis0 := cdis0 x |}.
Definition set_err (x : act) p e := {| apc := p; ab := ab x; aw := aw x; actx := actx x; aco := aco x; adur := adur x; adl := adl x; acomp := acomp x;
  rtok := rtok x; rtmo := rtmo x; rcan := rcan x; aerr := e; ares := ares x; ccan := ccan x; cdis := cdis x; cdis0 := cdis0 x |}.
Definition set_res (x : act) p r := {| apc := p; ab := ab x; aw := aw x; actx := actx x; aco := aco x; adur := adur x; adl := adl x; acomp := acomp x;
  rtok := rtok x; rtmo := rtmo x; rcan := rcan x; aerr := aerr x; ares := r; ccan := ccan x; cdis := cdis x; cdis0 := cdis0 x |}.
Definition set_dis (x : act) p n := {| apc := p; ab := ab x; aw := aw x; actx := actx x; aco := aco x; adur := adur x; adl := adl x; acomp := acomp x;
  rtok := rtok x; rtmo := rtmo x; rcan := rcan x; aerr := aerr x; ares := ares x; ccan := ccan x; cdis := n; cdis0 := cdis0 x |}.
Definition set_can (x : act) := {| apc := apc x; ab := ab x; aw := aw x; actx := actx x; aco := aco x; adur := adur x; adl := adl x; acomp := acomp x;
  rtok := rtok x; rtmo := rtmo x; rcan := rcan x; aerr := aerr x; ares := ares x; ccan := true; cdis := cdis x; cdis0 := cdis0 x |}.

(* ---- blocker setters ---- *)
Definition b_tok (k : blk) v d := {| tok := v; unp := unp k; rel := rel k; owner := owner k; bset := bset k; bagent := bagent k; tokd := d |}.
Definition b_flag (k : blk) ag := {| tok := tok k; unp := true; rel := rel k; owner := owner k; bset := bset k; bagent := ag; tokd := tokd k |}.
Definition b_rel (k : blk) v := {| tok := tok k; unp := unp k; rel := v; owner := owner k; bset := bset k; bagent := bagent k; tokd := tokd k |}.
Definition b_settle (k : blk) := {| tok := tok k; unp := unp k; rel := false; owner := owner k; bset := S (bset k); bagent := bagent k; tokd := tokd k |}.

(* the pcs of the disabled/enabled bracket exist for coroutines only *)
Definition after_unlock (x : act) := if aco x then N1 else WP.
Definition after_park (x : act) := if aco x then D2 else L.
Definition leave_err (x : act) := if aco x then N3 else R2.
Definition ret_pc (x : act) := match actx x with RUser => Idle | RErr => leave_err x end.
Definition due (dl : option Z) (t : Z) : bool := match dl with Some d => Z.leb d t | None => false end.

Inductive action :=
  | Lock (a : nat) | Unlock (a : nat) (panicking : bool)
  | Wait (a : nat) (co : bool) (dur : option Z) | NotifyOne (a : nat) | NotifyAll (a : nat)
  | Step (a : nat)
  | Resume (a : nat)                (* the suspended actor a comes back from park *)
  | Choose (a : nat) (e : bool)     (* the verdict of park as far as the code looks at it: R1 ok/error, R2 timeout/canceled *)
  | Cancel (a : nat)                (* environment: coroutine a is cancelled *)
  | Tick (t : Z).                   (* environment: time passes *)

(* the owner decides to forward the notification its blocker b was given *)
Definition forward (s : st) (a : nat) (x : act) (b : nat) : st :=
  sG (sB (sA s (upd (A s) a (set_ctx x K1 RErr true))) (upd (Bk s) b (b_settle (Bk s b))))
     (rm b (giv s)) (hand s) (held s) (a :: owe s) (flg s).

Definition step (s : st) (ac : action) : option st :=
  match ac with
  | Lock a => match apc (A s a), mx s with
      | Idle, None => Some (smx s (Some a) (pois s))
      | _, _ => None end
  | Unlock a p => match apc (A s a), mx s with
      | Idle, Some h => if Nat.eqb h a then Some (smx s None (pois s || p)) else None
      | _, _ => None end
  | Wait a co d => match apc (A s a), mx s with
      | Idle, Some h => if Nat.eqb h a then Some (sA s (upd (A s) a (set_call (A s a) V0 co d))) else None
      | _, _ => None end
  | NotifyOne a => match apc (A s a) with
      | Idle => Some (sA s (upd (A s) a (set_ctx (A s a) K1 RUser false)))
      | _ => None end
  | NotifyAll a => match apc (A s a) with
      | Idle => Some (sA s (upd (A s) a (set_pc (A s a) A1)))
      | _ => None end
  | Cancel a => Some (sA s (upd (A s) a (set_can (A s a))))
  | Tick t => if Z.leb (now s) t then Some (snow s t) else None
  | Resume a =>
      let x := A s a in let b := Bk s (ab x) in
      match apc x with
      | WW => let t := tok b in let m := due (adl x) (now s) in let c := aco x && ccan x in
              if t || m || c
              then Some (sB (sA s (upd (A s) a (set_rsn x (after_park x) t m c))) (upd (Bk s) (ab x) (b_tok b false (tokd b))))
              else None
      | _ => None end
  | Choose a e =>
      let x := A s a in
      match apc x with
      | R1 => if e
              then if rtmo x || rcan x then Some (sA s (upd (A s) a (set_err x E1 true))) else None
              else if rtok x
                   then Some (sN (sG (sB (sA s (upd (A s) a (set_err x (leave_err x) false))) (upd (Bk s) (ab x) (b_settle (Bk s (ab x)))))
                                     (rm (ab x) (giv s)) (hand s) (held s) (owe s) (flg s))
                                 (nuser s) (nall s) (nret s + 1) (fnone s))
                   else None
      | R2 => if aerr x
              then if e
                   then if rcan x then Some (sA s (upd (A s) a (set_res x C1 2%nat))) else None
                   else if rtmo x then Some (sA s (upd (A s) a (set_res x P1 1%nat))) else None
              else None
      | _ => None end
  | Step a =>
      let x := A s a in let b := Bk s (ab x) in let w := Bk s (aw x) in
      match apc x with
      | Idle | Dead | WW | R1 => None
      | V0 => Some (sbound (sA s (upd (A s) a (set_pc x (if aco x then D0 else W1)))) true)
      | D0 => Some (sA s (upd (A s) a (set_dis x W1 (S (cdis x)))))
      | W1 => let n := nextb s in
              Some (sq (sB (sA s (upd (A s) a (set_ab x W2 n))) (upd (Bk s) n (fresh a))) (q s ++ [n]) (S n))
      | W2 => Some (smx (sA s (upd (A s) a (set_pc x (after_unlock x)))) None (pois s))
      | N1 => Some (sA s (upd (A s) a (set_dis x WP (pred (cdis x)))))
      | WP => if tok b
              then Some (sB (sA s (upd (A s) a (set_rsn x (after_park x) true false false))) (upd (Bk s) (ab x) (b_tok b false (tokd b))))
              else Some (sA s (upd (A s) a (set_dl x WW (match adur x with Some d => Some (now s + d) | None => None end))))
      | D2 => Some (sA s (upd (A s) a (set_dis x L (S (cdis x)))))
      | L => match mx s with
             | None => Some (smx (sA s (upd (A s) a (set_pc x R1))) (Some a) (pois s))
             | Some _ => None end
      | E1 => if unp b then Some (forward s a x (ab x))
              else Some (sA s (upd (A s) a (set_pc x E2)))
      | E2 => Some (sB (sA s (upd (A s) a (set_pc x E3))) (upd (Bk s) (ab x) (b_rel b true)))
      | E3 => if unp b then Some (sA s (upd (A s) a (set_pc x E4)))
              else Some (sA s (upd (A s) a (set_pc x (leave_err x))))
      | E4 => if rel b then Some (forward s a x (ab x))
              else Some (sA s (upd (A s) a (set_pc x (leave_err x))))
      | K1 => match q s with
              | [] => if acomp x
                      then Some (sN (sG (sA s (upd (A s) a (set_ctx x (ret_pc x) (actx x) false))) (giv s) (hand s) (held s) (rm a (owe s)) (flg s))
                                    (nuser s) (nall s) (nret s) (fnone s + 1))
                      else Some (sA s (upd (A s) a (set_pc x (ret_pc x))))
              | v :: q' =>
                  Some (sN (sG (sq (sA s (upd (A s) a (set_aw x K2 v))) q' (nextb s))
                               (giv s) (a :: hand s) (v :: held s) (if acomp x then rm a (owe s) else owe s) (flg s))
                           (if acomp x then nuser s else nuser s + 1) (nall s) (nret s) (fnone s))
              end
      | K2 | A2 =>
              Some (sG (sB (sA s (upd (A s) a (set_pc x (match apc x with K2 => K3 | _ => A3 end)))) (upd (Bk s) (aw x) (b_flag w a)))
                       (aw x :: giv s) (rm a (hand s)) (rm (aw x) (held s)) (owe s) (aw x :: flg s))
      | K3 | A3 =>
              Some (sG (sB (sA s (upd (A s) a (set_pc x (match apc x with K3 => K4 | _ => A1 end)))) (upd (Bk s) (aw x) (b_tok w true true)))
                       (giv s) (hand s) (held s) (owe s) (rm (aw x) (flg s)))
      | K4 => if rel w
              then Some (sG (sB (sA s (upd (A s) a (set_ctx x K1 (actx x) true))) (upd (Bk s) (aw x) (b_settle w)))
                            (rm (aw x) (giv s)) (hand s) (held s) (a :: owe s) (flg s))
              else Some (sA s (upd (A s) a (set_pc x (ret_pc x))))
      | N3 => Some (sA s (upd (A s) a (set_dis x R2 (pred (cdis x)))))
      | R2 => if aerr x then None else Some (sA s (upd (A s) a (set_res x P1 0%nat)))
      | P1 => Some (sA s (upd (A s) a (set_pc x Idle)))
      | C1 => Some (smx (sA s (upd (A s) a (set_pc x Dead))) None (pois s))
      | A1 => match q s with
              | [] => Some (sA s (upd (A s) a (set_pc x Idle)))
              | v :: q' =>
                  Some (sN (sG (sq (sA s (upd (A s) a (set_aw x A2 v))) q' (nextb s))
                               (giv s) (a :: hand s) (v :: held s) (owe s) (flg s))
                           (nuser s) (nall s + 1) (nret s) (fnone s))
              end
      end
  end.

Definition act0 := {| apc := Idle; ab := O; aw := O; actx := RUser; aco := false; adur := None; adl := None; acomp := false;
                      rtok := false; rtmo := false; rcan := false; aerr := false; ares := O; ccan := false; cdis := O; cdis0 := O |}.
Definition init : st :=
  {| mx := None; pois := false; bound := false; q := []; nextb := 1%nat; now := 0; A := fun _ => act0; Bk := fun _ => fresh O;
     giv := []; hand := []; held := []; owe := []; flg := []; nuser := 0; nall := 0; nret := 0; fnone := 0 |}.
Inductive Reach : st -> Prop :=
| R0 : Reach init
| RS s a s' : Reach s -> step s a = Some s' -> Reach s'.
(* run a schedule; a disabled action is skipped *)
Fixpoint run (s : st) (l : list action) : st :=
  match l with [] => s | a :: l' => match step s a with Some s' => run s' l' | None => run s l' end end.
(* run a schedule; a disabled action stops the run *)
Fixpoint run_strict (s : st) (l : list action) : option st :=
  match l with [] => Some s | a :: l' => match step s a with Some s' => run_strict s' l' | None => None end end.
