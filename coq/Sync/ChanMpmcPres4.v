(* mpmc channel invariant, preservation part 4: permit accounting (C06 ii, C07 iii). *)
From Coq Require Import List Arith Bool Lia.
Import ListNotations.
Require Import MayV.Sync.ChanMpmcModel MayV.Sync.ChanMpmcInv.
Require Import MayV.Sync.ChanMpmcTac.
Lemma pres_e1 c s ac s' : Inv s -> step true true c s ac = Some s' -> txp s' <> 0 ->
  length (q s') <= sv s' + length (hold s') + length (pend s') /\ (rxp s' <> 0 -> sv s' + length (hold s') + length (pend s') <= length (q s')).
Proof.
  intros Hi H. pose proof (I_e1 _ Hi) as P. destruct (I_nd _ Hi) as (N1 & N2 & N3 & N4 & N5 & N6).
  step_cases H; boolh; unf; prj; auto.
  all: rfacts Hi; sfacts Hi; wfacts Hi.
  all: try match goal with E : sst (Sd ?s0 ?a) = Alive |- _ => pose proof (alive_tx _ _ Hi E) end.
  all: try match goal with E : rst (Rv ?s0 ?r) = Alive |- _ => pose proof (alive_rx _ _ Hi E) end.
  all: try match goal with Q : _ -> dropper ?s0 = Some ?a |- _ => let Y := fresh "Y" in assert (Y : dropper s0 = Some a) by (apply Q; auto); destruct (I_drop _ Hi _ Y) as [_ ?] end.
  all: spec.
  all: cbn [length] in *; rewrite ?app_length in *; cbn [length] in *; lenrm; intros T; try (specialize (P T)); try lia.
  all: try (assert (txp s = 0) by tauto; congruence).
  all: try (assert (rxp s = 0) by tauto; lia).
Qed.

Lemma pres_r78 c s ac s' : Inv s -> step true true c s ac = Some s' -> forall r,
  (rp (Rv s' r) = Y3n \/ rp (Rv s' r) = Y4n \/ rp (Rv s' r) = Y4s \/ rp (Rv s' r) = Y0b -> txp s' = 0) /\ rp (Rv s' r) <> RPanic.
Proof.
  intros Hi H r0. pose proof (I_R _ Hi r0) as P. unfold rinv in P. boolh. pose proof (I_e1 _ Hi) as E1.
  destruct (I_nd _ Hi) as (N1 & N2 & N3 & N4 & N5 & N6).
  step_cases H; boolh; unf; prj; auto.
  all: rfacts Hi; sfacts Hi; wfacts Hi.
  all: try match goal with E : sst (Sd ?s0 ?a) = Alive |- _ => pose proof (alive_tx _ _ Hi E) end.
  all: try match goal with E : rst (Rv ?s0 ?r) = Alive |- _ => pose proof (alive_rx _ _ Hi E) end.
  all: upd_tac; prj; lists.
  all: repeat match goal with E : rp _ = _ |- _ => rewrite E in * end.
  all: fin.
  split; [intros _ | discriminate].
  destruct (Nat.eq_dec (txp s) 0) as [|T]; auto. destruct (E1 T) as [_ E2]. assert (X : rxp s <> 0) by assumption. specialize (E2 X).
  assert (I : In r (hold s)) by tauto. destruct (hold s); [destruct I | cbn in E2; lia].
Qed.

Lemma g1of_other s a y : (forall b, dropper s = Some b -> b <> a) ->
  match dropper s with Some b => match sp (upd (Sd s) a y b) with G1 => 1 | _ => 0 end | None => 0 end = g1of s.
Proof. unfold g1of. intros H. destruct (dropper s) as [b|]; auto. rewrite upd_neq; auto. Qed.

Lemma pres_j1 c s ac s' : Inv s -> step true true c s ac = Some s' -> txp s' = 0 ->
  length (q s') <= sv s' + length (hold s') + length (rep s') + g1of s'.
Proof.
  intros Hi H. pose proof (I_j1 _ Hi) as P. pose proof (I_e1 _ Hi) as E1. destruct (I_nd _ Hi) as (N1 & N2 & N3 & N4 & N5 & N6).
  unfold g1of in *.
  step_cases H; boolh; unf; prj; auto.
  all: rfacts Hi; sfacts Hi; wfacts Hi.
  all: try match goal with E : sst (Sd ?s0 ?a) = Alive |- _ => pose proof (alive_tx _ _ Hi E) end.
  all: try match goal with Q : _ -> dropper ?s0 = Some ?a |- _ => let Y := fresh "Y" in assert (Y : dropper s0 = Some a) by (apply Q; auto); rewrite Y in * end.
  all: cbn [length] in *; rewrite ?app_length in *; cbn [length] in *; lenrm; intros T; try (specialize (P T)); try lia.
  all: upd_tac; prj; try lia.
  all: repeat match goal with E : sp _ = _ |- _ => rewrite E in * end; try lia.
  (* the last sender leaves: nobody is between push and post *)
  assert (Pe : pend s = []).
  { apply nil_of_notin. intros b Ib. pose proof (I_S _ Hi b) as Qb. unfold sinv in Qb. boolh.
    assert (Mb : sp (Sd s b) = M2) by tauto. assert (Ab : sst (Sd s b) = Alive) by (apply H7; rewrite Mb; reflexivity).
    destruct (I_cnt _ Hi) as [C _]. assert (b = a) by (apply (single_live (livet s)); [lia | tauto | tauto]). subst b. congruence. }
  destruct E1 as [E1 _]; [lia|]. rewrite Pe in E1. cbn in E1. lia.
Qed.

Lemma pres_j2 c s ac s' : Inv s -> step true true c s ac = Some s' -> txp s' = 0 -> dropper s' = None ->
  1 <= sv s' + length (hold s') + length (rep s').
Proof.
  intros Hi H. pose proof (I_j2 _ Hi) as P. destruct (I_nd _ Hi) as (N1 & N2 & N3 & N4 & N5 & N6).
  step_cases H; boolh; unf; prj; auto.
  all: rfacts Hi; sfacts Hi; wfacts Hi.
  all: try match goal with E : sst (Sd ?s0 ?a) = Alive |- _ => pose proof (alive_tx _ _ Hi E) end.
  all: try match goal with Q : _ -> dropper ?s0 = Some ?a |- _ => let Y := fresh "Y" in assert (Y : dropper s0 = Some a) by (apply Q; auto); rewrite Y in * end.
  all: cbn [length] in *; rewrite ?app_length in *; cbn [length] in *; lenrm; intros T D; try discriminate; try (specialize (P T D)); try lia.
Qed.
