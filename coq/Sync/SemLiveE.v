(* Preservation of the overlay invariant of SemLive.v, part E: L8 (every flagged registered blocker is settled exactly once), L9 (success and failure exclude each other). *)
From Coq Require Import List Arith ZArith Bool Lia.
Import ListNotations.
Require Import MayV.Sync.SemModel MayV.Sync.SemInv MayV.Sync.SemTac MayV.Sync.SemLive MayV.Sync.SemLiveA MayV.Sync.SemLiveB.
Open Scope Z_scope.

Ltac upd_hyps2 := upd_hyps; repeat match goal with
  | H : context [upd ?f ?i ?v ?j] |- _ =>
      let e := fresh "e" in destruct (Nat.eq_dec j i) as [e|e];
      [ rewrite e in H; rewrite (upd_eq f i v) in H | rewrite (upd_neq f i j v e) in H ]
  end.

Lemma w2_unreg s o : Inv s -> apc (A s o) = W2 -> ~ In (ab (A s o)) (ung s) /\ ~ In (ab (A s o)) (giv s).
Proof.
  intros Hi E. pose proof (IA _ Hi o) as Ha. unfold ainv in Ha. rewrite E in Ha. cbn in Ha. tauto.
Qed.

Lemma pres_L8 s o ac s' : Inv s -> LInv s o -> step s ac = Some s' -> L8 s' (lstep s o ac).
Proof.
  intros Hi HL H. pose proof (IL8 _ _ HL) as P8. pose proof (IL7 _ _ HL) as P7.
  unfold L7, L8, own in *.
  lsetup Hi H; intro x; pose proof (P8 x) as Px; pose proof (P7 x) as Fx; pose proof (P7 (nextb s)) as Fn;
    pose proof (w2_unreg s (owner (Bk s x)) Hi) as W2x.
  all: unfold set_pc, set_ctx, set_res, set_av; upd_tac; upd_hyps2; prj_all; lists.
  all: try assumption.
  all: a_facts Hi a; b_facts Hi x.
  all: try match goal with E : NoDup (?n :: _) |- _ => inversion E; subst end.
  all: repeat match goal with e : ?v = _ |- _ => is_var v; subst v end; upd_hyps; prj_all.
  all: repeat match goal with e : owner _ = _ |- _ => progress (rewrite e in * ) end.
  all: ctxsplit s a; pcs; lists.
  all: intros; brk; arith_prem; brk; try mem.
  all: try match goal with H : (?n <= 1)%nat |- _ => let E := fresh "En" in destruct (Nat.eq_dec n 1) as [E|E] end; brk; try mem.
Qed.

Lemma pres_L9 s o ac s' : Inv s -> LInv s o -> step s ac = Some s' -> L9 s' (lstep s o ac).
Proof.
  intros Hi HL H. pose proof (IL9 _ _ HL) as P9. pose proof (IL8 _ _ HL) as P8. pose proof (IL7 _ _ HL) as P7.
  unfold L7, L8, L9, own, prepark, inpark in *.
  lsetup Hi H; intro x; pose proof (P9 x) as Px; pose proof (P8 x) as Sx; pose proof (P7 x) as Fx; pose proof (P7 (nextb s)) as Fn.
  all: unfold set_pc, set_ctx, set_res, set_av; upd_tac; upd_hyps2; prj_all; lists.
  all: try assumption.
  all: a_facts Hi a; a_facts Hi O; b_facts Hi x.
  all: repeat match goal with e : ?v = _ |- _ => is_var v; subst v end; upd_hyps; prj_all.
  all: repeat match goal with e : owner _ = _ |- _ => progress (rewrite e in * ) end.
  all: ctxsplit s a; pcs; lists.
  all: intros; brk; arith_prem; brk; try mem.
  all: try match goal with H : (_ + ?c <= 1)%nat |- _ => let E := fresh "En" in destruct (Nat.eq_dec c 1) as [E|E] end; brk; try mem.
Qed.
