(* Preservation of the overlay invariant of SemLive.v, part E: L8 (every flagged registered blocker is settled exactly once), L9 (success and failure exclude each other).
   Each lemma is assembled from one lemma per control point of the stepping actor (files SemLiveL8.v, SemLiveL9a.v, SemLiveL9b.v;
   the proof script of the clause is an Ltac in SemLiveTac.v). *)
From Coq Require Import List Arith ZArith Bool Lia.
Import ListNotations.
Require Import MayV.Sync.SemModel MayV.Sync.SemInv MayV.Sync.SemTac MayV.Sync.SemCase MayV.Sync.SemLive.
Require Export MayV.Sync.SemLiveTac.
Require Import MayV.Sync.SemLiveL8 MayV.Sync.SemLiveL9a MayV.Sync.SemLiveL9b.
Open Scope Z_scope.

Lemma pres_L8 s o ac s' : Inv s -> LInv s o -> step s ac = Some s' -> L8 s' (lstep s o ac).
Proof.
  intros Hi HL H. destruct (is_step ac) eqn:Hn; [|eapply pres_L8_env; eassumption].
  destruct ac as [a t|a|a|a|a|a]; try discriminate Hn. destruct (apc (A s a)) eqn:Epc.
  - rewrite (step_idle s a Epc) in H. discriminate H.
  - eapply pres_L8_W0; eassumption.
  - eapply pres_L8_W0c; eassumption.
  - eapply pres_L8_W1; eassumption.
  - eapply pres_L8_W2; eassumption.
  - eapply pres_L8_WP; eassumption.
  - eapply pres_L8_WW; eassumption.
  - eapply pres_L8_E1; eassumption.
  - eapply pres_L8_E2; eassumption.
  - eapply pres_L8_E3; eassumption.
  - eapply pres_L8_E4; eassumption.
  - eapply pres_L8_P0; eassumption.
  - eapply pres_L8_K1; eassumption.
  - eapply pres_L8_K2; eassumption.
  - eapply pres_L8_K3; eassumption.
  - eapply pres_L8_K4; eassumption.
  - eapply pres_L8_Y0; eassumption.
  - eapply pres_L8_Y0c; eassumption.
  - eapply pres_L8_G0; eassumption.
Qed.

Lemma pres_L9 s o ac s' : Inv s -> LInv s o -> step s ac = Some s' -> L9 s' (lstep s o ac).
Proof.
  intros Hi HL H. destruct (is_step ac) eqn:Hn; [|eapply pres_L9_env; eassumption].
  destruct ac as [a t|a|a|a|a|a]; try discriminate Hn. destruct (apc (A s a)) eqn:Epc.
  - rewrite (step_idle s a Epc) in H. discriminate H.
  - eapply pres_L9_W0; eassumption.
  - eapply pres_L9_W0c; eassumption.
  - eapply pres_L9_W1; eassumption.
  - eapply pres_L9_W2; eassumption.
  - eapply pres_L9_WP; eassumption.
  - eapply pres_L9_WW; eassumption.
  - eapply pres_L9_E1; eassumption.
  - eapply pres_L9_E2; eassumption.
  - eapply pres_L9_E3; eassumption.
  - eapply pres_L9_E4; eassumption.
  - eapply pres_L9_P0; eassumption.
  - eapply pres_L9_K1; eassumption.
  - eapply pres_L9_K2; eassumption.
  - eapply pres_L9_K3; eassumption.
  - eapply pres_L9_K4; eassumption.
  - eapply pres_L9_Y0; eassumption.
  - eapply pres_L9_Y0c; eassumption.
  - eapply pres_L9_G0; eassumption.
Qed.
