(* Preservation of the overlay invariant of SemLive.v, part B: L3 (unflagged registered blockers), L2 (flagged ones). *)
From Coq Require Import List Arith ZArith Bool Lia.
Import ListNotations.
Require Import MayV.Sync.SemModel MayV.Sync.SemInv MayV.Sync.SemTac MayV.Sync.SemLive MayV.Sync.SemLiveA.
Open Scope Z_scope.

Ltac upd_hyps := repeat match goal with
  | H : context [upd ?f ?i ?v ?i] |- _ => rewrite (upd_eq f i v) in H
  | H : context [upd ?f ?i ?v ?j] |- _ => rewrite (upd_neq f i j v) in H by (first [assumption | congruence | lia])
  end.
Ltac ctxsplit s a := try (destruct (actx (A s a)) eqn:Ectx; cbn [ret_pc] in * ).
Ltac pcs := repeat match goal with E : apc _ = _ |- _ => rewrite E in * end; cbn [apc actx] in *.

Lemma pres_L3 s o ac s' : Inv s -> LInv s o -> step s ac = Some s' -> L3 s' (lstep s o ac).
Proof.
  intros Hi HL H. pose proof (IL3 _ _ HL) as P3. unfold L3, att, own, attpc, inpark in *.
  lsetup Hi H; intro x; pose proof (P3 x) as Px; pose proof (P3 (ab (A s a))) as Pb; pose proof (P3 (aw (A s a))) as Pw.
  all: a_facts Hi a; b_facts Hi x; b_facts Hi (ab (A s a)); b_facts Hi (aw (A s a)); b_facts Hi (nextb s).
  all: unfold set_pc, set_ctx, set_res, set_av; upd_tac; upd_hyps; prj_all; lists.
  all: repeat match goal with e : ?v = _ |- _ => is_var v; subst v end.
  all: repeat match goal with e : owner _ = _ |- _ => progress (rewrite e in * ) end.
  all: ctxsplit s a; pcs.
  all: intros; brk; arith_prem; brk; try mem.
  all: destruct Px as [[Px _]|Px]; [subst x|mem]; destruct (rel (Bk s (ab (A s a)))) eqn:Erel; brk; mem.
Qed.
