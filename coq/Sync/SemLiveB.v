(* Preservation of the overlay invariant of SemLive.v, part B: L3 (unflagged registered blockers).
   Each lemma is assembled from one lemma per control point of the stepping actor (files SemLiveL3.v;
   the proof script of the clause is an Ltac in SemLiveTac.v). *)
From Coq Require Import List Arith ZArith Bool Lia.
Import ListNotations.
Require Import MayV.Sync.SemModel MayV.Sync.SemInv MayV.Sync.SemTac MayV.Sync.SemCase MayV.Sync.SemLive.
Require Export MayV.Sync.SemLiveTac.
Require Import MayV.Sync.SemLiveL3.
Open Scope Z_scope.

Lemma pres_L3 s o ac s' : Inv s -> LInv s o -> step s ac = Some s' -> L3 s' (lstep s o ac).
Proof.
  intros Hi HL H. destruct (is_step ac) eqn:Hn; [|eapply pres_L3_env; eassumption].
  destruct ac as [a t|a|a|a|a|a]; try discriminate Hn. destruct (apc (A s a)) eqn:Epc.
  - rewrite (step_idle s a Epc) in H. discriminate H.
  - eapply pres_L3_W0; eassumption.
  - eapply pres_L3_W0c; eassumption.
  - eapply pres_L3_W1; eassumption.
  - eapply pres_L3_W2; eassumption.
  - eapply pres_L3_WP; eassumption.
  - eapply pres_L3_WW; eassumption.
  - eapply pres_L3_E1; eassumption.
  - eapply pres_L3_E2; eassumption.
  - eapply pres_L3_E3; eassumption.
  - eapply pres_L3_E4; eassumption.
  - eapply pres_L3_P0; eassumption.
  - eapply pres_L3_K1; eassumption.
  - eapply pres_L3_K2; eassumption.
  - eapply pres_L3_K3; eassumption.
  - eapply pres_L3_K4; eassumption.
  - eapply pres_L3_Y0; eassumption.
  - eapply pres_L3_Y0c; eassumption.
  - eapply pres_L3_G0; eassumption.
Qed.
