(* Timed receive of may::sync::mpsc against an abstract clock: an overlay on ChanMpscModel.

   The base model decides `Instant::now() >= deadline` (action RDl e) and the expiry of a timed park (Fire RT)
   nondeterministically.  The overlay adds the clock and the deadlines and restricts exactly these two choices
   (DESIGN 2.1: time is a monotone `now` advanced by Tick; BlockerSpec: the timer gives a parked blocker the
   verdict Timeout only when now >= its deadline):

     Receiver::recv_timeout(d)     TRecvTimeout co d : t0 := now (clock at the call), dur := d, rem := d
     recv_max_until                deadline = Instant::now() + timeout, read right before the first inner.recv:
                                   taken with the first to_wake.store (RStep at RStore in context CFirst): dl := now + dur
     cur.park(Some(remaining))     RStep at RPark that suspends (no token): pdl := now + rem
     timer                         Fire RT only when pdl <= now
     `now >= deadline`             RDl e only with e = (dl <=? now); on false: rem := dl - now
                                   (`remaining = deadline.saturating_duration_since(now)`, repair 3916da2: the next round
                                   waits only for what is left)
     Tick d                        now := now + d

   Not modelled: a timeout so large that `Instant::now().checked_add(timeout)` overflows (03f0e0d: the call then
   takes the untimed path self.recv()).

   Every overlay run projects to a run of the base model (treach_base), so all theorems of ChanMpscThm /
   ChanMpscDrop hold for the base component of every reachable overlay state. *)
From Coq Require Import List Arith Bool Lia NArith.
Import ListNotations.
Require Import MayV.Sync.ChanMpscModel MayV.Sync.ChanMpscInv MayV.Sync.ChanMpscThm.
Local Open Scope N_scope.

Record tst := { base : st; now : N; dur : N; t0 : N; dl : N; rem : N; pdl : N }.
Inductive tact := Tick (d : N) | TRecvTimeout (co : bool) (d : N) | A (a : action).

Definition with_base (ts : tst) (s : st) : tst :=
  {| base := s; now := now ts; dur := dur ts; t0 := t0 ts; dl := dl ts; rem := rem ts; pdl := pdl ts |}.
Definition is_first (x : rcvr) : bool :=
  match rp x, rc x, rapi x with RStore, CFirst, ATimed => true | _, _, _ => false end.
Definition at_park (x : rcvr) : bool := match rp x with RPark => true | _ => false end.
Definition at_wait (x : rcvr) : bool := match rp x with RWait => true | _ => false end.

Definition tstep (ts : tst) (ta : tact) : option tst :=
  let s := base ts in
  match ta with
  | Tick d => Some {| base := s; now := now ts + d; dur := dur ts; t0 := t0 ts; dl := dl ts; rem := rem ts; pdl := pdl ts |}
  | TRecvTimeout co d =>
      match step s (RecvTimeout co) with
      | Some s' => Some {| base := s'; now := now ts; dur := d; t0 := now ts; dl := 0; rem := d; pdl := 0 |}
      | None => None end
  | A (RecvTimeout _) => None
  | A (RDl e) =>
      if Bool.eqb e (dl ts <=? now ts)
      then match step s (RDl e) with
           | Some s' => Some {| base := s'; now := now ts; dur := dur ts; t0 := t0 ts; dl := dl ts;
                                rem := if e then rem ts else dl ts - now ts; pdl := pdl ts |}
           | None => None end
      else None
  | A (Fire RT) => if pdl ts <=? now ts then option_map (with_base ts) (step s (Fire RT)) else None
  | A RStep =>
      match step s RStep with
      | Some s' =>
          Some {| base := s'; now := now ts; dur := dur ts; t0 := t0 ts;
                  dl := if is_first (R s) then now ts + dur ts else dl ts;
                  rem := rem ts;
                  pdl := if at_park (R s) && at_wait (R s') then now ts + rem ts else pdl ts |}
      | None => None end
  | A a => option_map (with_base ts) (step s a)
  end.

Definition tinit : tst := {| base := init; now := 0; dur := 0; t0 := 0; dl := 0; rem := 0; pdl := 0 |}.

Inductive TReach : tst -> Prop :=
| TR0 : TReach tinit
| TRS ts a ts' : TReach ts -> tstep ts a = Some ts' -> TReach ts'.

Fixpoint trun (ts : tst) (l : list tact) : tst :=
  match l with [] => ts | a :: l' => match tstep ts a with Some ts' => trun ts' l' | None => trun ts l' end end.
Lemma treach_run l : forall ts, TReach ts -> TReach (trun ts l).
Proof.
  induction l as [|a l IH]; cbn [trun]; intros ts H; [exact H|].
  destruct (tstep ts a) eqn:E; [apply IH; eapply TRS; eauto | apply IH; exact H].
Qed.

(* one overlay step is one base step (or none: Tick) *)
Ltac tb H := repeat match type of H with
  | (if ?c then _ else _) = Some _ => let B := fresh "B" in destruct c eqn:B; [|discriminate]
  | match step ?s ?a with _ => _ end = Some _ => let E := fresh "E" in destruct (step s a) eqn:E; [|discriminate]
  | option_map _ (step ?s ?a) = Some _ => let E := fresh "E" in destruct (step s a) eqn:E; [|discriminate]; cbn [option_map] in H
  end.

Lemma tstep_base ts a ts' : tstep ts a = Some ts' ->
  base ts' = base ts \/ exists ac, step (base ts) ac = Some (base ts').
Proof.
  unfold tstep. intro H. destruct a as [d|co d|a].
  - inversion H; subst. left. reflexivity.
  - tb H. inversion H; subst. right. eexists. exact E.
  - destruct a as [| | | | |e|r| | | | |]; try discriminate; try destruct r; tb H; inversion H; subst; right; eexists; exact E.
Qed.

Theorem treach_base ts : TReach ts -> Reach (base ts).
Proof.
  induction 1 as [|ts a ts' Hr IH Hs]; [constructor|].
  destruct (tstep_base _ _ _ Hs) as [E|[ac E]]; [rewrite E; exact IH | eapply RS; eauto].
Qed.

(* ------------------------------------------------------------------------------------------ *)
(* Timeout only at / after the deadline *)

Definition past_store (x : rcvr) : bool := match rc x with CReg | CFin => true | _ => false end.

Definition tinv (ts : tst) : Prop :=
  rapi (R (base ts)) = ATimed ->
    t0 ts <= now ts /\
    (past_store (R (base ts)) = true -> t0 ts + dur ts <= dl ts) /\
    (rp (R (base ts)) = RDeadline -> rc (R (base ts)) = CFin) /\
    (rp (R (base ts)) = RIdle -> rres (R (base ts)) = RTimeout -> rc (R (base ts)) = CFin /\ dl ts <= now ts) /\
    rc (R (base ts)) <> CTry.

Lemma tinv_init : tinv tinit.
Proof. intro H. discriminate. Qed.

Lemma leb_true a b : (a <=? b) = true -> a <= b.
Proof. apply N.leb_le. Qed.

Lemma tinv_step ts a ts' : Inv (base ts) -> tinv ts -> tstep ts a = Some ts' -> tinv ts'.
Proof.
  intros Hb I H. pose proof (I_rc _ Hb) as Brc. pose proof (I_rdata _ Hb) as Brd. unfold tinv in *. unfold tstep in H. destruct a as [d|co d|a].
  - inversion H; subst; cbn. intro X. destruct (I X) as (I1 & I2 & I3 & I4 & I5).
    split; [lia|]. split; [exact I2|]. split; [exact I3|]. split; [|exact I5]. intros P Q. destruct (I4 P Q). split; auto. lia.
  - destruct (step (base ts) (RecvTimeout co)) eqn:E; [|discriminate]. inversion H; subst; cbn. clear H.
    intros _. step_cases E; guards; unf; prj. cbn. repeat split; try lia; try discriminate.
  - destruct a as [|co|co| | |e|r|a|a b|a|a|]; try discriminate; try destruct r; tb H; inversion H; subst; cbn; clear H.
    all: unfold is_first, at_park, at_wait, past_store in *.
    all: step_cases E; guards; unf; prj; cbn; rw; prj.
    all: try exact I.
    all: rdes; prj; cbn; rw; prj.
    all: try (intro X; discriminate).
    all: try (intro X; destruct (I X) as (I1 & I2 & I3 & I4 & I5); rdes; prj; cbn;
              repeat split; auto; try lia; try discriminate; try (intros; discriminate); try congruence; fail).
    all: try (specialize (Brd eq_refl); intros X; destruct (I X) as (I1 & I2 & I3 & I4 & I5);
              repeat split; auto; try lia; try discriminate; try congruence;
              try (intros; match goal with Y : rdata _ = RTimeout |- _ => rewrite Y in Brd; contradiction end); fail).
    (* RDl *)
    all: intro X; destruct (I X) as (I1 & I2 & I3 & I4 & I5); specialize (I3 eq_refl); try discriminate I3; try (rewrite I3 in * ); cbn in *.
    all: repeat split; auto; try discriminate; try (intros; discriminate).
    all: cbn in B; destruct (dl ts <=? now ts) eqn:L; try discriminate; apply leb_true in L; exact L.
Qed.

Lemma tinv_reach ts : TReach ts -> tinv ts.
Proof. induction 1; [apply tinv_init | eapply tinv_step; eauto; apply inv_reach, treach_base; assumption]. Qed.

(* recv_timeout(d) answers Timeout only when at least d has passed on the clock since the call, and only
   at / after the deadline it computed *)
Theorem mpsc_timeout_only_after_deadline ts : TReach ts ->
  rapi (R (base ts)) = ATimed -> rp (R (base ts)) = RIdle -> rres (R (base ts)) = RTimeout ->
  t0 ts + dur ts <= dl ts /\ dl ts <= now ts /\ t0 ts + dur ts <= now ts.
Proof.
  intros H A P Q. destruct (tinv_reach ts H A) as (I1 & I2 & I3 & I4 & I5).
  destruct (I4 P Q) as [C D]. assert (X : t0 ts + dur ts <= dl ts) by (apply I2; unfold past_store; rewrite C; reflexivity).
  repeat split; auto. lia.
Qed.

(* the timer gives the verdict Timeout to the suspended receiver only at / after the park's own deadline *)
Theorem mpsc_timer_fires_only_after_park_deadline ts ts' : tstep ts (A (Fire RT)) = Some ts' -> pdl ts <= now ts.
Proof.
  unfold tstep. destruct (pdl ts <=? now ts) eqn:E; [|discriminate]. intros _. apply N.leb_le. exact E.
Qed.

(* ------------------------------------------------------------------------------------------ *)
(* non-vacuity *)
Definition sch_timeout : list tact :=
  [TRecvTimeout true 10; A RStep; A RStep;          (* try_recv: pop None, channels 1 *)
   Tick 2; A RStep;                                 (* deadline = 2 + 10; store *)
   A RStep; A RStep; A RStep;                       (* re-check Empty; park(10): suspended, pdl = 12 *)
   Tick 9; A (Fire RT);                             (* too early: refused *)
   Tick 1; A (Fire RT); A RStep;                    (* 12: the timer fires; resumed *)
   A RStep; A RStep].                               (* try_recv Empty: at the deadline check *)
Example timeout_at_deadline :
  let ts := trun tinit (sch_timeout ++ [A (RDl false); A (RDl true)]) in
  TReach ts /\ rres (R (base ts)) = RTimeout /\ now ts = 12 /\ dl ts = 12 /\ t0 ts = 0 /\ dur ts = 10.
Proof. split; [apply treach_run; constructor | vm_compute; auto 10]. Qed.
Example early_timer_is_refused :
  let ts := trun tinit (firstn 9 sch_timeout) in
  TReach ts /\ rp (R (base ts)) = RWait /\ now ts = 11 /\ pdl ts = 12 /\ tstep ts (A (Fire RT)) = None.
Proof. split; [apply treach_run; constructor | vm_compute; auto 10]. Qed.
