(* C12 - concrete reachable states of the RwLock model (non-vacuity of the theorems' hypotheses),
   checked by vm_compute. *)
From Coq Require Import List Arith ZArith Bool Lia.
Import ListNotations.
Require Import MayV.Sync.RwLockModel MayV.Sync.RwLockInv MayV.Sync.RwLockThm.

Definition steps (a n : nat) : list action := repeat (Step a) n.

(* Writer 1 panics while holding the guard (the lock becomes poisoned and is released); writer 2 then
   takes the poisoned lock by the fast path; writer 3 and reader 4 find it taken and park: 3 pushes
   its blocker, counts itself and parks; 4 takes rlock, finds r = 0, pushes, counts itself, parks. *)
Definition ex_poisoned_sched : list action :=
  [Call 1 OWrite] ++ steps 1 3 ++ [Panic 1] ++ steps 1 2 ++
  [Call 2 OWrite] ++ steps 2 3 ++
  [Call 3 OWrite] ++ steps 3 3 ++
  [Call 4 ORead] ++ steps 4 4.

Lemma ex_poisoned :
  exists s, Reach false s /\ ovf s = false /\ pois s = true /\
            apc (A s 1) = Idle /\ apc (A s 2) = HoldW /\ apc (A s 3) = PK /\ apc (A s 4) = PK /\
            cnt s = 3 /\ rl s = Some 4 /\ length (q s) = 2.
Proof.
  destruct (run (init false) ex_poisoned_sched) as [s|] eqn:E; [|vm_compute in E; discriminate].
  exists s. split; [eapply reach_run; [constructor | exact E]|].
  vm_compute in E. inversion E; subst. vm_compute. repeat split; reflexivity.
Qed.

(* ... writer 2 drops its guard: the unlock hands the lock to 3 (pop, unparked.store, unpark, take_release);
   3 returns from park, gets its (poisoned) guard and drops it; the lock passes to reader 4, 5 joins it by
   try_read; both hold read guards while writer 6 is parked. *)
Definition ex_readers_sched : list action :=
  ex_poisoned_sched ++ [Drop 2] ++ steps 2 5 ++ steps 3 2 ++ [Drop 3] ++ steps 3 5 ++ steps 4 3 ++
  [Call 5 OTryRead] ++ steps 5 3 ++ [Call 6 OWrite] ++ steps 6 3.

Lemma ex_readers :
  exists s, Reach false s /\ ovf s = false /\ pois s = true /\
            apc (A s 4) = HoldR /\ apc (A s 5) = HoldR /\ apc (A s 6) = PK /\ r s = 2%Z /\ cnt s = 2 /\ holder s = HG.
Proof.
  destruct (run (init false) ex_readers_sched) as [s|] eqn:E; [|vm_compute in E; discriminate].
  exists s. split; [eapply reach_run; [constructor | exact E]|].
  vm_compute in E. inversion E; subst. vm_compute. repeat split; reflexivity.
Qed.

(* ... a cancelled coroutine 7 registers, parks, is cancelled (Abort), registers its release and leaves;
   the readers drop their guards (the last one unlocks and hands over to 6), 6 gets the guard and drops
   it: its unlock pops the blocker of the gone 7, takes the release and unlocks once more.  Everybody is
   at rest again and the lock is free. *)
Definition ex_rest_sched : list action :=
  ex_readers_sched ++ [Call 7 OWrite] ++ steps 7 3 ++ [Abort 7] ++ steps 7 3 ++
  [Drop 4] ++ steps 4 2 ++ [Drop 5] ++ steps 5 7 ++ steps 6 2 ++ [Drop 6] ++ steps 6 6.

Lemma ex_rest :
  exists s, Reach false s /\ ovf s = false /\ (forall a, at_rest (apc (A s a)) = true) /\
            apc (A s 7) = Exit /\ apc (A s 6) = Idle /\ nextb s = 5.
Proof.
  destruct (run (init false) ex_rest_sched) as [s|] eqn:E; [|vm_compute in E; discriminate].
  exists s. split; [eapply reach_run; [constructor | exact E]|].
  vm_compute in E. inversion E; subst. cbn [ovf A apc nextb]. repeat split; try reflexivity.
  intro a. do 8 (destruct a as [|a]; [vm_compute; reflexivity|]). vm_compute. reflexivity.
Qed.

(* the hypotheses of no_stranded_partial are satisfiable: the state above is stable *)
Lemma ex_rest_stable :
  exists s, Reach false s /\ ovf s = false /\ Stable s /\
            (forall a, apc (A s a) <> HoldW) /\ (forall a, apc (A s a) <> HoldR) /\ (forall a, apc (A s a) <> H1).
Proof.
  destruct ex_rest as (s & R & Ho & Rest & _). exists s. repeat split; auto.
  - intro a. unfold step. specialize (Rest a). destruct (apc (A s a)); cbn in Rest; try discriminate; reflexivity.
  - intros a E. specialize (Rest a). rewrite E in Rest. discriminate.
  - intros a E. specialize (Rest a). rewrite E in Rest. discriminate.
  - intros a E. specialize (Rest a). rewrite E in Rest. discriminate.
Qed.

(* a read guard drop in progress (DR0) in a reachable state: hypothesis of no_underflow *)
Lemma ex_dropping :
  exists s, Reach false s /\ ovf s = false /\ apc (A s 4) = DR0 /\ r s = 2%Z.
Proof.
  destruct (run (init false) (ex_readers_sched ++ [Drop 4])) as [s|] eqn:E; [|vm_compute in E; discriminate].
  exists s. split; [eapply reach_run; [constructor | exact E]|].
  vm_compute in E. inversion E; subst. vm_compute. repeat split; reflexivity.
Qed.
