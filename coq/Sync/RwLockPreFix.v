(* C12 - documented witnesses about the code BEFORE the repairs F4, F5 and F11 (they show what the
   `fix:` commits repaired, and that the theorems of Properties/C12.v are not vacuous: the same
   statements are false for these models).

   Model: the non-parking fragment of the pre-fix may::sync::RwLock, promoted from the design-time
   prototype notes/proto/RwTryFragment.v -- try_lock (load / CAS / poison.get after a lost CAS), the
   fast paths of write() and read() through lock(), try_write, try_read, the guard constructors
   (poison.borrow) and the two guard drops -- one transition per shared access.  The inner `rlock`
   Mutex<usize> is an atomic lock around a wrapping 64-bit reader count.  A call that would have to
   park leaves the fragment (pc Out); every run of the fragment is a run of the pre-fix code.
   Added here for F11: a cancelled coroutine that finds rlock taken inside read_unlock() leaves the
   guard drop by the cancel panic (action AbortDrop, pc Cancelled), as Mutex::lock did before commit
   12c7211 took rlock with the cancel disabled.

     pre-F5 (commit 4a878e4):  T2 = poison.get after a lost CAS; Poisoned(..) was treated as acquired
     pre-F4 (commit 6927675):  try_read built the guard (`?`) before `*r += 1`
     pre-F11 (commit 12c7211): rlock.lock() inside the guard drop was a cancellation point *)
From Coq Require Import List Arith ZArith Bool Lia.
Import ListNotations.
Open Scope Z_scope.

Definition W := 2 ^ 64.
Inductive op := OWrite | OTryWrite | ORead | OTryRead.
Inductive pc :=
  | Idle | Out
  | RL (o : op)                 (* read paths: acquire rlock *)
  | T0 (o : op) | T1 (o : op) | T2 (o : op)   (* try_lock: load cnt / CAS / poison.get after a lost CAS *)
  | G (o : op)                  (* guard constructor: poison.borrow *)
  | INC (o : op)                (* read paths: *r += 1, release rlock *)
  | HoldW | HoldR               (* the caller owns a write / read guard (from Ok or from Poisoned(..)) *)
  | DW                          (* write guard drop: unlock = fetch_sub *)
  | DR0 | DR1                   (* read guard drop: acquire rlock / *r -= 1, maybe unlock, release *)
  | Cancelled.                  (* pre-F11: the guard drop was left by the cancel panic *)

Record st := { cnt : Z; rl : option nat; r : Z; poisoned : bool; P : nat -> pc }.
Definition upd (f : nat -> pc) i v := fun j => if Nat.eqb j i then v else f j.
Definition mk c l x p f := {| cnt := c; rl := l; r := x; poisoned := p; P := f |}.
Definition is_read o := match o with ORead | OTryRead => true | _ => false end.

Inductive action := Call (a : nat) (o : op) | Drop (a : nat) | Step (a : nat) | AbortDrop (a : nat).

Definition step (s : st) (ac : action) : option st :=
  let set a p := upd (P s) a p in
  match ac with
  | Call a o => match P s a with
      | Idle => Some (mk (cnt s) (rl s) (r s) (poisoned s) (set a (if is_read o then RL o else T0 o)))
      | _ => None end
  | Drop a => match P s a with
      | HoldW => Some (mk (cnt s) (rl s) (r s) (poisoned s) (set a DW))
      | HoldR => Some (mk (cnt s) (rl s) (r s) (poisoned s) (set a DR0))
      | _ => None end
  | AbortDrop a => match P s a, rl s with
      | DR0, Some _ => Some (mk (cnt s) (rl s) (r s) (poisoned s) (set a Cancelled))   (* Mutex::lock parks, returns Canceled, panics *)
      | _, _ => None end
  | Step a => match P s a with
      | RL o => match rl s with
                | None => Some (mk (cnt s) (Some a) (r s) (poisoned s) (set a (if r s =? 0 then T0 o else match o with OTryRead => G o | _ => INC o end)))
                | Some _ => match o with
                            | OTryRead => Some (mk (cnt s) (rl s) (r s) (poisoned s) (set a Idle))   (* WouldBlock *)
                            | _ => None end                                                          (* Mutex::lock waits *)
                end
      | T0 o => if cnt s =? 0 then Some (mk (cnt s) (rl s) (r s) (poisoned s) (set a (T1 o)))
                else (* WouldBlock *)
                  match o with
                  | OTryWrite => Some (mk (cnt s) (rl s) (r s) (poisoned s) (set a Idle))
                  | OTryRead => Some (mk (cnt s) None (r s) (poisoned s) (set a Idle))           (* drops the rlock guard *)
                  | _ => Some (mk (cnt s) (rl s) (r s) (poisoned s) (set a Out))                 (* would park *)
                  end
      | T1 o => if cnt s =? 0 then Some (mk 1 (rl s) (r s) (poisoned s) (set a (match o with ORead => INC o | _ => G o end)))
                else Some (mk (cnt s) (rl s) (r s) (poisoned s) (set a (T2 o)))
      | T2 o => if poisoned s
                then (* Err(Poisoned): lock() maps it to Err(Timeout); write()/read()/try_write()/try_read() only test for
                        Canceled resp. WouldBlock and go on as if the lock had been taken *)
                     Some (mk (cnt s) (rl s) (r s) (poisoned s) (set a (match o with ORead => INC o | _ => G o end)))
                else match o with
                     | OTryWrite => Some (mk (cnt s) (rl s) (r s) (poisoned s) (set a Idle))
                     | OTryRead => Some (mk (cnt s) None (r s) (poisoned s) (set a Idle))
                     | _ => Some (mk (cnt s) (rl s) (r s) (poisoned s) (set a Out))
                     end
      | INC o => (* read(): *r += 1; RwLockReadGuard::new; the rlock guard is dropped at the end of the call *)
                 Some (mk (cnt s) None ((r s + 1) mod W) (poisoned s) (set a HoldR))
      | G o => match o with
               | OTryRead => (* let g = RwLockReadGuard::new(self)?;  *r += 1; *)
                   if poisoned s
                   then Some (mk (cnt s) None (r s) (poisoned s) (set a HoldR))                   (* `?` returns Poisoned(guard) before the increment *)
                   else Some (mk (cnt s) None ((r s + 1) mod W) (poisoned s) (set a HoldR))
               | _ => Some (mk (cnt s) (rl s) (r s) (poisoned s) (set a HoldW))                   (* Ok(guard) or Poisoned(guard): a guard either way *)
               end
      | DW => Some (mk (cnt s - 1) (rl s) (r s) (poisoned s) (set a (if 1 <? cnt s then Out else Idle)))
      | DR0 => match rl s with None => Some (mk (cnt s) (Some a) (r s) (poisoned s) (set a DR1)) | Some _ => None end
      | DR1 => let r' := (r s - 1) mod W in
               if r' =? 0 then Some (mk (cnt s - 1) None r' (poisoned s) (set a (if 1 <? cnt s then Out else Idle)))
               else Some (mk (cnt s) None r' (poisoned s) (set a Idle))
      | _ => None
      end
  end.

Definition init (p : bool) : st := mk 0 None 0 p (fun _ => Idle).
Inductive Reach (p : bool) : st -> Prop :=
| R0 : Reach p (init p)
| RS s a s' : Reach p s -> step s a = Some s' -> Reach p s'.
Fixpoint run (s : st) (l : list action) : option st :=
  match l with [] => Some s | a :: l' => match step s a with Some s' => run s' l' | None => None end end.
Lemma reach_run p l s s' : Reach p s -> run s l = Some s' -> Reach p s'.
Proof.
  revert s. induction l as [|a l IH]; cbn [run]; intros s R H; [inversion H; subst; exact R|].
  destruct (step s a) eqn:E; [|discriminate]. eapply IH; [eapply RS; eauto | exact H].
Qed.

(* F5: on a poisoned lock two writers hold guards at the same time.  Both load cnt = 0; 1 wins the
   CAS; 2 loses it, reads the poison flag, and write() carries on to the guard constructor. *)
Definition f5 := [Call 1%nat OWrite; Call 2%nat OWrite; Step 1%nat; Step 2%nat; Step 1%nat; Step 2%nat; Step 2%nat; Step 1%nat; Step 2%nat].
Theorem writer_exclusion_refuted :
  exists s, Reach true s /\ P s 1%nat = HoldW /\ P s 2%nat = HoldW.
Proof.
  destruct (run (init true) f5) as [s|] eqn:E; [|vm_compute in E; discriminate].
  exists s. split; [eapply reach_run; [constructor | exact E]|].
  vm_compute in E. inversion E; subst. vm_compute. auto.
Qed.

(* F4: on a poisoned lock, try_read hands out a guard without counting the reader; dropping it
   wraps the count to 2^64 - 1, the global lock is never released, and with no guard alive any more
   try_write answers WouldBlock for ever (here: comes back to Idle without a guard, cnt still 1). *)
Definition f4 := [Call 1%nat OTryRead; Step 1%nat; Step 1%nat; Step 1%nat; Step 1%nat; Drop 1%nat; Step 1%nat; Step 1%nat;
                  Call 2%nat OTryWrite; Step 2%nat].
Theorem guards_release_what_they_took_refuted :
  exists s, Reach true s /\ (forall a, P s a = Idle) /\ cnt s = 1 /\ r s = W - 1.
Proof.
  destruct (run (init true) f4) as [s|] eqn:E; [|vm_compute in E; discriminate].
  exists s. split; [eapply reach_run; [constructor | exact E]|].
  vm_compute in E. inversion E; subst. cbn [P cnt r mk]. split; [|split; reflexivity].
  intro a. cbv beta. repeat match goal with |- context [match ?c with _ => _ end] => destruct c end; reflexivity.
Qed.

(* F11: reader 2 is inside read() holding rlock when the cancelled reader 1 drops its guard: the drop
   is left by the cancel panic before `*r -= 1`.  After reader 2 has dropped its guard too, no guard
   is alive, every call has returned, and the lock is still taken: cnt = 1, r = 1. *)
Definition f11 := [Call 1%nat ORead; Step 1%nat; Step 1%nat; Step 1%nat; Step 1%nat;      (* 1: rlock, load, CAS, *r += 1 -> HoldR *)
                   Call 2%nat ORead; Step 2%nat;                                            (* 2: takes rlock, r = 1 -> INC *)
                   Drop 1%nat; AbortDrop 1%nat;                                             (* 1: drop finds rlock taken, cancelled *)
                   Step 2%nat; Drop 2%nat; Step 2%nat; Step 2%nat].                         (* 2: HoldR, drop: r = 2 - 1 = 1, no unlock *)
Theorem cancelled_drop_leaks_the_lock_refuted :
  exists s, Reach false s /\ P s 1%nat = Cancelled /\ (forall a, a <> 1%nat -> P s a = Idle) /\ cnt s = 1 /\ r s = 1 /\ rl s = None.
Proof.
  destruct (run (init false) f11) as [s|] eqn:E; [|vm_compute in E; discriminate].
  exists s. split; [eapply reach_run; [constructor | exact E]|].
  vm_compute in E. inversion E; subst. cbn [P cnt r rl mk]. split; [reflexivity|]. split; [|repeat split; reflexivity].
  intros a Ha. cbv beta. destruct a as [|[|[|a]]]; try reflexivity. congruence.
Qed.
