From Coq Require Import List Arith ZArith Bool Lia.
Import ListNotations.
Require Import MayV.Sync.SemModel MayV.Sync.SemInv MayV.Sync.SemTac.
Open Scope Z_scope.

Definition actor (ac : action) := match ac with Wait x _ | TryWait x | Post x | GetValue x | Step x | Fire x => x end.

Lemma pres_A_other s ac s' a' : Inv s -> step s ac = Some s' -> actor ac <> a' -> ainv s' a'.
Proof.
  intros Hi H Hx. g_facts Hi. pose proof (IA _ Hi a') as Ha'. cbn [actor] in Hx.
  step_cases H; cbn [actor] in Hx; unfold ainv, sorted_into, mk, set_pc, set_ctx, set_res, set_av in *; cbn [cnt q nextb A Bk ini uposts succ ung giv pre hand owe] in *.
  all: rewrite ?(upd_neq (A s) a a') by congruence.
  all: try exact Ha'.
  all: destruct Ha' as (L1 & L2 & L3 & L4 & L5 & L6).
  all: pose proof (KD _ Hi a a' Hx) as HKD.
  all: a_facts Hi a; b_facts Hi (ab (A s a)); b_facts Hi (aw (A s a)); b_facts Hi (ab (A s a')); b_facts Hi (aw (A s a')); b_facts Hi (nextb s).
  all: try match goal with E : NoDup (?n :: _) |- _ => b_facts Hi n; inversion E; subst end.
  all: try match goal with E : q _ = _ :: _ |- _ => rewrite E in * end.
  all: split; [lia|split;[lia|split;[lists; mem|split;[lists; mem|split;
        [intro Hp; specialize (L5 Hp); clear L6 | clear L5; destruct (apc (A s a')) eqn:Epc'; try exact I]]]]].
  all: upd_tac; cbn [apc ab aw actx atimed acomp av ares tok parked reason unp rel owner fresh] in *; lists.
  all: repeat match goal with e : ab (A _ _) = _ |- _ => progress (rewrite e in * ) | e : aw (A _ _) = _ |- _ => progress (rewrite e in * ) end.
  all: brk; repeat match goal with |- _ /\ _ => split end; intros; brk; try mem.
Qed.
