(* Preservation of SemInv.Inv: ainv of an actor other than the stepping one.  Assembled from one lemma per
   control point (SemPresOa.v, SemPresOb.v, SemPresOc.v; proof script ao_script in SemPresTac.v).
   `actor` is defined in SemCase.v (re-exported). *)
From Coq Require Import List Arith ZArith Bool Lia.
Import ListNotations.
Require Import MayV.Sync.SemModel MayV.Sync.SemInv MayV.Sync.SemTac.
Require Export MayV.Sync.SemCase.
Require Import MayV.Sync.SemPresOa MayV.Sync.SemPresOb MayV.Sync.SemPresOc.
Open Scope Z_scope.

Lemma pres_A_other s ac s' a' : Inv s -> step s ac = Some s' -> actor ac <> a' -> ainv s' a'.
Proof.
  intros Hi H Hx. destruct (is_step ac) eqn:Hn; [|eapply pres_A_other_env; eassumption].
  destruct ac as [a t|a|a|a|a|a]; try discriminate Hn. cbn [actor] in Hx. destruct (apc (A s a)) eqn:Epc.
  - rewrite (step_idle s a Epc) in H. discriminate H.
  - eapply pres_A_other_W0; eassumption.
  - eapply pres_A_other_W0c; eassumption.
  - eapply pres_A_other_W1; eassumption.
  - eapply pres_A_other_W2; eassumption.
  - eapply pres_A_other_WP; eassumption.
  - eapply pres_A_other_WW; eassumption.
  - eapply pres_A_other_E1; eassumption.
  - eapply pres_A_other_E2; eassumption.
  - eapply pres_A_other_E3; eassumption.
  - eapply pres_A_other_E4; eassumption.
  - eapply pres_A_other_P0; eassumption.
  - eapply pres_A_other_K1; eassumption.
  - eapply pres_A_other_K2; eassumption.
  - eapply pres_A_other_K3; eassumption.
  - eapply pres_A_other_K4; eassumption.
  - eapply pres_A_other_Y0; eassumption.
  - eapply pres_A_other_Y0c; eassumption.
  - eapply pres_A_other_G0; eassumption.
Qed.
