(* C12 - interference freedom: the assertion of an actor a' that does not move is preserved (part 1) - split off RwLockPresO1.v so that the files build in parallel *)
From Coq Require Import List Arith ZArith Bool Lia.
Import ListNotations.
Require Import MayV.Sync.RwLockModel MayV.Sync.RwLockInv MayV.Sync.RwLockPresG MayV.Sync.RwLockPresA MayV.Sync.RwLockPresOTac.

Lemma o_L1 s a s' a' : apc (A s a) = RwLockModel.L1 -> Inv s -> a' <> a -> step s (Step a) = Some s' -> ovf s' = false -> ainv s' a'.
Proof.
  intros EP Hi Hne H Hov. destruct (IG _ Hi) as (G1 & G2 & G3 & G4 & G5 & G6 & G7 & G8 & G9 & G10 & G11).
  other_tac Hi H EP a a'.
  all: try solve [keep_entry a'].
  all: try solve [yclause Hi a].
  all: other_fin.
Qed.
