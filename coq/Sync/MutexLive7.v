(* C05 - Inv2 is inductive; quiescence (Stable); no stranded waiter, modulo the empty-queue pop (closed in MutexPop) *)
From Coq Require Import List Arith Bool Lia.
Import ListNotations.
Require Import MayV.Sync.MutexModel MayV.Sync.MutexInv MayV.Sync.MutexME MayV.Sync.MutexLiveInv MayV.Sync.MutexLive1 MayV.Sync.MutexLive2 MayV.Sync.MutexLive4 MayV.Sync.MutexLive5 MayV.Sync.MutexLive6.

Section S.
Variable isco : nat -> bool.
Notation step := (step isco).
Notation Reach := (Reach isco).

Lemma inv2_step s ac s' : Inv s -> Inv2 s -> step s ac = Some s' -> Inv2 s'.
Proof.
  intros Hi Hj H. constructor.
  - eapply pres2_N1; eauto.
  - eapply pres2_HX; eauto.
  - eapply pres2_PK; eauto.
  - eapply pres2_QN; eauto.
  - eapply pres2_Q1; eauto.
  - eapply pres2_Q2; eauto.
  - intros b Hb. cbn. eapply pres2_K1; eauto.
  - eapply pres2_N2a; eauto.
  - eapply pres2_N2b; eauto.
Qed.

Theorem inv12_reach s : Reach s -> Inv s /\ Inv2 s.
Proof.
  induction 1 as [|s a s' R [Hi Hj] H].
  - split; [apply inv_init | apply inv2_init].
  - split; [eapply inv_step; eauto | eapply inv2_step; eauto].
Qed.

(* an actor at any of these control points can always take its next step *)
Definition always_enabled (p : pc) : bool :=
  match p with T0 | L0 | L1 | L2 | H2 | H3 | H3w | H4 | U0 | P | P1 | P2 | C1 | C2 | C3 | C4 | CS => true | _ => false end.
Lemma enabled s a : always_enabled (apc (A s a)) = true -> step s (Step a) <> None.
Proof.
  unfold MutexModel.step. destruct (apc (A s a)); cbn; intros E; try discriminate;
    repeat match goal with |- context [if ?c then _ else _] => destruct c end; discriminate.
Qed.
Lemma enabled_W s a : apc (A s a) = W -> reason (Bk s (ab (A s a))) <> None -> step s (Step a) <> None.
Proof.
  unfold MutexModel.step. intros -> Hr. destruct (reason (Bk s (ab (A s a)))) as [[]|]; congruence.
Qed.
Lemma enabled_Kick s a : apc (A s a) = W -> reason (Bk s (ab (A s a))) = None ->
  tok (Bk s (ab (A s a))) = true -> parked (Bk s (ab (A s a))) = true -> step s (Kick a) <> None.
Proof.
  unfold MutexModel.step. intros -> -> -> ->. discriminate.
Qed.

(* quiescence: no actor can take a step of the protocol (holders of the guard may stay inside the
   critical section), and no suspended coroutine is about to be resumed by its own subscribe re-check.
   Client choices (Start, StartTry, Read, Write) and cancellation (Cancel, CKick) are not progress. *)
Definition Stable (s : st) : Prop :=
  forall a, (in_cs (apc (A s a)) = true \/ step s (Step a) = None) /\ step s (Kick a) = None.

(* C05 (iii): if nothing can move and nobody holds the guard, then nobody is parked in lock(): an
   unlock never strands a waiter, also when that waiter is concurrently cancelled (with cancellation
   enabled or disabled).  [no_pop_stuck] (nobody is stuck popping an empty waiter queue) is discharged
   in MutexPop.v (pop_never_empty). *)
Theorem no_stranded_waiter_partial s :
  Reach s -> Stable s ->
  (forall a, in_cs (apc (A s a)) = false) -> (forall a, apc (A s a) <> H1) ->
  forall a, apc (A s a) <> W.
Proof.
  intros R St NoCS NoH1 a Ha.
  destruct (inv12_reach s R) as [Hi Hj].
  assert (En : forall x, always_enabled (apc (A s x)) = true -> False).
  { intros x Hx. destruct (St x) as [[C|N] _]; [rewrite NoCS in C; discriminate | eapply enabled; eauto]. }
  pose proof (IA _ Hi a) as Ia. unfold ainv in Ia. rewrite Ha in Ia. destruct Ia as (_ & _ & _ & Hin & _).
  assert (Hne : ent s <> []) by (intro E; rewrite E in Hin; destruct Hin).
  pose proof (N1 _ Hj Hne) as Hh.
  destruct (holder s) as [|x|b] eqn:Eh; [congruence| |].
  - pose proof (HX _ Hj x Eh) as Hp. pose proof (NoCS x) as Hx. destruct (apc (A s x)) eqn:Ex; cbn in Hp, Hx; try discriminate.
    + eapply NoH1; eauto.
    + apply (En x). rewrite Ex. reflexivity.
    + apply (En x). rewrite Ex. reflexivity.
  - pose proof (K1 _ Hj b Eh) as Hk. cbn in Hk. destruct Hk as (Ku & Kab & K1b & Kw).
    destruct (N2a _ Hj b Eh) as [[Hg _] | [T1 T2]].
    + apply (En (ag (Bk s b))). rewrite Hg. reflexivity.
    + set (o := owner (Bk s b)) in *. unfold waiting, halfgone in Kw.
      destruct (apc (A s o)) eqn:Eo; cbn in *;
        try (apply (En o); rewrite Eo; reflexivity);
        try (destruct Kw as [Kw|[Kw _]]; discriminate).
      * eapply NoH1; eauto.
      * (* owner suspended: the token has been delivered, so it resumes (or resumes itself) *)
        destruct (St o) as [[C|N] NK]; [rewrite NoCS in C; discriminate|].
        destruct (reason (Bk s (ab (A s o)))) eqn:Er.
        -- eapply enabled_W; eauto. rewrite Er. discriminate.
        -- eapply enabled_Kick; eauto.
           ++ rewrite Kab. destruct (T1 eq_refl) as [T|T]; [rewrite Kab in Er; congruence | exact T].
           ++ apply (PK _ Hj). exact Eo.
      * (* owner gone: the agent is still about to take its release *)
        destruct (N2b _ Hj b Eh Eo) as [[Hg|[Hg|Hg]] _]; apply (En (ag (Bk s b))); rewrite Hg; reflexivity.
Qed.
End S.
