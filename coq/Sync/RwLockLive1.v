(* C12 - preservation of Inv2: N1, HX, QN *)
From Coq Require Import List Arith ZArith Bool Lia.
Import ListNotations.
Require Import MayV.Sync.RwLockModel MayV.Sync.RwLockInv MayV.Sync.RwLockPresG MayV.Sync.RwLockPresOTac MayV.Sync.RwLockLiveInv.

Lemma pres2_N1 s ac s' : Inv s -> Inv2 s -> step s ac = Some s' -> ent s' <> [] -> holder s' <> HNone.
Proof.
  intros Hi Hj H. destruct (IG _ Hi) as (G1 & G2 & G3 & G4 & G5 & G6 & G7 & G8 & G9 & G10 & G11). pose proof (N1 _ Hj) as HN.
  step_cases H; cbn; try a_facts Hi a; num; intros; fin0.
  all: try (apply HN; intro E; rewrite E in *; cbn in *; fin0).
  all: try (exfalso; match goal with H : remove _ _ _ <> [] |- _ => apply H end;
            apply remove_nil_len; (tauto || lia)).
Qed.

Lemma pres2_HX s ac s' : Inv s -> Inv2 s -> step s ac = Some s' -> forall x, holder s' = HA x -> holdpc (apc (A s' x)) = true.
Proof.
  intros Hi Hj H x. pose proof (HX _ Hj x) as Hx.
  destruct (IG _ Hi) as (G1 & G2 & G3 & G4 & G5 & G6 & G7 & G8 & G9 & G10 & G11).
  step_cases H; cbn; try a_facts Hi a; unfold set_pc, set_pcx; intros; upd_tac; cbn in *; brk; fin0.
  all: try (injection H as <-; fin0).
  all: try (match goal with H : HA _ = HA _ |- _ => injection H as ->; fin0 end).
  all: try (subst x; rewrite Epc in *; cbn in *; fin0).
  all: try (dpc; reflexivity).
  all: try solve [exfalso; num; assert (Hr : rdl s <> []) by (intro E; rewrite E in *; cbn in *; lia); specialize (G7 Hr); congruence].
Qed.

Lemma nodup_snoc (l : list nat) x : NoDup l -> ~ In x l -> NoDup (l ++ [x]).
Proof.
  induction l as [|y l IH]; cbn; intros N I; [constructor; [tauto|constructor]|].
  inversion N; subst. constructor.
  - intro J. apply in_app_or in J. destruct J as [J|[J|[]]]; [tauto|subst; tauto].
  - apply IH; tauto.
Qed.

Lemma pres2_QN s ac s' : Inv s -> Inv2 s -> step s ac = Some s' -> NoDup (q s').
Proof.
  intros Hi Hj H. destruct (IG _ Hi) as (G1 & G2 & G3 & G4 & _). pose proof (QN _ Hj) as HQ.
  step_cases H; cbn; auto.
  - apply nodup_snoc; auto. intro J. apply G4 in J. lia.
  - inversion HQ; auto.
Qed.
