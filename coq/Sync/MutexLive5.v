(* C05 - preservation of Inv2: K1 *)
From Coq Require Import List Arith Bool Lia.
Import ListNotations.
Require Import MayV.Sync.MutexModel MayV.Sync.MutexInv MayV.Sync.MutexLiveInv.

Section S.
Variable isco : nat -> bool.
Notation step := (step isco).

Lemma pres2_K1 s ac s' : Inv s -> Inv2 s -> step s ac = Some s' ->
  forall b, holder s' = HB b ->
    unp (Bk s' b) = true /\ ab (A s' (owner (Bk s' b))) = b /\ 1 <= b /\
    (waiting (A s' (owner (Bk s' b))) = true \/ (halfgone (A s' (owner (Bk s' b))) = true /\ rel (Bk s' b) = true)).
Proof.
  intros Hi Hj H b. destruct (IG _ Hi) as (G1 & G2 & G3 & G4 & G5 & G6).
  pose proof (K1 _ Hj b) as Hk. cbn in Hk. unfold waiting, halfgone in Hk.
  pose proof (IB _ Hi b) as Hb. unfold binv, waiting, halfgone in Hb. destruct Hb as (B1 & B2 & B3 & B4 & B5).
  step_cases H; try destruct (actx (A s a)) eqn:Ectx; try a_facts Hi a;
    try (pose proof (Q2 _ Hj a Epc) as Hq2; unfold QP, waiting, halfgone in Hq2);
    unfold set_pc, fresh, waiting, halfgone; cbn; intros Hh; try discriminate;
    try (injection Hh as <-); brk; upd_tac; cbn in *; brk;
    repeat match goal with |- _ /\ _ => split end; fin0.
  all: try (rewrite Ectx; cbn; fin0).
  all: try (match goal with e : ?b = ab _ |- _ => rewrite e in * end; brk; fin0).
  all: try (assert (nextb s <= b) by lia; brk; fin0).
  all: try (match goal with e : ?b = _ |- _ => is_var b; subst b end; brk; fin0).
  all: try ownrw.
Qed.
End S.
