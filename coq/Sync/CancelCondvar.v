(* C09 on CondvarModel (may::sync::Condvar over the abstract mutex of C05): cancellation of a coroutine inside
   Condvar::wait / wait_timeout.  The cancel bit is the model's own [ccan] (action Cancel, never cleared), [aco]
   says that the waiter is a coroutine, [rcan] that the cancel reason held when park returned, `Choose a true` at R2
   is the point where the code first looks at `ret == Err(Canceled)`.  Everything here follows from the invariants
   proved for C11 (CondvarInv / CondvarPresM / CondvarL1..4); nothing of the model is edited. *)
From Coq Require Import List Arith ZArith Bool Lia.
Import ListNotations.
Require Import MayV.Sync.CondvarModel MayV.Sync.CondvarInv MayV.Sync.CondvarTac MayV.Sync.CondvarPresM MayV.Sync.CondvarThm.
Open Scope Z_scope.

Ltac sbst := repeat match goal with
  | e : ?x = ?y |- _ => is_var x; subst x
  | e : ?x = ?y |- _ => is_var y; subst y end.

(* ---- (iii) no spurious cancel ---- *)

(* the verdict Canceled (the transition R2 -> C1, after which wait unlocks the mutex and raises the cancel panic) is
   taken only by a coroutine whose cancel bit is set, and the bit was set before park returned *)
Theorem canceled_verdict_needs_cancel s a s' : Reach s -> apc (A s a) = R2 -> step s (Choose a true) = Some s' ->
  ccan (A s a) = true /\ aco (A s a) = true /\ apc (A s' a) = C1.
Proof.
  intros R E H. pose proof (invM_reach _ R a) as M. unfold minv in M. cbn zeta in M.
  destruct M as (_ & _ & M3 & _).
  unfold step in H. rewrite E in H.
  destruct (aerr (A s a)); [|discriminate]. destruct (rcan (A s a)) eqn:Rc; [|discriminate].
  injection H as <-.
  assert (P : post_park (A s a) = true) by (unfold post_park; rewrite E; reflexivity).
  destruct (M3 P) as [_ Mc]. destruct (Mc eq_refl) as [C1' C2']. repeat split; auto.
  simp_st. upd_tac. simp_act. reflexivity.
Qed.

(* the reason `cancelled` is recorded at the resumption only for a cancelled coroutine *)
Theorem cancel_reason_needs_cancel s a : Reach s -> post_park (A s a) = true -> rcan (A s a) = true ->
  ccan (A s a) = true /\ aco (A s a) = true.
Proof.
  intros R P Rc. pose proof (invM_reach _ R a) as M. unfold minv in M. cbn zeta in M.
  destruct M as (_ & _ & M3 & _). destruct (M3 P) as [_ Mc]. exact (Mc Rc).
Qed.

(* a waiter that has left wait by the cancel panic (Dead) was a cancelled coroutine, and it does not own the mutex *)
Definition dinv (s : st) (a : nat) : Prop :=
  apc (A s a) = Dead -> ccan (A s a) = true /\ aco (A s a) = true /\ mx s <> Some a.

Lemma dinv_step s ac s' : Reach s -> (forall a, dinv s a) -> step s ac = Some s' -> forall a, dinv s' a.
Proof.
  intros R D H a. specialize (D a). unfold dinv in *.
  destruct ac as [x|x p|x co d|x|x|x|x|x e|x|t].
  all: step_cases H; simp_st; upd_tac; simp_act; numd; sbst; try exact D; try discriminate.
  all: try (intro E; destruct (D E) as (D1 & D2 & D3); repeat split; auto; congruence).
  all: try (intro E; rewrite E in *; discriminate).
  all: try (intros _; destruct (canceled_only_if_cancelled s _ R Epc) as [C1' C2']; repeat split; auto; discriminate).
Qed.

Theorem dinv_reach s : Reach s -> forall a, dinv s a.
Proof.
  induction 1 as [|s ac s' R IH H]; [intros a E; cbn in E; discriminate|].
  eapply dinv_step; eauto.
Qed.

Theorem dead_waiter_was_cancelled_and_holds_nothing s a : Reach s -> apc (A s a) = Dead ->
  ccan (A s a) = true /\ aco (A s a) = true /\ mx s <> Some a.
Proof. intros R E. exact (dinv_reach s R a E). Qed.

(* a thread waiter, and a coroutine nobody cancelled, never reach the Canceled exit of wait *)
Corollary uncancelled_never_canceled s a : Reach s -> ccan (A s a) = false \/ aco (A s a) = false ->
  apc (A s a) <> C1 /\ apc (A s a) <> Dead.
Proof.
  intros R H. split; intro E.
  - destruct (canceled_only_if_cancelled s a R E) as [C1' C2']. destruct H; congruence.
  - destruct (dead_waiter_was_cancelled_and_holds_nothing s a R E) as (C1' & C2' & _). destruct H; congruence.
Qed.

(* ---- (i) stop ---- *)

(* no protocol step, no resumption enabled; client calls, cancel() and the clock are not progress *)
Definition Quiescent (s : st) : Prop :=
  forall a, step s (Step a) = None /\ step s (Resume a) = None /\ (forall e, step s (Choose a e) = None).

Theorem cancelled_waiter_not_parked s a : Quiescent s ->
  aco (A s a) = true -> ccan (A s a) = true -> apc (A s a) <> WW.
Proof.
  intros Q Co Ca E. destruct (Q a) as (_ & Rz & _). unfold step in Rz. rewrite E, Co, Ca in Rz.
  rewrite !orb_true_r in Rz. discriminate.
Qed.
Theorem cancelled_waiter_resumable s a : aco (A s a) = true -> ccan (A s a) = true -> apc (A s a) = WW ->
  step s (Resume a) <> None.
Proof. intros Co Ca E. unfold step. rewrite E, Co, Ca. rewrite !orb_true_r. discriminate. Qed.

(* ---- (ii) forward ---- *)

(* A waiter on the error path (its park returned Timeout or Canceled) whose blocker has been flagged by a notifier passes
   the notification on, exactly once (bset goes from 0 to 1; `giv` loses the blocker; the waiter owes one notify_one) -
   re-exported from C11 for the cancelled waiter: the error path is the same code for Timeout and Canceled *)
Theorem cancelled_waiter_forwards_notification s a s' : Reach s -> apc (A s a) = E1 -> unp (Bk s (ab (A s a))) = true ->
  step s (Step a) = Some s' ->
  bset (Bk s (ab (A s a))) = O /\ bset (Bk s' (ab (A s a))) = 1%nat /\ In a (owe s') /\ ~ In (ab (A s a)) (giv s') /\ apc (A s' a) = K1.
Proof. exact (timed_out_waiter_forwards s a s'). Qed.
Theorem cancelled_waiter_forwards_notification_recheck s a s' : Reach s -> apc (A s a) = E4 -> rel (Bk s (ab (A s a))) = true ->
  step s (Step a) = Some s' ->
  bset (Bk s (ab (A s a))) = O /\ bset (Bk s' (ab (A s a))) = 1%nat /\ In a (owe s') /\ ~ In (ab (A s a)) (giv s') /\ apc (A s' a) = K1.
Proof. exact (timed_out_waiter_forwards_recheck s a s'). Qed.

(* the Canceled exit: wait has re-acquired the mutex (with the cancel disabled), releases it WITHOUT poisoning (the guard is
   forgotten, unlock_mutex is called directly) and only then unwinds *)
Theorem canceled_wait_releases_mutex_unpoisoned s a s' : Reach s -> apc (A s a) = C1 -> step s (Step a) = Some s' ->
  mx s = Some a /\ mx s' = None /\ pois s' = pois s /\ apc (A s' a) = Dead.
Proof. exact (canceled_wait_releases_mutex s a s'). Qed.

(* ---- non-vacuity ---- *)

(* a coroutine's wait is cancelled at the very moment a notify_one has flagged its blocker: the notification is passed on
   to the thread waiting behind it (which returns `notified`), the coroutine releases the mutex unpoisoned and dies *)
Definition sch_cancel_forward : list action :=
  [Lock 0%nat; Wait 0%nat true None] ++ St 0 6 ++ [Lock 1%nat; Wait 1%nat false None] ++ St 1 4 ++
  [Cancel 0%nat; NotifyOne 2%nat; Step 2%nat; Step 2%nat; Resume 0%nat; Step 2%nat; Step 2%nat] ++
  [Step 0%nat; Step 0%nat; Choose 0%nat true] ++ St 0 6 ++ [Choose 0%nat true; Step 0%nat] ++
  [Resume 1%nat; Step 1%nat; Choose 1%nat false] ++ St 1 2.
Example cancel_forward_somewhere : exists s, run_strict init sch_cancel_forward = Some s /\ Reach s /\
  apc (A s 0%nat) = Dead /\ ares (A s 0%nat) = 2%nat /\ ccan (A s 0%nat) = true /\
  nuser s = 1 /\ nret s = 1 /\ fnone s = 0 /\ ares (A s 1%nat) = 0%nat /\ mx s = Some 1%nat /\ pois s = false /\
  bset (Bk s 1%nat) = 1%nat /\ bset (Bk s 2%nat) = 1%nat.
Proof.
  destruct (run_strict init sch_cancel_forward) as [s|] eqn:E; [|vm_compute in E; discriminate].
  exists s. split; [reflexivity|]. split; [eapply reach_run_strict; [constructor | exact E]|].
  vm_compute in E. inversion E; subst; clear E. cbn. repeat split; reflexivity.
Qed.
