(* C12 - trace acceptor for the RwLock model.  One recorded event `[code; actor; obj; val]` of the real
   may::sync::RwLock (codes are bound to source sites in Sync/rwlock_sites.json) is matched against the
   model: the actor must be at the corresponding control point and the model must compute the value the
   code observed (cnt before a fetch_add / fetch_sub / load, success of a CAS, the flags `unparked`,
   `release`, the poison flag).  Most events are exactly one `step`; three things have no event of their
   own and are inferred by the acceptor, each as one further `step`:
     * `cur.park(None)` returning Ok  (Step at PK)  - inferred when the parked actor's next event is the
       guard constructor's poison read; returning Canceled (Abort at PK) - inferred when its next event
       is the `is_unparked` load of the Canceled branch;
     * the cancel panic out of `rlock.lock()` in read() (Abort at RL) - inferred from the actor's exit;
   every state the acceptor goes through is therefore reachable (accept_all_reach).

   The inner `rlock : Mutex<usize>` is abstract in the model, so its own sites (src/sync/mutex.rs) are
   bound at call level: a successful try_lock CAS, or - after the parking path of Mutex::lock - the
   poison read of MutexGuard::new, is the acquisition; the first Mutex::unlock fetch_sub is the release;
   a failed CAS of try_read is Busy.  Everything else the inner mutex does (its blockers' flags, the
   hand-over chain after its unlock) is C05's business and is skipped by a small per-actor filter
   (`chain`, `pend`) that is kept outside the model state. *)
From Coq Require Import List ZArith Bool Arith.
Import ListNotations.
Require Import MayV.Sync.RwLockModel.

Record ast := {
  ms : st;                 (* the model state *)
  chain : list nat;        (* actors inside the hand-over chain of an rlock unlock *)
  pend : list nat;         (* actors whose rlock MutexGuard::new poison read is pending *)
  pobj : Z; robj : Z;      (* object ids of the RwLock's and of rlock's poison flag (0 = not seen yet) *)
  gens : list nat          (* trace actors whose coroutine ended and whose identity was re-used (one entry per re-use) *)
}.

Definition pc_eqb (a b : pc) : bool :=
  match a, b with
  | Idle, Idle | Exit, Exit | RL, RL | T0, T0 | T1, T1 | L1, L1 | L2, L2 | H1, H1 | H2, H2 | H3, H3 | H4, H4
  | U0, U0 | PK, PK | C1, C1 | C2, C2 | C3, C3 | C4, C4 | GW, GW | RG, RG | RUh, RUh | RUi, RUi | RUx, RUx
  | HoldW, HoldW | HoldR, HoldR | DWP, DWP | DR0, DR0 => true
  | _, _ => false end.
Definition op_eqb (a b : op) : bool :=
  match a, b with ORead, ORead | OTryRead, OTryRead | OWrite, OWrite | OTryWrite, OTryWrite => true | _, _ => false end.
Definition mem (a : nat) (l : list nat) : bool := existsb (Nat.eqb a) l.
Definition del (a : nat) (l : list nat) : list nat := filter (fun x => negb (Nat.eqb a x)) l.
Definition znz (v : Z) : bool := negb (Z.eqb v 0).

Inductive ek :=
  | KCall | KRet | KDrop | KDropped | KPanic | KExit | KTok
  | KLoad | KCas | KPush | KAdd | KPopL | KSub | KPopU
  | KPGet | KPDone | KIsUnp | KSetRel | KTakeRel | KUnpStore
  | KRCas | KRAdd | KRSub | KRQueue.

Local Open Scope Z_scope.
Definition kind_of (c : Z) : option ek :=
  match c with
  | 1 => Some KCall | 2 => Some KRet | 3 => Some KDrop | 4 => Some KDropped | 5 => Some KPanic | 6 => Some KExit
  | 7 => Some KTok | 34 => Some KTok
  | 10 => Some KLoad | 11 => Some KCas | 12 => Some KPush | 13 => Some KAdd | 14 => Some KPopL | 15 => Some KSub | 16 => Some KPopU
  | 20 => Some KPGet | 21 => Some KPDone
  | 30 => Some KIsUnp | 31 => Some KSetRel | 32 => Some KTakeRel | 33 => Some KUnpStore
  | 40 => Some KRCas | 41 => Some KRAdd | 42 => Some KRSub | 43 => Some KRQueue
  | _ => None end.
Definition op_of (v : Z) : option op :=
  match v with 1 => Some ORead | 2 => Some OTryRead | 3 => Some OWrite | 4 => Some OTryWrite | _ => None end.
Local Close Scope Z_scope.

Definition with_ms (t : ast) (s : st) : ast := {| ms := s; chain := chain t; pend := pend t; pobj := pobj t; robj := robj t; gens := gens t |}.
Definition with_chain (t : ast) (l : list nat) : ast := {| ms := ms t; chain := l; pend := pend t; pobj := pobj t; robj := robj t; gens := gens t |}.
Definition with_pend (t : ast) (l : list nat) : ast := {| ms := ms t; chain := chain t; pend := l; pobj := pobj t; robj := robj t; gens := gens t |}.
Definition with_gens (t : ast) (l : list nat) : ast := {| ms := ms t; chain := chain t; pend := pend t; pobj := pobj t; robj := robj t; gens := l |}.

(* take model action [ac] provided [pre]; then require [post] of the new model state *)
Definition take (t : ast) (pre : bool) (ac : action) (post : st -> bool) : option ast :=
  if pre then match step (ms t) ac with
              | Some s' => if post s' then Some (with_ms t s') else None
              | None => None end
  else None.
Definition observe (t : ast) (ok : bool) : option ast := if ok then Some t else None.

(* learn / check the identity of a poison flag object *)
Definition learn_p (t : ast) (o : Z) : option ast :=
  if Z.eqb (pobj t) 0 then Some {| ms := ms t; chain := chain t; pend := pend t; pobj := o; robj := robj t; gens := gens t |}
  else if Z.eqb (pobj t) o then Some t else None.
Definition learn_r (t : ast) (o : Z) : option ast :=
  if Z.eqb (robj t) 0 then Some {| ms := ms t; chain := chain t; pend := pend t; pobj := pobj t; robj := o; gens := gens t |}
  else if Z.eqb (robj t) o then Some t else None.
Definition bind (x : option ast) (f : ast -> option ast) : option ast := match x with Some t => f t | None => None end.

Definition at_rl (p : pc) : bool := match p with RL | DR0 => true | _ => false end.   (* waiting for / taking rlock *)
Definition at_ru (p : pc) : bool := match p with RUh | RUi | RUx => true | _ => false end.
Definition zcnt (s : st) : Z := Z.of_nat (cnt s).

Definition accept_kind (t : ast) (k : ek) (a : nat) (obj v : Z) : option ast :=
  let s := ms t in
  let x := A s a in
  let p := apc x in
  let o := aop x in
  let b := Bk s (ab x) in
  let w := Bk s (aw x) in
  match k with
  | KCall => match op_of v with
             | Some o' => take t true (Call a o') (fun _ => true)
             | None => None end
  | KRet => observe t (if Z.eqb v 0 then pc_eqb p Idle
                       else if is_read o then pc_eqb p HoldR else pc_eqb p HoldW)
  | KDrop => if pc_eqb p DWP then Some t   (* the unwind of a panicking writer drops the guard: Panic came first *)
             else take t true (Drop a) (fun _ => true)
  | KDropped => observe (with_chain t (del a (chain t))) (pc_eqb p Idle)
  | KPanic => take t true (Panic a) (fun _ => true)
  | KExit => if pc_eqb p RL then take t (znz v) (Abort a) (fun _ => true)
             else observe t (pc_eqb p Idle || (pc_eqb p Exit && znz v))
  | KTok => if mem a (chain t) then Some t
            else if pc_eqb p H3 then take t true (Step a) (fun _ => true)
            else Some t
  | KLoad => take t (pc_eqb p T0 && Z.eqb (zcnt s) v) (Step a) (fun _ => true)
  | KCas => take t (pc_eqb p T1 && Bool.eqb (Nat.eqb (cnt s) 0) (znz v)) (Step a) (fun _ => true)
  | KPush => take t (pc_eqb p L1) (Step a) (fun _ => true)
  | KAdd => take t (pc_eqb p L2 && Z.eqb (zcnt s) v) (Step a) (fun _ => true)
  | KPopL => take t (pc_eqb p H1 && isRPark (actx x) && znz v) (Step a) (fun _ => true)
  | KPopU => take t (pc_eqb p H1 && negb (isRPark (actx x)) && znz v) (Step a) (fun _ => true)
  | KSub => take t (pc_eqb p U0 && Z.eqb (zcnt s) v) (Step a) (fun _ => true)
  | KPGet =>
      if mem a (pend t) then learn_r (with_pend t (del a (pend t))) obj
      else if at_rl p then bind (learn_r t obj) (fun t1 => take t1 true (Step a) (fun _ => true))
      else if pc_eqb p PK
      then (* park returned Ok: the token; then the guard constructor *)
           bind (learn_p t obj) (fun t1 =>
           bind (take t1 true (Step a) (fun s1 => pc_eqb (apc (A s1 a)) GW || pc_eqb (apc (A s1 a)) RG)) (fun t2 =>
           take t2 (Bool.eqb (pois (ms t2)) (znz v)) (Step a) (fun _ => true)))
      else if pc_eqb p GW || pc_eqb p RG
      then bind (learn_p t obj) (fun t1 => take t1 (Bool.eqb (pois s) (znz v)) (Step a) (fun _ => true))
      else (* is_poisoned() called by the client *)
           bind (learn_p t obj) (fun t1 => observe t1 ((pc_eqb p Idle || pc_eqb p HoldW || pc_eqb p HoldR) && Bool.eqb (pois s) (znz v)))
  | KPDone => take t (pc_eqb p DWP && znz v) (Step a) (fun _ => true)
  | KIsUnp =>
      if at_rl p then Some t
      else if pc_eqb p PK
      then bind (take t true (Abort a) (fun _ => true)) (fun t1 =>
           take t1 (Bool.eqb (unp (Bk (ms t1) (ab (A (ms t1) a)))) (znz v)) (Step a) (fun _ => true))
      else take t ((pc_eqb p C1 || pc_eqb p C3) && Bool.eqb (unp b) (znz v)) (Step a) (fun _ => true)
  | KSetRel => if at_rl p then Some t else take t (pc_eqb p C2) (Step a) (fun _ => true)
  | KTakeRel =>
      if mem a (chain t) then Some (if znz v then t else with_chain t (del a (chain t)))
      else if at_rl p then Some t
      else if pc_eqb p H4 then take t (Bool.eqb (rel w) (znz v)) (Step a) (fun _ => true)
      else take t (pc_eqb p C4 && Bool.eqb (rel b) (znz v)) (Step a) (fun _ => true)
  | KUnpStore =>
      if mem a (chain t) then Some t
      else if at_rl p then Some t
      else take t (pc_eqb p H2) (Step a) (fun _ => true)
  | KRCas =>
      if at_rl p
      then if znz v then take (with_pend t (a :: pend t)) true (Step a) (fun _ => true)
           else if pc_eqb p RL && op_eqb o OTryRead then take t true (Busy a) (fun _ => true)
           else Some t
      else None
  | KRAdd => observe t (at_rl p)
  | KRSub =>
      if mem a (chain t) then Some (if Z.ltb 1 v then t else with_chain t (del a (chain t)))
      else if at_rl p then Some t
      else take (if Z.ltb 1 v then with_chain t (a :: chain t) else t) (at_ru p) (Step a) (fun _ => true)
  | KRQueue => observe t (at_rl p || mem a (chain t))
  end.

(* The runtime re-uses the identity of a finished coroutine for the next one it spawns.  In the model an
   actor that left by the cancel panic stays at Exit for ever (its blocker may still be queued), so the
   next incarnation of trace actor a is the model actor a + 64 * (number of earlier re-uses). *)
Definition gen_of (t : ast) (a : nat) : nat := count_occ Nat.eq_dec (gens t) a.
Definition mactor (t : ast) (a : nat) : nat := a + 64 * gen_of t a.
Definition accept_ev (t : ast) (e : list Z) : option ast :=
  match e with
  | [c; a; obj; v] =>
      let a0 := Z.to_nat a in
      match kind_of c with
      | Some KCall =>
          let t1 := if pc_eqb (apc (A (ms t) (mactor t a0))) Exit then with_gens t (a0 :: gens t) else t in
          accept_kind t1 KCall (mactor t1 a0) obj v
      | Some k => accept_kind t k (mactor t a0) obj v
      | None => None end
  | _ => None
  end.

Fixpoint accept_all (t : ast) (tr : list (list Z)) : option ast :=
  match tr with
  | [] => Some t
  | e :: l => match accept_ev t e with Some t' => accept_all t' l | None => None end
  end.

Definition ainit (p : bool) : ast := {| ms := init p; chain := []; pend := []; pobj := 0; robj := 0; gens := [] |}.

(* end-of-trace monitor: the scenario ends with every guard dropped and a last try_write + drop by main:
   the model must be back in a free state (this is theorem all_dropped_lock_free observed), without wrap *)
Definition final_ok (t : ast) : bool :=
  let s := ms t in
  negb (ovf s) && Nat.eqb (cnt s) 0 && Z.eqb (r s) 0 && match rl s with None => true | _ => false end
  && match q s with [] => true | _ => false end && match ent s with [] => true | _ => false end.

(* ---- soundness: the model component of every accepted state is reachable ---- *)
Section Sound.
Variable p0 : bool.
Notation Reach := (Reach p0).

Definition RP (x : option ast) : Prop := forall t', x = Some t' -> Reach (ms t').
Lemma RP_none : RP None.
Proof. intros t' H. discriminate. Qed.
Lemma RP_some t : Reach (ms t) -> RP (Some t).
Proof. intros R t' H. inversion H; subst. exact R. Qed.
Lemma RP_take t pre ac post : Reach (ms t) -> RP (take t pre ac post).
Proof.
  unfold take. intros R t' H. destruct pre; [|discriminate].
  destruct (step (ms t) ac) as [s1|] eqn:E; [|discriminate].
  destruct (post s1); [|discriminate]. inversion H; subst. cbn. eapply RS; eauto.
Qed.
Lemma RP_observe t ok : Reach (ms t) -> RP (observe t ok).
Proof. unfold observe. intros R t' H. destruct ok; inversion H; subst; exact R. Qed.
Lemma RP_learn_p t o : Reach (ms t) -> RP (learn_p t o).
Proof. unfold learn_p. intros R t' H. repeat match type of H with (if ?c then _ else _) = _ => destruct c end; inversion H; subst; exact R. Qed.
Lemma RP_learn_r t o : Reach (ms t) -> RP (learn_r t o).
Proof. unfold learn_r. intros R t' H. repeat match type of H with (if ?c then _ else _) = _ => destruct c end; inversion H; subst; exact R. Qed.
Lemma RP_bind x f : RP x -> (forall t, Reach (ms t) -> RP (f t)) -> RP (bind x f).
Proof. unfold bind. intros Hx Hf t' H. destruct x as [t|]; [|discriminate]. eapply Hf; [apply Hx; reflexivity | exact H]. Qed.

Ltac rp :=
  repeat match goal with
  | |- RP None => apply RP_none
  | |- RP (Some _) => apply RP_some
  | |- RP (take _ _ _ _) => apply RP_take
  | |- RP (observe _ _) => apply RP_observe
  | |- RP (learn_p _ _) => apply RP_learn_p
  | |- RP (learn_r _ _) => apply RP_learn_r
  | |- RP (bind _ _) => apply RP_bind; [|intros ? ?]
  | |- RP (if ?c then _ else _) => destruct c
  | |- RP (match ?x with _ => _ end) => destruct x
  | |- Reach (ms (if ?c then _ else _)) => destruct c
  | |- Reach (ms _) => cbn [ms with_chain with_pend with_gens]; assumption
  end.

Lemma accept_kind_RP t k a obj v : Reach (ms t) -> RP (accept_kind t k a obj v).
Proof. intros R. unfold accept_kind. destruct k; rp. Qed.
Lemma accept_kind_reach t k a obj v t' : Reach (ms t) -> accept_kind t k a obj v = Some t' -> Reach (ms t').
Proof. intros R H. exact (accept_kind_RP t k a obj v R t' H). Qed.

Lemma accept_ev_reach t e t' : Reach (ms t) -> accept_ev t e = Some t' -> Reach (ms t').
Proof.
  intros R H. unfold accept_ev in H.
  destruct e as [|c [|a [|obj [|v [|? ?]]]]]; try discriminate.
  destruct (kind_of c) as [k|]; [|discriminate].
  destruct k; try (eapply accept_kind_reach; [exact R | exact H]).
  eapply accept_kind_reach; [|exact H]. destruct (pc_eqb _ _); cbn; exact R.
Qed.

(* every state along an accepted trace of the implementation is a reachable state of the model *)
Theorem accept_all_reach tr : forall t t', Reach (ms t) -> accept_all t tr = Some t' -> Reach (ms t').
Proof.
  induction tr as [|e l IH]; cbn [accept_all]; intros t t' R H; [inversion H; subst; exact R|].
  destruct (accept_ev t e) as [t1|] eqn:E; [|discriminate]. eapply IH; [eapply accept_ev_reach; eauto | exact H].
Qed.
End Sound.
