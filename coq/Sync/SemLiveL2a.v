(* Preservation of the overlay invariant of SemLive.v, clause L2 (flagged registered blockers are attached or held by their agent): the cases env, W0, W0c, W1, Y0, Y0c, G0, E1, E2, E3
   (env = the actions other than Step).  Script in SemLiveTac.v; assembled in SemLiveC.v. *)
From Coq Require Import List Arith ZArith Bool Lia.
Import ListNotations.
Require Import MayV.Sync.SemModel MayV.Sync.SemInv MayV.Sync.SemTac MayV.Sync.SemCase MayV.Sync.SemLive MayV.Sync.SemLiveTac.
Open Scope Z_scope.

Lemma pres_L2_env s o ac s' : Inv s -> LInv s o -> is_step ac = false -> step s ac = Some s' -> L2 s' (lstep s o ac).
Proof.
  intros Hi HL Hn H. l2_pre HL.
  destruct ac as [a t|a|a|a|a|a]; try discriminate Hn; g_facts Hi; step_cases H; ostep_red; prj.
  all: l2_script Hi s o a P1 P2 P3.
Qed.

Lemma pres_L2_W0 s o a s' : Inv s -> LInv s o -> apc (A s a) = W0 -> step s (Step a) = Some s' -> L2 s' (lstep s o (Step a)).
Proof. intros Hi HL Epc H. l2_pre HL. lsetup_at Hi H Epc. all: l2_script Hi s o a P1 P2 P3. Qed.

Lemma pres_L2_W0c s o a s' : Inv s -> LInv s o -> apc (A s a) = W0c -> step s (Step a) = Some s' -> L2 s' (lstep s o (Step a)).
Proof. intros Hi HL Epc H. l2_pre HL. lsetup_at Hi H Epc. all: l2_script Hi s o a P1 P2 P3. Qed.

Lemma pres_L2_W1 s o a s' : Inv s -> LInv s o -> apc (A s a) = W1 -> step s (Step a) = Some s' -> L2 s' (lstep s o (Step a)).
Proof. intros Hi HL Epc H. l2_pre HL. lsetup_at Hi H Epc. all: l2_script Hi s o a P1 P2 P3. Qed.

Lemma pres_L2_Y0 s o a s' : Inv s -> LInv s o -> apc (A s a) = Y0 -> step s (Step a) = Some s' -> L2 s' (lstep s o (Step a)).
Proof. intros Hi HL Epc H. l2_pre HL. lsetup_at Hi H Epc. all: l2_script Hi s o a P1 P2 P3. Qed.

Lemma pres_L2_Y0c s o a s' : Inv s -> LInv s o -> apc (A s a) = Y0c -> step s (Step a) = Some s' -> L2 s' (lstep s o (Step a)).
Proof. intros Hi HL Epc H. l2_pre HL. lsetup_at Hi H Epc. all: l2_script Hi s o a P1 P2 P3. Qed.

Lemma pres_L2_G0 s o a s' : Inv s -> LInv s o -> apc (A s a) = G0 -> step s (Step a) = Some s' -> L2 s' (lstep s o (Step a)).
Proof. intros Hi HL Epc H. l2_pre HL. lsetup_at Hi H Epc. all: l2_script Hi s o a P1 P2 P3. Qed.

Lemma pres_L2_E1 s o a s' : Inv s -> LInv s o -> apc (A s a) = E1 -> step s (Step a) = Some s' -> L2 s' (lstep s o (Step a)).
Proof. intros Hi HL Epc H. l2_pre HL. lsetup_at Hi H Epc. all: l2_script Hi s o a P1 P2 P3. Qed.

Lemma pres_L2_E2 s o a s' : Inv s -> LInv s o -> apc (A s a) = E2 -> step s (Step a) = Some s' -> L2 s' (lstep s o (Step a)).
Proof. intros Hi HL Epc H. l2_pre HL. lsetup_at Hi H Epc. all: l2_script Hi s o a P1 P2 P3. Qed.

Lemma pres_L2_E3 s o a s' : Inv s -> LInv s o -> apc (A s a) = E3 -> step s (Step a) = Some s' -> L2 s' (lstep s o (Step a)).
Proof. intros Hi HL Epc H. l2_pre HL. lsetup_at Hi H Epc. all: l2_script Hi s o a P1 P2 P3. Qed.
