(* Theorems from the second overlay (SemLive.v): value at quiescence (C10.ii), settlement of a
   handed-over permit exactly once (C10.iii), nobody parked while permits suffice (C10.iv). *)
From Coq Require Import List Arith ZArith Bool Lia.
Import ListNotations.
Require Import MayV.Sync.SemModel MayV.Sync.SemInv MayV.Sync.SemTac MayV.Sync.SemThm MayV.Sync.SemPop
               MayV.Sync.SemLive MayV.Sync.SemLiveA MayV.Sync.SemLiveB MayV.Sync.SemLiveC MayV.Sync.SemLiveD MayV.Sync.SemLiveE.
Open Scope Z_scope.

Lemma linv_step s o ac s' : Inv s -> LInv s o -> step s ac = Some s' -> LInv s' (lstep s o ac).
Proof.
  intros Hi HL H. constructor;
    [ eapply pres_L1 | eapply pres_L2 | eapply pres_L3 | eapply pres_L4 | eapply pres_L5
    | eapply pres_L6 | eapply pres_L7 | eapply pres_L8 | eapply pres_L9 ]; eauto.
Qed.

Lemma linv_reach i s o : 0 <= i -> ReachL i s o -> Inv s /\ LInv s o.
Proof.
  intros Hi R. induction R as [|s o a s' R [IH1 IH2] H].
  - split; [apply inv_init; exact Hi | apply linv_init].
  - split; [eapply inv_step; eauto | eapply linv_step; eauto].
Qed.

(* the overlay adds nothing to the model *)
Lemma overlay_conservative i s : Reach i s <-> exists o, ReachL i s o.
Proof. split; [exact (reach_reachL i s) | intros [o R]; exact (reachL_reach i s o R)]. Qed.

(* A state is quiescent when no actor has an enabled transition of its own: everybody is idle
   (all calls have returned) or suspended in its park.  Timer / cancel (`Fire`) and the start of
   new calls are the environment's. *)
Definition Quiescent (s : st) : Prop := forall a, step s (Step a) = None.

Lemma quiescent_pc i s : 0 <= i -> Reach i s -> Quiescent s ->
  forall a, apc (A s a) = Idle \/ (apc (A s a) = WW /\ reason (Bk s (ab (A s a))) = None).
Proof.
  intros Hi R Q a. pose proof (Q a) as Qa. pose proof (pop_never_empty i s a Hi R) as PN.
  unfold step in Qa. destruct (apc (A s a)) eqn:E; try (left; reflexivity).
  all: repeat match type of Qa with
       | context [if ?c then _ else _] => destruct c
       | context [match q ?s with _ => _ end] => destruct (q s) eqn:?
       | context [match reason ?b with _ => _ end] => destruct (reason b) as [[|]|] eqn:?
       | context [let _ := _ in _] => cbv zeta in Qa
       end; try discriminate.
  - right. split; reflexivity.
  - exfalso. apply PN; reflexivity.
Qed.

Lemma all_idle_quiescent s : (forall a, apc (A s a) = Idle) -> Quiescent s.
Proof. intros I a. unfold step. rewrite (I a). reflexivity. Qed.

Lemma nil_of_no_member (l : list nat) : (forall x, ~ In x l) -> l = [].
Proof. destruct l as [|x l]; [reflexivity|]. intro H. exfalso. apply (H x). now left. Qed.

(* at quiescence every promise has been settled: nothing flagged-but-unsettled, no re-post owed,
   no wake-up in flight, no early-flagged blocker *)
Lemma quiescent_lists i s o : 0 <= i -> ReachL i s o -> Quiescent s ->
  giv s = [] /\ owe s = [] /\ hand s = [] /\ pre s = [].
Proof.
  intros Hi RL Q. pose proof (reachL_reach _ _ _ RL) as R.
  destruct (linv_reach _ _ _ Hi RL) as [HI HL]. pose proof (quiescent_pc i s Hi R Q) as QP.
  assert (NK : forall a p, apc (A s a) = p -> p <> Idle -> p <> WW -> False).
  { intros a p E N1 N2. destruct (QP a) as [I|[I _]]; congruence. }
  repeat split; apply nil_of_no_member; intros x Ix.
  - (* giv *)
    destruct (IL2 _ _ HL x Ix) as [[Ab At]|[_ [_ [K|K]]]]; [| eapply NK; eauto; discriminate | eapply NK; eauto; discriminate].
    unfold own in *. destruct (QP (owner (Bk s x))) as [I|[I Rn]].
    + unfold attpc, inpark in At. rewrite I in At. discriminate.
    + destruct (IB _ HI x) as (_ & _ & Bg & _). specialize (Bg Ix).
      destruct (IL4 _ _ HL x Bg) as [D|[_ K]]; [| eapply NK; eauto; discriminate].
      destruct (IL5 _ _ HL x D Ab) as [W _]. rewrite Ab in Rn. exact (W I Rn).
  - (* owe *)
    destruct (IA _ HI x) as (_ & _ & _ & Ho & _). apply Ho in Ix. destruct Ix as [P _]. eapply NK; eauto; discriminate.
  - (* hand *)
    destruct (IA _ HI x) as (_ & _ & Hh & _). apply Hh in Ix. destruct Ix as [P|P]; eapply NK; eauto; discriminate.
  - (* pre *)
    destruct (IB _ HI x) as (_ & _ & _ & _ & _ & Bp & _). destruct (Bp Ix) as [P _]. eapply NK; eauto; discriminate.
Qed.

(* C10.ii at quiescence: get_value() = max(cnt, 0) = init + posts - successful waits (the right-hand
   side is therefore never negative there; it is 0 exactly when the counter is <= 0, the counter
   then counting the waiters still parked and the stale entries of waiters that left) *)
Theorem value_at_quiescence i s : 0 <= i -> Reach i s -> Quiescent s ->
  Z.max (cnt s) 0 = i + uposts s - succ s.
Proof.
  intros Hi R Q. destruct (reach_reachL _ _ R) as [o RL].
  destruct (quiescent_lists i s o Hi RL Q) as (G & O & H & P).
  pose proof (permit_accounting i s Hi R) as Acc. pose proof (counter_exact i s Hi R) as Ex.
  rewrite G, O in Acc. rewrite H, P in Ex. unfold nl in *. cbn [length] in *. lia.
Qed.

Corollary value_at_rest i s : 0 <= i -> Reach i s -> (forall a, apc (A s a) = Idle) ->
  Z.max (cnt s) 0 = i + uposts s - succ s.
Proof. intros Hi R I. apply value_at_quiescence; auto. apply all_idle_quiescent; exact I. Qed.

(* C10.iv: whenever permits suffice every waiter proceeds - in a quiescent state with
   init + posts - successes > 0 nobody is parked: every actor has returned *)
Theorem no_waiter_parked_when_permits_suffice i s : 0 <= i -> Reach i s -> Quiescent s ->
  0 < i + uposts s - succ s -> forall a, apc (A s a) = Idle.
Proof.
  intros Hi R Q Pos a. destruct (reach_reachL _ _ R) as [o RL].
  destruct (quiescent_lists i s o Hi RL Q) as (G & O & H & P).
  pose proof (value_at_quiescence i s Hi R Q) as V. pose proof (counter_exact i s Hi R) as Ex.
  rewrite H, P in Ex. unfold nl in Ex. cbn [length] in Ex.
  assert (U : ung s = []). { destruct (ung s); [reflexivity | cbn [length] in Ex; lia]. }
  destruct (quiescent_pc i s Hi R Q a) as [I|[I _]]; [exact I | exfalso].
  pose proof (IA _ (inv_reach _ _ Hi R) a) as Ha. unfold ainv, sorted_into in Ha. rewrite I in Ha.
  destruct Ha as (_ & _ & _ & _ & _ & _ & _ & [S1 S2] & _).
  destruct (unp (Bk s (ab (A s a)))); [specialize (S1 eq_refl); rewrite G in S1 | specialize (S2 eq_refl); rewrite U in S2]; contradiction.
Qed.

(* the same with the counter: a positive counter at quiescence means nobody is parked *)
Corollary no_waiter_parked_when_counter_positive i s : 0 <= i -> Reach i s -> Quiescent s ->
  0 < cnt s -> forall a, apc (A s a) = Idle.
Proof.
  intros Hi R Q C. apply (no_waiter_parked_when_permits_suffice i s Hi R Q).
  pose proof (value_at_quiescence i s Hi R Q). lia.
Qed.

(* C10.iii: a registered blocker that was handed a permit (its `unparked` flag set) is settled
   exactly once - by the owner's successful return (sc), or by ONE re-post decided by the owner
   (is_unparked / take_release on the error path) or by the agent (take_release in wakeup_one) -
   never twice, and never both.  `rp` counts the re-post decisions, each of which is immediately
   followed by exactly one fetch_add of the deciding actor (pc P0 with acomp, list `owe`). *)
Theorem handoff_settled_at_most_once i s o b : 0 <= i -> ReachL i s o -> (rp o b + sc o b <= 1)%nat.
Proof. intros Hi RL. destruct (linv_reach _ _ _ Hi RL) as [_ HL]. destruct (IL8 _ _ HL b) as [L _]. exact L. Qed.

Theorem handoff_settled_once_unregistered i s o b : 0 <= i -> ReachL i s o ->
  unp (Bk s b) = true -> ~ In b (giv s) -> ~ In b (pre s) -> (rp o b + sc o b = 1)%nat.
Proof. intros Hi RL. destruct (linv_reach _ _ _ Hi RL) as [_ HL]. destruct (IL8 _ _ HL b) as (_ & _ & L). exact L. Qed.

(* the waiter timed out / was cancelled on b (fl) while b was handed a permit: once b is no longer
   pending (always the case at quiescence) the permit has been re-posted exactly once *)
Theorem timed_out_handoff_reposted_exactly_once i s o b : 0 <= i -> ReachL i s o ->
  fl o b = true -> unp (Bk s b) = true -> ~ In b (giv s) -> ~ In b (pre s) -> rp o b = 1%nat /\ sc o b = O.
Proof.
  intros Hi RL F U G P. pose proof (handoff_settled_once_unregistered i s o b Hi RL U G P) as E.
  destruct (linv_reach _ _ _ Hi RL) as [_ HL]. destruct (IL9 _ _ HL b) as [_ L]. specialize (L F). lia.
Qed.

Corollary timed_out_handoff_reposted_at_quiescence i s o b : 0 <= i -> ReachL i s o -> Quiescent s ->
  fl o b = true -> unp (Bk s b) = true -> rp o b = 1%nat /\ sc o b = O.
Proof.
  intros Hi RL Q F U. destruct (quiescent_lists i s o Hi RL Q) as (G & _ & _ & P).
  apply (timed_out_handoff_reposted_exactly_once i s o b Hi RL F U); [rewrite G | rewrite P]; intros [].
Qed.

(* a waiter that failed without having been handed anything is never re-posted for *)
Theorem no_repost_without_handoff i s o b : 0 <= i -> ReachL i s o -> unp (Bk s b) = false -> rp o b = O /\ sc o b = O.
Proof.
  intros Hi RL U. destruct (linv_reach _ _ _ Hi RL) as [_ HL]. destruct (IL8 _ _ HL b) as (L1 & L2 & _).
  destruct (Nat.eq_dec (rp o b + sc o b) 1) as [E|E]; [destruct (L2 E) as (_ & _ & _ & X & _); congruence | lia].
Qed.

(* non-vacuity: a waiter is handed a permit (flag stored) and times out before the token arrives;
   it re-posts, the agent does not; everything has returned and the value is exact *)
Fixpoint runL (s : st) (o : lv) (l : list action) : st * lv :=
  match l with
  | [] => (s, o)
  | a :: l' => match step s a with Some s' => runL s' (lstep s o a) l' | None => runL s o l' end
  end.
Lemma reachL_runL i l : forall s o, ReachL i s o -> ReachL i (fst (runL s o l)) (snd (runL s o l)).
Proof.
  induction l as [|a l IH]; cbn [runL]; intros s o R; [exact R|].
  destruct (step s a) eqn:E; [apply IH; econstructor; eauto | apply IH; exact R].
Qed.
Definition sch_race : list action :=
  [Wait 1%nat true; Step 1%nat; Step 1%nat; Step 1%nat; Step 1%nat;      (* load, push, fetch_sub, park: suspended *)
   Post 2%nat; Step 2%nat; Step 2%nat; Step 2%nat;                       (* fetch_add, pop, flag store *)
   Fire 1%nat; Step 1%nat; Step 1%nat;                                   (* timeout; resume; is_unparked = true: decide to re-post *)
   Step 2%nat; Step 2%nat;                                               (* token; take_release = false *)
   Step 1%nat].                                                          (* the re-post's fetch_add *)
Example race_somewhere :
  let r := runL (init 0) lv0 sch_race in
  ReachL 0 (fst r) (snd r) /\ fl (snd r) 1%nat = true /\ unp (Bk (fst r) 1%nat) = true /\ rp (snd r) 1%nat = 1%nat /\
  apc (A (fst r) 1%nat) = Idle /\ apc (A (fst r) 2%nat) = Idle /\ ares (A (fst r) 1%nat) = false /\
  cnt (fst r) = 1 /\ uposts (fst r) = 1 /\ succ (fst r) = 0.
Proof. cbv zeta. split; [apply reachL_runL; constructor | vm_compute; repeat split; reflexivity]. Qed.

(* non-vacuity of the quiescence statements: (a) a waiter is parked for good - quiescent, counter -1,
   value 0 = init + posts - successes; (b) after the schedule of SemThm.sch everybody has returned
   with one permit left - quiescent with permits available, nobody parked *)
Definition sch_parked : list action := [Wait 1%nat false; Step 1%nat; Step 1%nat; Step 1%nat; Step 1%nat].
Example parked_quiescent_somewhere :
  let s := run (init 0) sch_parked in
  Reach 0 s /\ Quiescent s /\ apc (A s 1%nat) = WW /\ parked (Bk s (ab (A s 1%nat))) = true /\
  cnt s = -1 /\ Z.max (cnt s) 0 = 0 + uposts s - succ s.
Proof.
  cbv zeta. split; [apply reach_run; constructor|]. split; [|vm_compute; repeat split; reflexivity].
  intro a. destruct a as [|[|a]]; vm_compute; reflexivity.
Qed.
Example permits_left_quiescent_somewhere :
  let s := run (init 0) sch in
  Reach 0 s /\ Quiescent s /\ 0 < 0 + uposts s - succ s /\ cnt s = 1 /\ (forall a, apc (A s a) = Idle).
Proof.
  cbv zeta. split; [apply reach_run; constructor|].
  assert (I : forall a, apc (A (run (init 0) sch) a) = Idle).
  { intro a. destruct a as [|[|[|[|a]]]]; vm_compute; reflexivity. }
  split; [apply all_idle_quiescent; exact I|]. split; [vm_compute; reflexivity|]. split; [vm_compute; reflexivity | exact I].
Qed.

(* no lost wake-up, in EVERY reachable state (not only at quiescence): a suspended waiter whose blocker
   has been handed a permit (flag stored) has already been given a reason to resume, or the agent that
   popped it is at K3, about to deliver the token (Blocker::unpark) *)
Theorem flagged_waiter_resumed_or_token_in_flight i s a : 0 <= i -> Reach i s ->
  apc (A s a) = WW -> unp (Bk s (ab (A s a))) = true ->
  reason (Bk s (ab (A s a))) <> None \/ exists g, apc (A s g) = K3 /\ aw (A s g) = ab (A s a).
Proof.
  intros Hi R W U. destruct (reach_reachL _ _ R) as [o RL]. destruct (linv_reach _ _ _ Hi RL) as [HI HL].
  pose proof (IA _ HI a) as Ha. unfold ainv in Ha. rewrite W in Ha. destruct Ha as (_ & _ & _ & _ & _ & _ & Ow & _).
  destruct (IL4 _ _ HL _ U) as [D|[K1 K2]].
  - left. assert (Ob : ab (A s (own s (ab (A s a)))) = ab (A s a)) by (unfold own; rewrite Ow; reflexivity).
    destruct (IL5 _ _ HL _ D Ob) as [L _]. unfold own in L. rewrite Ow in L. exact (L W).
  - right. exists (ag o (ab (A s a))). split; assumption.
Qed.
(* ... and a waiter about to park (before its token check) on a flagged blocker finds the token or the agent is at K3 *)
Theorem flagged_prepark_token_or_in_flight i s a : 0 <= i -> Reach i s ->
  apc (A s a) = WP -> unp (Bk s (ab (A s a))) = true ->
  tok (Bk s (ab (A s a))) = true \/ exists g, apc (A s g) = K3 /\ aw (A s g) = ab (A s a).
Proof.
  intros Hi R W U. destruct (reach_reachL _ _ R) as [o RL]. destruct (linv_reach _ _ _ Hi RL) as [HI HL].
  pose proof (IA _ HI a) as Ha. unfold ainv in Ha. rewrite W in Ha. destruct Ha as (_ & _ & _ & _ & _ & _ & Ow & _).
  destruct (IL4 _ _ HL _ U) as [D|[K1 K2]].
  - left. assert (Ob : ab (A s (own s (ab (A s a)))) = ab (A s a)) by (unfold own; rewrite Ow; reflexivity).
    destruct (IL5 _ _ HL _ D Ob) as [_ L]. unfold own in L. rewrite Ow in L. apply L. unfold prepark. rewrite W. reflexivity.
  - right. exists (ag o (ab (A s a))). split; assumption.
Qed.
