(* Model of may::sync::Semphore (src/sync/semphore.rs) over the SyncBlocker handshake
   (src/sync/blocking.rs, CURRENT order: `unparked.store(true)` BEFORE `blocker.unpark()`) and the
   Blocker token (src/park.rs `Park`, `ThreadPark`).  Definitions only.

   One transition per shared-memory access, in program order:

     wait / wait_timeout     W0  cnt.load            (try_wait)          -> W0c | W1
                             W0c cnt.compare_exchange(av, av-1)          -> Idle(true) | W0c | W1
                             W1  to_wake.push(cur)                       -> W2
                             W2  cnt.fetch_sub(1)      (> 0: wakeup_one in context RPark)  -> K1 | WP
                             WP  cur.park: token check (check_park / tpark.enter)   -> Idle(true) | WW
                             WW  suspended; resumed with a reason          -> Idle(true) | E1
                             E1  cur.is_unparked()      (true: post())     -> P0 | E2
                             E2  cur.set_release()                          -> E3
                             E3  cur.is_unparked()                          -> E4 | Idle(false)
                             E4  cur.take_release()     (true: post())     -> P0 | Idle(false)
     try_wait                Y0 / Y0c   like W0 / W0c, failure returns false
     post                    P0  cnt.fetch_add(1)       (< 0: wakeup_one)  -> K1 | return
     wakeup_one              K1  to_wake.pop()  (None = the `expect` panic: no transition)
                             K2  w.unparked.store(true)
                             K3  w.blocker.unpark()  (Park::unpark_impl state.swap(true) / ThreadPark::unpark)
                             K4  w.take_release()       (true: post())     -> P0 | return
     get_value               G0  cnt.load

   Unbounded actors and blockers (nat-indexed maps); an idle actor may start any call, so the
   quantification over schedules covers every client program.  `Fire a` is the environment: the
   timer or a cancel() hits the suspended actor `a` (only waits started with `timed = true`, which
   stands for "has a timeout or is a cancellable coroutine").  As in the real Park, a timeout or
   cancel may still win after the token was set (the unparker's state.swap happened but the timer
   took the coroutine first): Fire is enabled until the actor has resumed, whatever the token says.
   The token is cleared on every return from park, whatever the reason.

   Ghost state (never read by the code part of `step`): ini, uposts (user posts, counted at their
   fetch_add), succ (successful waits), and five lists - ung / giv (registered, unsettled blockers
   without / with the `unparked` flag), pre (flagged before their owner's fetch_sub), hand (agents
   between their counter access and the flag store), owe (actors that decided to re-post and have
   not executed the fetch_add; `acomp` marks that pending fetch_add). *)
From Coq Require Import List Arith ZArith Bool Lia.
Import ListNotations.
Open Scope Z_scope.

Inductive pc :=
  | Idle
  | W0 | W0c | W1 | W2 | WP | WW
  | E1 | E2 | E3 | E4
  | P0
  | K1 | K2 | K3 | K4
  | Y0 | Y0c
  | G0.
Inductive ctx := RUser | RErr | RPark.   (* where a post()/wakeup_one() returns to: the user, the error path of wait, the waiter's own wakeup_one before it parks *)
Inductive rsn := RU | RT.                (* resumed by unpark / by timeout-or-cancel *)

Record act := { apc : pc; ab : nat; aw : nat; actx : ctx; atimed : bool;
                acomp : bool;   (* ghost: the pending fetch_add is a re-post on behalf of a waiter that left *)
                av : Z;         (* local: value read by try_wait's load / expected by its CAS; value read by get_value *)
                ares : bool     (* result of the last wait / wait_timeout / try_wait *) }.
Record blk := { tok : bool; parked : bool; reason : option rsn; unp : bool; rel : bool; owner : nat }.
Record st := { cnt : Z; q : list nat; nextb : nat; A : nat -> act; Bk : nat -> blk;
               ini : Z; uposts : Z; succ : Z;
               ung : list nat; giv : list nat; pre : list nat; hand : list nat; owe : list nat }.

Definition upd {X} (f : nat -> X) i v := fun j => if Nat.eqb j i then v else f j.
Definition fresh (o : nat) := {| tok := false; parked := false; reason := None; unp := false; rel := false; owner := o |}.
Definition set_pc (x : act) p := {| apc := p; ab := ab x; aw := aw x; actx := actx x; atimed := atimed x; acomp := acomp x; av := av x; ares := ares x |}.
Definition set_ctx (x : act) p c k := {| apc := p; ab := ab x; aw := aw x; actx := c; atimed := atimed x; acomp := k; av := av x; ares := ares x |}.
Definition set_res (x : act) p r := {| apc := p; ab := ab x; aw := aw x; actx := actx x; atimed := atimed x; acomp := acomp x; av := av x; ares := r |}.
Definition set_av (x : act) p v := {| apc := p; ab := ab x; aw := aw x; actx := actx x; atimed := atimed x; acomp := acomp x; av := v; ares := ares x |}.
Definition ret_pc (c : ctx) := match c with RUser => Idle | RErr => Idle | RPark => WP end.

Inductive action :=
  | Wait (a : nat) (timed : bool) | TryWait (a : nat) | Post (a : nat) | GetValue (a : nat)
  | Step (a : nat)
  | Fire (a : nat).   (* the timer or a cancel() hits the suspended actor a *)

Definition mk c q' n A' B' i u su l1 l2 l3 l4 l5 :=
  {| cnt := c; q := q'; nextb := n; A := A'; Bk := B'; ini := i; uposts := u; succ := su; ung := l1; giv := l2; pre := l3; hand := l4; owe := l5 |}.
Definition rm := remove Nat.eq_dec.

Definition step (s : st) (ac : action) : option st :=
  match ac with
  | Wait a timed => match apc (A s a) with
      | Idle => Some (mk (cnt s) (q s) (nextb s) (upd (A s) a {| apc := W0; ab := ab (A s a); aw := aw (A s a); actx := RUser; atimed := timed; acomp := false; av := av (A s a); ares := ares (A s a) |}) (Bk s) (ini s) (uposts s) (succ s) (ung s) (giv s) (pre s) (hand s) (owe s))
      | _ => None end
  | TryWait a => match apc (A s a) with
      | Idle => Some (mk (cnt s) (q s) (nextb s) (upd (A s) a (set_pc (A s a) Y0)) (Bk s) (ini s) (uposts s) (succ s) (ung s) (giv s) (pre s) (hand s) (owe s))
      | _ => None end
  | Post a => match apc (A s a) with
      | Idle => Some (mk (cnt s) (q s) (nextb s) (upd (A s) a (set_ctx (A s a) P0 RUser false)) (Bk s) (ini s) (uposts s) (succ s) (ung s) (giv s) (pre s) (hand s) (owe s))
      | _ => None end
  | GetValue a => match apc (A s a) with
      | Idle => Some (mk (cnt s) (q s) (nextb s) (upd (A s) a (set_pc (A s a) G0)) (Bk s) (ini s) (uposts s) (succ s) (ung s) (giv s) (pre s) (hand s) (owe s))
      | _ => None end
  | Fire a =>
      let x := A s a in let b := Bk s (ab x) in
      match apc x with
      | WW => if atimed x
              then Some (mk (cnt s) (q s) (nextb s) (A s) (upd (Bk s) (ab x) {| tok := tok b; parked := parked b; reason := Some RT; unp := unp b; rel := rel b; owner := owner b |}) (ini s) (uposts s) (succ s) (ung s) (giv s) (pre s) (hand s) (owe s))
              else None
      | _ => None end
  | Step a =>
      let x := A s a in let b := Bk s (ab x) in let w := Bk s (aw x) in
      match apc x with
      | Idle => None
      | W0 | Y0 =>          (* try_wait: cnt.load *)
          if Z.ltb 0 (cnt s)
          then Some (mk (cnt s) (q s) (nextb s) (upd (A s) a (set_av x (match apc x with W0 => W0c | _ => Y0c end) (cnt s))) (Bk s) (ini s) (uposts s) (succ s) (ung s) (giv s) (pre s) (hand s) (owe s))
          else Some (mk (cnt s) (q s) (nextb s) (upd (A s) a (match apc x with W0 => set_pc x W1 | _ => set_res x Idle false end)) (Bk s) (ini s) (uposts s) (succ s) (ung s) (giv s) (pre s) (hand s) (owe s))
      | W0c | Y0c =>        (* try_wait: cnt.compare_exchange(av, av - 1); on failure the loop continues with the value found *)
          if Z.eqb (cnt s) (av x)
          then Some (mk (cnt s - 1) (q s) (nextb s) (upd (A s) a (set_res x Idle true)) (Bk s) (ini s) (uposts s) (succ s + 1) (ung s) (giv s) (pre s) (hand s) (owe s))
          else if Z.ltb 0 (cnt s)
          then Some (mk (cnt s) (q s) (nextb s) (upd (A s) a (set_av x (apc x) (cnt s))) (Bk s) (ini s) (uposts s) (succ s) (ung s) (giv s) (pre s) (hand s) (owe s))
          else Some (mk (cnt s) (q s) (nextb s) (upd (A s) a (match apc x with W0c => set_pc x W1 | _ => set_res x Idle false end)) (Bk s) (ini s) (uposts s) (succ s) (ung s) (giv s) (pre s) (hand s) (owe s))
      | G0 => Some (mk (cnt s) (q s) (nextb s) (upd (A s) a (set_av x Idle (cnt s))) (Bk s) (ini s) (uposts s) (succ s) (ung s) (giv s) (pre s) (hand s) (owe s))
      | W1 => let n := nextb s in
          Some (mk (cnt s) (q s ++ [n]) (S n) (upd (A s) a {| apc := W2; ab := n; aw := aw x; actx := actx x; atimed := atimed x; acomp := acomp x; av := av x; ares := ares x |}) (upd (Bk s) n (fresh a)) (ini s) (uposts s) (succ s) (ung s) (giv s) (pre s) (hand s) (owe s))
      | W2 => (* registration: if the blocker was already flagged (popped early) it becomes a given one *)
              let ung' := if unp b then ung s else ab x :: ung s in
              let giv' := if unp b then ab x :: giv s else giv s in
              let pre' := if unp b then rm (ab x) (pre s) else pre s in
              if Z.ltb 0 (cnt s)
              then Some (mk (cnt s - 1) (q s) (nextb s) (upd (A s) a (set_ctx x K1 RPark false)) (Bk s) (ini s) (uposts s) (succ s) ung' giv' pre' (a :: hand s) (owe s))
              else Some (mk (cnt s - 1) (q s) (nextb s) (upd (A s) a (set_pc x WP)) (Bk s) (ini s) (uposts s) (succ s) ung' giv' pre' (hand s) (owe s))
      | P0 => let u' := if acomp x then uposts s else uposts s + 1 in
              let owe' := if acomp x then rm a (owe s) else owe s in
              if Z.ltb (cnt s) 0
              then Some (mk (cnt s + 1) (q s) (nextb s) (upd (A s) a (set_pc x K1)) (Bk s) (ini s) u' (succ s) (ung s) (giv s) (pre s) (a :: hand s) owe')
              else Some (mk (cnt s + 1) (q s) (nextb s) (upd (A s) a (set_pc x (ret_pc (actx x)))) (Bk s) (ini s) u' (succ s) (ung s) (giv s) (pre s) (hand s) owe')
      | K1 => match q s with
              | [] => None
              | v :: q' => Some (mk (cnt s) q' (nextb s) (upd (A s) a {| apc := K2; ab := ab x; aw := v; actx := actx x; atimed := atimed x; acomp := acomp x; av := av x; ares := ares x |}) (Bk s) (ini s) (uposts s) (succ s) (ung s) (giv s) (pre s) (hand s) (owe s))
              end
      | K2 => (* flag store: the permit in hand passes to blocker aw *)
              let isreg := if in_dec Nat.eq_dec (aw x) (ung s) then true else false in
              Some (mk (cnt s) (q s) (nextb s) (upd (A s) a (set_pc x K3))
                      (upd (Bk s) (aw x) {| tok := tok w; parked := parked w; reason := reason w; unp := true; rel := rel w; owner := owner w |}) (ini s) (uposts s) (succ s)
                      (rm (aw x) (ung s)) (if isreg then aw x :: giv s else giv s) (if isreg then pre s else aw x :: pre s) (rm a (hand s)) (owe s))
      | K3 => Some (mk (cnt s) (q s) (nextb s) (upd (A s) a (set_pc x K4))
                      (upd (Bk s) (aw x) {| tok := true; parked := parked w; reason := (if parked w then match reason w with None => Some RU | r => r end else reason w); unp := unp w; rel := rel w; owner := owner w |}) (ini s) (uposts s) (succ s) (ung s) (giv s) (pre s) (hand s) (owe s))
      | K4 => if rel w
              then Some (mk (cnt s) (q s) (nextb s) (upd (A s) a (set_ctx x P0 (actx x) true))
                          (upd (Bk s) (aw x) {| tok := tok w; parked := parked w; reason := reason w; unp := unp w; rel := false; owner := owner w |}) (ini s) (uposts s) (succ s) (ung s) (rm (aw x) (giv s)) (pre s) (hand s) (a :: owe s))
              else Some (mk (cnt s) (q s) (nextb s) (upd (A s) a (set_pc x (ret_pc (actx x)))) (Bk s) (ini s) (uposts s) (succ s) (ung s) (giv s) (pre s) (hand s) (owe s))
      | WP => if tok b
              then Some (mk (cnt s) (q s) (nextb s) (upd (A s) a (set_res x Idle true)) (upd (Bk s) (ab x) {| tok := false; parked := parked b; reason := reason b; unp := unp b; rel := rel b; owner := owner b |}) (ini s) (uposts s) (succ s + 1) (ung s) (rm (ab x) (giv s)) (pre s) (hand s) (owe s))
              else Some (mk (cnt s) (q s) (nextb s) (upd (A s) a (set_pc x WW)) (upd (Bk s) (ab x) {| tok := tok b; parked := true; reason := None; unp := unp b; rel := rel b; owner := owner b |}) (ini s) (uposts s) (succ s) (ung s) (giv s) (pre s) (hand s) (owe s))
      | WW => match reason b with
              | None => None
              | Some RU => Some (mk (cnt s) (q s) (nextb s) (upd (A s) a (set_res x Idle true)) (upd (Bk s) (ab x) {| tok := false; parked := false; reason := None; unp := unp b; rel := rel b; owner := owner b |}) (ini s) (uposts s) (succ s + 1) (ung s) (rm (ab x) (giv s)) (pre s) (hand s) (owe s))
              | Some RT => Some (mk (cnt s) (q s) (nextb s) (upd (A s) a (set_res x E1 false)) (upd (Bk s) (ab x) {| tok := false; parked := false; reason := None; unp := unp b; rel := rel b; owner := owner b |}) (ini s) (uposts s) (succ s) (ung s) (giv s) (pre s) (hand s) (owe s))
              end
      | E1 => if unp b
              then Some (mk (cnt s) (q s) (nextb s) (upd (A s) a (set_ctx x P0 RErr true)) (Bk s) (ini s) (uposts s) (succ s) (ung s) (rm (ab x) (giv s)) (pre s) (hand s) (a :: owe s))
              else Some (mk (cnt s) (q s) (nextb s) (upd (A s) a (set_pc x E2)) (Bk s) (ini s) (uposts s) (succ s) (ung s) (giv s) (pre s) (hand s) (owe s))
      | E2 => Some (mk (cnt s) (q s) (nextb s) (upd (A s) a (set_pc x E3)) (upd (Bk s) (ab x) {| tok := tok b; parked := parked b; reason := reason b; unp := unp b; rel := true; owner := owner b |}) (ini s) (uposts s) (succ s) (ung s) (giv s) (pre s) (hand s) (owe s))
      | E3 => if unp b
              then Some (mk (cnt s) (q s) (nextb s) (upd (A s) a (set_pc x E4)) (Bk s) (ini s) (uposts s) (succ s) (ung s) (giv s) (pre s) (hand s) (owe s))
              else Some (mk (cnt s) (q s) (nextb s) (upd (A s) a (set_pc x Idle)) (Bk s) (ini s) (uposts s) (succ s) (ung s) (giv s) (pre s) (hand s) (owe s))
      | E4 => if rel b
              then Some (mk (cnt s) (q s) (nextb s) (upd (A s) a (set_ctx x P0 RErr true)) (upd (Bk s) (ab x) {| tok := tok b; parked := parked b; reason := reason b; unp := unp b; rel := false; owner := owner b |}) (ini s) (uposts s) (succ s) (ung s) (rm (ab x) (giv s)) (pre s) (hand s) (a :: owe s))
              else Some (mk (cnt s) (q s) (nextb s) (upd (A s) a (set_pc x Idle)) (Bk s) (ini s) (uposts s) (succ s) (ung s) (giv s) (pre s) (hand s) (owe s))
      end
  end.

Definition act0 := {| apc := Idle; ab := 0; aw := 0; actx := RUser; atimed := false; acomp := false; av := 0; ares := false |}.
Definition init (i : Z) : st := mk i [] 1 (fun _ => act0) (fun _ => fresh 0) i 0 0 [] [] [] [] [].
Inductive Reach (i : Z) : st -> Prop :=
| R0 : Reach i (init i)
| RS s a s' : Reach i s -> step s a = Some s' -> Reach i s'.
(* run a schedule; a disabled action is skipped *)
Fixpoint run (s : st) (l : list action) : st :=
  match l with [] => s | a :: l' => match step s a with Some s' => run s' l' | None => run s l' end end.
