(* C12 - preservation of the global assertion *)
From Coq Require Import List Arith ZArith Bool Lia.
Import ListNotations.
Require Import MayV.Sync.RwLockModel MayV.Sync.RwLockInv.

Lemma len0 {X} (l : list X) : length l = 0 -> l = [].
Proof. destruct l; cbn; [auto|discriminate]. Qed.
Lemma mod_inc x : (0 <= x)%Z -> (x < Wd)%Z -> x <> (Wd - 1)%Z -> ((x + 1) mod Wd = x + 1)%Z.
Proof. intros. apply Z.mod_small. lia. Qed.
Lemma mod_dec x : (1 <= x)%Z -> (x < Wd)%Z -> ((x - 1) mod Wd = x - 1)%Z.
Proof. intros. apply Z.mod_small. lia. Qed.
Lemma mod_lt x : (x mod Wd < Wd)%Z.
Proof. pose proof Wd_pos. apply Z.mod_pos_bound. lia. Qed.
Lemma in_len1 {X} (x : X) l : In x l -> 1 <= length l.
Proof. destruct l; cbn; [tauto | lia]. Qed.
Lemma nonnil_len {X} (l : list X) : l <> [] <-> 1 <= length l.
Proof. destruct l; cbn; split; intros; try congruence; try lia. Qed.

Lemma pres_G s ac s' : Inv s -> step s ac = Some s' -> ovf s' = false -> ginv s'.
Proof.
  intros Hi H Ho. destruct (IG _ Hi) as (G1 & G2 & G3 & G4 & G5 & G6 & G7 & G8 & G9 & G10 & G11).
  step_cases H; unfold ginv; cbn -[Z.of_nat] in Ho |- *; num;
    repeat match goal with |- _ /\ _ => split end; auto; try lia.
  all: try apply mod_lt.
  all: try a_facts Hi a.
  all: try (constructor; tauto).
  all: try (rewrite remove_len by tauto; lia).
  all: try (apply nodup_remove; assumption).
  all: try (intros b0 Hb; apply G4; right; assumption).
  all: try (intros b0 Hb; apply in_app_or in Hb; destruct Hb as [Hb|[<-|[]]]; [specialize (G4 b0 Hb)|]; lia).
  all: try (intros _; discriminate).
  all: try discriminate.
  all: try (assert (Ee : ent s = []) by (apply len0; lia); rewrite Ee in * ).
  all: try solve [intros; exfalso; brk; fin0].
  all: try (b_facts Hi (ab (A s a)); b_facts Hi (aw (A s a))).
  all: try solve [intros _ E; rewrite E in *; cbn in *; brk; tauto].
  all: try solve [intros Hr; specialize (G7 Hr); brk; fin0].
  all: try solve [intros [E|I]; [discriminate | apply G8; exact I]].
  all: try solve [intros _; apply G5; congruence].
  all: try solve [intros _ E; apply (f_equal (@length _)) in E; rewrite remove_len in E by tauto; cbn in E; lia].
  all: try solve [intros I; apply in_remove in I; destruct I as [I _]; apply G8; exact I].
  all: try solve [intros I; rewrite remove_nil_len in I by (tauto || lia); destruct I].
  (* RG *)
  all: try solve [rewrite remove_len by tauto; match goal with H : In _ (ent _) |- _ => apply in_len1 in H end; lia].
  all: try solve [constructor; [intro I; apply in_remove in I; destruct I as [I _]; brk; discriminate | apply nodup_remove; assumption]].
  all: try solve [intros _; split; [discriminate | left; reflexivity]].
  all: try solve [rewrite mod_inc by lia; rewrite G10; lia].
  all: try solve [intros h; split; [discriminate | apply G6; exact h]].
  all: try solve [intros _; apply G7; intro E; rewrite E in *; cbn in *; lia].
  (* DR0 *)
  all: try (assert (Hr1 : (1 <= r s)%Z) by (rewrite G10; match goal with H : In _ (rdl _) |- _ => apply in_len1 in H end; lia)).
  all: try (assert (Hrl : rdl s <> []) by (intro E; rewrite E in *; cbn in *; tauto)).
  all: try rewrite mod_dec in * by lia.
  all: try solve [intros _; apply G5; rewrite (G7 Hrl); discriminate].
  all: try solve [intros E; exfalso; apply nonnil_len in E; rewrite remove_len in E by tauto; lia].
  all: try solve [rewrite remove_len by tauto; lia].
  all: try solve [intros h; split; [apply nonnil_len; rewrite remove_len by tauto; lia | apply G6; exact h]].
  all: try solve [intros _; apply G7; exact Hrl].
Qed.
