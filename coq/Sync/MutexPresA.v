(* C05 - preservation of the stepping actor's own assertion *)
From Coq Require Import List Arith Bool Lia.
Import ListNotations.
Require Import MayV.Sync.MutexModel MayV.Sync.MutexInv.

Definition actor_of (ac : action) : nat :=
  match ac with Start a _ | StartTry a | Step a | Park a | Kick a | Cancel a | CKick a | Read a | Write a => a end.

Section S.
Variable isco : nat -> bool.
Notation step := (step isco).
Lemma pres_A_self s a s' : Inv s -> step s (Step a) = Some s' -> ainv s' a.
Proof.
  intros Hi H. destruct (IG _ Hi) as (G1 & G2 & G3 & G4 & G5 & G6).
  step_cases H; destruct (actx (A s a)) eqn:Ectx; a_facts Hi a;
    b_facts Hi (ab (A s a)); b_facts Hi (aw (A s a));
    unfold ainv, set_pc, waiting, halfgone; cbn; upd_tac; cbn in *; num;
    repeat match goal with |- _ /\ _ => split end; intros; brk; fin.
  all: try (destruct (Nat.eq_dec (owner (Bk s (aw (A s a)))) a) as [eo|neo]; [rewrite eo in *; brk; fin | fin]).
Qed.

(* client choices (Start, StartTry, Read, Write) and environment actions (Park, Kick, Cancel, CKick) *)
Lemma pres_A_self_other s ac s' : Inv s -> (forall a, ac <> Step a) -> step s ac = Some s' -> ainv s' (actor_of ac).
Proof.
  intros Hi Hns H. pose proof (IA _ Hi (actor_of ac)) as Ha. unfold ainv in Ha.
  step_cases H; try (exfalso; eapply Hns; reflexivity); unfold ainv, set_pc; cbn [actor_of] in *; cbn; upd_tac; cbn in *; try rewrite Epc in *; cbn in *; brk; fin.
  all: try (destruct (apc (A s a)) eqn:Epc; cbn in *; brk; fin).
Qed.

End S.
