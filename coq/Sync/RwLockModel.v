(* C12 - model of may::sync::RwLock (src/sync/rwlock.rs) as it is in /repo now, i.e. after the
   repairs F4 (try_read counts the reader before it can return a poisoned guard), F5 (a lost CAS of
   try_lock is WouldBlock also on a poisoned lock), F11 (read_unlock takes the reader-count lock with
   the cancel disabled) and with SyncBlocker::unpark storing `unparked` before the wake-up.

   Small-step system, one transition per shared access of rwlock.rs / SyncBlocker / poison flag:

     global lock   cnt (AtomicUsize), to_wake (atomic FIFO of blocker ids), per blocker the two
                   SyncBlocker flags `unparked`, `release` and the Blocker token `tok`;
                   lock() = try_lock (T0 load, T1 CAS) / L1 push / L2 fetch_add / [H1 pop, H2
                   unparked.store, H3 blocker.unpark, H4 take_release]* / PK park / C1..C4 the
                   Canceled branch; unlock() = U0 fetch_sub / H1.. ; unpark_one recursion through
                   take_release is the loop U0 -> H1 -> .. -> H4 -> U0.
     rlock         `rlock : Mutex<usize>` is NOT re-modelled here (it is the Mutex of C05): it is an
                   abstract atomic lock `rl : option actor` around the reader count `r`, a WRAPPING
                   64-bit value (Z modulo 2^64).  A blocking acquisition is enabled when the lock is
                   free; `try_lock` may also fail spuriously (action Busy: the real mutex can be in
                   the middle of a hand-over); a cancelled coroutine leaves `rlock.lock()` of read()
                   by the cancel panic (action Abort at RL); read_unlock() is not cancellable.
     park          `cur.park(None)` is one abstract blocking call (PK) on the Blocker token of
                   DESIGN 2.1: it returns Ok only if the token is set (Step) or Canceled if the
                   coroutine has been cancelled (Abort); the token is cleared whatever the verdict.
     poison        `pois`; written by the drop of a write guard whose holder panics (Panic, DWP),
                   read by the guard constructors (GW, RG).  Ok(guard) and Err(Poisoned(guard)) both
                   hand out a guard, so the result kind is not part of the control state.

   Actors are unbounded (nat -> act); an idle actor may call any operation (Call), a guard holder
   may drop the guard (Drop) or, for a write guard, panic (Panic).  `Abort a` stands for "actor a
   is a coroutine whose cancel flag has been set and the cancellation takes effect at its current
   blocking call"; threads are simply actors that never get an Abort.

   Ghost state (updated by step, never read by the non-ghost part): holder (who owns the global
   lock: an actor, a blocker in transit, or the reader group), ent (the entries counted in cnt),
   rdl (actors counted in r), ag (who flagged a blocker), ovf (the 64-bit reader count wrapped). *)
From Coq Require Import List Arith ZArith Bool Lia.
Import ListNotations.

Definition Wd : Z := 2 ^ 64.

Inductive op := ORead | OTryRead | OWrite | OTryWrite.
Definition is_read (o : op) : bool := match o with ORead | OTryRead => true | _ => false end.

Inductive pc :=
  | Idle | Exit
  | RL                              (* read / try_read: self.rlock.lock() / try_lock() *)
  | T0 | T1                         (* try_lock: cnt.load / cnt.compare_exchange(0,1) *)
  | L1 | L2                         (* lock: to_wake.push(cur) / cnt.fetch_add(1) *)
  | H1 | H2 | H3 | H4               (* to_wake.pop / w.unparked.store(true) / w.blocker.unpark() / w.take_release() *)
  | U0                              (* unlock: cnt.fetch_sub(1) *)
  | PK                              (* cur.park(None) *)
  | C1 | C2 | C3 | C4               (* Canceled: is_unparked / set_release / is_unparked / take_release *)
  | GW | RG                         (* RwLockWriteGuard::new / ( *r += 1; RwLockReadGuard::new ): poison.get *)
  | RUh | RUi | RUx                 (* the rlock guard is released; then the call returns a read guard /
                                       returns without a guard / unwinds with the cancel panic *)
  | HoldW | HoldR                   (* the caller owns a guard (from Ok or from inside a Poisoned error) *)
  | DWP                             (* drop of the write guard of a panicking holder: poison.done store *)
  | DR0.                            (* read_unlock: self.rlock.lock(), cancel disabled *)

(* what an unpark / unlock chain returns to *)
Inductive ctx := RPark | RDoneW | RDoneR | RExit.
Inductive hold := HNone | HA (a : nat) | HB (b : nat) | HG.

Record act := { apc : pc; aop : op; ab : nat; aw : nat; actx : ctx; afor : option nat }.
Record blk := { tok : bool; unp : bool; rel : bool; owner : nat; ag : nat }.
Record st := {
  cnt : nat; q : list nat; nextb : nat;            (* global lock *)
  rl : option nat; r : Z;                          (* rlock and the reader count it protects *)
  pois : bool;
  A : nat -> act; Bk : nat -> blk;
  holder : hold; ent : list (option nat); rdl : list nat; ovf : bool   (* ghost *)
}.

Definition upd {X} (f : nat -> X) i v := fun j => if Nat.eqb j i then v else f j.
Definition oeq_dec : forall x y : option nat, {x = y} + {x <> y}.
Proof. decide equality. apply Nat.eq_dec. Defined.

(* field-group updates *)
Definition wA (s : st) a x : st :=
  {| cnt := cnt s; q := q s; nextb := nextb s; rl := rl s; r := r s; pois := pois s; A := upd (A s) a x; Bk := Bk s;
     holder := holder s; ent := ent s; rdl := rdl s; ovf := ovf s |}.
Definition wB (s : st) b k : st :=
  {| cnt := cnt s; q := q s; nextb := nextb s; rl := rl s; r := r s; pois := pois s; A := A s; Bk := upd (Bk s) b k;
     holder := holder s; ent := ent s; rdl := rdl s; ovf := ovf s |}.
Definition wC (s : st) c : st :=
  {| cnt := c; q := q s; nextb := nextb s; rl := rl s; r := r s; pois := pois s; A := A s; Bk := Bk s;
     holder := holder s; ent := ent s; rdl := rdl s; ovf := ovf s |}.
Definition wQ (s : st) l n : st :=
  {| cnt := cnt s; q := l; nextb := n; rl := rl s; r := r s; pois := pois s; A := A s; Bk := Bk s;
     holder := holder s; ent := ent s; rdl := rdl s; ovf := ovf s |}.
Definition wH (s : st) h e : st :=
  {| cnt := cnt s; q := q s; nextb := nextb s; rl := rl s; r := r s; pois := pois s; A := A s; Bk := Bk s;
     holder := h; ent := e; rdl := rdl s; ovf := ovf s |}.
Definition wL (s : st) l : st :=
  {| cnt := cnt s; q := q s; nextb := nextb s; rl := l; r := r s; pois := pois s; A := A s; Bk := Bk s;
     holder := holder s; ent := ent s; rdl := rdl s; ovf := ovf s |}.
Definition wR (s : st) x d o : st :=
  {| cnt := cnt s; q := q s; nextb := nextb s; rl := rl s; r := x; pois := pois s; A := A s; Bk := Bk s;
     holder := holder s; ent := ent s; rdl := d; ovf := o |}.
Definition wP (s : st) p : st :=
  {| cnt := cnt s; q := q s; nextb := nextb s; rl := rl s; r := r s; pois := p; A := A s; Bk := Bk s;
     holder := holder s; ent := ent s; rdl := rdl s; ovf := ovf s |}.

Definition set_pc (x : act) p := {| apc := p; aop := aop x; ab := ab x; aw := aw x; actx := actx x; afor := afor x |}.
Definition set_pcx (x : act) p c f := {| apc := p; aop := aop x; ab := ab x; aw := aw x; actx := c; afor := f |}.
Definition fresh (o : nat) := {| tok := false; unp := false; rel := false; owner := o; ag := 0 |}.

Definition isRPark (c : ctx) : bool := match c with RPark => true | _ => false end.
Definition fail_pc (o : op) : pc := match o with OTryWrite => Idle | OTryRead => RUi | _ => L1 end.
Definition got_pc (o : op) : pc := if is_read o then RG else GW.
Definition exit_pc (o : op) : pc := if is_read o then RUx else Exit.
Definition ret_pc (c : ctx) (o : op) : pc :=
  match c with RPark => PK | RDoneW => Idle | RDoneR => RUi | RExit => exit_pc o end.

Inductive action :=
  | Call (a : nat) (o : op)      (* an idle actor calls read / try_read / write / try_write *)
  | Step (a : nat)               (* the next shared access of a's current call *)
  | Busy (a : nat)               (* try_read: rlock.try_lock() answers WouldBlock *)
  | Abort (a : nat)              (* a (a cancelled coroutine): the current blocking call ends with Canceled *)
  | Drop (a : nat)               (* a guard holder drops the guard *)
  | Panic (a : nat).             (* the holder of a write guard panics; the unwind drops the guard *)

Definition step (s : st) (ac : action) : option st :=
  match ac with
  | Call a o =>
      let x := A s a in
      match apc x with
      | Idle => Some (wA s a {| apc := (if is_read o then RL else T0); aop := o; ab := ab x; aw := aw x; actx := actx x; afor := afor x |})
      | _ => None
      end
  | Busy a =>
      let x := A s a in
      match apc x, aop x with
      | RL, OTryRead => Some (wA s a (set_pc x Idle))
      | _, _ => None
      end
  | Abort a =>
      let x := A s a in
      let b := Bk s (ab x) in
      match apc x with
      | RL => match aop x with ORead => Some (wA s a (set_pc x Exit)) | _ => None end
      | PK => Some (wA (wB s (ab x) {| tok := false; unp := unp b; rel := rel b; owner := owner b; ag := ag b |}) a (set_pc x C1))
      | _ => None
      end
  | Drop a =>
      let x := A s a in
      match apc x with
      | HoldW => Some (wA s a (set_pcx x U0 RDoneW (Some a)))
      | HoldR => Some (wA s a (set_pc x DR0))
      | _ => None
      end
  | Panic a =>
      let x := A s a in
      match apc x with
      | HoldW => Some (wA s a (set_pc x DWP))
      | _ => None
      end
  | Step a =>
      let x := A s a in
      let o := aop x in
      let b := Bk s (ab x) in
      let w := Bk s (aw x) in
      match apc x with
      | Idle | Exit | HoldW | HoldR => None
      | RL => match rl s with
              | None => Some (wA (wL s (Some a)) a (set_pc x (if Z.eqb (r s) 0 then T0 else RG)))
              | Some _ => None
              end
      | T0 => if Nat.eqb (cnt s) 0 then Some (wA s a (set_pc x T1)) else Some (wA s a (set_pc x (fail_pc o)))
      | T1 => if Nat.eqb (cnt s) 0
              then Some (wA (wH (wC s 1) (HA a) (Some a :: ent s)) a (set_pc x (got_pc o)))
              else Some (wA s a (set_pc x (fail_pc o)))
      | L1 => let n := nextb s in
              Some (wA (wB (wQ s (q s ++ [n]) (S n)) n (fresh a)) a
                      {| apc := L2; aop := o; ab := n; aw := aw x; actx := actx x; afor := afor x |})
      | L2 => if Nat.eqb (cnt s) 0
              then Some (wA (wH (wC s 1) (HA a) (Some a :: ent s)) a (set_pcx x H1 RPark (afor x)))
              else Some (wA (wH (wC s (S (cnt s))) (holder s) (Some a :: ent s)) a (set_pc x PK))
      | H1 => match q s with
              | [] => None                                  (* expect("got null blocker!") *)
              | v :: q' => Some (wA (wQ s q' (nextb s)) a
                                   {| apc := H2; aop := o; ab := ab x; aw := v; actx := actx x; afor := afor x |})
              end
      | H2 => Some (wA (wH (wB s (aw x) {| tok := tok w; unp := true; rel := rel w; owner := owner w; ag := a |})
                           (HB (aw x)) (ent s)) a (set_pc x H3))
      | H3 => Some (wA (wB s (aw x) {| tok := true; unp := unp w; rel := rel w; owner := owner w; ag := ag w |}) a (set_pc x H4))
      | H4 => if rel w
              then Some (wA (wH (wB s (aw x) {| tok := tok w; unp := unp w; rel := false; owner := owner w; ag := ag w |})
                                (HA a) (ent s)) a (set_pcx x U0 (actx x) (Some (owner w))))
              else Some (wA s a (set_pc x (ret_pc (actx x) o)))
      | U0 => if Nat.ltb 1 (cnt s)
              then Some (wA (wH (wC s (cnt s - 1)) (holder s) (remove oeq_dec (afor x) (ent s))) a (set_pc x H1))
              else Some (wA (wH (wC s (cnt s - 1)) HNone (remove oeq_dec (afor x) (ent s))) a (set_pc x (ret_pc (actx x) o)))
      | PK => if tok b
              then Some (wA (wH (wB s (ab x) {| tok := false; unp := unp b; rel := rel b; owner := owner b; ag := ag b |})
                                (HA a) (ent s)) a (set_pc x (got_pc o)))
              else None
      | C1 => if unp b
              then Some (wA (wH s (HA a) (ent s)) a (set_pcx x U0 RExit (Some a)))
              else Some (wA s a (set_pc x C2))
      | C2 => Some (wA (wB s (ab x) {| tok := tok b; unp := unp b; rel := true; owner := owner b; ag := ag b |}) a (set_pc x C3))
      | C3 => if unp b then Some (wA s a (set_pc x C4)) else Some (wA s a (set_pc x (exit_pc o)))
      | C4 => if rel b
              then Some (wA (wH (wB s (ab x) {| tok := tok b; unp := unp b; rel := false; owner := owner b; ag := ag b |})
                                (HA a) (ent s)) a (set_pcx x U0 RExit (Some a)))
              else Some (wA s a (set_pc x (exit_pc o)))
      | GW => Some (wA s a (set_pc x HoldW))
      | RG => let r' := Z.modulo (r s + 1) Wd in
              let s1 := wR s r' (a :: rdl s) (ovf s || Z.eqb (r s) (Wd - 1)) in
              if Z.eqb (r s) 0
              then Some (wA (wH s1 HG (None :: remove oeq_dec (Some a) (ent s))) a (set_pc x RUh))
              else Some (wA s1 a (set_pc x RUh))
      | RUh => Some (wA (wL s None) a (set_pc x HoldR))
      | RUi => Some (wA (wL s None) a (set_pc x Idle))
      | RUx => Some (wA (wL s None) a (set_pc x Exit))
      | DWP => Some (wA (wP s true) a (set_pcx x U0 RDoneW (Some a)))
      | DR0 => match rl s with
               | None =>
                   let r' := Z.modulo (r s - 1) Wd in
                   let s1 := wR (wL s (Some a)) r' (remove Nat.eq_dec a (rdl s)) (ovf s) in
                   if Z.eqb r' 0
                   then Some (wA (wH s1 (HA a) (ent s)) a (set_pcx x U0 RDoneR None))
                   else Some (wA s1 a (set_pc x RUi))
               | Some _ => None
               end
      end
  end.

Definition act0 := {| apc := Idle; aop := OWrite; ab := 0; aw := 0; actx := RDoneW; afor := None |}.
(* blocker 0 is a dummy that is never pushed; real blockers start at 1.  `p` = the lock starts poisoned
   (the theorems hold for both; a poisoned start is also reachable from the clean one by Panic) *)
Definition init (p : bool) : st :=
  {| cnt := 0; q := []; nextb := 1; rl := None; r := 0; pois := p; A := fun _ => act0; Bk := fun _ => fresh 0;
     holder := HNone; ent := []; rdl := []; ovf := false |}.

Inductive Reach (p : bool) : st -> Prop :=
| R0 : Reach p (init p)
| RS s a s' : Reach p s -> step s a = Some s' -> Reach p s'.

(* run a schedule; a disabled action stops the run *)
Fixpoint run (s : st) (l : list action) : option st :=
  match l with [] => Some s | a :: l' => match step s a with Some s' => run s' l' | None => None end end.
Lemma reach_run p l : forall s s', Reach p s -> run s l = Some s' -> Reach p s'.
Proof.
  induction l as [|a l IH]; cbn [run]; intros s s' R H; [inversion H; subst; exact R|].
  destruct (step s a) eqn:E; [|discriminate]. eapply IH; [eapply RS; eauto | exact H].
Qed.

(* the property's vocabulary *)
Definition wguard (p : pc) : bool := match p with HoldW | DWP => true | _ => false end.   (* owns a write guard *)
Definition rguard (p : pc) : bool := match p with RUh | HoldR | DR0 => true | _ => false end.  (* counted reader: guard built and not yet uncounted *)
Definition at_rest (p : pc) : bool := match p with Idle | Exit => true | _ => false end.  (* no call in progress, no guard *)
