(* Finding F1, model side: on the model of the code BEFORE the fix: commit (MutexModelV0) mutual exclusion
   is refuted.  The witness is the schedule of notes/repro/mx.rs and of the harness scenario s_mutex with
   MAYV_CV=1. *)
From Coq Require Import List Arith Bool.
Import ListNotations.
Require Import MayV.Sync.MutexModelV0.

(* actors 0 and 2 are coroutines, 1 is a thread *)
Definition isco (a : nat) := negb (Nat.eqb a 1).

(* actor 1 holds the lock; coroutine 0 (cancel disabled, as in Condvar::wait's re-lock) queues and
   suspends; cancel(0) resumes it; it registers `release` and goes back to waiting; 1 unlocks: pops 0,
   wakes it (0 enters the critical section), then sees `release` and unlocks again on behalf of 0: the
   lock is free; coroutine 2 takes it by CAS: two holders. *)
Definition witness : list action :=
  [Start 1 false; Step 1;
   Start 0 true; Step 0; Step 0; Step 0; Step 0; Step 0; Cancel 0; CKick 0; Step 0; Step 0; Step 0; Step 0;
   Step 1; Step 1; Step 1; Step 1; Step 1; Step 0; Step 1; Step 1; Step 1;
   Start 2 false; Step 2].

Theorem mutual_exclusion_refuted_before_fix :
  exists s, Reach isco s /\ apc (A s 0) = CS /\ apc (A s 2) = CS.
Proof.
  exists (run isco init witness). split; [apply run_reach, R0 | vm_compute; split; reflexivity].
Qed.
