From Coq Require Import List Arith ZArith Bool Lia.
Import ListNotations.
Require Import MayV.Sync.SemModel.
Open Scope Z_scope.

Definition nl (l : list nat) : Z := Z.of_nat (length l).

(* assertion at each control point of actor a (b = its current blocker, w = the blocker it popped) *)
Definition sorted_into (s : st) (b : nat) : Prop :=
  (unp (Bk s b) = true -> In b (giv s)) /\ (unp (Bk s b) = false -> In b (ung s)).

Definition inpark (x : act) : bool :=
  match apc x, actx x with
  | (P0 | K1 | K2 | K3 | K4), RPark => true
  | _, _ => false
  end.

Definition ainv (s : st) (a : nat) : Prop :=
  let x := A s a in let b := ab x in let w := aw x in
  (ab x < nextb s)%nat /\ (aw x < nextb s)%nat /\
  (In a (hand s) <-> (apc x = K1 \/ apc x = K2)) /\
  (In a (owe s) <-> (apc x = P0 /\ acomp x = true)) /\
  (inpark x = true -> (1 <= b)%nat /\ owner (Bk s b) = a /\ sorted_into s b /\ rel (Bk s b) = false) /\
  match apc x with
  | Idle | W0 | W1 | Y0 | P0 | K1 | G0 => True
  | W0c | Y0c => 0 < av x
  | W2 => (1 <= b)%nat /\ owner (Bk s b) = a /\ ~ In b (ung s) /\ ~ In b (giv s) /\ rel (Bk s b) = false /\
          (unp (Bk s b) = true -> In b (pre s)) /\ (unp (Bk s b) = false -> ~ In b (pre s))
  | WP | WW | E1 | E2 => (1 <= b)%nat /\ owner (Bk s b) = a /\ sorted_into s b /\ rel (Bk s b) = false
  | E3 => (1 <= b)%nat /\ owner (Bk s b) = a /\ (rel (Bk s b) = true -> sorted_into s b) /\
          (rel (Bk s b) = false -> ~ In b (ung s) /\ ~ In b (giv s))
  | E4 => (1 <= b)%nat /\ owner (Bk s b) = a /\ unp (Bk s b) = true /\ (rel (Bk s b) = true -> In b (giv s)) /\
          (rel (Bk s b) = false -> ~ In b (giv s))
  | K2 => (1 <= w)%nat /\ unp (Bk s w) = false /\ ~ In w (q s) /\ ~ In w (giv s) /\ ~ In w (pre s)
  | K3 | K4 => unp (Bk s w) = true
  end.

Definition binv (s : st) (b : nat) : Prop :=
  let k := Bk s b in
  (tok k = true -> unp k = true) /\
  (reason k = Some RU -> unp k = true) /\
  (In b (giv s) -> unp k = true) /\ (In b (ung s) -> unp k = false) /\ (In b (pre s) -> unp k = true /\ ~ In b (giv s)) /\
  (In b (pre s) -> apc (A s (owner k)) = W2 /\ ab (A s (owner k)) = b) /\
  ((1 <= b < nextb s)%nat -> unp k = false -> ~ In b (ung s) -> apc (A s (owner k)) = W2 /\ ab (A s (owner k)) = b) /\
  (rel k = true -> In b (ung s) \/ In b (giv s)) /\
  (In b (q s) -> unp k = false) /\
  ((nextb s <= b)%nat -> unp k = false /\ rel k = false /\ tok k = false /\ reason k = None /\ ~ In b (ung s) /\ ~ In b (giv s) /\ ~ In b (pre s)).

Definition ginv (s : st) : Prop :=
  cnt s = ini s + uposts s - succ s - nl (ung s) - nl (giv s) - nl (owe s) /\
  nl (hand s) + nl (pre s) <= nl (ung s) /\
  0 <= cnt s + nl (ung s) - nl (hand s) - nl (pre s) /\
  cnt s + nl (ung s) - nl (hand s) - nl (pre s) = Z.max (cnt s) 0 /\
  NoDup (ung s) /\ NoDup (giv s) /\ NoDup (pre s) /\ NoDup (hand s) /\ NoDup (owe s) /\ NoDup (q s) /\
  (1 <= nextb s)%nat /\ (forall b, In b (q s) -> (1 <= b < nextb s)%nat) /\ 0 <= ini s.

Record Inv (s : st) : Prop := {
  IA : forall a, ainv s a; IB : forall b, binv s b; IG : ginv s;
  KD : forall x y, x <> y -> apc (A s x) = K2 -> apc (A s y) = K2 -> aw (A s x) <> aw (A s y) }.

Lemma upd_eq {X} (f : nat -> X) i v : upd f i v i = v.
Proof. unfold upd. now rewrite Nat.eqb_refl. Qed.
Lemma upd_neq {X} (f : nat -> X) i j v : j <> i -> upd f i v j = f j.
Proof. unfold upd. intros H. destruct (Nat.eqb_spec j i); congruence. Qed.

Lemma nl_cons x l : nl (x :: l) = nl l + 1.
Proof. unfold nl. cbn [length]. lia. Qed.
Lemma nl_rm x l : NoDup l -> In x l -> nl (rm x l) = nl l - 1.
Proof.
  unfold nl, rm. intros N I.
  assert (H : length (remove Nat.eq_dec x l) = (length l - 1)%nat).
  { induction l as [|y l IH]; cbn; [tauto|]. inversion N; subst. destruct (Nat.eq_dec x y).
    - subst. rewrite notin_remove by assumption. lia.
    - destruct I as [->|I]; [congruence|]. cbn. rewrite IH by assumption. destruct l; [destruct I | cbn; lia]. }
  rewrite H. destruct l; [destruct I | cbn [length]; lia].
Qed.
Lemma nl_rm_notin x l : ~ In x l -> rm x l = l.
Proof. intros. unfold rm. apply notin_remove. assumption. Qed.
Lemma nodup_rm x l : NoDup l -> NoDup (rm x l).
Proof.
  unfold rm. induction l as [|y l IH]; cbn; intros N; [constructor|]. inversion N; subst.
  destruct (Nat.eq_dec x y); auto. constructor; auto. intro I. apply in_remove in I. tauto.
Qed.
Lemma in_rm x y l : In y (rm x l) <-> In y l /\ y <> x.
Proof. unfold rm. split; [apply in_remove | intros [A B]; apply in_in_remove; auto]. Qed.
Lemma nl_nonneg l : 0 <= nl l. Proof. unfold nl. lia. Qed.

Lemma inv_init i : 0 <= i -> Inv (init i).
Proof.
  intros Hi. constructor.
  - intro a. unfold ainv; cbn. repeat split; auto; try lia; try tauto; try (intros [H|H]; discriminate); try (intros [H _]; discriminate).
  - intro b. unfold binv; cbn. repeat split; intros; try discriminate; try tauto; auto; try lia.
  - unfold ginv, nl; cbn. repeat split; try constructor; try lia; try (intros b []); try tauto.
  - cbn. intros; discriminate.
Qed.
