(* Trace acceptor for the mpmc channel model (current code: fix7 = fix7b = fix7c = true), for runs WITHOUT
   timed waits (recv / try_recv / iter; recv_timeout is covered by the implementation oracles only).

   In these runs the schedule points are the shared accesses of src/sync/mpmc.rs only, so every
   Semphore call executes atomically up to the point where the caller blocks - which is the abstract
   semaphore object of ChanMpmcModel (post = fetch_add plus the hand-over to the head of to_wake;
   wait = failed try_wait, registration and fetch_sub, then park; without timeouts there are no stale
   waiter entries and no release hand-shakes).  The semaphore's own accesses are still recorded and are
   what the semaphore steps of the model are matched against:

   API level (scenario; r = receiver handle, in obj bits 1.. of the call events):
     1 chan.new   2 send.call(h, seq)  3 send.ret(h, ok)   4 clone.call(h, nh)  5 clone.ret   6 dropc.call(h)  7 dropc.ret
     8 try.call(r<<1)  9 try.ret(k, v)   10 recv.call(co | r<<1)  11 recv.ret(k, v)   14 dropp.call(r<<1)  15 dropp.ret
     16 clonerx.call(r, r2)  17 clonerx.ret
   src/sync/mpmc.rs:
    20 send rx_ports.load   21 send queue.push      22 recv queue.pop        23 recv tx_ports.load (value popped)   24 recv tx_ports.load (nothing popped)
    25 try_recv tx_ports.load (no permit)   26 try_recv queue.pop   27 try_recv tx_ports.load (value popped)   28 try_recv tx_ports.load (nothing popped)
    29 clone_tx fetch_add   30 drop_tx fetch_sub    31 clone_rx fetch_add    32 drop_rx fetch_sub   33 drop_rx queue.pop
    34 InnerQueue::drop tx_ports.load (= Free)      35 InnerQueue::drop rx_ports.load
   src/sync/semphore.rs:
    40 try_wait cnt.load    41 try_wait cnt.cas(ok)  42 wait to_wake.push     43 wait cnt.fetch_sub(old)
    44 post cnt.fetch_add(old)   45 wakeup_one to_wake.pop   46 get_value cnt.load

   The return of a blocked waiter from park is not matched on its own events: it shows as the
   receiver's next access (the queue.pop of recv), where the model's WB step (which needs the grant) is taken. *)
From Coq Require Import List ZArith Bool Arith Lia.
Import ListNotations.
Require Import MayV.Sync.ChanMpmcModel.
Open Scope Z_scope.

Record aux := { started : bool;
                rof : nat -> nat;     (* actor -> receiver handle + 1 of the call in progress *)
                hof : nat -> nat }.   (* actor -> sender handle + 1 of the call in progress *)
Definition aux0 := {| started := false; rof := fun _ => O; hof := fun _ => O |}.
Definition ast := (st * aux)%type.
Definition a_init : ast := (init, aux0).
Definition set_rof (x : aux) a r := {| started := started x; rof := upd (rof x) a r; hof := hof x |}.
Definition set_hof (x : aux) a h := {| started := started x; rof := rof x; hof := upd (hof x) a h |}.

Definition rpc_eqb (x y : rpc) : bool :=
  match x, y with
  | YIdle, YIdle | Y0, Y0 | Y1, Y1 | Y0b, Y0b | W0, W0 | WB, WB | Y2, Y2 | Y3s, Y3s | Y4s, Y4s | Y3n, Y3n | Y4n, Y4n
  | XA, XA | X0, X0 | X1, X1 | RPanic, RPanic => true
  | _, _ => false end.
Definition spc_eqb (x y : spc) : bool :=
  match x, y with
  | SIdle, SIdle | M0, M0 | M1, M1 | M2, M2 | MA, MA | MS, MS | G0, G0 | G1, G1 => true
  | _, _ => false end.
Definition zb (v : Z) : bool := negb (Z.eqb v 0).
Definition sgn (w : Z) : Z := if Z.ltb w 9223372036854775808 then w else w - 18446744073709551616.
Definition isnil {X} (l : list X) : bool := match l with [] => true | _ => false end.
Definition res_is (r : res) (k v : Z) : bool :=
  match r with
  | ROk (h, i) => Z.eqb k 0 && Z.eqb v (Z.of_nat h * 1000 + Z.of_nat i)
  | REmpty => Z.eqb k 1
  | RDisc => Z.eqb k 2
  | _ => false end.
Definition hst_dead (h : hst) : bool := match h with Dead => true | _ => false end.

Record plan := { acts : list action; post : st -> bool; nxt : st -> aux }.
Fixpoint steps (s : st) (l : list action) : option st :=
  match l with
  | [] => Some s
  | a :: l' => match step true true true s a with Some s' => steps s' l' | None => None end
  end.
Definition guard (b : bool) (p : option plan) : option plan := if b then p else None.
Definition ok (l : list action) (x : aux) : option plan := Some {| acts := l; post := fun _ => true; nxt := fun _ => x |}.
Definition okp (l : list action) (c : st -> bool) (x : aux) : option plan := Some {| acts := l; post := c; nxt := fun _ => x |}.
Definition skip (x : aux) : option plan := ok [] x.

Definition at_r (s : st) r p := rpc_eqb (rp (Rv s r)) p.
Definition at_s (s : st) h p := spc_eqb (sp (Sd s h)) p.
Definition svz (s : st) : Z := Z.of_nat (sv s).
(* a blocked waiter that has been granted continues *)
Definition wake (s : st) (r : nat) : list action := if at_r s r WB then [RStep r] else [].

Definition plan_ev (s : st) (x : aux) (e : list Z) : option plan :=
  match e with
  | [code; za; o; v] =>
    let a := Z.to_nat za in
    let inr := negb (Nat.eqb (rof x a) 0) in let r := pred (rof x a) in
    let ins := negb (Nat.eqb (hof x a) 0) in let h := pred (hof x a) in
    let free := negb inr && negb ins in
    match code with
    (* ---- API ---- *)
    | 2 => let hh := Z.to_nat o in guard (free && Nat.eqb (sn (Sd s hh)) (Z.to_nat v)) (ok [Send hh] (set_hof x a (S hh)))
    | 3 => guard (ins && Nat.eqb h (Z.to_nat o) && at_s s h SIdle && Bool.eqb (sres (Sd s h)) (zb v)) (skip (set_hof x a O))
    | 4 => let hh := Z.to_nat o in guard free (ok [CloneTx hh (Z.to_nat v)] (set_hof x a (S hh)))
    | 5 => guard (ins && Nat.eqb h (Z.to_nat o) && at_s s h SIdle) (skip (set_hof x a O))
    | 6 => let hh := Z.to_nat o in guard free (ok [DropTx hh] (set_hof x a (S hh)))
    | 7 => guard (ins && Nat.eqb h (Z.to_nat o) && at_s s h SIdle && hst_dead (sst (Sd s h))) (skip (set_hof x a O))
    | 8 => let rr := Z.to_nat (Z.shiftr o 1) in guard free (ok [TryRecv rr] (set_rof x a (S rr)))
    | 10 => let rr := Z.to_nat (Z.shiftr o 1) in guard free (ok [Recv rr false] (set_rof x a (S rr)))
    | 9 | 11 => guard (inr && at_r s r YIdle && res_is (rres (Rv s r)) o v) (skip (set_rof x a O))
    | 14 => let rr := Z.to_nat (Z.shiftr o 1) in guard free (ok [DropRx rr] (set_rof x a (S rr)))
    | 15 => guard (inr && at_r s r YIdle && hst_dead (rst (Rv s r))) (skip (set_rof x a O))
    | 16 => let rr := Z.to_nat o in guard free (ok [CloneRx rr (Z.to_nat v)] (set_rof x a (S rr)))
    | 17 => guard (inr && at_r s r YIdle) (skip (set_rof x a O))
    (* ---- src/sync/mpmc.rs ---- *)
    | 20 => guard (ins && at_s s h M0 && Z.eqb (Z.of_nat (rxp s)) v) (ok [SStep h] x)
    | 21 => guard (ins && at_s s h M1 && zb v) (ok [SStep h] x)
    | 22 | 26 => guard inr
                   (match steps s (wake s r) with
                    | Some s1 => guard (at_r s1 r Y2 && Bool.eqb (negb (isnil (q s1))) (zb v)) (ok (wake s r ++ [RStep r]) x)
                    | None => None end)
    | 23 | 27 => guard (inr && at_r s r Y3s && Z.eqb (Z.of_nat (txp s)) v) (ok [RStep r] x)
    | 24 | 28 => guard (inr && at_r s r Y3n && Z.eqb (Z.of_nat (txp s)) v) (okp [RStep r] (fun s' => negb (at_r s' r RPanic)) x)
    | 25 => guard (inr && at_r s r Y1 && Z.eqb (Z.of_nat (txp s)) v) (ok [RStep r] x)
    | 29 => guard (ins && at_s s h MA && Z.eqb (Z.of_nat (txp s)) v) (ok [SStep h] x)
    | 30 => guard (ins && at_s s h MS && Z.eqb (Z.of_nat (txp s)) v) (ok [SStep h] x)
    | 31 => guard (inr && at_r s r XA && Z.eqb (Z.of_nat (rxp s)) v) (ok [RStep r] x)
    | 32 => guard (inr && at_r s r X0 && Z.eqb (Z.of_nat (rxp s)) v) (ok [RStep r] x)
    | 33 => guard (inr && at_r s r X1 && Bool.eqb (negb (isnil (q s))) (zb v)) (ok [RStep r] x)
    | 34 => guard (Z.eqb v 0) (ok [Free] x)
    | 35 => guard (freed s && Z.eqb v 0) (skip x)
    (* ---- the Semphore of the channel ---- *)
    | 40 => guard inr
              (if at_r s r Y0
               then (if Z.leb (sgn v) 0 then guard (Z.eqb (svz s) 0) (okp [RStep r] (fun s' => at_r s' r Y1) x)
                     else guard (Z.eqb (svz s) (sgn v)) (skip x))
               else if at_r s r Y0b
               then (if Z.leb (sgn v) 0 then guard (Z.eqb (svz s) 0) (okp [RStep r] (fun s' => at_r s' r YIdle) x)
                     else guard (Z.eqb (svz s) (sgn v)) (skip x))
               else guard (at_r s r W0 && Z.eqb (svz s) (Z.max (sgn v) 0)) (skip x))
    | 41 => guard (inr && zb v && (at_r s r Y0 || at_r s r Y0b || at_r s r W0)) (okp [RStep r] (fun s' => at_r s' r Y2) x)
    | 42 => guard (inr && at_r s r W0) (skip x)
    | 43 => guard (inr && at_r s r W0 && Z.leb (sgn v) 0 && Z.eqb (svz s) 0) (okp [RStep r] (fun s' => at_r s' r WB) x)
    | 44 => let waiter := negb (isnil (wq s)) in
            guard (Bool.eqb (Z.ltb (sgn v) 0) waiter && (waiter || Z.eqb (svz s) (sgn v)))
              (if inr then guard (at_r s r Y4s || at_r s r Y4n) (ok [RStep r] x)
               else guard (ins && (at_s s h M2 || at_s s h G1)) (ok [SStep h] x))
    | 45 => guard (zb v) (skip x)
    | 46 => guard (ins && at_s s h G0 && Z.eqb (svz s) (Z.max (sgn v) 0)) (ok [SStep h] x)
    | _ => None
    end
  | _ => None
  end.

Definition accept_ev (sx : ast) (e : list Z) : option ast :=
  let (s, x) := sx in
  if started x
  then match plan_ev s x e with
       | Some p => match steps s (acts p) with
                   | Some s' => if post p s' then Some (s', nxt p s') else None
                   | None => None end
       | None => None end
  else match e with
       | [1; _; _; _] => Some (s, {| started := true; rof := rof x; hof := hof x |})
       | _ => Some sx end.

Fixpoint accept_all (sx : ast) (tr : list (list Z)) : option ast :=
  match tr with
  | [] => Some sx
  | e :: l => match accept_ev sx e with Some sx' => accept_all sx' l | None => None end
  end.

Fixpoint vals_eqb (l1 l2 : list val) : bool :=
  match l1, l2 with
  | [], [] => true
  | (a, b) :: t1, (c, d) :: t2 => Nat.eqb a c && Nat.eqb b d && vals_eqb t1 t2
  | _, _ => false end.
Definition monitors_ok (sx : ast) : bool :=
  let s := fst sx in vals_eqb (sent s) (map snd (rlog s) ++ drpd s ++ q s).

(* soundness *)
Lemma steps_reach l : forall s s', Reach true true true s -> steps s l = Some s' -> Reach true true true s'.
Proof.
  induction l as [|a l IH]; cbn [steps]; intros s s' Hr H; [inversion H; subst; exact Hr|].
  destruct (step true true true s a) as [s1|] eqn:E; [|discriminate]. eapply IH; [eapply RS; eauto | exact H].
Qed.
Lemma accept_ev_ok sx e sx' : Reach true true true (fst sx) -> accept_ev sx e = Some sx' -> Reach true true true (fst sx').
Proof.
  intros Hr H. destruct sx as [s x]. unfold accept_ev in H. cbn [fst] in Hr.
  destruct (started x).
  - destruct (plan_ev s x e) as [p|]; [|discriminate].
    destruct (steps s (acts p)) as [s1|] eqn:E; [|discriminate].
    destruct (post p s1); [|discriminate]. inversion H; subst. cbn [fst]. eapply steps_reach; eauto.
  - repeat match type of H with
           | match ?t with _ => _ end = Some _ => destruct t eqn:?; try discriminate
           end; inversion H; subst; exact Hr.
Qed.
Theorem accept_all_reach tr : forall sx sx', Reach true true true (fst sx) -> accept_all sx tr = Some sx' -> Reach true true true (fst sx').
Proof.
  induction tr as [|e l IH]; cbn [accept_all]; intros sx sx' Hr H; [inversion H; subst; exact Hr|].
  destruct (accept_ev sx e) as [s1|] eqn:E; [|discriminate]. eapply IH; [eapply accept_ev_ok; eauto | exact H].
Qed.
Corollary accepted_trace_reaches tr sx : accept_all a_init tr = Some sx -> Reach true true true (fst sx).
Proof. intro H. apply (accept_all_reach tr a_init sx); [constructor | exact H]. Qed.
