(* Trace acceptor for may::sync::Mutex (C05): every recorded event `[code; actor; obj; val]` of the real
   code (hooked accesses of src/sync/mutex.rs, of SyncBlocker in src/sync/blocking.rs, the linearisation
   accesses of the Blocker token in src/park.rs / ThreadPark, Cancel::cancel in src/cancel.rs, the
   push/pop commit of the waiter queue, and the API-level events logged by the scenario) is mapped to a
   short list of model actions (usually one `Step`), after checking the actor's control point and the
   observed value, and followed by a check of the resulting model state.  Codes are bound to source
   sites in Sync/mutex_sites.json.

   Bookkeeping that is not part of the model (`aux`): which scenario index is which trace actor, the
   cancellation-disable depth of every coroutine (decides `ign` of Start), a pending try_lock call, the
   target of a cancel in progress, and for every model blocker the address (normalised object id) of its
   `unparked` flag and of its park word, bound at first sight and compared ever after: the blocker a
   `pop` hands out in the code must be the one at the head of the model's FIFO.

   Events of an actor that is OUTSIDE the mutex protocol (Idle, inside the critical section, gone) on the
   shared sites of SyncBlocker/Park/ThreadPark belong to other primitives (Condvar, join) and are skipped;
   an actor INSIDE the protocol must produce exactly the access its control point prescribes. *)
From Coq Require Import List ZArith Bool Arith.
Import ListNotations.
Require Import MayV.Sync.MutexModel.

Definition all_co (_ : nat) := true.     (* any actor may be cancelled; threads simply never are *)
Notation mstep := (step all_co).

Record aux := {
  amap : nat -> option nat;      (* scenario index -> trace actor *)
  cmap : list (Z * nat);         (* coroutine identity -> trace actor *)
  depth : nat -> nat;            (* Cancel::disable_cancel depth *)
  trying : nat -> bool;          (* try_lock call in progress *)
  pend : nat -> option nat;      (* canceller -> scenario index announced by mx.cancel *)
  ctgt : nat -> option nat;      (* canceller -> trace actor being cancelled *)
  precan : list nat;             (* scenario indices cancelled before they logged mx.actor *)
  bflag : nat -> option Z;       (* model blocker -> object id of its `unparked` flag *)
  bpark : nat -> option Z        (* model blocker -> object id of its park word / ThreadPark *)
}.
Record ast := { ms : st; ax : aux }.

Definition aux0 : aux :=
  {| amap := fun _ => None; cmap := []; depth := fun _ => 0; trying := fun _ => false; pend := fun _ => None;
     ctgt := fun _ => None; precan := []; bflag := fun _ => None; bpark := fun _ => None |}.
Definition ainit : ast := {| ms := init; ax := aux0 |}.

Definition pc_eqb (a b : pc) : bool :=
  match a, b with
  | Idle, Idle | T0, T0 | L0, L0 | L1, L1 | L2, L2 | H1, H1 | H2, H2 | H3, H3 | H3w, H3w | H4, H4 | U0, U0
  | P, P | P1, P1 | P2, P2 | W, W | C1, C1 | C2, C2 | C3, C3 | C4, C4 | CS, CS | CSw, CSw | Exit, Exit => true
  | _, _ => false end.
Definition outside (p : pc) : bool := match p with Idle | CS | CSw | Exit => true | _ => false end.
Definition znz (v : Z) : bool := negb (Z.eqb v 0).
Definition is_none {X} (o : option X) : bool := match o with None => true | Some _ => false end.
Fixpoint zassoc (l : list (Z * nat)) (k : Z) : option nat :=
  match l with [] => None | (k', v) :: r => if Z.eqb k k' then Some v else zassoc r k end.

(* bind the object id of a blocker at first sight, compare afterwards *)
Definition bindchk (m : nat -> option Z) (b : nat) (o : Z) : option (nat -> option Z) :=
  match m b with
  | None => Some (upd m b (Some o))
  | Some o' => if Z.eqb o o' then Some m else None
  end.

(* a plan: model actions to execute, a check of the resulting model state, the new bookkeeping *)
Definition plan := option (list action * (st -> bool) * aux).
Definition ok (x : aux) : plan := Some ([], fun _ => true, x).
Definition act1 (x : aux) (a : action) : plan := Some ([a], fun _ => true, x).
Definition obs (x : aux) (b : bool) : plan := if b then ok x else None.

Definition set_flag (x : aux) m := {| amap := amap x; cmap := cmap x; depth := depth x; trying := trying x; pend := pend x; ctgt := ctgt x; precan := precan x; bflag := m; bpark := bpark x |}.
Definition set_park (x : aux) m := {| amap := amap x; cmap := cmap x; depth := depth x; trying := trying x; pend := pend x; ctgt := ctgt x; precan := precan x; bflag := bflag x; bpark := m |}.
Definition set_depth (x : aux) m := {| amap := amap x; cmap := cmap x; depth := m; trying := trying x; pend := pend x; ctgt := ctgt x; precan := precan x; bflag := bflag x; bpark := bpark x |}.
Definition set_trying (x : aux) m := {| amap := amap x; cmap := cmap x; depth := depth x; trying := m; pend := pend x; ctgt := ctgt x; precan := precan x; bflag := bflag x; bpark := bpark x |}.
Definition set_pend (x : aux) m := {| amap := amap x; cmap := cmap x; depth := depth x; trying := trying x; pend := m; ctgt := ctgt x; precan := precan x; bflag := bflag x; bpark := bpark x |}.

Local Open Scope Z_scope.

Definition mkplan (s : ast) (e : list Z) : plan :=
  let m := ms s in let x := ax s in
  match e with
  | [code; za; obj; v] =>
    let a := Z.to_nat za in
    let r := A m a in
    let p := apc r in
    let b := Bk m (ab r) in
    let w := Bk m (aw r) in
    let at_ q := pc_eqb p q in
    (* inside the protocol at another control point: reject; outside: not ours *)
    let skip := obs x (outside p) in
    match code with
    (* ---- API level events logged by the scenario ---- *)
    | 1 => (* mx.actor k coid *)
        let k := Z.to_nat obj in
        let x' := {| amap := upd (amap x) k (Some a); cmap := (if Z.eqb v 0 then cmap x else (v, a) :: cmap x); depth := depth x; trying := trying x;
                     pend := pend x; ctgt := ctgt x; precan := precan x; bflag := bflag x; bpark := bpark x |} in
        if at_ Idle then (if existsb (Nat.eqb k) (precan x) then act1 x' (Cancel a) else ok x') else None
    | 2 => obs (set_trying x (upd (trying x) a false)) (at_ Idle)          (* lock.call *)
    | 3 => obs x (at_ CS)                                                  (* lock.ret *)
    | 4 => obs (set_trying x (upd (trying x) a true)) (at_ Idle)           (* try.call *)
    | 5 => obs (set_trying x (upd (trying x) a false)) (if znz v then at_ CS else at_ Idle)   (* try.ret ok *)
    | 6 => obs x (at_ CS)                                                  (* unlock.call *)
    | 7 => obs x (at_ Idle)                                                (* unlock.ret *)
    | 8 => ok (set_pend x (upd (pend x) a (Some (Z.to_nat obj))))          (* mx.cancel k *)
    | 9 | 10 => obs x (at_ CS)                                             (* cv.wait.call / cv.wait.ret *)
    | 11 => (* tpark.enter *)
        if at_ P then
          match bindchk (bpark x) (ab r) obj with
          | Some bp => Some ((if tok b then [Step a] else [Step a; Park a]), (fun _ => true), set_park x bp)
          | None => None end
        else skip
    | 12 => (* tpark.leave woken *)
        if at_ W then (if znz v then Some ([Step a], (fun m' => pc_eqb (apc (A m' a)) CS), x) else None) else skip
    | 13 => (* tpark.unpark *)
        if at_ H3 then
          match bindchk (bpark x) (aw r) obj with
          | Some bp => Some ((if tok w then [Step a] else [Step a; Step a]), (fun m' => pc_eqb (apc (A m' a)) H4), set_park x bp)
          | None => None end
        else skip
    | 14 => if at_ CS then Some ([Read a], (fun m' => Z.eqb (Z.of_nat (aloc (A m' a))) v), x) else None     (* cs.read v *)
    | 15 => if at_ CSw then Some ([Write a], (fun m' => Z.eqb (Z.of_nat (data m')) v), x) else None         (* cs.write v *)
    | 16 => obs x (at_ Idle)                                               (* co.body_end *)
    | 17 => match zassoc (cmap x) obj with                                 (* co.panic coid *)
            | Some t => obs x (pc_eqb (apc (A m t)) Idle || pc_eqb (apc (A m t)) Exit)
            | None => ok x end
    (* ---- src/sync/mutex.rs ---- *)
    | 20 => (* try_lock: cnt.compare_exchange(0,1) -> ok *)
        if at_ Idle then
          Some ([(if trying x a then StartTry a else Start a (Nat.ltb 0 (depth x a))); Step a],
                (fun m' => Bool.eqb (pc_eqb (apc (A m' a)) CS) (znz v)), x)
        else None
    | 21 => (* lock: cnt.fetch_add(1) -> old *)
        if at_ L2 && Z.eqb (Z.of_nat (cnt m)) v then act1 x (Step a) else None
    | 22 => (* unlock: cnt.fetch_sub(1) -> old *)
        if Z.eqb (Z.of_nat (cnt m)) v then
          (if at_ CS then Some ([Step a; Step a], (fun _ => true), x) else if at_ U0 then act1 x (Step a) else None)
        else None
    | 23 => (* to_wake.push commit (mpsc reserving CAS) *)
        if at_ L1 then (if znz v then act1 x (Step a) else ok x) else ok x
    | 24 => (* to_wake.pop commit (mpsc head.index store) *)
        if at_ H1 then act1 x (Step a) else ok x
    (* ---- SyncBlocker ---- *)
    | 30 => (* is_unparked -> v *)
        if at_ C1 || at_ C3 then
          match bindchk (bflag x) (ab r) obj with
          | Some bf => if Bool.eqb (unp b) (znz v) then act1 (set_flag x bf) (Step a) else None
          | None => None end
        else skip
    | 31 => if at_ C2 then act1 x (Step a) else skip                      (* set_release *)
    | 32 => (* take_release -> old *)
        if at_ H4 then (if Bool.eqb (rel w) (znz v) then act1 x (Step a) else None)
        else if at_ C4 then (if Bool.eqb (rel b) (znz v) then act1 x (Step a) else None)
        else skip
    | 33 => (* SyncBlocker::unpark: unparked.store(true) *)
        if at_ H2 then
          match bindchk (bflag x) (aw r) obj with
          | Some bf => act1 (set_flag x bf) (Step a)
          | None => None end
        else skip
    (* ---- Park (coroutine blocker token) ---- *)
    | 40 => (* check_park: state.load -> v *)
        if at_ P || at_ P2 || at_ W then
          match bindchk (bpark x) (ab r) obj with
          | Some bp => obs (set_park x bp) (implb (znz v) (tok b))
          | None => None end
        else skip
    | 41 => (* check_park: state.store(false) after a load that saw the token *)
        if at_ P then (if tok b then Some ([Step a], (fun m' => pc_eqb (apc (A m' a)) CS), x) else None)
        else if at_ P2 || at_ W then act1 x (Step a)
        else skip
    | 42 => (* check_park: state.swap(false) -> old *)
        if at_ P || at_ P2 || at_ W then (if Bool.eqb (tok b) (znz v) then act1 x (Step a) else None)
        else skip
    | 43 => (* unpark_impl: state.swap(true) -> old *)
        if at_ H3 then
          match bindchk (bpark x) (aw r) obj with
          | Some bp => if Bool.eqb (tok w) (znz v) then act1 (set_park x bp) (Step a) else None
          | None => None end
        else skip
    | 44 => (* wake_up: wait_co.take() -> some *)
        if at_ H3w then (if Bool.eqb (parked w && is_none (reason w)) (znz v) then act1 x (Step a) else None)
        else skip
    | 45 => (* subscribe re-check: wait_co.take() -> some: the coroutine resumes itself *)
        if znz v then (if at_ W then act1 x (Kick a) else skip) else ok x
    | 46 => (* subscribe: wait_co.store(co): suspended from here on *)
        if at_ P1 then act1 x (Park a) else skip
    | 47 => (* subscribe cancel re-check (since d874713): wait_co.take() -> some: the kernel half itself resumes the
               suspended coroutine with Canceled; the cancel bit was set by the canceller's fetch_or (54) before *)
        if znz v then (if at_ W then act1 x (CKick a) else skip) else ok x
    | 48 => (* Park::yield_back: reached without a yield only through the cancel short cut *)
        if at_ P1 then Some ([Step a], (fun m' => pc_eqb (apc (A m' a)) P2), x)
        else if at_ W then ok x else skip
    (* ---- Cancel ---- *)
    | 51 => (* is_disabled -> state *)
        if at_ C1 then obs x (Bool.eqb (aign r) (Z.leb 2 v)) else ok x
    | 52 => ok (set_depth x (upd (depth x) a (S (depth x a))))            (* disable_cancel *)
    | 53 => ok (set_depth x (upd (depth x) a (Nat.pred (depth x a))))     (* enable_cancel *)
    | 54 => (* Cancel::cancel: state.fetch_or(1) *)
        match pend x a with
        | Some k =>
            match amap x k with
            | Some t => act1 {| amap := amap x; cmap := cmap x; depth := depth x; trying := trying x; pend := upd (pend x) a None;
                                ctgt := upd (ctgt x) a (Some t); precan := precan x; bflag := bflag x; bpark := bpark x |} (Cancel t)
            | None => ok {| amap := amap x; cmap := cmap x; depth := depth x; trying := trying x; pend := upd (pend x) a None;
                            ctgt := upd (ctgt x) a None; precan := k :: precan x; bflag := bflag x; bpark := bpark x |}
            end
        | None => (* subscribe's own cancel re-check: the coroutine cancels itself *)
            act1 {| amap := amap x; cmap := cmap x; depth := depth x; trying := trying x; pend := pend x;
                    ctgt := upd (ctgt x) a (Some a); precan := precan x; bflag := bflag x; bpark := bpark x |} (Cancel a)
        end
    | 56 => (* Cancel::cancel: wait_co.take() -> some: the suspended coroutine is resumed with Canceled *)
        if znz v then
          match ctgt x a with
          | Some t => if pc_eqb (apc (A m t)) W then act1 x (CKick t) else obs x (outside (apc (A m t)))
          | None => ok x end
        else ok x
    | _ => None
    end
  | _ => None
  end.

Fixpoint exec (m : st) (l : list action) : option st :=
  match l with
  | [] => Some m
  | a :: r => match mstep m a with Some m' => exec m' r | None => None end
  end.

Definition accept_ev (s : ast) (e : list Z) : option ast :=
  match mkplan s e with
  | Some (acts, post, x') =>
      match exec (ms s) acts with
      | Some m' => if post m' then Some {| ms := m'; ax := x' |} else None
      | None => None
      end
  | None => None
  end.

Fixpoint accept_all (s : ast) (tr : list (list Z)) : option ast :=
  match tr with
  | [] => Some s
  | e :: l => match accept_ev s e with Some s' => accept_all s' l | None => None end
  end.

(* end of a complete run: the mutex is free again *)
Definition final_ok (s : ast) : bool :=
  Nat.eqb (cnt (ms s)) 0 && match q (ms s) with [] => true | _ => false end
  && match holder (ms s) with HNone => true | _ => false end.

Lemma exec_reach l : forall m m', Reach all_co m -> exec m l = Some m' -> Reach all_co m'.
Proof.
  induction l as [|a l IH]; cbn; intros m m' R H.
  - inversion H; subst; exact R.
  - destruct (mstep m a) as [m1|] eqn:E; [|discriminate]. eapply IH; [eapply RS; eauto | exact H].
Qed.

Lemma accept_ev_reach s e s' : Reach all_co (ms s) -> accept_ev s e = Some s' -> Reach all_co (ms s').
Proof.
  unfold accept_ev. intros R H.
  destruct (mkplan s e) as [[[acts post] x']|]; [|discriminate].
  destruct (exec (ms s) acts) as [m'|] eqn:E; [|discriminate].
  destruct (post m'); [|discriminate]. inversion H; subst; cbn. eapply exec_reach; eauto.
Qed.

(* every state along an accepted trace of the implementation is a reachable state of the model *)
Theorem accept_all_reach tr : forall s s', Reach all_co (ms s) -> accept_all s tr = Some s' -> Reach all_co (ms s').
Proof.
  induction tr as [|e l IH]; cbn [accept_all]; intros s s' R H; [inversion H; subst; exact R|].
  destruct (accept_ev s e) as [s1|] eqn:E; [|discriminate]. eapply IH; [eapply accept_ev_reach; eauto | exact H].
Qed.

Lemma ainit_reach : Reach all_co (ms ainit).
Proof. apply R0. Qed.
