(* C05 - preservation of Inv2: stability of the queue-entry predicate QP *)
From Coq Require Import List Arith Bool Lia.
Import ListNotations.
Require Import MayV.Sync.MutexModel MayV.Sync.MutexInv MayV.Sync.MutexLiveInv.

Section S.
Variable isco : nat -> bool.
Notation step := (step isco).

(* QP is stable under every step as long as the blocker is neither flagged nor re-allocated *)
Lemma QP_stable s ac s' b : Inv s -> Inv2 s -> step s ac = Some s' ->
  QP s b -> b < nextb s ->
  (forall a, ac = Step a -> apc (A s a) = H2 -> aw (A s a) <> b) ->
  QP s' b.
Proof.
  intros Hi Hj H Hq Hlt Hnf. unfold QP, waiting, halfgone in Hq. destruct Hq as (Q_u & Q_ab & Q_1 & Q_w).
  pose proof (IB _ Hi b) as Hb. unfold binv in Hb. destruct Hb as (B1 & B2 & B3 & B4 & B5).
  step_cases H; try destruct (actx (A s a)) eqn:Ectx; try a_facts Hi a;
    try (specialize (Hnf a eq_refl Epc));
    unfold QP, set_pc, fresh, waiting, halfgone; cbn; upd_tac; cbn in *; brk;
    repeat match goal with |- _ /\ _ => split end; fin0.
  all: try (rewrite Ectx; cbn; fin0).
  all: try (match goal with e : ?b = ab _ |- _ => rewrite e in * end; brk; fin0).
  all: try ownrw.
Qed.
End S.
