(* C12 - the theorems about every reachable state of the RwLock model *)
From Coq Require Import List Arith ZArith Bool Lia.
Import ListNotations.
Require Import MayV.Sync.RwLockModel MayV.Sync.RwLockInv MayV.Sync.RwLockPresG MayV.Sync.RwLockPresB MayV.Sync.RwLockLiveInv.
Require Import MayV.Sync.RwLockLive1 MayV.Sync.RwLockLive2 MayV.Sync.RwLockLive3 MayV.Sync.RwLockLive4 MayV.Sync.RwLockLive5.

Lemma inv2_step s ac s' : Inv s -> Inv2 s -> step s ac = Some s' -> Inv2 s'.
Proof.
  intros Hi Hj H. constructor.
  - eapply pres2_N1; eauto.
  - eapply pres2_HX; eauto.
  - eapply pres2_QN; eauto.
  - eapply pres2_Q1; eauto.
  - eapply pres2_Q2; eauto.
  - intros b Hb. cbn. eapply pres2_K1; eauto.
  - eapply pres2_N2a; eauto.
  - eapply pres2_N2b; eauto.
Qed.

Theorem inv12_reach p s : Reach p s -> ovf s = false -> Inv s /\ Inv2 s.
Proof.
  induction 1 as [|s a s' R IH H]; intros Ho; [split; [apply inv_init | apply inv2_init]|].
  destruct (IH (ovf_mono _ _ _ H Ho)) as [Hi Hj].
  split; [eapply inv_step; eauto | eapply inv2_step; eauto].
Qed.

(* exclusive ownership: the write guard exists, or is being constructed (GW) *)
Definition wown (p : pc) : bool := match p with GW | HoldW | DWP => true | _ => false end.

Section Thm.
Variable p0 : bool.
Variable s : st.
Hypothesis R : Reach p0 s.
Hypothesis NoWrap : ovf s = false.

(* ---------------- (i) writers are exclusive, clean or poisoned ---------------- *)
Theorem writer_owns_lock a : wown (apc (A s a)) = true -> holder s = HA a.
Proof.
  intros Hw. destruct (inv12_reach _ _ R NoWrap) as [Hi _]. pose proof (IA _ Hi a) as I. unfold ainv in I.
  destruct (apc (A s a)); cbn in Hw; try discriminate; tauto.
Qed.

Theorem writers_exclusive a a' : wown (apc (A s a)) = true -> wown (apc (A s a')) = true -> a = a'.
Proof. intros H1 H2. apply writer_owns_lock in H1. apply writer_owns_lock in H2. congruence. Qed.

Theorem reader_means_group a : rguard (apc (A s a)) = true -> holder s = HG.
Proof.
  intros Hr. destruct (inv12_reach _ _ R NoWrap) as [Hi _]. pose proof (IA _ Hi a) as I. unfold ainv in I.
  destruct I as (_ & _ & _ & _ & _ & I6 & _). specialize (I6 Hr).
  destruct (IG _ Hi) as (_ & _ & _ & _ & _ & _ & G7 & _). apply G7. intro E. rewrite E in I6. destruct I6.
Qed.

Theorem writer_excludes_readers a a' : wown (apc (A s a)) = true -> rguard (apc (A s a')) = true -> False.
Proof. intros H1 H2. apply writer_owns_lock in H1. apply reader_means_group in H2. congruence. Qed.

(* ---------------- (ii) every guard releases exactly what it took ---------------- *)
Theorem reader_count_exact :
  r s = Z.of_nat (length (rdl s)) /\ NoDup (rdl s) /\ forall a, In a (rdl s) <-> rguard (apc (A s a)) = true.
Proof.
  destruct (inv12_reach _ _ R NoWrap) as [Hi _]. destruct (IG _ Hi) as (_ & _ & _ & _ & _ & _ & _ & _ & G9 & G10 & _).
  repeat split; auto.
  - intro Hin. pose proof (IA _ Hi a) as I. unfold ainv in I. destruct I as (_ & _ & _ & _ & _ & _ & I7 & _).
    destruct (rguard (apc (A s a))); auto. exfalso. apply I7; auto.
  - intro Hr. pose proof (IA _ Hi a) as I. unfold ainv in I. destruct I as (_ & _ & _ & _ & _ & I6 & _). auto.
Qed.

(* a read guard drop never underflows the count: the decrement happens at a count >= 1 *)
Theorem no_underflow a : apc (A s a) = DR0 -> (1 <= r s)%Z /\ Z.modulo (r s - 1) Wd = (r s - 1)%Z.
Proof.
  intros Ha. destruct reader_count_exact as (Hr & _ & Hin).
  destruct (inv12_reach _ _ R NoWrap) as [Hi _]. destruct (IG _ Hi) as (_ & _ & _ & _ & _ & _ & _ & _ & _ & _ & G11).
  assert (In a (rdl s)) as I by (apply Hin; rewrite Ha; reflexivity).
  assert (1 <= r s)%Z by (rewrite Hr; apply in_len1 in I; lia).
  split; [assumption | apply mod_dec; assumption].
Qed.

Theorem cnt_counts_entries : cnt s = length (ent s) /\ NoDup (ent s).
Proof. destruct (inv12_reach _ _ R NoWrap) as [Hi _]. destruct (IG _ Hi) as (G1 & G2 & _). auto. Qed.

(* when every call has returned and every guard has been dropped the lock is free again *)
Theorem all_dropped_lock_free :
  (forall a, at_rest (apc (A s a)) = true) ->
  cnt s = 0 /\ r s = 0%Z /\ rl s = None /\ q s = [] /\ holder s = HNone /\ rdl s = [] /\ ent s = [].
Proof.
  intros Rest. destruct (inv12_reach _ _ R NoWrap) as [Hi Hj].
  destruct (IG _ Hi) as (G1 & G2 & G3 & G4 & G5 & G6 & G7 & G8 & G9 & G10 & G11).
  assert (Hrdl : rdl s = []).
  { destruct (rdl s) as [|a l] eqn:E; auto. exfalso.
    pose proof (IA _ Hi a) as I. unfold ainv in I. destruct I as (_ & _ & _ & _ & _ & _ & I7 & _).
    apply I7; [|rewrite E; left; reflexivity]. specialize (Rest a). destruct (apc (A s a)); cbn in *; congruence. }
  assert (Hh : holder s = HNone).
  { destruct (holder s) as [|x|b|] eqn:Eh; auto; exfalso.
    - pose proof (HX _ Hj x Eh) as Hp. specialize (Rest x). destruct (apc (A s x)); cbn in *; congruence.
    - pose proof (K1 _ Hj b Eh) as Hk. cbn in Hk. destruct Hk as (Ku & Kab & K1b & Kw).
      pose proof (Rest (owner (Bk s b))) as Ro. unfold waiting, halfgone in Kw.
      destruct (apc (A s (owner (Bk s b)))) eqn:Eo; cbn in Ro, Kw; try discriminate;
        try (destruct Kw as [Kw|[Kw _]]; discriminate).
      assert (Hg : gone (apc (A s (owner (Bk s b)))) = true) by (rewrite Eo; reflexivity).
      destruct (N2b _ Hj b Eh Hg) as [[Hg3|Hg4] _];
        [specialize (Rest (ag (Bk s b))); rewrite Hg3 in Rest | specialize (Rest (ag (Bk s b))); rewrite Hg4 in Rest]; discriminate.
    - destruct (G6 eq_refl) as [Hne _]. congruence. }
  assert (He : ent s = []).
  { destruct (ent s) eqn:E; auto. exfalso. apply (N1 _ Hj); [rewrite E; discriminate | exact Hh]. }
  repeat split; auto.
  - rewrite G1, He. reflexivity.
  - rewrite G10, Hrdl. reflexivity.
  - destruct (rl s) as [a|] eqn:E; auto. exfalso.
    pose proof (IA _ Hi a) as I. unfold ainv, hasrl in I. destruct I as (_ & _ & _ & _ & I5 & _).
    apply I5; auto. specialize (Rest a). destruct (apc (A s a)); cbn in *; congruence.
  - destruct (q s) as [|b l] eqn:E; auto. exfalso.
    assert (Hq : QP s b) by (apply (Q1 _ Hj); rewrite E; left; reflexivity).
    unfold QP, waiting, halfgone in Hq. destruct Hq as (_ & _ & _ & Hw).
    pose proof (Rest (owner (Bk s b))) as Ro.
    destruct (apc (A s (owner (Bk s b)))) eqn:Eo; cbn in Ro, Hw; try discriminate;
      try (destruct Hw as [Hw|[Hw _]]; discriminate).
    destruct Hw as [Hw|[_ Hrel]]; [discriminate|].
    pose proof (IB _ Hi b) as Hb. unfold binv in Hb. destruct Hb as (_ & B2 & _).
    destruct (B2 Hrel) as (_ & _ & _ & Hin). rewrite He in Hin. destruct Hin.
Qed.

(* ... so that a try_write by any idle actor succeeds: three steps to the guard *)
Theorem try_write_succeeds_when_all_dropped a :
  (forall x, at_rest (apc (A s x)) = true) -> apc (A s a) = Idle ->
  exists s', run s [Call a OTryWrite; Step a; Step a; Step a] = Some s' /\ apc (A s' a) = HoldW.
Proof.
  intros Rest Ha. destruct (all_dropped_lock_free Rest) as (Hc & _).
  set (x1 := {| apc := T0; aop := OTryWrite; ab := ab (A s a); aw := aw (A s a); actx := actx (A s a); afor := afor (A s a) |}).
  set (s1 := wA s a x1).
  assert (E1 : step s (Call a OTryWrite) = Some s1) by (unfold step; rewrite Ha; reflexivity).
  assert (P1 : A s1 a = x1) by (unfold s1; cbn; apply upd_eq).
  set (s2 := wA s1 a (set_pc x1 T1)).
  assert (E2 : step s1 (Step a) = Some s2).
  { unfold step. rewrite P1. cbn [apc x1]. change (cnt s1) with (cnt s). rewrite Hc. reflexivity. }
  assert (P2 : A s2 a = set_pc x1 T1) by (unfold s2; cbn; apply upd_eq).
  set (s3 := wA (wH (wC s2 1) (HA a) (Some a :: ent s2)) a (set_pc (set_pc x1 T1) GW)).
  assert (E3 : step s2 (Step a) = Some s3).
  { unfold step. rewrite P2. cbn [apc set_pc x1 aop]. change (cnt s2) with (cnt s). rewrite Hc. reflexivity. }
  assert (P3 : A s3 a = set_pc (set_pc x1 T1) GW) by (unfold s3; cbn; apply upd_eq).
  set (s4 := wA s3 a (set_pc (set_pc (set_pc x1 T1) GW) HoldW)).
  assert (E4 : step s3 (Step a) = Some s4) by (unfold step; rewrite P3; reflexivity).
  exists s4. split.
  - cbn [run]. rewrite E1, E2, E3, E4. reflexivity.
  - unfold s4. cbn. rewrite upd_eq. reflexivity.
Qed.

(* ---------------- (iii) nobody is stranded (quiescence form) ---------------- *)
(* Stable: no actor can take an internal step (guard holders and idle actors have none) *)
Definition Stable : Prop := forall a, step s (Step a) = None.

Definition always_enabled (p : pc) : bool :=
  match p with
  | T0 | T1 | L1 | L2 | H2 | H3 | H4 | U0 | C1 | C2 | C3 | C4 | GW | RG | RUh | RUi | RUx | DWP => true
  | _ => false end.
Lemma enabled a : always_enabled (apc (A s a)) = true -> step s (Step a) <> None.
Proof.
  unfold step. destruct (apc (A s a)); cbn; intros E; try discriminate;
    repeat match goal with |- context [if ?c then _ else _] => destruct c end; discriminate.
Qed.

(* If nothing can move, no guard is outstanding and nobody is stuck popping an empty waiter queue,
   then every actor is at rest: no reader or writer is parked in lock(), nobody waits for rlock,
   no guard drop is stuck.  Partial: unreachability of the empty-queue pop (the
   `expect("got null blocker!")`) is the missing clause of the full statement. *)
Theorem no_stranded_partial :
  Stable -> (forall a, apc (A s a) <> HoldW) -> (forall a, apc (A s a) <> HoldR) -> (forall a, apc (A s a) <> H1) ->
  forall a, at_rest (apc (A s a)) = true.
Proof.
  intros St NoW NoR NoH1.
  destruct (inv12_reach _ _ R NoWrap) as [Hi Hj].
  destruct (IG _ Hi) as (G1 & G2 & G3 & G4 & G5 & G6 & G7 & G8 & G9 & G10 & G11).
  assert (En : forall x, always_enabled (apc (A s x)) = true -> False).
  { intros x Hx. eapply enabled; eauto. }
  (* nobody is parked *)
  assert (NoPK : forall x, apc (A s x) <> PK).
  { intros x Hx. pose proof (IA _ Hi x) as Ix. unfold ainv in Ix. rewrite Hx in Ix.
    destruct Ix as (_ & _ & _ & _ & _ & _ & _ & Ilp & _ & Hin & _).
    assert (Hne : ent s <> []) by (intro E; rewrite E in Hin; destruct Hin).
    pose proof (N1 _ Hj Hne) as Hh.
    destruct (holder s) as [|y|b|] eqn:Eh; [congruence| | |].
    - pose proof (HX _ Hj y Eh) as Hp. destruct (apc (A s y)) eqn:Ey; cbn in Hp; try discriminate;
        try (apply (En y); rewrite Ey; reflexivity).
      + eapply NoH1; eauto.
      + eapply NoW; eauto.
    - pose proof (K1 _ Hj b Eh) as Hk. cbn in Hk. destruct Hk as (Ku & Kab & K1b & Kw).
      destruct (N2a _ Hj b Eh) as [[Hg _] | Ht].
      + apply (En (ag (Bk s b))). rewrite Hg. reflexivity.
      + set (o := owner (Bk s b)) in *. unfold Tdeliv in Ht. fold o in Ht. unfold waiting, halfgone in Kw.
        destruct (apc (A s o)) eqn:Eo; cbn in *;
          try (apply (En o); rewrite Eo; reflexivity);
          try (destruct Kw as [Kw|[Kw _]]; discriminate).
        * (* owner gone: the agent is still about to take its release *)
          assert (Hg : gone (apc (A s (owner (Bk s b)))) = true) by (fold o; rewrite Eo; reflexivity).
          destruct (N2b _ Hj b Eh Hg) as [[Hg3|Hg4] _]; apply (En (ag (Bk s b))); [rewrite Hg3 | rewrite Hg4]; reflexivity.
        * eapply NoH1; eauto.
        * (* owner parked: the token has been delivered, so park returns *)
          specialize (St o). unfold step in St. rewrite Eo in St. rewrite Kab in St. rewrite (Ht I) in St. discriminate.
    - (* the reader group owns the lock: some reader is counted, and it can move *)
      destruct (G6 eq_refl) as [Hne' _]. destruct (rdl s) as [|y l] eqn:El; [congruence|].
      pose proof (IA _ Hi y) as Iy. unfold ainv in Iy. destruct Iy as (_ & _ & _ & _ & _ & _ & Iy7 & _).
      destruct (apc (A s y)) eqn:Ey; cbn in Iy7; try (exfalso; apply Iy7; [reflexivity | rewrite El; left; reflexivity]).
      + apply (En y). rewrite Ey. reflexivity.
      + eapply NoR; eauto.
      + (* y waits for rlock in read_unlock: the rlock holder is parked with r = 0, impossible with y counted *)
        specialize (St y) as Sy. unfold step in Sy. rewrite Ey in Sy. destruct (rl s) as [z|] eqn:Erl.
        2:{ repeat match type of Sy with context [if ?c then _ else _] => destruct c end; discriminate. }
        pose proof (IA _ Hi z) as Iz. unfold ainv, hasrl in Iz. destruct Iz as (_ & _ & _ & _ & Iz5 & _ & _ & Iz8 & _).
        destruct (apc (A s z)) eqn:Ez; cbn in Iz5, Iz8;
          try (exfalso; apply Iz5; [reflexivity | exact Erl]);
          try (apply (En z); rewrite Ez; reflexivity);
          try (eapply NoH1; eassumption).
        (* z at PK *)
        destruct (is_read (aop (A s z))) eqn:Erd; [|exfalso; apply Iz5; [reflexivity | exact Erl]].
        rewrite (Iz8 eq_refl eq_refl) in G10. cbn in G10. lia. }
  (* nobody waits for rlock: its holder would have to be parked *)
  assert (RlFree : forall z, rl s = Some z -> False).
  { intros z Erl. pose proof (IA _ Hi z) as Iz. unfold ainv, hasrl in Iz. destruct Iz as (_ & _ & _ & _ & Iz5 & _).
    destruct (apc (A s z)) eqn:Ez; cbn in Iz5;
      try (apply Iz5; [reflexivity | exact Erl]);
      try (apply (En z); rewrite Ez; reflexivity);
      try (eapply NoH1; eassumption); try (eapply NoPK; eassumption). }
  intros a. destruct (apc (A s a)) eqn:Ea; try reflexivity; exfalso;
    try (apply (En a); rewrite Ea; reflexivity);
    try (eapply NoH1; eassumption); try (eapply NoPK; eassumption);
    try (eapply NoW; eassumption); try (eapply NoR; eassumption).
  - (* RL *) specialize (St a). unfold step in St. rewrite Ea in St. destruct (rl s) eqn:Erl; [eapply RlFree; eauto | discriminate].
  - (* DR0 *) specialize (St a). unfold step in St. rewrite Ea in St. destruct (rl s) eqn:Erl; [eapply RlFree; eauto |].
    repeat match type of St with context [if ?c then _ else _] => destruct c end; discriminate.
Qed.

End Thm.
