(* C05 - Inv is inductive; mutual exclusion, single owner, payload visibility, CAS only on a free lock *)
From Coq Require Import List Arith Bool Lia.
Import ListNotations.
Require Import MayV.Sync.MutexModel MayV.Sync.MutexInv MayV.Sync.MutexPresG MayV.Sync.MutexPresA MayV.Sync.MutexPresO MayV.Sync.MutexPresB.

Section S.
Variable isco : nat -> bool.
Notation step := (step isco).
Notation Reach := (Reach isco).

Lemma inv_step s ac s' : Inv s -> step s ac = Some s' -> Inv s'.
Proof.
  intros Hi H. constructor.
  - intro a'. destruct (Nat.eq_dec a' (actor_of ac)) as [->|ne].
    + destruct ac; cbn [actor_of];
        first [ eapply pres_A_self; eassumption
              | refine (pres_A_self_other isco s _ s' Hi _ H); intros ? ?; discriminate ].
    + eapply pres_A_other; eauto.
  - intro b. eapply pres_B; eauto.
  - eapply pres_G; eauto.
Qed.

Theorem inv_reach s : Reach s -> Inv s.
Proof. induction 1; eauto using inv_init, inv_step. Qed.

(* C05 (i): at most one party inside the critical section, for any number of actors,
   any mix of threads and coroutines, cancellation at any point, any schedule *)
Definition in_cs (p : pc) : bool := match p with CS | CSw => true | _ => false end.

Theorem mutual_exclusion s a a' :
  Reach s -> in_cs (apc (A s a)) = true -> in_cs (apc (A s a')) = true -> a = a'.
Proof.
  intros R Ha Ha'. pose proof (inv_reach s R) as Hi.
  pose proof (IA _ Hi a) as I1. pose proof (IA _ Hi a') as I2.
  unfold ainv in I1, I2.
  destruct (apc (A s a)); try discriminate; destruct (apc (A s a')); try discriminate;
    destruct I1 as (_ & _ & _ & H1 & _); destruct I2 as (_ & _ & _ & H2 & _); congruence.
Qed.

(* the lock has one owner at a time: critical section, unlock in progress (own or forwarded for a
   cancelled waiter), pop and flag of the next waiter all belong to the same single actor *)
Definition owns (p : pc) : bool := match p with CS | CSw | H1 | H2 | U0 => true | _ => false end.
Theorem single_owner s a a' :
  Reach s -> owns (apc (A s a)) = true -> owns (apc (A s a')) = true -> a = a'.
Proof.
  intros R Ha Ha'. pose proof (inv_reach s R) as Hi.
  pose proof (IA _ Hi a) as I1. pose proof (IA _ Hi a') as I2.
  unfold ainv in I1, I2.
  destruct (apc (A s a)); try discriminate; destruct (apc (A s a')); try discriminate;
    destruct I1 as (_ & _ & _ & H1 & _); destruct I2 as (_ & _ & _ & H2 & _); congruence.
Qed.

(* data written under the lock is seen by the next holder: a holder that has read the payload holds
   the value of the last write, and no update is ever lost *)
Theorem holder_sees_last_write s a :
  Reach s -> apc (A s a) = CSw -> aloc (A s a) = data s.
Proof.
  intros R Ha. pose proof (IA _ (inv_reach s R) a) as I1. unfold ainv in I1. rewrite Ha in I1. tauto.
Qed.
Theorem no_lost_update s : Reach s -> data s = nwr s.
Proof. intros R. destruct (IG _ (inv_reach s R)) as (_ & _ & _ & _ & _ & G6). exact G6. Qed.

(* try_lock/lock's CAS succeeds only on a free lock *)
Theorem cas_only_when_free s :
  Reach s -> cnt s = 0 -> holder s = HNone /\ forall a', in_cs (apc (A s a')) = false.
Proof.
  intros R Hc. pose proof (inv_reach s R) as Hi. destruct (IG _ Hi) as (G1 & _ & _ & _ & G5).
  assert (E : ent s = []) by (apply length_zero_iff_nil; lia).
  split.
  - destruct (holder s) eqn:Eh; auto; exfalso; apply G5; congruence.
  - intros a'. pose proof (IA _ Hi a') as I. unfold ainv in I.
    destruct (apc (A s a')); try reflexivity; exfalso;
      destruct I as (_ & _ & _ & _ & Hin); try destruct Hin as (Hin & _); rewrite E in Hin; destruct Hin.
Qed.
End S.

