(* C09 on SemModel (may::sync::Semphore) through the cancel-bit overlay of Base/CancelOverlay.v.
   SemModel has ONE environment action `Fire a` for "the timer or a cancel() hits the suspended actor a" (for the permit
   accounting of C10 the two are the same: Semphore::wait_timeout_impl runs the same error path and only then raises
   the cancel panic when the error was Canceled).  The overlay adds the cancel bits: `OAct (Fire a) true` is the
   delivery of a cancellation (only with the bit of a set), `OAct (Fire a) false` the timer.  [atimed] of the model
   stands for "the wait has a timeout or its caller is a cancellable coroutine".

   (iii) no spurious cancel   fire_as_cancel_needs_bit (by the overlay's guard: see the header of CancelOverlay.v)
   (i)   stop                 cancelled_waiter_not_parked
   (ii)  forward              the permit a cancelled waiter had been given is posted again exactly once: the step
                              lemmas of the error path + the accounting identity of C10, which holds in every state of
                              every overlay run (oreach_base) *)
From Coq Require Import List Arith ZArith Bool Lia.
Import ListNotations.
Require Import MayV.Base.CancelOverlay MayV.Sync.SemModel MayV.Sync.SemInv MayV.Sync.SemTac MayV.Sync.SemThm MayV.Sync.SemPop.
Open Scope Z_scope.

Definition sem_hits (ac : action) : hit := match ac with Fire a => MayHit a | _ => NoHit end.
Definition all_co (_ : nat) : bool := true.

Notation sost := (ost st).
Definition sostep := CancelOverlay.ostep st action step sem_hits all_co.
Definition SOReach (i : Z) := OReach st action step (init i) sem_hits all_co.

Lemma greach_reach i s : GReach st action step (init i) s <-> Reach i s.
Proof. split; induction 1; [constructor | econstructor; eauto | constructor | econstructor; eauto]. Qed.

(* every state of an overlay run is a reachable state of SemModel: all C10 theorems apply *)
Theorem soreach_reach i os : SOReach i os -> Reach i (base os).
Proof. intro R. apply greach_reach. exact (oreach_base _ _ _ _ _ _ os R). Qed.
(* and every run of SemModel is the projection of an overlay run *)
Theorem reach_soreach i s : Reach i s -> exists c l, SOReach i {| base := s; cbit := c; clog := l |}.
Proof. intro R. apply greach_lift; [reflexivity | apply greach_reach; exact R]. Qed.

(* ---- (iii) no spurious cancel ---- *)
Theorem fire_as_cancel_needs_bit i os a os' : SOReach i os -> sostep os (OAct (Fire a) true) = Some os' ->
  cbit os a = true /\ In a (clog os) /\
  apc (A (base os) a) = WW /\ atimed (A (base os) a) = true /\ step (base os) (Fire a) = Some (base os').
Proof.
  intros R H. destruct (delivery_needs_bit _ _ _ _ _ _ _ _ a H eq_refl) as [B E].
  split; [exact B|]. split; [apply (bit_iff_cancel_called _ _ _ _ _ _ os R); exact B|].
  assert (E' := E). unfold step in E'. destruct (apc (A (base os) a)); try discriminate.
  destruct (atimed (A (base os) a)); [auto | discriminate].
Qed.

(* ---- (i) stop ---- *)
(* no protocol step and no cancel delivery is enabled (timer expiry and client calls are not progress) *)
Definition OQuiescent (os : sost) : Prop :=
  (forall a, step (base os) (Step a) = None) /\ (forall a, sostep os (OAct (Fire a) true) = None).

Theorem cancelled_waiter_not_parked os a : OQuiescent os ->
  cbit os a = true -> atimed (A (base os) a) = true -> apc (A (base os) a) <> WW.
Proof.
  intros [_ Q] B T E. specialize (Q a). unfold sostep, CancelOverlay.ostep, allowed in Q. cbn in Q. rewrite B in Q.
  unfold step in Q. rewrite E, T in Q. discriminate.
Qed.

(* ---- (ii) forward: the permit of a cancelled waiter is posted again, exactly once ---- *)

(* the resumed waiter enters the error path (E1) without having counted a success *)
Theorem cancelled_waiter_enters_error_path s a s' : apc (A s a) = WW -> reason (Bk s (ab (A s a))) = Some RT ->
  step s (Step a) = Some s' -> apc (A s' a) = E1 /\ succ s' = succ s /\ cnt s' = cnt s /\ tok (Bk s' (ab (A s a))) = false.
Proof.
  intros E Rn H. unfold step in H. rewrite E, Rn in H. injection H as <-. cbn. rewrite !upd_eq. cbn. auto 10.
Qed.
(* first look at the flag: a permit was handed over (unparked) -> the waiter decides to post it again (it now owes it) *)
Theorem cancelled_waiter_with_permit_reposts s a s' : apc (A s a) = E1 -> unp (Bk s (ab (A s a))) = true ->
  step s (Step a) = Some s' ->
  apc (A s' a) = P0 /\ acomp (A s' a) = true /\ actx (A s' a) = RErr /\ owe s' = a :: owe s /\ giv s' = rm (ab (A s a)) (giv s) /\ cnt s' = cnt s.
Proof.
  intros E U H. unfold step in H. rewrite E, U in H. injection H as <-. cbn. rewrite upd_eq. cbn. auto 10.
Qed.
(* second look, after set_release: the swap of take_release decides between the waiter and the unparker *)
Theorem cancelled_waiter_takes_release_reposts s a s' : apc (A s a) = E4 -> rel (Bk s (ab (A s a))) = true ->
  step s (Step a) = Some s' ->
  apc (A s' a) = P0 /\ acomp (A s' a) = true /\ owe s' = a :: owe s /\ rel (Bk s' (ab (A s a))) = false /\ giv s' = rm (ab (A s a)) (giv s).
Proof.
  intros E U H. unfold step in H. rewrite E, U in H. injection H as <-. cbn. rewrite !upd_eq. cbn. auto 10.
Qed.
(* the unparker that finds `release` set posts on behalf of the departed waiter *)
Theorem unparker_reposts_for_departed_waiter s a s' : apc (A s a) = K4 -> rel (Bk s (aw (A s a))) = true ->
  step s (Step a) = Some s' ->
  apc (A s' a) = P0 /\ acomp (A s' a) = true /\ owe s' = a :: owe s /\ rel (Bk s' (aw (A s a))) = false /\ giv s' = rm (aw (A s a)) (giv s).
Proof.
  intros E U H. unfold step in H. rewrite E, U in H. injection H as <-. cbn. rewrite !upd_eq. cbn. auto 10.
Qed.
(* the compensating post: cnt + 1, NOT counted as a user post, the debt is settled *)
Theorem repost_settles_debt s a s' : apc (A s a) = P0 -> acomp (A s a) = true -> step s (Step a) = Some s' ->
  cnt s' = cnt s + 1 /\ uposts s' = uposts s /\ owe s' = rm a (owe s).
Proof.
  intros E C H. unfold step in H. rewrite E, C in H. destruct (cnt s <? 0); injection H as <-; cbn; auto.
Qed.
(* exactly once: an actor owes at most one permit at a time (NoDup owe), it owes one exactly between its decision and its
   fetch_add, and the accounting identity - every permit is in the counter, promised to a registered waiter (ung / giv),
   owed, or consumed by a successful wait - holds in every state, whatever was cancelled and when *)
Theorem permit_of_cancelled_waiter_accounted i os : 0 <= i -> SOReach i os ->
  let s := base os in
  cnt s + nl (ung s) + nl (giv s) + nl (owe s) + succ s = i + uposts s /\ NoDup (owe s) /\
  (forall a, In a (owe s) <-> apc (A s a) = P0 /\ acomp (A s a) = true) /\ succ s <= i + uposts s.
Proof.
  intros Hi R s. pose proof (soreach_reach i os R) as Rb. fold s in Rb.
  pose proof (inv_reach i s Hi Rb) as I. destruct (IG _ I) as (_ & _ & _ & _ & _ & _ & _ & _ & No & _).
  split; [apply permit_accounting; assumption|]. split; [exact No|]. split; [|apply permits_conserved; assumption].
  intro a. pose proof (IA _ I a) as Ia. unfold ainv in Ia. cbn zeta in Ia. destruct Ia as (_ & _ & _ & Io & _). exact Io.
Qed.
(* the wake-up chain keeps working: wakeup_one never pops an empty queue, also after cancellations *)
Theorem wakeup_never_pops_empty_after_cancel i os a : 0 <= i -> SOReach i os -> apc (A (base os) a) = K1 -> q (base os) <> [].
Proof. intros Hi R. apply (pop_never_empty i); [exact Hi | apply soreach_reach; exact R]. Qed.

(* ---- non-vacuity: a cancelled waiter that had been handed the permit ---- *)
(* actor 0 (a coroutine) waits on an empty semaphore and parks; cancel(0); actor 1 posts: pops 0's blocker and flags it;
   the cancel is delivered before the unpark; 0 resumes on the error path, sees the flag and posts again; actor 2, who
   waits behind, gets that permit *)
Definition osch : list (oact action) :=
  map (fun a => OAct a false) [Wait 0%nat true; Step 0%nat; Step 0%nat; Step 0%nat; Step 0%nat] ++
  map (fun a => OAct a false) [Wait 2%nat true; Step 2%nat; Step 2%nat; Step 2%nat; Step 2%nat] ++
  [OCancel 0%nat] ++
  map (fun a => OAct a false) [Post 1%nat; Step 1%nat; Step 1%nat; Step 1%nat] ++
  [OAct (Fire 0%nat) true] ++
  map (fun a => OAct a false) [Step 0%nat; Step 0%nat].
Example cancelled_waiter_with_permit_somewhere :
  exists os, orun st action step sem_hits all_co (oinit st (init 0)) osch = Some os /\ SOReach 0 os /\
    cbit os 0%nat = true /\ apc (A (base os) 0%nat) = P0 /\ acomp (A (base os) 0%nat) = true /\ owe (base os) = [0%nat] /\
    apc (A (base os) 2%nat) = WW /\ unp (Bk (base os) 1%nat) = true.
Proof.
  destruct (orun st action step sem_hits all_co (oinit st (init 0)) osch) as [os|] eqn:E; [|vm_compute in E; discriminate].
  exists os. split; [reflexivity|]. split; [eapply orun_reach; [constructor | exact E]|].
  vm_compute in E. injection E as <-. cbn. repeat split; reflexivity.
Qed.
