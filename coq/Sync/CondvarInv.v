(* Invariants of CondvarModel, Owicki-Gries style: common definitions.
   InvM (here): the abstract mutex, the cancel-disable bracket, the recorded park reasons (per actor; no blockers).
   The notification protocol is proved in four layers, each assuming the earlier ones (CondvarL1 .. L4):
   ranges and freshness; flag structure of queue / held blockers; ownership and accounting; token delivery. *)
From Coq Require Import List Arith ZArith Bool Lia.
Import ListNotations.
Require Import MayV.Sync.CondvarModel.
Open Scope Z_scope.

Definition nl (l : list nat) : Z := Z.of_nat (length l).

(* ------------------------------------------------------------------------------------------ *)
(* InvM *)

(* control points of wait_impl / wait at which the caller holds the mutex *)
Definition has_mx (x : act) : bool :=
  match apc x with
  | V0 | D0 | W1 | W2 | R1 | E1 | E2 | E3 | E4 | N3 | R2 | P1 | C1 => true
  | K1 | K2 | K3 | K4 => match actx x with RErr => true | RUser => false end
  | _ => false end.
(* control points inside wait (cdis0 is meaningful) *)
Definition in_wait (x : act) : bool :=
  match apc x with
  | V0 | D0 | W1 | W2 | N1 | WP | WW | D2 | L | R1 | E1 | E2 | E3 | E4 | N3 | R2 | P1 | C1 => true
  | K1 | K2 | K3 | K4 => match actx x with RErr => true | RUser => false end
  | _ => false end.
(* ... at which a coroutine has its cancel disabled by wait_impl *)
Definition dis (x : act) : bool :=
  match apc x with
  | W1 | W2 | N1 | L | R1 | E1 | E2 | E3 | E4 | N3 => true
  | K1 | K2 | K3 | K4 => match actx x with RErr => true | RUser => false end
  | _ => false end.
(* ... after park returned *)
Definition post_park (x : act) : bool :=
  match apc x with
  | D2 | L | R1 | E1 | E2 | E3 | E4 | N3 | R2 | P1 | C1 => true
  | K1 | K2 | K3 | K4 => match actx x with RErr => true | RUser => false end
  | _ => false end.
(* ... after the verdict was first looked at *)
Definition post_choice (x : act) : bool :=
  match apc x with
  | E1 | E2 | E3 | E4 | N3 | R2 | P1 | C1 => true
  | K1 | K2 | K3 | K4 => match actx x with RErr => true | RUser => false end
  | _ => false end.

Definition minv (s : st) (a : nat) : Prop :=
  let x := A s a in
  (has_mx x = true -> mx s = Some a) /\
  (in_wait x = true -> cdis x = if aco x && dis x then S (cdis0 x) else cdis0 x) /\
  (post_park x = true -> (rtmo x = true -> due (adl x) (now s) = true) /\ (rcan x = true -> ccan x = true /\ aco x = true)) /\
  (post_choice x = true -> aerr x = true -> rtmo x = true \/ rcan x = true) /\
  ((apc x = D2 \/ apc x = L \/ apc x = R1) -> rtok x = true \/ rtmo x = true \/ rcan x = true) /\
  (apc x = P1 -> (ares x = 0%nat \/ ares x = 1%nat) /\ (ares x = 1%nat -> rtmo x = true)) /\
  (apc x = C1 -> rcan x = true) /\
  ((apc x = D0 \/ apc x = N1 \/ apc x = D2 \/ apc x = N3) -> aco x = true).

Definition InvM (s : st) : Prop := forall a, minv s a.

(* ------------------------------------------------------------------------------------------ *)
(* Inv *)

Inductive cls := COwn | CRes | CE3 | CE4 | CK2 | CK3 | CNone.
Definition cls_of (p : pc) : cls :=
  match p with
  | W2 | N1 | WP | WW | E1 | E2 => COwn
  | D2 | L | R1 => CRes
  | E3 => CE3
  | E4 => CE4
  | K2 | A2 => CK2
  | K3 | A3 | K4 => CK3
  | _ => CNone end.

(* ------------------------------------------------------------------------------------------ *)
Lemma upd_eq {X} (f : nat -> X) i v : upd f i v i = v.
Proof. unfold upd. now rewrite Nat.eqb_refl. Qed.
Lemma upd_neq {X} (f : nat -> X) i j v : j <> i -> upd f i v j = f j.
Proof. unfold upd. intros H. destruct (Nat.eqb_spec j i); congruence. Qed.

Lemma nl_cons x l : nl (x :: l) = nl l + 1.
Proof. unfold nl. cbn [length]. lia. Qed.
Lemma nl_rm x l : NoDup l -> In x l -> nl (rm x l) = nl l - 1.
Proof.
  unfold nl, rm. intros N I.
  assert (H : length (remove Nat.eq_dec x l) = (length l - 1)%nat).
  { induction l as [|y l IH]; cbn; [tauto|]. inversion N; subst. destruct (Nat.eq_dec x y).
    - subst. rewrite notin_remove by assumption. lia.
    - destruct I as [->|I]; [congruence|]. cbn. rewrite IH by assumption. destruct l; [destruct I | cbn; lia]. }
  rewrite H. destruct l; [destruct I | cbn [length]; lia].
Qed.
Lemma nl_rm_notin x l : ~ In x l -> rm x l = l.
Proof. intros. unfold rm. apply notin_remove. assumption. Qed.
Lemma nodup_rm x l : NoDup l -> NoDup (rm x l).
Proof.
  unfold rm. induction l as [|y l IH]; cbn; intros N; [constructor|]. inversion N; subst.
  destruct (Nat.eq_dec x y); auto. constructor; auto. intro I. apply in_remove in I. tauto.
Qed.
Lemma in_rm x y l : In y (rm x l) <-> In y l /\ y <> x.
Proof. unfold rm. split; [apply in_remove | intros [A B]; apply in_in_remove; auto]. Qed.
Lemma nl_nonneg l : 0 <= nl l. Proof. unfold nl. lia. Qed.
Lemma nodup_snoc (l : list nat) n : NoDup l -> ~ In n l -> NoDup (l ++ [n]).
Proof.
  induction l as [|x l IH]; cbn; intros N I; [constructor; [tauto|constructor]|].
  inversion N; subst. constructor; [|apply IH; tauto]. rewrite in_app_iff. cbn. intuition congruence.
Qed.

Lemma invM_init : InvM init.
Proof. intro a. unfold minv; cbn. repeat split; intros; try discriminate; try tauto; try (intuition discriminate). Qed.

