(* Inductive invariant of the mpsc channel model (ChanMpscModel) and the tactics used to prove it. *)
From Coq Require Import List Arith Bool Lia.
Import ListNotations.
Require Import MayV.Sync.ChanMpscModel.

Lemma reach_run l : forall s, Reach s -> Reach (run s l).
Proof.
  induction l as [|a l IH]; cbn [run]; intros s Hr; [exact Hr|].
  destruct (step s a) eqn:E; [apply IH; eapply RS; eauto | apply IH; exact Hr].
Qed.

(* regions of the receiver *)
Definition inreg (x : rcvr) : bool :=      (* between to_wake.store and the return of InnerQueue::recv *)
  match rp x, rc x with
  | (RPop1 | RChk | RPop2), CReg => true
  | (RClear | RPark | RWait), _ => true
  | _, _ => false end.
Definition w5reg (x : rcvr) : bool :=      (* registered and not yet decided to return data *)
  match rp x, rc x with
  | (RPop1 | RChk | RPop2), CReg => true
  | (RPark | RWait), _ => true
  | _, _ => false end.
Definition w6reg (x : rcvr) : bool :=      (* after the re-check pop found nothing *)
  match rp x, rc x with
  | RChk, CReg => true
  | (RPark | RWait), _ => true
  | _, _ => false end.
Definition w7reg (x : rcvr) : bool :=      (* after the re-check saw a live sender *)
  match rp x with RPark | RWait => true | _ => false end.

Definition from (a : nat) (v : val) : bool := Nat.eqb (fst v) a.

Definition binv (s : st) (b : nat) : Prop :=
  let k := Bk s b in
  (parked k = true -> rp (R s) = RWait /\ rb (R s) = b) /\
  (reason k <> None -> parked k = true) /\
  (tok k = true -> parked k = true -> reason k <> None) /\
  (nextb s <= b -> k = fresh).

Definition sinv (s : st) (a : nat) : Prop :=
  let y := Sd s a in
  match sp y with SChk | SPush | SAdd | SSub => sst y = Alive | _ => True end /\
  (sst y = Alive <-> In a (live s)) /\
  (sst y = Unborn -> sp y = SIdle) /\
  (sp y = SUnpark -> sw y < nextb s) /\
  (sdead y = true -> pdrop s = true /\ (sp y = SChk \/ (sp y = SIdle /\ sres y = false))).

Record Inv (s : st) : Prop := {
  I_rc : match rp (R s) with RClear | RPark | RWait => rc (R s) = CReg | _ => True end;
  I_rdata : rp (R s) = RClear -> match rdata (R s) with ROk _ | RDisc => True | _ => False end;
  I_rb : inreg (R s) = true -> rb (R s) < nextb s;
  I_slot : forall b, slot s = Some b -> b < nextb s;
  I_slotreg : inreg (R s) = true -> slot s = Some (rb (R s)) \/ slot s = None;
  I_B : forall b, binv s b;
  I_wait : rp (R s) = RWait -> parked (Bk s (rb (R s))) = true;
  I_S : forall a, sinv s a;
  I_live : chans s = length (live s) /\ NoDup (live s);
  I_acc : sent s = rcvd s ++ drpd s ++ q s;
  I_drpd : ralive (R s) = true -> rp (R s) <> RPd1 -> drpd s = [];
  I_alive : ralive (R s) = false -> rp (R s) = RIdle;
  I_pd : ralive (R s) = false \/ rp (R s) = RPd1 -> pdrop s = true;
  I_ord : forall a, filter (from a) (sent s) = map (pair a) (seq 0 (sn (Sd s a)));
  (* no lost wake-up *)
  I_w5 : w5reg (R s) = true -> slot s = None ->
         tok (Bk s (rb (R s))) = true \/ reason (Bk s (rb (R s))) <> None \/ exists a, sp (Sd s a) = SUnpark /\ sw (Sd s a) = rb (R s);
  I_w6 : w6reg (R s) = true -> slot s <> None -> q s <> [] -> exists a, sp (Sd s a) = STake;
  I_w7 : w7reg (R s) = true -> slot s <> None -> chans s = 0 -> exists a, sp (Sd s a) = STake;
  (* disconnect *)
  I_d1 : rp (R s) = RPop2 -> chans s = 0;
  I_d2 : (rp (R s) = RClear /\ rdata (R s) = RDisc) \/ (rp (R s) = RIdle /\ rres (R s) = RDisc) -> chans s = 0 /\ q s = [];
  I_r1 : rdead (R s) = true -> chans s = 0;
  I_r2 : rdead (R s) = true -> match rp (R s) with RPark | RWait | RDeadline => False | _ => True end;
  I_r3 : rdead (R s) = true -> rp (R s) = RIdle -> match rres (R s) with REmpty | RTimeout | RCancel => False | _ => True end
}.

(* ------------------------------------------------------------------------------------------ *)
Lemma upd_eq {X} (f : nat -> X) i v : upd f i v i = v.
Proof. unfold upd. now rewrite Nat.eqb_refl. Qed.
Lemma upd_neq {X} (f : nat -> X) i j v : j <> i -> upd f i v j = f j.
Proof. unfold upd. intros H. destruct (Nat.eqb_spec j i); congruence. Qed.

Lemma in_rm x y l : In y (rm x l) <-> In y l /\ y <> x.
Proof. unfold rm. split; [apply in_remove | intros [A B]; apply in_in_remove; auto]. Qed.
Lemma nodup_rm x l : NoDup l -> NoDup (rm x l).
Proof.
  unfold rm. induction l as [|y l IH]; cbn; intros N; [constructor|]. inversion N; subst.
  destruct (Nat.eq_dec x y); auto. constructor; auto. intro I. apply in_remove in I. tauto.
Qed.
Lemma len_rm x l : NoDup l -> In x l -> S (length (rm x l)) = length l.
Proof.
  unfold rm. induction l as [|y l IH]; cbn; intros N I; [tauto|]. inversion N; subst.
  destruct (Nat.eq_dec x y).
  - subst. rewrite notin_remove by assumption. reflexivity.
  - destruct I as [->|I]; [congruence|]. cbn. rewrite IH by assumption. reflexivity.
Qed.
Lemma is0_true n : is0 n = true -> n = 0.
Proof. unfold is0. apply Nat.eqb_eq. Qed.
Lemma is0_false n : is0 n = false -> n <> 0.
Proof. unfold is0. apply Nat.eqb_neq. Qed.

Ltac inv_some := match goal with H : Some _ = Some _ |- _ => inversion H; subst; clear H end.

(* case analysis of one step: afterwards s' is an explicit record over s *)
Ltac step_cases H :=
  unfold step in H;
  repeat match type of H with
  | context [match ?ac with TryRecv => _ | Recv _ => _ | RecvTimeout _ => _ | DropPort => _ | RStep => _ | RDl _ => _ | Fire _ => _
                          | Send _ => _ | Clone _ _ => _ | DropChan _ => _ | SStep _ => _ | Free => _ end] => destruct ac
  | context [is_idle ?x] => let E := fresh "Eid" in destruct (is_idle x) eqn:E
  | context [s_ready ?y] => let E := fresh "Erd" in destruct (s_ready y) eqn:E
  | context [match rp ?x with _ => _ end] => let E := fresh "Erp" in destruct (rp x) eqn:E
  | context [match sp ?y with _ => _ end] => let E := fresh "Esp" in destruct (sp y) eqn:E
  | context [match q ?s with _ => _ end] => let E := fresh "Eq" in destruct (q s) eqn:E
  | context [match slot ?s with _ => _ end] => let E := fresh "Esl" in destruct (slot s) eqn:E
  | context [match chans ?s with _ => _ end] => let E := fresh "Ech" in destruct (chans s) eqn:E
  | context [match reason ?k with _ => _ end] => let E := fresh "Ers" in destruct (reason k) eqn:E
  | context [match sst ?y with _ => _ end] => let E := fresh "Est" in destruct (sst y) eqn:E
  | context [match rapi ?x with _ => _ end] => let E := fresh "Eapi" in destruct (rapi x) eqn:E
  | context [if ?c then _ else _] => let E := fresh "Ec" in destruct c eqn:E
  | context [match ?r with RU => _ | RT => _ | RC => _ end] => destruct r
  end; try discriminate; cbv beta iota in H; inv_some.

Ltac unf := unfold mk, r_data, r_empty, r_set, r_ret, r_start, r_reg, r_gone, s_pc, s_call, s_res, s_pushed, s_took, s_st,
                   b_unpark, b_tok, b_park, b_fire, fresh in *.
Ltac prj := cbn [q slot chans pdrop nextb R Sd Bk sent rcvd drpd live freed
                 rp rc rapi rb rco rres rdata ralive rdead sp sw sto sst sres sdead sn tok parked reason] in *.

Ltac upd_tac :=
  repeat match goal with
  | |- context [upd ?f ?i ?v ?j] =>
      first [ rewrite (upd_eq f i v) | rewrite (upd_neq f i j v) by congruence
            | let e := fresh "e" in let ne := fresh "ne" in
              destruct (Nat.eq_dec j i) as [e|ne];
              [ rewrite e in *; rewrite (upd_eq f i v) | rewrite (upd_neq f i j v ne) ] ]
  | H : context [upd ?f ?i ?v ?j] |- _ =>
      first [ rewrite (upd_eq f i v) in H | rewrite (upd_neq f i j v) in H by congruence
            | let e := fresh "e" in let ne := fresh "ne" in
              destruct (Nat.eq_dec j i) as [e|ne];
              [ rewrite e in *; rewrite (upd_eq f i v) in H | rewrite (upd_neq f i j v ne) in H ] ]
  end.

Ltac boolh :=
  repeat match goal with
  | H : _ && _ = true |- _ => apply andb_prop in H; destruct H
  | H : negb _ = true |- _ => apply negb_true_iff in H
  | H : is0 _ = true |- _ => apply is0_true in H
  | H : is0 _ = false |- _ => apply is0_false in H
  | H : _ /\ _ |- _ => destruct H
  end.

(* decode the guards is_idle / s_ready *)
Lemma is_idle_true x : is_idle x = true -> rp x = RIdle /\ ralive x = true.
Proof. unfold is_idle. destruct (rp x); try discriminate. auto. Qed.
Lemma s_ready_true y : s_ready y = true -> sp y = SIdle /\ sst y = Alive.
Proof. unfold s_ready. destruct (sp y); try discriminate. destruct (sst y); try discriminate. auto. Qed.
Ltac guards :=
  repeat match goal with
  | H : is_idle _ = true |- _ => apply is_idle_true in H; destruct H
  | H : s_ready _ = true |- _ => apply s_ready_true in H; destruct H
  end.

(* all the receiver's small enumerations, so that region predicates compute *)
Ltac rcases s :=
  destruct (rc (R s)) eqn:Erc; destruct (rapi (R s)) eqn:Erapi.

Ltac rdes := repeat match goal with
  | |- context [match rc (R ?s) with _ => _ end] => let E := fresh "Erc" in destruct (rc (R s)) eqn:E
  | |- context [match rapi (R ?s) with _ => _ end] => let E := fresh "Erapi" in destruct (rapi (R s)) eqn:E
  | _ : context [match rc (R ?s) with _ => _ end] |- _ => let E := fresh "Erc" in destruct (rc (R s)) eqn:E
  end.
Ltac rw :=
  repeat match goal with
  | E : rp (R ?s) = _ |- _ => progress (rewrite E in * )
  | E : rc (R ?s) = _ |- _ => progress (rewrite E in * )
  | E : rapi (R ?s) = _ |- _ => progress (rewrite E in * )
  | E : sp (Sd ?s ?a) = _ |- _ => progress (rewrite E in * )
  | E : sst (Sd ?s ?a) = _ |- _ => progress (rewrite E in * )
  | E : q ?s = _ |- _ => progress (rewrite E in * )
  | E : slot ?s = _ |- _ => progress (rewrite E in * )
  | E : chans ?s = _ |- _ => progress (rewrite E in * )
  end.
Ltac go H := step_cases H; guards; boolh; unf; unfold inreg, w5reg, w6reg, w7reg in *; prj; rw; rdes; prj; rw.


Ltac fin := upd_tac; prj; repeat match goal with |- _ /\ _ => split end; intros; subst;
   try solve [ tauto | congruence | lia | discriminate | intuition (try congruence; try lia; try discriminate) ].
Ltac bdes := repeat match goal with
  | |- context [if parked ?k then _ else _] => let E := fresh "Epk" in destruct (parked k) eqn:E
  | |- context [match reason ?k with _ => _ end] => let E := fresh "Ers" in destruct (reason k) eqn:E
  | H : context [if parked ?k then _ else _] |- _ => let E := fresh "Epk" in destruct (parked k) eqn:E
  | H : context [match reason ?k with _ => _ end] |- _ => let E := fresh "Ers" in destruct (reason k) eqn:E
  end.
Ltac spec := repeat match goal with H : ?x = ?x -> _ |- _ => specialize (H eq_refl) end.

Lemma inv_init : Inv init.
Proof.
  constructor; cbn; try tauto; try discriminate; try (intros; discriminate); auto.
  - intros b. unfold binv; cbn. repeat split; try discriminate; try tauto.
  - intros a. unfold sinv; cbn. destruct (Nat.eqb_spec a 0); cbn; repeat split; try discriminate; try tauto; try lia; auto;
      try (intros [?|[]]; congruence).
  - split; [reflexivity|]. repeat constructor. intros [].
  - intros [?|?]; discriminate.
  - intros [[? ?]|[? ?]]; discriminate.
Qed.
