(* C09 on ChanMpmcModel (may::sync::mpmc, the code as it is: fix7 = fix7b = true, any fix7c) through the cancel-bit
   overlay of Base/CancelOverlay.v.  A receiver blocks in `sem.wait()` of the channel's Semphore, which the model has as
   the abstract semaphore object of C10 (value, FIFO of blocked waiters, `granted` flag); `Fire r` = "the blocked,
   not yet granted waiter r gives up": the timeout of recv_timeout, or - for a coroutine - the cancellation, which the
   real Semphore turns into the cancel panic after it has re-posted a permit it had been given (C10 / CancelSem.v: that
   is why only a NOT granted waiter can give up at this level).  [rtimed] = "timed, or cancellable".
   The overlay adds the cancel bits; `OAct (Fire r) true` is the delivery of a cancellation to receiver r.

   (iii) fire_as_cancel_needs_bit (overlay guard)     (i) cancelled_receiver_not_blocked
   (ii)  the cancelled receiver leaves the waiter queue, takes no permit and no value: a permit posted concurrently goes
         to the next waiter or into the value (post's contract), the accounting identities of C06 hold in every state *)
From Coq Require Import List Arith Bool Lia.
Import ListNotations.
Require Import MayV.Base.CancelOverlay MayV.Sync.ChanMpmcModel MayV.Sync.ChanMpmcInv MayV.Sync.ChanMpmcThm.

(* since the channel work package generalised the give-up action to [Fire r cancel], the delivery of a cancellation is
   [Fire r true] (any blocked waiter, timed or not, granted or not: a granted one posts the permit back) *)
Definition mp_hits (ac : action) : hit := match ac with Fire r true => MayHit r | _ => NoHit end.
Definition all_co (_ : nat) : bool := true.

Section C.
Variable c : bool.     (* fix7c *)
Notation stepc := (step true true c).

Notation most := (ost st).
Definition mostep := CancelOverlay.ostep st action stepc mp_hits all_co.
Definition MOReach := OReach st action stepc init mp_hits all_co.

Lemma greach_reach s : GReach st action stepc init s <-> Reach true true c s.
Proof. split; induction 1; [constructor | econstructor; eauto | constructor | econstructor; eauto]. Qed.
Theorem moreach_reach os : MOReach os -> Reach true true c (base os).
Proof. intro R. apply greach_reach. exact (oreach_base _ _ _ _ _ _ os R). Qed.
Theorem reach_moreach s : Reach true true c s -> exists b l, MOReach {| base := s; cbit := b; clog := l |}.
Proof. intro R. apply greach_lift; [reflexivity | apply greach_reach; exact R]. Qed.

(* ---- (iii) ---- *)
Theorem fire_as_cancel_needs_bit os r os' : MOReach os -> mostep os (OAct (Fire r true) true) = Some os' ->
  cbit os r = true /\ In r (clog os) /\ rp (Rv (base os) r) = WB.
Proof.
  intros R H. destruct (delivery_needs_bit _ _ _ _ _ _ _ _ r H eq_refl) as [B E].
  split; [exact B|]. split; [apply (bit_iff_cancel_called _ _ _ _ _ _ os R); exact B|].
  unfold step in E. destruct (rp (Rv (base os) r)); try discriminate. reflexivity.
Qed.

(* ---- (i) ---- *)
Definition OQuiescent (os : most) : Prop :=
  (forall r, stepc (base os) (RStep r) = None) /\ (forall a, stepc (base os) (SStep a) = None) /\
  (forall r, mostep os (OAct (Fire r true) true) = None).

Theorem cancelled_receiver_not_blocked os r : OQuiescent os -> cbit os r = true ->
  rp (Rv (base os) r) <> WB.
Proof.
  intros (Qr & _ & Qf) B E. specialize (Qf r).
  unfold mostep, CancelOverlay.ostep, allowed in Qf. cbn in Qf. rewrite B in Qf.
  unfold step in Qf. rewrite E in Qf. cbn in Qf.
  destruct (rgr (Rv (base os) r)); cbn in Qf; discriminate.
Qed.

(* ---- (ii) ---- *)
(* the receiver that gives up leaves the waiter queue; the value queue, the semaphore value, the permits in other hands
   and the logs are untouched *)
Theorem giving_up_takes_nothing s r c0 s' : stepc s (Fire r c0) = Some s' -> rgr (Rv s r) = false ->
  q s' = q s /\ sv s' = sv s /\ wq s' = rm r (wq s) /\ hold s' = hold s /\ rlog s' = rlog s /\ sent s' = sent s /\
  txp s' = txp s /\ rxp s' = rxp s /\ rp (Rv s' r) = YIdle.
Proof.
  intros H G. unfold step in H. destruct (rp (Rv s r)); try discriminate.
  destruct (c0 || rtimed (Rv s r)); [|discriminate]. rewrite G in H. injection H as <-. cbn.
  unfold upd. rewrite Nat.eqb_refl. cbn. auto 12.
Qed.
(* a waiter that had already been handed the permit posts it back before it leaves: ChanMpmcThm / Properties/C06:
   C06_mpmc_giveup_passes_the_permit_on *)

Theorem channel_intact_after_cancel os : MOReach os ->
  let s := base os in
  sent s = map snd (rlog s) ++ drpd s ++ q s /\ NoDup (sent s) /\
  (sv s <> 0 -> wq s = []) /\ (forall r, In r (wq s) <-> rp (Rv s r) = WB /\ rgr (Rv s r) = false).
Proof.
  intros R s. pose proof (moreach_reach os R) as Rb. fold s in Rb.
  split; [apply (mpmc_accounting c); exact Rb|]. split; [apply (mpmc_sent_distinct c); exact Rb|].
  apply (mpmc_sem_contract c). exact Rb.
Qed.
End C.

(* ---- non-vacuity: a send races with the cancel of a blocked receiver; the permit stays in the semaphore ---- *)
Definition osch : list (oact action) :=
  map (fun a => OAct a false) [Recv 0 true; RStep 0; RStep 0; RStep 0; Send 0; SStep 0; SStep 0] ++
  [OCancel 0; OAct (Fire 0 true) true] ++
  map (fun a => OAct a false) [SStep 0].
Example cancelled_receiver_with_pending_message :
  exists os, orun st action (step true true true) mp_hits all_co (oinit st init) osch = Some os /\ MOReach true os /\
    rp (Rv (base os) 0) = YIdle /\ rres (Rv (base os) 0) = RCancel /\ q (base os) = [(0, 0)] /\ sv (base os) = 1 /\ wq (base os) = [] /\
    exists os', orun st action (step true true true) mp_hits all_co os
                  (map (fun a => OAct a false) [TryRecv 0; RStep 0; RStep 0; RStep 0]) = Some os' /\
                rres (Rv (base os') 0) = ROk (0, 0) /\ q (base os') = [] /\ sv (base os') = 0.
Proof.
  destruct (orun st action (step true true true) mp_hits all_co (oinit st init) osch) as [os|] eqn:E; [|vm_compute in E; discriminate].
  exists os. split; [reflexivity|]. split; [eapply orun_reach; [constructor | exact E]|].
  vm_compute in E. injection E as <-. repeat split; try (vm_compute; reflexivity).
  eexists. split; [vm_compute; reflexivity|]. repeat split; vm_compute; reflexivity.
Qed.
