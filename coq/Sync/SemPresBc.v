(* Preservation of SemInv.Inv, binv of every blocker: the cases env, W0, W0c, W1, W2, WP, WW, E1, E2, E3, E4, P0, K1, K2, K3, K4, Y0, Y0c, G0 (env = the actions other than Step).
   Script in SemPresTac.v; assembled in SemPresB.v. *)
From Coq Require Import List Arith ZArith Bool Lia.
Import ListNotations.
Require Import MayV.Sync.SemModel MayV.Sync.SemInv MayV.Sync.SemTac MayV.Sync.SemCase MayV.Sync.SemPresTac.
Open Scope Z_scope.

Lemma pres_B_env s ac s' b' : Inv s -> is_step ac = false -> step s ac = Some s' -> binv s' b'.
Proof.
  intros Hi Hn H. g_facts Hi. pose proof (IB _ Hi b') as Hb'. unfold binv in Hb'. cbn zeta in Hb'.
  destruct ac as [a t|a|a|a|a|a]; try discriminate Hn; step_cases H.
  all: b_script Hi s a Hb'.
Qed.

Lemma pres_B_W0 s a s' b' : Inv s -> apc (A s a) = W0 -> step s (Step a) = Some s' -> binv s' b'.
Proof.
  intros Hi Epc H. g_facts Hi. pose proof (IB _ Hi b') as Hb'. unfold binv in Hb'. cbn zeta in Hb'.
  step_at H Epc. all: b_script Hi s a Hb'.
Qed.

Lemma pres_B_W0c s a s' b' : Inv s -> apc (A s a) = W0c -> step s (Step a) = Some s' -> binv s' b'.
Proof.
  intros Hi Epc H. g_facts Hi. pose proof (IB _ Hi b') as Hb'. unfold binv in Hb'. cbn zeta in Hb'.
  step_at H Epc. all: b_script Hi s a Hb'.
Qed.

Lemma pres_B_W1 s a s' b' : Inv s -> apc (A s a) = W1 -> step s (Step a) = Some s' -> binv s' b'.
Proof.
  intros Hi Epc H. g_facts Hi. pose proof (IB _ Hi b') as Hb'. unfold binv in Hb'. cbn zeta in Hb'.
  step_at H Epc. all: b_script Hi s a Hb'.
Qed.

Lemma pres_B_W2 s a s' b' : Inv s -> apc (A s a) = W2 -> step s (Step a) = Some s' -> binv s' b'.
Proof.
  intros Hi Epc H. g_facts Hi. pose proof (IB _ Hi b') as Hb'. unfold binv in Hb'. cbn zeta in Hb'.
  step_at H Epc. all: b_script Hi s a Hb'.
Qed.

Lemma pres_B_WP s a s' b' : Inv s -> apc (A s a) = WP -> step s (Step a) = Some s' -> binv s' b'.
Proof.
  intros Hi Epc H. g_facts Hi. pose proof (IB _ Hi b') as Hb'. unfold binv in Hb'. cbn zeta in Hb'.
  step_at H Epc. all: b_script Hi s a Hb'.
Qed.

Lemma pres_B_WW s a s' b' : Inv s -> apc (A s a) = WW -> step s (Step a) = Some s' -> binv s' b'.
Proof.
  intros Hi Epc H. g_facts Hi. pose proof (IB _ Hi b') as Hb'. unfold binv in Hb'. cbn zeta in Hb'.
  step_at H Epc. all: b_script Hi s a Hb'.
Qed.

Lemma pres_B_E1 s a s' b' : Inv s -> apc (A s a) = E1 -> step s (Step a) = Some s' -> binv s' b'.
Proof.
  intros Hi Epc H. g_facts Hi. pose proof (IB _ Hi b') as Hb'. unfold binv in Hb'. cbn zeta in Hb'.
  step_at H Epc. all: b_script Hi s a Hb'.
Qed.

Lemma pres_B_E2 s a s' b' : Inv s -> apc (A s a) = E2 -> step s (Step a) = Some s' -> binv s' b'.
Proof.
  intros Hi Epc H. g_facts Hi. pose proof (IB _ Hi b') as Hb'. unfold binv in Hb'. cbn zeta in Hb'.
  step_at H Epc. all: b_script Hi s a Hb'.
Qed.

Lemma pres_B_E3 s a s' b' : Inv s -> apc (A s a) = E3 -> step s (Step a) = Some s' -> binv s' b'.
Proof.
  intros Hi Epc H. g_facts Hi. pose proof (IB _ Hi b') as Hb'. unfold binv in Hb'. cbn zeta in Hb'.
  step_at H Epc. all: b_script Hi s a Hb'.
Qed.

Lemma pres_B_E4 s a s' b' : Inv s -> apc (A s a) = E4 -> step s (Step a) = Some s' -> binv s' b'.
Proof.
  intros Hi Epc H. g_facts Hi. pose proof (IB _ Hi b') as Hb'. unfold binv in Hb'. cbn zeta in Hb'.
  step_at H Epc. all: b_script Hi s a Hb'.
Qed.

Lemma pres_B_P0 s a s' b' : Inv s -> apc (A s a) = P0 -> step s (Step a) = Some s' -> binv s' b'.
Proof.
  intros Hi Epc H. g_facts Hi. pose proof (IB _ Hi b') as Hb'. unfold binv in Hb'. cbn zeta in Hb'.
  step_at H Epc. all: b_script Hi s a Hb'.
Qed.

Lemma pres_B_K1 s a s' b' : Inv s -> apc (A s a) = K1 -> step s (Step a) = Some s' -> binv s' b'.
Proof.
  intros Hi Epc H. g_facts Hi. pose proof (IB _ Hi b') as Hb'. unfold binv in Hb'. cbn zeta in Hb'.
  step_at H Epc. all: b_script Hi s a Hb'.
Qed.

Lemma pres_B_K2 s a s' b' : Inv s -> apc (A s a) = K2 -> step s (Step a) = Some s' -> binv s' b'.
Proof.
  intros Hi Epc H. g_facts Hi. pose proof (IB _ Hi b') as Hb'. unfold binv in Hb'. cbn zeta in Hb'.
  step_at H Epc. all: b_script Hi s a Hb'.
Qed.

Lemma pres_B_K3 s a s' b' : Inv s -> apc (A s a) = K3 -> step s (Step a) = Some s' -> binv s' b'.
Proof.
  intros Hi Epc H. g_facts Hi. pose proof (IB _ Hi b') as Hb'. unfold binv in Hb'. cbn zeta in Hb'.
  step_at H Epc. all: b_script Hi s a Hb'.
Qed.

Lemma pres_B_K4 s a s' b' : Inv s -> apc (A s a) = K4 -> step s (Step a) = Some s' -> binv s' b'.
Proof.
  intros Hi Epc H. g_facts Hi. pose proof (IB _ Hi b') as Hb'. unfold binv in Hb'. cbn zeta in Hb'.
  step_at H Epc. all: b_script Hi s a Hb'.
Qed.

Lemma pres_B_Y0 s a s' b' : Inv s -> apc (A s a) = Y0 -> step s (Step a) = Some s' -> binv s' b'.
Proof.
  intros Hi Epc H. g_facts Hi. pose proof (IB _ Hi b') as Hb'. unfold binv in Hb'. cbn zeta in Hb'.
  step_at H Epc. all: b_script Hi s a Hb'.
Qed.

Lemma pres_B_Y0c s a s' b' : Inv s -> apc (A s a) = Y0c -> step s (Step a) = Some s' -> binv s' b'.
Proof.
  intros Hi Epc H. g_facts Hi. pose proof (IB _ Hi b') as Hb'. unfold binv in Hb'. cbn zeta in Hb'.
  step_at H Epc. all: b_script Hi s a Hb'.
Qed.

Lemma pres_B_G0 s a s' b' : Inv s -> apc (A s a) = G0 -> step s (Step a) = Some s' -> binv s' b'.
Proof.
  intros Hi Epc H. g_facts Hi. pose proof (IB _ Hi b') as Hb'. unfold binv in Hb'. cbn zeta in Hb'.
  step_at H Epc. all: b_script Hi s a Hb'.
Qed.
