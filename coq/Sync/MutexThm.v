(* C05 - statements assembled from the three invariants (Inv: MutexInv/MutexME, Inv2: MutexLiveInv/MutexLive7,
   Inv3: MutexPop) in the form used by Properties/C05.v *)
From Coq Require Import List Arith Bool Lia.
Import ListNotations.
Require Import MayV.Sync.MutexModel MayV.Sync.MutexInv MayV.Sync.MutexME MayV.Sync.MutexLiveInv MayV.Sync.MutexLive7 MayV.Sync.MutexPop.

Section S.
Variable isco : nat -> bool.
Notation step := (step isco).
Notation Reach := (Reach isco).

(* C05 (ii): try_lock is a single step that never blocks; it succeeds exactly when cnt = 0, and then
   nobody owns the lock and nobody is inside the critical section *)
Theorem try_lock_spec s a :
  Reach s -> apc (A s a) = T0 ->
  exists s', step s (Step a) = Some s' /\
    ((cnt s = 0 /\ apc (A s' a) = CS /\ holder s = HNone /\ (forall a', in_cs (apc (A s a')) = false))
     \/ (cnt s <> 0 /\ apc (A s' a) = Idle /\ cnt s' = cnt s /\ q s' = q s)).
Proof.
  intros R Ha. unfold MutexModel.step. rewrite Ha. destruct (Nat.eqb_spec (cnt s) 0) as [E|E].
  - eexists; split; [reflexivity|]. left. cbn. rewrite upd_eq. cbn.
    destruct (cas_only_when_free isco s R E) as [Hh Hc]. auto.
  - eexists; split; [reflexivity|]. right. cbn. rewrite upd_eq. cbn. auto.
Qed.

(* the same CAS as the fast path of lock() *)
Theorem lock_fast_path_spec s a :
  Reach s -> apc (A s a) = L0 ->
  exists s', step s (Step a) = Some s' /\
    ((cnt s = 0 /\ apc (A s' a) = CS /\ holder s = HNone /\ (forall a', in_cs (apc (A s a')) = false))
     \/ (cnt s <> 0 /\ apc (A s' a) = L1)).
Proof.
  intros R Ha. unfold MutexModel.step. rewrite Ha. destruct (Nat.eqb_spec (cnt s) 0) as [E|E].
  - eexists; split; [reflexivity|]. left. cbn. rewrite upd_eq. cbn.
    destruct (cas_only_when_free isco s R E) as [Hh Hc]. auto.
  - eexists; split; [reflexivity|]. right. cbn. rewrite upd_eq. cbn. auto.
Qed.

(* cnt counts exactly the owner of the lock plus the registered waiters *)
Theorem cnt_is_counted s : Reach s -> cnt s = length (ent s) /\ NoDup (ent s) /\ (ent s <> [] <-> holder s <> HNone).
Proof.
  intros R. destruct (inv12_reach isco s R) as [Hi Hj]. destruct (IG _ Hi) as (G1 & G2 & _ & _ & G5 & _).
  repeat split; auto. apply (N1 _ Hj).
Qed.

(* C05 (iv), the two-flag handshake.  While the lock is in transit to blocker b (flagged, not yet taken
   over) ... *)
Definition unparker_before_take_release (s : st) (b : nat) : Prop :=
  let g := A s (ag (Bk s b)) in (apc g = H3 \/ apc g = H3w \/ apc g = H4) /\ aw g = b.

(* ... and its owner has left for good (cancel panic), the owner's `release` is still set and the
   unparker has not executed its take_release yet: it will find the flag and pass the lock on *)
Theorem handshake_gone_owner_forwarded s b :
  Reach s -> holder s = HB b -> apc (A s (owner (Bk s b))) = Exit ->
  rel (Bk s b) = true /\ unp (Bk s b) = true /\ unparker_before_take_release s b.
Proof.
  intros R Hh Ho. destruct (inv12_reach isco s R) as [Hi Hj].
  pose proof (K1 _ Hj b Hh) as Hk. cbn in Hk. destruct Hk as (Ku & Kab & K1b & Kw).
  unfold waiting, halfgone in Kw. rewrite Ho in Kw.
  destruct Kw as [Kw|[_ Kr]]; [discriminate|].
  split; [exact Kr|]. split; [exact Ku|]. unfold unparker_before_take_release. cbn.
  exact (N2b _ Hj b Hh Ho).
Qed.

(* ... a `release` flag that is set belongs to a cancelled waiter that has left and is still counted in cnt:
   whoever takes the flag (the unparker's or the owner's own take_release: swap, so exactly one of them)
   owes exactly one unlock *)
Theorem release_means_owed_unlock s b :
  Reach s -> rel (Bk s b) = true ->
  let o := owner (Bk s b) in ab (A s o) = b /\ 1 <= b /\ halfgone (A s o) = true /\ In o (ent s).
Proof.
  intros R Hr. pose proof (IB _ (inv_reach isco s R) b) as Hb. unfold binv in Hb.
  destruct Hb as (_ & _ & B3 & _). exact (B3 Hr).
Qed.

(* ... and a forwarding unlock (U0 on behalf of another actor) is always for a waiter that has left, whose
   flag has been consumed: nobody else can forward the same hand-off again *)
Theorem forwarded_unlock_is_unique s a :
  Reach s -> apc (A s a) = U0 -> afor (A s a) <> a ->
  holder s = HA a /\ In (afor (A s a)) (ent s) /\ halfgone (A s (afor (A s a))) = true /\
  rel (Bk s (ab (A s (afor (A s a))))) = false.
Proof.
  intros R Ha Hne. pose proof (IA _ (inv_reach isco s R) a) as I1. unfold ainv in I1. rewrite Ha in I1.
  destruct I1 as (_ & _ & _ & Hh & Hin & _ & _ & Hf). destruct (Hf Hne) as (Hg & _ & Hr). auto.
Qed.

(* C05 (v): every round of an unlock chain (U0 -> H1 -> H2 -> H3 -> [H3w] -> H4 -> U0) removes one blocker
   from the waiter queue and none of its steps adds one: the chain is bounded by the queue length *)
Theorem chain_step_shrinks_queue s a s' :
  step s (Step a) = Some s' ->
  match apc (A s a) with
  | H1 => S (length (q s')) = length (q s)
  | H2 | H3 | H3w | H4 | U0 => q s' = q s
  | _ => True
  end.
Proof.
  intros H. unfold MutexModel.step in H.
  destruct (apc (A s a)); auto;
    repeat match type of H with
    | context [if ?c then _ else _] => destruct c
    | context [match q ?s with _ => _ end] => destruct (q s) eqn:Eq
    end; try discriminate; inversion H; subst; cbn; reflexivity.
Qed.
End S.
