(* Model of may::sync::SyncFlag (src/sync/sync_flag.rs): wait, wait_timeout, fire, is_fired, with the
   SyncBlocker handshake (src/sync/blocking.rs, CURRENT order: `unparked.store(true)` before
   `blocker.unpark()`) over the Blocker token.  Definitions only.  One transition per shared access:

     wait / wait_timeout   W0 cnt.load (is_fired)   W1 to_wake.push   W2 cnt.fetch_sub(1) (> 0: wakeup_all, context RPark)
                           WP park: token check     WW suspended      E1..E4 error path as in Semphore, `fire()` for `post()`
     fire                  F0 cnt.store(MAX)        then wakeup_all
     wakeup_all            A1 to_wake.pop (None: leave the loop)   A2 w.unparked.store   A3 w.blocker.unpark
                           A4 w.take_release (true: nested fire(): F0 with depth + 1, whose own loop runs first)
     is_fired              Q0 cnt.load

   Unbounded actors / blockers.  `Tmo a`: the timer or a cancel() hits the suspended actor a; as in
   the real Park it may still win after the token was set, until the actor has resumed.
   Ghost: ufired (a user-level fire() has executed its store), infl (waiters between their failed
   is_fired check and their fetch_sub), fbound (|infl| at the first user store), obs (results
   returned by wait / is_fired, newest first). *)
From Coq Require Import List Arith ZArith Bool Lia.
Import ListNotations.
Open Scope Z_scope.

Inductive pc :=
  | Idle
  | W0 | W1 | W2 | WP | WW          (* wait: is_fired / push blocker / fetch_sub / park_enter / suspended *)
  | E1 | E2 | E3 | E4               (* error path: is_unparked / set_release / is_unparked / take_release *)
  | F0                              (* fire: store MAX *)
  | A1 | A2 | A3 | A4               (* wakeup_all: pop / flag / token / take_release *)
  | Q0.                             (* is_fired() called by the user *)
Inductive ctx := RUser | RErr | RPark.
Inductive rsn := RU | RT.

Record act := { apc : pc; ab : nat; aw : nat; actx : ctx; atimed : bool; dep : nat (* pending outer wakeup_all loops *);
                ares : bool (* result of the last wait / wait_timeout / is_fired *) }.
Record blk := { tok : bool; parked : bool; reason : option rsn; unp : bool; rel : bool; owner : nat }.
Record st := { cnt : Z; q : list nat; nextb : nat; A : nat -> act; Bk : nat -> blk;
               ufired : bool;          (* ghost: a user-level fire() has executed its store *)
               fbound : Z;             (* ghost: number of waiters in flight at that first store *)
               infl : list nat;        (* ghost: waiters between their failed is_fired check and their fetch_sub *)
               obs : list (nat * bool) (* ghost: results returned by is_fired()/wait(), newest first *) }.

Definition upd {X} (f : nat -> X) i v := fun j => if Nat.eqb j i then v else f j.
Definition fresh (o : nat) := {| tok := false; parked := false; reason := None; unp := false; rel := false; owner := o |}.
Definition set_pc (x : act) p := {| apc := p; ab := ab x; aw := aw x; actx := actx x; atimed := atimed x; dep := dep x; ares := ares x |}.
Definition set_res (x : act) p r := {| apc := p; ab := ab x; aw := aw x; actx := actx x; atimed := atimed x; dep := dep x; ares := r |}.
Definition ret_pc (c : ctx) := match c with RUser => Idle | RErr => Idle | RPark => WP end.
Definition rm := remove Nat.eq_dec.
Definition nl (l : list nat) : Z := Z.of_nat (length l).

Inductive action := Wait (a : nat) (timed : bool) | IsFired (a : nat) | Fire (a : nat) | Step (a : nat) | Tmo (a : nat).

Section M.
Variable MAX : Z.

Definition mk c q' n A' B' u fb l o := {| cnt := c; q := q'; nextb := n; A := A'; Bk := B'; ufired := u; fbound := fb; infl := l; obs := o |}.

Definition step (s : st) (ac : action) : option st :=
  match ac with
  | Wait a timed => match apc (A s a) with
      | Idle => Some (mk (cnt s) (q s) (nextb s) (upd (A s) a {| apc := W0; ab := ab (A s a); aw := aw (A s a); actx := RUser; atimed := timed; dep := 0; ares := ares (A s a) |}) (Bk s) (ufired s) (fbound s) (infl s) (obs s))
      | _ => None end
  | IsFired a => match apc (A s a) with
      | Idle => Some (mk (cnt s) (q s) (nextb s) (upd (A s) a (set_pc (A s a) Q0)) (Bk s) (ufired s) (fbound s) (infl s) (obs s))
      | _ => None end
  | Fire a => match apc (A s a) with
      | Idle => Some (mk (cnt s) (q s) (nextb s) (upd (A s) a {| apc := F0; ab := ab (A s a); aw := aw (A s a); actx := RUser; atimed := false; dep := 0; ares := ares (A s a) |}) (Bk s) (ufired s) (fbound s) (infl s) (obs s))
      | _ => None end
  | Tmo a =>
      let x := A s a in let b := Bk s (ab x) in
      match apc x with
      | WW => if atimed x
              then Some (mk (cnt s) (q s) (nextb s) (A s) (upd (Bk s) (ab x) {| tok := tok b; parked := parked b; reason := Some RT; unp := unp b; rel := rel b; owner := owner b |}) (ufired s) (fbound s) (infl s) (obs s))
              else None
      | _ => None end
  | Step a =>
      let x := A s a in let b := Bk s (ab x) in let w := Bk s (aw x) in
      match apc x with
      | Idle => None
      | Q0 => Some (mk (cnt s) (q s) (nextb s) (upd (A s) a (set_res x Idle (Z.ltb 0 (cnt s)))) (Bk s) (ufired s) (fbound s) (infl s) ((a, Z.ltb 0 (cnt s)) :: obs s))
      | W0 => if Z.ltb 0 (cnt s)
              then Some (mk (cnt s) (q s) (nextb s) (upd (A s) a (set_res x Idle true)) (Bk s) (ufired s) (fbound s) (infl s) ((a, true) :: obs s))
              else Some (mk (cnt s) (q s) (nextb s) (upd (A s) a (set_pc x W1)) (Bk s) (ufired s) (fbound s) (a :: infl s) (obs s))
      | W1 => let n := nextb s in
              Some (mk (cnt s) (q s ++ [n]) (S n) (upd (A s) a {| apc := W2; ab := n; aw := aw x; actx := actx x; atimed := atimed x; dep := dep x; ares := ares x |}) (upd (Bk s) n (fresh a)) (ufired s) (fbound s) (infl s) (obs s))
      | W2 => if Z.ltb 0 (cnt s)
              then Some (mk (cnt s - 1) (q s) (nextb s) (upd (A s) a {| apc := A1; ab := ab x; aw := aw x; actx := RPark; atimed := atimed x; dep := 0; ares := ares x |}) (Bk s) (ufired s) (fbound s) (rm a (infl s)) (obs s))
              else Some (mk (cnt s - 1) (q s) (nextb s) (upd (A s) a (set_pc x WP)) (Bk s) (ufired s) (fbound s) (rm a (infl s)) (obs s))
      | F0 => let first := match actx x, dep x, ufired s with RUser, O, false => true | _, _, _ => false end in
              Some (mk MAX (q s) (nextb s) (upd (A s) a (set_pc x A1)) (Bk s)
                      (match actx x with RUser => true | _ => ufired s end)
                      (if first then nl (infl s) else fbound s) (infl s) (obs s))
      | A1 => match q s with
              | [] => match dep x with
                      | O => Some (mk (cnt s) (q s) (nextb s) (upd (A s) a (set_pc x (ret_pc (actx x)))) (Bk s) (ufired s) (fbound s) (infl s) (obs s))
                      | S d => Some (mk (cnt s) (q s) (nextb s) (upd (A s) a {| apc := A1; ab := ab x; aw := aw x; actx := actx x; atimed := atimed x; dep := d; ares := ares x |}) (Bk s) (ufired s) (fbound s) (infl s) (obs s))
                      end
              | v :: q' => Some (mk (cnt s) q' (nextb s) (upd (A s) a {| apc := A2; ab := ab x; aw := v; actx := actx x; atimed := atimed x; dep := dep x; ares := ares x |}) (Bk s) (ufired s) (fbound s) (infl s) (obs s))
              end
      | A2 => Some (mk (cnt s) (q s) (nextb s) (upd (A s) a (set_pc x A3))
                      (upd (Bk s) (aw x) {| tok := tok w; parked := parked w; reason := reason w; unp := true; rel := rel w; owner := owner w |}) (ufired s) (fbound s) (infl s) (obs s))
      | A3 => Some (mk (cnt s) (q s) (nextb s) (upd (A s) a (set_pc x A4))
                      (upd (Bk s) (aw x) {| tok := true; parked := parked w; reason := (if parked w then match reason w with None => Some RU | r => r end else reason w); unp := unp w; rel := rel w; owner := owner w |}) (ufired s) (fbound s) (infl s) (obs s))
      | A4 => if rel w
              then Some (mk (cnt s) (q s) (nextb s) (upd (A s) a {| apc := F0; ab := ab x; aw := aw x; actx := actx x; atimed := atimed x; dep := S (dep x); ares := ares x |})
                          (upd (Bk s) (aw x) {| tok := tok w; parked := parked w; reason := reason w; unp := unp w; rel := false; owner := owner w |}) (ufired s) (fbound s) (infl s) (obs s))
              else Some (mk (cnt s) (q s) (nextb s) (upd (A s) a (set_pc x A1)) (Bk s) (ufired s) (fbound s) (infl s) (obs s))
      | WP => if tok b
              then Some (mk (cnt s) (q s) (nextb s) (upd (A s) a (set_res x Idle true)) (upd (Bk s) (ab x) {| tok := false; parked := parked b; reason := reason b; unp := unp b; rel := rel b; owner := owner b |}) (ufired s) (fbound s) (infl s) ((a, true) :: obs s))
              else Some (mk (cnt s) (q s) (nextb s) (upd (A s) a (set_pc x WW)) (upd (Bk s) (ab x) {| tok := tok b; parked := true; reason := None; unp := unp b; rel := rel b; owner := owner b |}) (ufired s) (fbound s) (infl s) (obs s))
      | WW => match reason b with
              | None => None
              | Some RU => Some (mk (cnt s) (q s) (nextb s) (upd (A s) a (set_res x Idle true)) (upd (Bk s) (ab x) {| tok := false; parked := false; reason := None; unp := unp b; rel := rel b; owner := owner b |}) (ufired s) (fbound s) (infl s) ((a, true) :: obs s))
              | Some RT => Some (mk (cnt s) (q s) (nextb s) (upd (A s) a (set_res x E1 false)) (upd (Bk s) (ab x) {| tok := false; parked := false; reason := None; unp := unp b; rel := rel b; owner := owner b |}) (ufired s) (fbound s) (infl s) ((a, false) :: obs s))
              end
      | E1 => if unp b
              then Some (mk (cnt s) (q s) (nextb s) (upd (A s) a {| apc := F0; ab := ab x; aw := aw x; actx := RErr; atimed := atimed x; dep := 0; ares := ares x |}) (Bk s) (ufired s) (fbound s) (infl s) (obs s))
              else Some (mk (cnt s) (q s) (nextb s) (upd (A s) a (set_pc x E2)) (Bk s) (ufired s) (fbound s) (infl s) (obs s))
      | E2 => Some (mk (cnt s) (q s) (nextb s) (upd (A s) a (set_pc x E3)) (upd (Bk s) (ab x) {| tok := tok b; parked := parked b; reason := reason b; unp := unp b; rel := true; owner := owner b |}) (ufired s) (fbound s) (infl s) (obs s))
      | E3 => if unp b
              then Some (mk (cnt s) (q s) (nextb s) (upd (A s) a (set_pc x E4)) (Bk s) (ufired s) (fbound s) (infl s) (obs s))
              else Some (mk (cnt s) (q s) (nextb s) (upd (A s) a (set_pc x Idle)) (Bk s) (ufired s) (fbound s) (infl s) (obs s))
      | E4 => if rel b
              then Some (mk (cnt s) (q s) (nextb s) (upd (A s) a {| apc := F0; ab := ab x; aw := aw x; actx := RErr; atimed := atimed x; dep := 0; ares := ares x |}) (upd (Bk s) (ab x) {| tok := tok b; parked := parked b; reason := reason b; unp := unp b; rel := false; owner := owner b |}) (ufired s) (fbound s) (infl s) (obs s))
              else Some (mk (cnt s) (q s) (nextb s) (upd (A s) a (set_pc x Idle)) (Bk s) (ufired s) (fbound s) (infl s) (obs s))
      end
  end.

Definition act0 := {| apc := Idle; ab := 0; aw := 0; actx := RUser; atimed := false; dep := 0; ares := false |}.
Definition init : st := mk 0 [] 1 (fun _ => act0) (fun _ => fresh 0) false 0 [] [].
Inductive Reach : st -> Prop :=
| R0 : Reach init
| RS s a s' : Reach s -> step s a = Some s' -> Reach s'.
Fixpoint run (s : st) (l : list action) : st :=
  match l with [] => s | a :: l' => match step s a with Some s' => run s' l' | None => run s l' end end.
End M.
