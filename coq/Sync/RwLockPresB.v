(* C12 - preservation of the blocker assertions; the invariant is inductive *)
From Coq Require Import List Arith ZArith Bool Lia.
Import ListNotations.
Require Import MayV.Sync.RwLockModel MayV.Sync.RwLockInv MayV.Sync.RwLockPresG MayV.Sync.RwLockPresA MayV.Sync.RwLockPresOTac.
Require Import MayV.Sync.RwLockPresO5.

Lemma pres_B s ac s' b : Inv s -> step s ac = Some s' -> binv s' b.
Proof.
  intros Hi H. destruct (IG _ Hi) as (G1 & G2 & G3 & G4 & G5 & G6 & G7 & G8 & G9 & G10 & G11).
  pose proof (IB _ Hi b) as Hb0. unfold binv, waiting, halfgone in Hb0.
  step_cases H.
  all: unfold binv, set_pc, set_pcx, waiting, halfgone, fresh; cbn -[Z.of_nat].
  all: upd_tac; cbn -[Z.of_nat].
  all: try a_facts Hi a.
  all: cbn -[Z.of_nat] in *; brk; num.
  all: repeat match goal with |- _ /\ _ => split end; try assumption; intros; brk; try assumption; fin.
  all: try (b_facts Hi (ab (A s a)); b_facts Hi (aw (A s a)); fin).
  all: try (assert (nextb s <= b) by lia; brk; fin).
  all: dpc; cbn -[Z.of_nat] in *; brk; fin.
  all: try solve [ent_nil; brk; fin0].
  all: try solve [hrew; brk; fin].
  all: try solve [dor; brk; fin].
  all: try solve [repeat (split || intro); brk; fin].
  all: try solve [repeat (split || intro); ent_nil; hrew; brk; fin].
  all: try solve [repeat (split || intro); brk; exfalso; ent_nil; match goal with G : holder _ <> HNone -> [] <> [] |- _ => apply G; [congruence|reflexivity] end].
  all: try solve [repeat (split || intro); match goal with H : match apc ?x with _ => _ end = true |- _ => destruct (apc x) eqn:?; cbn in *; try discriminate; brk; fin end].
  all: try solve [apply in_remove_neq; [assumption|]; let E := fresh "E" in intro E; symmetry in E;
                  match goal with Hy : forall y, afor _ = Some y -> _, ne : owner _ <> _ |- _ => destruct (Hy _ E ne) as (_ & _ & Hr) end;
                  match goal with E2 : ab (A _ (owner _)) = _ |- _ => rewrite E2 in Hr end; congruence].
  all: try solve [right; apply in_remove_neq; [assumption|congruence]].
  all: try solve [intros; brk; exfalso; assert (holder s = HG) by (apply G7; let E0 := fresh "E0" in intro E0; rewrite E0 in *; cbn in *; tauto); congruence].
Qed.

Lemma inv_step s ac s' : Inv s -> step s ac = Some s' -> ovf s' = false -> Inv s'.
Proof.
  intros Hi H Hov. constructor.
  - intro a'. destruct (Nat.eq_dec a' (actor_of ac)) as [e|ne].
    + destruct ac as [a o|a|a|a|a|a]; cbn [actor_of] in e; subst a'.
      * eapply pres_A_self_call; eassumption.
      * eapply pres_A_self; eassumption.
      * eapply pres_A_self_env; eauto.
      * eapply pres_A_self_env; eauto.
      * eapply pres_A_self_env; eauto.
      * eapply pres_A_self_env; eauto.
    + eapply pres_A_other; eassumption.
  - intro b. eapply pres_B; eassumption.
  - eapply pres_G; eassumption.
Qed.

Lemma ovf_mono s ac s' : step s ac = Some s' -> ovf s' = false -> ovf s = false.
Proof.
  intros H Ho. step_cases H; cbn in Ho; try assumption; apply orb_false_iff in Ho; tauto.
Qed.

(* the invariant holds in every reachable state in which the 64-bit reader count has not wrapped,
   i.e. as long as fewer than 2^64 read guards were ever outstanding at the same time *)
Theorem inv_reach p s : Reach p s -> ovf s = false -> Inv s.
Proof.
  induction 1 as [|s a s' R IH H]; intros Ho; [apply inv_init|].
  eapply inv_step; [apply IH; eapply ovf_mono; eassumption | eassumption | eassumption].
Qed.
