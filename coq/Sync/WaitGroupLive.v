(* C11.iv, the progress half: WaitGroup composed with the Condvar protocol (a proof over the product model
   WaitGroupModel = wait-group program x CondvarModel).

   Quiescent state: no actor has an enabled transition of its own.  Theorem: in a quiescent reachable state the mutex is
   free and every actor is outside every call, or is a cancelled coroutine that died in Condvar::wait, or is parked in the
   wait loop of wait() - and then a handle is still alive.  Hence, once every handle has been dropped, no wait() is left
   parked: the notify_all of the last drop reaches every waiter (no lost notification), which together with
   "wait returns only when the count is zero" (WaitGroupThm) is "wait returns exactly when every other clone has been
   dropped" in the safety + quiescence form. *)
From Coq Require Import List Arith ZArith Bool Lia.
Import ListNotations.
Require Import MayV.Sync.CondvarModel MayV.Sync.CondvarInv MayV.Sync.CondvarTac MayV.Sync.CondvarPresM
               MayV.Sync.CondvarL1 MayV.Sync.CondvarL2 MayV.Sync.CondvarL3 MayV.Sync.CondvarL4 MayV.Sync.CondvarThm
               MayV.Sync.BarrierModel MayV.Sync.BarrierThm MayV.Sync.BarrierCv MayV.Sync.WaitGroupModel MayV.Sync.WaitGroupThm.
Close Scope Z_scope.
Open Scope nat_scope.

Record WInvL (s : wst) : Prop := {
  W_pre : forall a, wpc s a = WLw -> prepush (apc (A (wcs s) a)) = true -> 0 < wcnt s;
  W_q : wcnt s = 0 -> (exists x, wpc s x = WDN) \/ q (wcs s) = [] }.

Lemma winvl_init : WInvL winit.
Proof. constructor; cbn; intros; discriminate. Qed.

Lemma wcall_pc c x c' a y : step c x = Some c' -> actor_of x = Some a -> y <> a -> apc (A c' y) = apc (A c y).
Proof. intros H E N. rewrite (frame_A _ _ _ y H); [reflexivity | congruence]. Qed.

Lemma wholds_mx s a : WReach s -> wkind (wpc s a) = BIn \/ wpc s a = WDN -> mx (wcs s) = Some a.
Proof.
  intros R [K|K]; [apply wg_code_holds_mutex; assumption|].
  pose proof (WJ_a _ (winvj_reach _ R) a) as J. rewrite K in J. apply J.
Qed.
Lemma wwait_pre_holds s a : WReach s -> wpc s a = WLw -> prepush (apc (A (wcs s) a)) = true -> mx (wcs s) = Some a.
Proof.
  intros R Eb P. apply wait_holds_mutex; [apply wreach_reach; assumption|].
  unfold has_mx. destruct (apc (A (wcs s) a)); cbn in P; try discriminate; reflexivity.
Qed.

Lemma wl_pre s ac s' : WReach s -> WInvL s -> wstep s ac = Some s' ->
  forall y, wpc s' y = WLw -> prepush (apc (A (wcs s') y)) = true -> 0 < wcnt s'.
Proof.
  intros R Hi H. pose proof (W_pre _ Hi) as Lp.
  destruct ac as [a|a|a co|a a'|a|a c|c]; wcases H; wsimp; try exact Lp; intros y; pose proof (Lp y) as Ly; pose proof (wwait_pre_holds s y R) as Hwy.
  (* WEnv *)
  all: try solve [match goal with Ok : env_ok _ = true, Es : step _ _ = Some _ |- _ =>
                    destruct (env_pc_frame _ _ _ y Es Ok) as [Ep _]; rewrite Ep; exact Ly end].
  (* WInner *)
  all: try solve [match goal with Ok : inner_ok ?a _ = true, Es : step _ _ = Some _ |- _ =>
                    destruct (Nat.eq_dec y a) as [e|ne];
                    [ subst y; rewrite bupd_eq | rewrite bupd_neq by assumption; rewrite (inner_pc_frame _ _ _ a y Es Ok ne); exact Ly ];
                    try (intros X; discriminate X); intros _ P; apply (Lp a); first [assumption | eapply prepush_back; eauto] end].
  (* calls and the program's own steps *)
  all: match goal with Eb : wpc _ ?a = _ |- _ =>
         pose proof (wholds_mx s a R) as Hma; rewrite Eb in Hma; cbn [wkind] in Hma;
         destruct (Nat.eq_dec y a) as [e|ne];
         [ subst y; rewrite bupd_eq; try (intros X; discriminate X); wnum; auto
         | rewrite bupd_neq by assumption;
           try match goal with Es : step _ _ = Some _ |- _ => rewrite (wcall_pc _ _ _ a y Es eq_refl ne) end ] end.
  all: try exact Ly.
  all: try solve [intros W P; specialize (Ly W P); lia].
  (* the count is decremented under the mutex: nobody else is before its push *)
  all: try solve [intros W P; exfalso; assert (M1 : mx (wcs s) = Some a) by (apply Hma; auto); rewrite (Hwy W P) in M1; congruence].
Qed.

Lemma q_nil_step c x c' a : Inv1 c -> step c x = Some c' -> inner_ok a x = true -> q c = [] -> prepush (apc (A c a)) = false -> q c' = [].
Proof.
  intros I1 H Ok Q P. destruct (q c') as [|b l] eqn:E; [reflexivity|]. exfalso.
  destruct (q_step _ _ _ I1 H b) as [[Ho _]|(a0 & Ex & Ew & _)]; [rewrite E; left; reflexivity | rewrite Q in Ho; destruct Ho |].
  subst. cbn in Ok. apply Nat.eqb_eq in Ok. subst. rewrite Ew in P. discriminate.
Qed.

Lemma wl_q s ac s' : WReach s -> WInvL s -> wstep s ac = Some s' -> wcnt s' = 0 -> (exists x, wpc s' x = WDN) \/ q (wcs s') = [].
Proof.
  intros R Hi H. pose proof (W_q _ Hi) as Lq. pose proof (inv1_reach _ (wreach_reach _ R)) as I1.
  assert (KEEP : forall a p, wpc s a <> WDN -> (exists x, wpc s x = WDN) -> exists x, bupd (wpc s) a p x = WDN).
  { intros a p Na [x Ex]. exists x. rewrite bupd_neq; [exact Ex | congruence]. }
  destruct ac as [a|a|a co|a a'|a|a c|c]; wcases H; wsimp; try exact Lq.
  (* the last drop / inside notify_all *)
  all: try solve [intros _; left; eexists; apply bupd_eq].
  (* the count stays positive *)
  all: try solve [intro Z; wnum; lia].
  (* notify_all returns: the queue is empty *)
  all: try solve [match goal with Eb : wpc _ ?a = WDN, Ok : inner_ok _ _ = true, Es : step _ _ = Some ?s0 |- _ =>
         intros _; right;
         pose proof (WJ_a _ (winvj_reach _ R) a) as Ja; rewrite Eb in Ja; destruct Ja as [Ja _];
         assert (I : apc (A s0 a) = Idle) by (destruct (apc (A s0 a)); cbn in *; try discriminate; reflexivity);
         exact (notify_all_done _ _ _ a Es Ok Ja I) end].
  (* calls and the environment do not touch the queue *)
  all: try match goal with Es : step _ _ = Some _ |- _ => destruct (call_frame _ _ _ Es eq_refl) as [Eq Ebk]; rewrite Eq end.
  all: try match goal with Es : step _ _ = Some _, Ok : env_ok _ = true |- _ =>
         destruct (env_pc_frame _ _ _ 0 Es Ok) as (_ & Eq & _ & _); rewrite Eq end.
  all: try exact Lq.
  all: intro Z; destruct (Lq Z) as [Lx|Lx]; [left; apply KEEP; [congruence | exact Lx] | right]; try exact Lx.
  (* inside Condvar::wait with the count zero: the actor is past its push *)
  all: match goal with Ok : inner_ok ?a _ = true, Es : step _ _ = Some _ |- _ =>
         apply (q_nil_step _ _ _ a I1 Es Ok Lx); destruct (prepush (apc (A (wcs s) a))) eqn:P; [|reflexivity];
         exfalso; pose proof (W_pre _ Hi a) as Wp; assert (0 < wcnt s) by (apply Wp; assumption); lia end.
Qed.

Lemma winvl_step s ac s' : WReach s -> WInvL s -> wstep s ac = Some s' -> WInvL s'.
Proof. intros R Hi H. constructor; [eapply wl_pre; eauto | eapply wl_q; eauto]. Qed.
Lemma winvl_reach s : WReach s -> WInvL s.
Proof. intro R. induction R; [apply winvl_init | eapply winvl_step; eauto]. Qed.

(* ---------------------------------------------------------------------------------------- quiescence *)
(* no actor has an enabled transition of its own: neither wait-group code nor Condvar code *)
Definition WQuiescent (s : wst) : Prop := forall a, wstep s (WStep a) = None /\ forall c, wstep s (WInner a c) = None.

Lemma winner_enabled s a c : (wpc s a = WLw \/ wpc s a = WDN) -> inner_ok a c = true -> step (wcs s) c <> None -> wstep s (WInner a c) <> None.
Proof.
  intros P Ok En. unfold wstep. rewrite Ok. destruct (step (wcs s) c); [|congruence]. destruct P as [-> | ->]; discriminate.
Qed.
Lemma wcv_enabled_inner s a : (wpc s a = WLw \/ wpc s a = WDN) -> cv_enabled (wcs s) a -> exists c, wstep s (WInner a c) <> None.
Proof. intros P (c & Ok & En). exists c. apply winner_enabled; assumption. Qed.

Lemma wbusy_class s a : WReach s -> apc (A (wcs s) a) <> Idle -> apc (A (wcs s) a) <> Dead -> wpc s a = WLw \/ wpc s a = WDN.
Proof.
  intros R NI ND. pose proof (WJ_a _ (winvj_reach _ R) a) as J.
  destruct (wpc s a); cbn in J; auto; try (destruct J as [J _]; congruence); congruence.
Qed.

(* the holder of the wait group's mutex always has an enabled transition *)
Lemma wholder_enabled s h : WReach s -> mx (wcs s) = Some h -> ~ WQuiescent s.
Proof.
  intros R M Q. destruct (Q h) as [Q1 Q2]. pose proof (wreach_reach _ R) as Rc.
  pose proof (WJ_a _ (winvj_reach _ R) h) as J. pose proof (invH_reach _ Rc h M) as Hh.
  unfold wstep in Q1. destruct (wpc s h) eqn:E; cbn in J.
  all: try (destruct J as [_ J]; congruence).
  all: try discriminate.
  all: try (destruct J as [P _]; unfold step in Q1; rewrite ?P, ?M, ?Nat.eqb_refl in Q1;
            repeat match type of Q1 with context [if ?c then _ else _] => destruct c end;
            repeat match type of Q1 with context [match wk ?s ?a with _ => _ end] => destruct (wk s a) end; discriminate).
  - destruct J as [P _]. assert (NI : apc (A (wcs s) h) <> Idle) by (intro X; rewrite X in P; destruct P as [P|[P|P]]; discriminate).
    destruct (wcv_enabled_inner s h (or_intror E) (cv_holder_progress _ _ Rc M NI)) as [c En]. apply En, Q2.
  - assert (NI : apc (A (wcs s) h) <> Idle) by (intro X; unfold in_wait in J; rewrite X in J; discriminate).
    destruct (wcv_enabled_inner s h (or_introl E) (cv_holder_progress _ _ Rc M NI)) as [c En]. apply En, Q2.
  - rewrite J in Hh. discriminate.
Qed.

(* THE QUIESCENCE THEOREM: in a quiescent state the mutex is free and every actor is outside every call, or a cancelled
   coroutine that died in Condvar::wait, or parked in the wait loop of wait() while a handle is still alive *)
Theorem wg_quiescent s : WReach s -> WQuiescent s ->
  mx (wcs s) = None /\
  forall a, wpc s a = WIdle \/ wpc s a = WGone \/
            (wpc s a = WLw /\ apc (A (wcs s) a) = WW /\ hl s <> [] /\
             unp (Bk (wcs s) (ab (A (wcs s) a))) = false /\ In (ab (A (wcs s) a)) (q (wcs s))).
Proof.
  intros R Q. pose proof (wreach_reach _ R) as Rc.
  assert (M : mx (wcs s) = None) by (destruct (mx (wcs s)) as [h|] eqn:M; [exfalso; eapply wholder_enabled; eauto | reflexivity]).
  split; [exact M|]. intro a. pose proof (WJ_a _ (winvj_reach _ R) a) as J. destruct (Q a) as [Q1 Q2].
  destruct (wpc s a) eqn:E; auto; cbn in J.
  (* control points that hold the mutex *)
  all: try (exfalso; assert (X : mx (wcs s) = Some a) by (apply wholds_mx; [exact R | rewrite E; cbn; auto]); congruence).
  (* control points in front of a lock(): enabled, the mutex is free; the return point: enabled *)
  all: try (exfalso; destruct J as [P _]; unfold wstep in Q1; rewrite E in Q1; unfold step in Q1; rewrite ?P, ?M in Q1; discriminate).
  (* WLw *)
  right. right.
  assert (NI : apc (A (wcs s) a) <> Idle) by (intro X; unfold in_wait in J; rewrite X in J; discriminate).
  assert (ND : apc (A (wcs s) a) <> Dead) by (intro X; unfold in_wait in J; rewrite X in J; discriminate).
  destruct (cv_progress _ a Rc NI ND) as [En|[[Ew [Et _]]|[_ Em]]]; [| |congruence].
  { exfalso. destruct (wcv_enabled_inner s a (or_introl E) En) as [c Ec]. apply Ec, Q2. }
  destruct (cv_parked_cases _ a Rc Ew) as [[U Iq]|[T|(x & Nx & Px)]]; [| congruence |].
  - repeat split; auto. intro Z.
    assert (C0 : wcnt s = 0) by (rewrite (wg_count_is_live_handles s R), Z; reflexivity).
    destruct (W_q _ (winvl_reach _ R) C0) as [[x Ex]|Qe].
    + assert (X : mx (wcs s) = Some x) by (apply wholds_mx; [exact R | auto]). congruence.
    + rewrite Qe in Iq. destruct Iq.
  - exfalso.
    assert (Bx : wpc s x = WLw \/ wpc s x = WDN) by (apply wbusy_class; [exact R | |]; intro X; rewrite X in Px; intuition discriminate).
    assert (En : cv_enabled (wcs s) x).
    { exists (Step x). split; [cbn; apply Nat.eqb_refl|]. unfold step. destruct Px as [P|[P|[P|P]]]; rewrite P; discriminate. }
    destruct (wcv_enabled_inner s x Bx En) as [c Ec]. apply Ec, (Q x).
Qed.

(* once every handle has been dropped no wait() stays parked: every call has returned (or its coroutine was cancelled) *)
Theorem wg_no_waiter_stranded s : WReach s -> WQuiescent s -> hl s = [] -> forall a, wpc s a = WIdle \/ wpc s a = WGone.
Proof.
  intros R Q Z a. destruct (wg_quiescent s R Q) as [_ Cl]. destruct (Cl a) as [X|[X|(_ & _ & N & _)]]; auto. congruence.
Qed.

(* "wait returns exactly when every other clone has been dropped", safety + quiescence form:
   (never early) at the return point of wait() no handle is alive and the count is zero;
   (no lost notification) in a quiescent state with no live handle nobody is inside wait();
   (only then) a waiter parked in a quiescent state is waiting for a handle that is still alive;
   a dead actor is a cancelled coroutine *)
Theorem wg_wait_returns_exactly_when_all_dropped s a : WReach s ->
  (wpc s a = WRet -> hl s = [] /\ wcnt s = 0) /\
  (WQuiescent s -> hl s = [] -> wpc s a = WIdle \/ wpc s a = WGone) /\
  (WQuiescent s -> wpc s a = WLw -> hl s <> [] /\ apc (A (wcs s) a) = WW) /\
  (wpc s a = WGone -> ccan (A (wcs s) a) = true /\ aco (A (wcs s) a) = true).
Proof.
  intro R. split; [apply wg_wait_returns_only_when_all_dropped; exact R|]. split; [intros Q Z; apply wg_no_waiter_stranded; assumption|].
  split.
  - intros Q E. destruct (wg_quiescent s R Q) as [_ Cl]. destruct (Cl a) as [X|[X|(_ & W & N & _)]]; try congruence. auto.
  - intro E. pose proof (WJ_a _ (winvj_reach _ R) a) as J. rewrite E in J. apply (dead_only_if_cancelled _ a (wreach_reach _ R) J).
Qed.

(* ---------------------------------------------------------------------------------------- non-vacuity *)
(* quiescence needs to be checked for the five shapes of an actor's own transitions only *)
Lemma wquiescent_by_cases s :
  (forall a, wstep s (WStep a) = None /\ wstep s (WInner a (Step a)) = None /\ wstep s (WInner a (Resume a)) = None /\
             wstep s (WInner a (Choose a true)) = None /\ wstep s (WInner a (Choose a false)) = None) -> WQuiescent s.
Proof.
  intros H a. destruct (H a) as (H1 & H2 & H3 & H4 & H5). split; [exact H1|]. intro c.
  destruct (inner_ok a c) eqn:Ok; [| unfold wstep; rewrite Ok; reflexivity].
  destruct c; cbn in Ok; try discriminate; apply Nat.eqb_eq in Ok; subst; auto. destruct e; auto.
Qed.

(* the creator gives a clone to actor 1 and waits: it is parked in a quiescent state while actor 1's handle is alive *)
Definition wsched_park : list waction :=
  [WClone 0; WStep 0; WStep 0; WGive 0 1] ++
  [WWait 0 false; WStep 0; WStep 0; WStep 0; WStep 0; WStep 0; WStep 0; WStep 0] ++ repeat (WInner 0 (Step 0)) 4.
Example wg_parked_while_handle_alive : exists s, wrun winit wsched_park = Some s /\ WReach s /\ WQuiescent s /\
  wpc s 0 = WLw /\ apc (A (wcs s) 0) = WW /\ hl s = [1] /\ wcnt s = 1.
Proof.
  destruct (wrun winit wsched_park) as [s|] eqn:E; [|vm_compute in E; discriminate].
  exists s. split; [reflexivity|]. split; [eapply wreach_wrun; [constructor | exact E]|].
  vm_compute in E. inversion E; subst; clear E. split; [|cbn; repeat split; reflexivity].
  apply wquiescent_by_cases. intro a. destruct a as [|[|a]]; vm_compute; repeat split; try reflexivity; match goal with |- (if ?c then _ else _) = _ => destruct c; reflexivity end.
Qed.
(* ... and after actor 1 has dropped its handle the wait has returned: everybody is outside, nothing is enabled *)
Example wg_all_returned : exists s, wrun winit (wsched ++ [WStep 0]) = Some s /\ WReach s /\ WQuiescent s /\
  hl s = [] /\ wpc s 0 = WIdle /\ wpc s 1 = WIdle /\ early s = false.
Proof.
  destruct (wrun winit (wsched ++ [WStep 0])) as [s|] eqn:E; [|vm_compute in E; discriminate].
  exists s. split; [reflexivity|]. split; [eapply wreach_wrun; [constructor | exact E]|].
  vm_compute in E. inversion E; subst; clear E. split; [|cbn; repeat split; reflexivity].
  apply wquiescent_by_cases. intro a. destruct a as [|[|a]]; vm_compute; repeat split; try reflexivity; match goal with |- (if ?c then _ else _) = _ => destruct c; reflexivity end.
Qed.
