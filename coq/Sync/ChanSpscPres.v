(* Preservation of the spsc channel invariant by every transition of the current code (fixed = true). *)
From Coq Require Import List Arith Bool Lia.
Import ListNotations.
Require Import MayV.Sync.ChanSpscModel MayV.Sync.ChanSpscInv.

Ltac use Hi := 
  pose proof (I_rc _ Hi) as Prc; pose proof (I_tslot _ Hi) as Pts; pose proof (I_kslot _ Hi) as Pks;
  pose proof (I_c1 _ Hi) as Pc1; pose proof (I_c2 _ Hi) as Pc2; pose proof (I_c3 _ Hi) as Pc3; pose proof (I_c4 _ Hi) as Pc4;
  pose proof (I_s1 _ Hi) as Ps1; pose proof (I_s2 _ Hi) as Ps2.

Lemma pres_rc s ac s' : Inv s -> step true s ac = Some s' ->
  match rp (R s') with RClear | RPark => rc (R s') = CReg | _ => True end.
Proof. intros Hi H. pose proof (I_rc _ Hi) as P. go H; fin. Qed.

Lemma pres_rdata s ac s' : Inv s -> step true s ac = Some s' ->
  rp (R s') = RClear -> match rdata (R s') with ROk _ | RDisc => True | _ => False end.
Proof. intros Hi H. pose proof (I_rdata _ Hi) as P. go H; fin. Qed.

Lemma pres_tslot s ac s' : Inv s -> step true s ac = Some s' -> treg (R s') = true -> slot s' = Some WT \/ slot s' = None.
Proof. intros Hi H. use Hi. go H; fin. Qed.

Lemma pres_kslot s ac s' : Inv s -> step true s ac = Some s' -> kreg (R s') = true -> slot s' = Some WC \/ slot s' = None.
Proof. intros Hi H. use Hi. go H; fin. Qed.

Lemma pres_c1 s ac s' : Inv s -> step true s ac = Some s' ->
  slotC s' = true -> kreg (R s') = true /\ runq s' = false /\ holdsC (Sn s') = false.
Proof. intros Hi H. use Hi. go H; fin. Qed.

Lemma pres_c2 s ac s' : Inv s -> step true s ac = Some s' -> holdsC (Sn s') = true -> kreg (R s') = true /\ runq s' = false.
Proof. intros Hi H. use Hi. go H; fin. Qed.

Lemma pres_c3 s ac s' : Inv s -> step true s ac = Some s' -> runq s' = true -> kreg (R s') = true.
Proof. intros Hi H. use Hi. go H; fin. Qed.

Lemma pres_c4 s ac s' : Inv s -> step true s ac = Some s' -> kreg (R s') = true -> slotC s' = true \/ holdsC (Sn s') = true \/ runq s' = true.
Proof. intros Hi H. use Hi. go H; fin. Qed.

Lemma pres_s1 s ac s' : Inv s -> step true s ac = Some s' ->
  match sp (Sn s') with SChk | SPush | SDrop => salive (Sn s') = true | _ => True end.
Proof. intros Hi H. use Hi. go H; fin. Qed.

Lemma pres_s2 s ac s' : Inv s -> step true s ac = Some s' ->
  (salive (Sn s') = true -> chans s' = 1) /\ (salive (Sn s') = false -> chans s' = 0).
Proof. intros Hi H. use Hi. go H; fin. Qed.

Lemma pres_s6 s ac s' : Inv s -> step true s ac = Some s' ->
  sdead (Sn s') = true -> pdrop s' = true /\ (sp (Sn s') = SChk \/ (sp (Sn s') = SIdle /\ sres (Sn s') = false)).
Proof. intros Hi H. pose proof (I_s6 _ Hi) as P. go H; fin. Qed.
