(* mpmc channel model: a blocked receiver gives up (the park of sem.wait / sem.wait_timeout answers Timeout or
   Canceled: action Fire r cancel).  Nothing is popped; a waiter that had NOT been granted just leaves the waiter
   queue; a waiter that HAD been granted the permit (the unpark lost the race against the timer / the cancel)
   passes the permit on by a post before it leaves: the permit count sv + |hold| is unchanged, so the value the
   permit stands for stays receivable by the other receivers (C06_mpmc_permits_are_values holds afterwards like
   in every reachable state).  All theorems of ChanMpmcThm / ChanMpmcDrop are proved for the model with this action. *)
From Coq Require Import List Arith Bool Lia.
Import ListNotations.
Require Import MayV.Sync.ChanMpmcModel MayV.Sync.ChanMpmcInv MayV.Sync.ChanMpmcTac MayV.Sync.ChanMpmcThm.

Theorem mpmc_giveup_pops_nothing f g c s r cn s' : step f g c s (Fire r cn) = Some s' ->
  rp (Rv s r) = WB /\ (cn = false -> rtimed (Rv s r) = true) /\
  rp (Rv s' r) = YIdle /\ rres (Rv s' r) = (if cn then RCancel else RTimeout) /\
  q s' = q s /\ sent s' = sent s /\ rlog s' = rlog s /\ drpd s' = drpd s /\ txp s' = txp s /\ rxp s' = rxp s.
Proof.
  intro H. unfold step in H. destruct (rp (Rv s r)) eqn:P; try discriminate.
  destruct (cn || rtimed (Rv s r)) eqn:G; [|discriminate].
  assert (T : cn = false -> rtimed (Rv s r) = true) by (intro X; subst cn; exact G).
  destruct (rgr (Rv s r)) eqn:Gr; inversion H; subst; unf; prj.
  - unfold post_Rv. destruct (wq s) as [|w wq'] eqn:W.
    + rewrite upd_eq. cbn. auto 12.
    + destruct (Nat.eq_dec r w) as [->|ne].
      * rewrite upd_eq. cbn. rewrite upd_eq. cbn. auto 12.
      * rewrite upd_neq by congruence. rewrite upd_eq. cbn. auto 12.
  - rewrite upd_eq. cbn. auto 12.
Qed.

(* the permit of a granted waiter that gives up is passed on: the number of permits (free ones + the ones held by
   receivers) does not change; an ungranted waiter held none *)
Theorem mpmc_giveup_passes_the_permit_on c s r cn s' : Reach true true c s -> step true true c s (Fire r cn) = Some s' ->
  sv s' + length (hold s') = sv s + length (hold s) /\
  (rgr (Rv s r) = true -> ~ In r (hold s') /\ (wq s = [] -> sv s' = S (sv s)) /\
                          (forall w t, wq s = w :: t -> In w (hold s') /\ rgr (Rv s' w) = true)).
Proof.
  intros Hr H. pose proof (inv_reach c _ Hr) as Hi. destruct (I_nd _ Hi) as (N1 & N2 & _).
  pose proof (I_R _ Hi r) as Q. unfold rinv in Q. destruct Q as (Q1 & Q2 & _).
  unfold step in H. destruct (rp (Rv s r)) eqn:P; try discriminate.
  destruct (cn || rtimed (Rv s r)); [|discriminate].
  destruct (rgr (Rv s r)) eqn:Gr; inversion H; subst; unf; prj; clear H.
  - assert (Ih : In r (hold s)) by (apply Q1; right; auto).
    pose proof (len_rm r (hold s) N1 Ih) as L.
    unfold post_sv, post_hold, post_Rv. destruct (wq s) as [|w wq'] eqn:W.
    + split; [lia|]. intros _. split; [rewrite in_rm; tauto|]. split; [reflexivity | intros; discriminate].
    + assert (Wn : w <> r).
      { intro X; subst w. assert (Hw : In r (r :: wq')) by (left; reflexivity). apply Q2 in Hw. destruct Hw. congruence. }
      cbn [length]. split; [lia|]. intros _. split.
      * cbn [In]. rewrite in_rm. intros [X|[_ X]]; congruence.
      * split; [intros; discriminate|]. intros w0 t E. inversion E; subst. split; [left; reflexivity|].
        rewrite upd_eq. cbn. reflexivity.
  - split; [reflexivity | intros; discriminate].
Qed.

(* non-vacuity: two receivers block; a send grants the first; its timer wins the race: it gives the permit back,
   the second receiver is granted and receives the value *)
Definition sch_giveup : list action :=
  [CloneRx 0 1; RStep 0;
   Recv 0 true; RStep 0; RStep 0; RStep 0;            (* try_wait fails, tx_ports 1, wait_timeout: blocked *)
   Recv 1 false; RStep 1; RStep 1; RStep 1;           (* the same: blocked behind receiver 0 *)
   Send 0; SStep 0; SStep 0; SStep 0].                (* push, post: receiver 0 is granted *)
Example granted_waiter_times_out_and_passes_the_permit_on :
  let s := run true true true init (sch_giveup ++ [Fire 0 false]) in
  Reach true true true s /\ rres (Rv s 0) = RTimeout /\ rp (Rv s 1) = WB /\ rgr (Rv s 1) = true /\ hold s = [1] /\ q s = [(0, 0)].
Proof. split; [apply reach_run; constructor | vm_compute; auto 10]. Qed.
Example the_other_receiver_gets_the_value :
  let s := run true true true init (sch_giveup ++ [Fire 0 false; RStep 1; RStep 1; RStep 1]) in
  Reach true true true s /\ rres (Rv s 1) = ROk (0, 0) /\ rlog s = [(1, (0, 0))] /\ q s = [].
Proof. split; [apply reach_run; constructor | vm_compute; auto 10]. Qed.
