(* C05 - preservation of Inv2: N1, HX *)
From Coq Require Import List Arith Bool Lia.
Import ListNotations.
Require Import MayV.Sync.MutexModel MayV.Sync.MutexInv MayV.Sync.MutexLiveInv.

Section S.
Variable isco : nat -> bool.
Notation step := (step isco).

Ltac a2_facts Hj a :=
  pose proof (HX _ Hj a); pose proof (PK _ Hj a); pose proof (Q2 _ Hj a).

Lemma pres2_N1 s ac s' : Inv s -> Inv2 s -> step s ac = Some s' -> ent s' <> [] -> holder s' <> HNone.
Proof.
  intros Hi Hj H. destruct (IG _ Hi) as (G1 & G2 & G3 & G4 & G5 & G6). pose proof (N1 _ Hj) as HN.
  step_cases H; cbn; try a_facts Hi a; num; intros; fin0.
  all: try (apply HN; intro E; rewrite E in *; cbn in *; fin0).
  all: try (exfalso; match goal with H : remove _ _ _ <> [] |- _ => apply H end;
            apply length_zero_iff_nil; rewrite remove_len by tauto; lia).
Qed.

Lemma pres2_HX s ac s' : Inv s -> Inv2 s -> step s ac = Some s' -> forall x, holder s' = HA x -> holdpc (apc (A s' x)) = true.
Proof.
  intros Hi Hj H x. pose proof (HX _ Hj x) as Hx.
  step_cases H; cbn; try destruct (actx (A s a)) eqn:Ectx; try a_facts Hi a; unfold set_pc; intros; upd_tac; cbn in *; brk; fin0.
  all: try (injection H as <-; fin0).
  all: try (match goal with H : HA _ = HA _ |- _ => injection H as ->; fin0 end).
  all: try (subst x; rewrite Epc in *; cbn in *; fin0).
Qed.
End S.
