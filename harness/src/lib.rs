//! Deterministic baton scheduler + virtual clock for the real `may` runtime (built with --cfg may_verif).
//!
//! Every OS thread that takes part (scenario threads, may workers, the timer thread) is registered
//! here; exactly one of them holds the baton at any time.  A thread runs until its next hook point
//! (`pre`), where the controller decides who runs next from a seeded PRNG.  Blocking is virtual
//! (`block`/`wake`), time advances only when nobody is runnable.  Everything is a function of
//! (scenario, strategy, seed).
use may::verif::Hooks;
use std::cell::Cell;
use std::io::Write;
use std::panic::Location;
use std::sync::{Arc, Condvar, Mutex, MutexGuard};

#[derive(Clone, Debug, PartialEq)]
pub enum TS {
    Ready,
    Blocked { key: usize, deadline: Option<u64> },
    Done,
}

pub struct T {
    pub name: String,
    pub st: TS,
    pub woken: bool,
    pub prio: u64,
    pub rt: bool,
    /// progress counter value when this runtime thread last went idle
    pub idle_mark: u64,
    pub last_loc: usize,
    pub last_val: u64,
    pub hist: [u64; 12],
    pub same_loc: u32,
    pub yielded: bool,
    /// the thread said (or showed) that it is polling: time may pass
    pub spinning: bool,
    /// coroutine whose kernel half (subscribe) this thread is executing, 0 = none
    pub kernel_of: u64,
    /// consecutive schedule points this thread passed without anybody else running
    pub streak: u32,
}

#[derive(Clone, Debug)]
pub struct Rec {
    pub tid: usize,
    pub co: u64, // coroutine id (local data address) if in coroutine context or kernel half
    pub kernel: bool,
    pub loc: Option<&'static Location<'static>>,
    pub kind: &'static str,
    pub obj: usize,
    pub val: u64,
    pub b: u64,
    pub now: u64,
    pub text: Option<String>,
}

#[derive(Clone, Copy, Debug, PartialEq)]
pub enum Strategy {
    Random,
    /// PCT with d priority change points over an estimated run length
    Pct { d: u32, len: u64 },
    /// stay on the current thread with probability (1 - 1/n)
    Sticky { n: u64 },
}

pub struct State {
    pub cur: usize,
    pub threads: Vec<T>,
    pub now: u64,
    pub rng: u64,
    pub tokens: Vec<usize>,
    pub trace: Vec<Rec>,
    pub record: bool,
    pub switches: usize,
    pub steps: u64,
    pub progress: u64,
    pub strategy: Strategy,
    pub change_points: Vec<u64>,
    pub next_low_prio: u64,
    pub hang: Option<String>,
    pub max_steps: u64,
    pub poll_io: bool,
    pub stale_polls: u32,
    pub spin_quantum: u64,
    /// file-name suffixes whose hook points are schedule points (empty = all)
    pub sched_files: Vec<&'static str>,
    pub oracle_fail: Vec<String>,
    /// preemption model: at a schedule point the running thread is descheduled for a while with probability 1/stall_n
    pub stall_n: u64,
    pub stall_ns: Vec<u64>,
    pub stalls: u32,
    pub max_stalls: u32,
    /// site-directed preemption (MAYV_STALL_AT=file-suffix:line:col:k[:ns]): the k-th time a schedule point at
    /// that source location is reached, the thread that reached it is descheduled for ns of virtual time
    /// BEFORE it performs the access (k = 0: every time, up to max_stalls)
    pub stall_at: Option<(String, u32, u32, u32, u64)>,
    pub stall_at_hits: u32,
    /// a second, independent site-directed preemption (MAYV_STALL_AT2): interleavings that need two threads held
    pub stall_at2: Option<(String, u32, u32, u32, u64)>,
    pub stall_at2_hits: u32,
    /// MAYV_TIES=1: threads due at the same virtual instant may become ready together (opt-in per scenario entry:
    /// scenario code must then not hold a real lock across a schedule point in threads with equal deadlines)
    pub wake_ties: bool,
}

pub struct Ctl {
    pub m: Mutex<State>,
    pub cv: Condvar,
}

thread_local! { static TID: Cell<usize> = const { Cell::new(usize::MAX) }; }
pub fn tid() -> usize {
    TID.with(|t| t.get())
}

fn is_poller(key: usize) -> bool {
    (may::verif::WORKER_KEY..may::verif::WORKER_KEY + 0x1000).contains(&key)
}

impl T {
    fn is_polling(&self) -> bool {
        matches!(self.st, TS::Blocked { key, .. } if is_poller(key))
    }
}

impl State {
    pub fn next_rand(&mut self) -> u64 {
        // xorshift64*
        self.rng ^= self.rng >> 12;
        self.rng ^= self.rng << 25;
        self.rng ^= self.rng >> 27;
        self.rng.wrapping_mul(0x2545F4914F6CDD1D)
    }

    fn ready(&self) -> Vec<usize> {
        (0..self.threads.len()).filter(|&i| self.threads[i].st == TS::Ready).collect()
    }

    /// pick who runs next; may advance virtual time; None = hang
    fn pick(&mut self, me: usize) -> Option<usize> {
        let mut advanced_for_spin = false;
        loop {
            let ready = self.ready();
            let mut spin_case = false;
            if !ready.is_empty() {
                // candidates: prefer threads that did not just yield
                let mut cand: Vec<usize> = ready.iter().copied().filter(|&i| !self.threads[i].yielded).collect();
                if !advanced_for_spin && ready.iter().all(|&i| self.threads[i].spinning) {
                    // everybody who can run is spinning / polling: real time would pass, so let the
                    // earliest pending deadline (a stalled thread, a timer) come due first
                    advanced_for_spin = true;
                    spin_case = true;
                    // they must run (and poll again) before time may pass for their sake a second time
                    for &i in &ready {
                        self.threads[i].spinning = false;
                    }
                } else if cand.is_empty() {
                    for &i in &ready {
                        self.threads[i].yielded = false;
                    }
                    cand = ready.clone();
                }
                if !spin_case && !advanced_for_spin {
                    // somebody who is not polling can run: polling so far has cost (almost) no time
                    self.spin_quantum = 20_000;
                }
                if !spin_case {
                let choice = match self.strategy {
                    Strategy::Random => cand[(self.next_rand() as usize) % cand.len()],
                    Strategy::Sticky { n } => {
                        if cand.contains(&me) && self.next_rand() % n != 0 {
                            me
                        } else {
                            cand[(self.next_rand() as usize) % cand.len()]
                        }
                    }
                    Strategy::Pct { .. } => {
                        // a thread that says it is polling sinks below everybody else (no starvation of low priorities)
                        for i in 0..self.threads.len() {
                            if self.threads[i].spinning && self.threads[i].yielded {
                                self.next_low_prio -= 1;
                                self.threads[i].prio = self.next_low_prio;
                            }
                        }
                        if self.change_points.contains(&self.steps) && cand.contains(&me) {
                            self.next_low_prio -= 1;
                            self.threads[me].prio = self.next_low_prio;
                        }
                        *cand.iter().max_by_key(|&&i| self.threads[i].prio).unwrap()
                    }
                };
                // a yield gives way for one scheduling decision only
                for t in self.threads.iter_mut() {
                    t.yielded = false;
                }
                return Some(choice);
                }
            }
            // nobody ready (or everybody spinning): advance time to the earliest deadline
            let mut best: Vec<(u64, usize)> = vec![];
            let mut best_nonstale: Option<u64> = None;
            for (i, t) in self.threads.iter().enumerate() {
                if let TS::Blocked { deadline: Some(d), key } = t.st {
                    let stale = is_poller(key) && t.idle_mark == self.progress && !self.poll_io;
                    if !stale {
                        if best_nonstale.map_or(true, |b| d < b) {
                            best_nonstale = Some(d);
                        }
                    }
                    best.push((d, i));
                }
            }
            if spin_case {
                // polling costs a growing quantum of virtual time, at most up to the next deadline
                let q = self.spin_quantum;
                self.spin_quantum = (q * 2).min(5_000_000);
                match best_nonstale {
                    Some(d) if d <= self.now + q => {} // the deadline comes due: fall through and wake it
                    Some(_) => {
                        self.now += q;
                        continue; // let the spinners poll again
                    }
                    None => continue, // nobody to wait for: no time passes
                }
            }
            if best.is_empty() {
                self.hang = Some("all threads blocked, no timer pending".into());
                return None;
            }
            let target = match best_nonstale {
                Some(d) => d,
                None => {
                    // only pollers that saw no progress since their last poll are left
                    if !self.poll_io || self.stale_polls > 200 {
                        self.hang = Some("only idle runtime pollers left".into());
                        return None;
                    }
                    self.stale_polls += 1;
                    best.iter().map(|x| x.0).min().unwrap()
                }
            };
            // wake one of the threads with the earliest deadline <= target (ties broken by the PRNG)
            let dmin = best.iter().filter(|x| best_nonstale.is_none() || {
                let t = &self.threads[x.1];
                !(t.is_polling() && t.idle_mark == self.progress && !self.poll_io)
            }).map(|x| x.0).min().unwrap();
            let _ = target;
            let ties: Vec<usize> = best.iter().filter(|x| x.0 == dmin).filter(|x| best_nonstale.is_none() || {
                let t = &self.threads[x.1];
                !(t.is_polling() && t.idle_mark == self.progress && !self.poll_io)
            }).map(|x| x.1).collect();
            let i = ties[(self.next_rand() as usize) % ties.len()];
            if dmin > self.now {
                self.now = dmin;
            }
            // MAYV_TIES=1: half of the time ALL the threads that are due at this instant become ready together, so that they
            // interleave at their schedule points (a timer handler racing with the event it times out); otherwise
            // one of them runs until it blocks before the next one is woken (the two serial orders).
            let all = self.wake_ties && ties.len() > 1 && self.next_rand() % 2 == 0;
            for &j in ties.iter().filter(|&&j| all || j == i) {
                let was_polling = self.threads[j].is_polling();
                self.threads[j].st = TS::Ready;
                self.threads[j].woken = false;
                if was_polling {
                    self.threads[j].idle_mark = self.progress;
                } else {
                    self.progress += 1;
                    self.stale_polls = 0;
                }
            }
        }
    }

    fn new_prio(&mut self) -> u64 {
        1_000_000 + (self.next_rand() % 1_000_000)
    }
}

impl Ctl {
    /// give the baton to the chosen thread and wait until it comes back
    fn switch<'a>(&'a self, mut g: MutexGuard<'a, State>, me: usize) -> MutexGuard<'a, State> {
        match g.pick(me) {
            Some(nxt) => {
                if nxt != me {
                    g.threads[nxt].streak = 0;
                    g.switches += 1;
                    g.cur = nxt;
                    self.cv.notify_all();
                }
            }
            None => {
                drop(g);
                self.finish_hang();
            }
        }
        while g.cur != me {
            g = self.cv.wait(g).unwrap_or_else(|e| e.into_inner());
        }
        g
    }

    fn finish_hang(&self) -> ! {
        let g = self.m.lock().unwrap_or_else(|e| e.into_inner());
        let why = g.hang.clone().unwrap_or_default();
        println!("HANG {} at t={}ns", why, g.now);
        for (i, t) in g.threads.iter().enumerate() {
            println!("  thread {i} {} {:?}", t.name, t.st);
        }
        drop(g);
        finish(self, 3)
    }

    fn cur_co(&self) -> u64 {
        co_id()
    }
}

fn co_id() -> u64 {
    may::verif::current_co_id()
}

pub static OUT: Mutex<Option<(String, i32)>> = Mutex::new(None);

/// write the trace (if requested) and leave the process
pub fn finish(ctl: &Ctl, code: i32) -> ! {
    let g = match ctl.m.lock() {
        Ok(g) => g,
        Err(p) => p.into_inner(),
    };
    for o in &g.oracle_fail {
        println!("ORACLE {o}");
    }
    let code = if code == 0 && !g.oracle_fail.is_empty() { 2 } else { code };
    if let Ok(path) = std::env::var("MAYV_TRACE") {
        let f = std::fs::File::create(&path).expect("trace file");
        let mut w = std::io::BufWriter::new(f);
        for r in &g.trace {
            let (file, line, col) = match r.loc {
                Some(l) => (l.file(), l.line(), l.column()),
                None => ("-", 0, 0),
            };
            let _ = writeln!(
                w,
                "{} {:x} {} {}:{}:{} {} {:x} {} {} {} {}",
                r.tid,
                r.co,
                r.kernel as u8,
                file,
                line,
                col,
                r.kind,
                r.obj,
                r.val,
                r.b,
                r.now,
                r.text.as_deref().unwrap_or("")
            );
        }
        let _ = w.flush();
    }
    println!(
        "END code={} vtime={} steps={} switches={} events={} threads={}",
        code,
        g.now,
        g.steps,
        g.switches,
        g.trace.len(),
        g.threads.len()
    );
    let _ = std::io::stdout().flush();
    unsafe { libc_exit(code) }
}

extern "C" {
    fn _exit(code: i32) -> !;
}
unsafe fn libc_exit(code: i32) -> ! {
    _exit(code)
}

impl Hooks for Ctl {
    fn pre(&self, loc: &'static Location<'static>, _kind: &'static str) {
        let me = tid();
        if me == usize::MAX {
            return;
        }
        let mut g = self.m.lock().unwrap_or_else(|e| e.into_inner());
        if !g.sched_files.is_empty() && !g.sched_files.iter().any(|s| loc.file().ends_with(s)) {
            return;
        }
        g.steps += 1;
        if g.steps > g.max_steps {
            g.hang = Some(format!("step budget {} exhausted (livelock?)", g.max_steps));
            drop(g);
            self.finish_hang();
        }
        // anti-spin: the same thread observing the same value at the same site three times in a row
        // (counted in `post`) is treated as polling
        if g.threads[me].same_loc >= 3 {
            g.threads[me].yielded = true;
            g.threads[me].spinning = true;
            g.threads[me].same_loc = 0;
            g.threads[me].hist = [0; 12];
        }
        // site-directed preemption
        let mut directed: Option<u64> = None;
        if let Some((f, l, c, k, ns)) = &g.stall_at {
            if loc.line() == *l && loc.column() == *c && loc.file().ends_with(f.as_str()) {
                directed = Some(*ns);
                let _ = k;
            }
        }
        if let Some(ns) = directed {
            g.stall_at_hits += 1;
            let k = g.stall_at.as_ref().map(|x| x.3).unwrap_or(1);
            if (k == 0 && g.stalls < g.max_stalls) || g.stall_at_hits == k {
                g.stalls += 1;
                let d = g.now + ns;
                g.threads[me].st = TS::Blocked { key: STALL_KEY + me, deadline: Some(d) };
                g.threads[me].woken = false;
                drop(self.switch(g, me));
                return;
            }
        }
        let mut directed2 = false;
        if let Some((f, l, c, _, _)) = &g.stall_at2 {
            directed2 = loc.line() == *l && loc.column() == *c && loc.file().ends_with(f.as_str());
        }
        if directed2 {
            g.stall_at2_hits += 1;
            let (k, ns) = g.stall_at2.as_ref().map(|x| (x.3, x.4)).unwrap_or((1, 0));
            if g.stall_at2_hits == k {
                g.stalls += 1;
                let d = g.now + ns;
                g.threads[me].st = TS::Blocked { key: STALL_KEY + me, deadline: Some(d) };
                g.threads[me].woken = false;
                drop(self.switch(g, me));
                return;
            }
        }
        // preemption: the OS takes the CPU away from this thread for some (virtual) time
        if g.stall_n > 0 && g.stalls < g.max_stalls && g.next_rand() % g.stall_n == 0 {
            g.stalls += 1;
            let k = (g.next_rand() as usize) % g.stall_ns.len();
            let d = g.now + g.stall_ns[k];
            g.threads[me].st = TS::Blocked { key: STALL_KEY + me, deadline: Some(d) };
            g.threads[me].woken = false;
            drop(self.switch(g, me));
            return;
        }
        // bounded unfairness: a thread that keeps the baton for too long (polling loop) gives way once
        g.threads[me].streak += 1;
        if g.threads[me].streak >= 48 {
            g.threads[me].yielded = true;
            g.threads[me].streak = 0;
        }
        drop(self.switch(g, me));
    }

    fn post(&self, loc: &'static Location<'static>, kind: &'static str, obj: usize, val: u64) {
        let me = tid();
        if me == usize::MAX {
            return;
        }
        let co = self.cur_co();
        let mut g = self.m.lock().unwrap_or_else(|e| e.into_inner());
        g.threads[me].yielded = false;
        let l = loc as *const _ as usize;
        // polling detection: the last 3p records (site, value) of this thread repeat with a period p <= 4
        // (p = 1: the same value at the same site three times; p > 1: e.g. a failed-CAS retry loop)
        let h = (l as u64).wrapping_mul(0x9E3779B97F4A7C15) ^ val;
        let t = &mut g.threads[me];
        t.hist.rotate_left(1);
        t.hist[11] = h;
        let mut periodic = false;
        for p in 1..=4usize {
            let n = 3 * p;
            let w = &t.hist[12 - n..];
            if w.iter().all(|x| *x != 0) && (0..n - p).all(|i| w[i] == w[i + p]) {
                periodic = true;
                break;
            }
        }
        t.last_loc = l;
        t.last_val = val;
        if periodic {
            t.same_loc = 3;
        } else {
            t.same_loc = 0;
            // not repeating itself: the thread makes progress
            t.spinning = false;
        }
        if !g.record {
            return;
        }
        let now = g.now;
        let (co, kernel) = if co != 0 { (co, false) } else { (g.threads[me].kernel_of, g.threads[me].kernel_of != 0) };
        g.trace.push(Rec { tid: me, co, kernel, loc: Some(loc), kind, obj, val, b: 0, now, text: None });
    }

    fn event(&self, name: &'static str, a: u64, b: u64) {
        let me = tid();
        if me == usize::MAX {
            return;
        }
        let co = self.cur_co();
        let mut g = self.m.lock().unwrap_or_else(|e| e.into_inner());
        match name {
            "co.resume" => {
                g.progress += 1;
                g.stale_polls = 0;
            }
            "co.yield" => g.threads[me].kernel_of = a,
            "co.subscribed" => g.threads[me].kernel_of = 0,
            _ => {}
        }
        if !g.record {
            return;
        }
        let now = g.now;
        let (co, kernel) = if co != 0 { (co, false) } else { (g.threads[me].kernel_of, g.threads[me].kernel_of != 0) };
        g.trace.push(Rec { tid: me, co, kernel, loc: None, kind: name, obj: a as usize, val: b, b: 0, now, text: None });
    }

    fn now_ns(&self) -> u64 {
        self.m.lock().unwrap_or_else(|e| e.into_inner()).now
    }

    fn block(&self, key: usize, deadline: Option<u64>) -> bool {
        let me = tid();
        if me == usize::MAX {
            panic!("unregistered thread blocks on the virtual scheduler");
        }
        let mut g = self.m.lock().unwrap_or_else(|e| e.into_inner());
        if let Some(p) = g.tokens.iter().position(|&k| k == key) {
            g.tokens.swap_remove(p);
            return true;
        }
        // a worker that waits in epoll without a timeout is still woken by the kernel when one of its descriptors
        // becomes ready; the virtual wait cannot see that, so (with real I/O in play) it polls again after a while
        let deadline = if is_poller(key) && deadline.is_none() && g.poll_io { Some(g.now + 10_000_000) } else { deadline };
        g.threads[me].st = TS::Blocked { key, deadline };
        g.threads[me].woken = false;
        g.threads[me].spinning = false;
        if is_poller(key) {
            g.threads[me].idle_mark = g.progress;
        }
        let g = self.switch(g, me);
        g.threads[me].woken
    }

    fn wake(&self, key: usize) {
        let mut g = self.m.lock().unwrap_or_else(|e| e.into_inner());
        g.progress += 1;
        g.stale_polls = 0;
        for t in g.threads.iter_mut() {
            if let TS::Blocked { key: k, .. } = t.st {
                if k == key {
                    t.st = TS::Ready;
                    t.woken = true;
                    return;
                }
            }
        }
        if !g.tokens.contains(&key) {
            g.tokens.push(key);
        }
    }

    fn clear(&self, key: usize) {
        let mut g = self.m.lock().unwrap_or_else(|e| e.into_inner());
        if let Some(p) = g.tokens.iter().position(|&k| k == key) {
            g.tokens.swap_remove(p);
        }
    }

    fn spawn(&self, name: String, f: Box<dyn FnOnce() + Send + 'static>) {
        let rt = name == "rt";
        let idx = {
            let mut g = self.m.lock().unwrap_or_else(|e| e.into_inner());
            let prio = g.new_prio();
            let n = g.threads.len();
            g.threads.push(T {
                name: if rt { format!("rt{n}") } else { name },
                st: TS::Ready,
                woken: false,
                prio,
                rt,
                idle_mark: u64::MAX,
                last_loc: 0,
                last_val: 0,
                hist: [0; 12],
                same_loc: 0,
                yielded: false,
                spinning: false,
                kernel_of: 0,
                streak: 0,
            });
            n
        };
        let ctl: &'static Ctl = unsafe { &*(self as *const Ctl) };
        std::thread::Builder::new()
            .stack_size(1 << 20)
            .spawn(move || {
                TID.with(|t| t.set(idx));
                {
                    let mut g = ctl.m.lock().unwrap_or_else(|e| e.into_inner());
                    while g.cur != idx {
                        g = ctl.cv.wait(g).unwrap_or_else(|e| e.into_inner());
                    }
                }
                let r = std::panic::catch_unwind(std::panic::AssertUnwindSafe(f));
                let mut g = ctl.m.lock().unwrap_or_else(|e| e.into_inner());
                if r.is_err() {
                    let n = g.threads[idx].name.clone();
                    g.oracle_fail.push(format!("thread-panicked {n}"));
                }
                g.threads[idx].st = TS::Done;
                g.progress += 1;
                // wake joiners
                let key = JOIN_KEY + idx;
                let mut found = false;
                for t in g.threads.iter_mut() {
                    if let TS::Blocked { key: k, .. } = t.st {
                        if k == key {
                            t.st = TS::Ready;
                            t.woken = true;
                            found = true;
                        }
                    }
                }
                if !found {
                    g.tokens.push(key);
                }
                match g.pick(idx) {
                    Some(nxt) => {
                        g.cur = nxt;
                        ctl.cv.notify_all();
                    }
                    None => {
                        drop(g);
                        ctl.finish_hang();
                    }
                }
            })
            .expect("spawn");
    }

    fn thread_key(&self) -> usize {
        0x2000 + tid()
    }

    fn yield_now(&self) {
        let me = tid();
        if me == usize::MAX {
            return std::thread::yield_now();
        }
        let mut g = self.m.lock().unwrap_or_else(|e| e.into_inner());
        g.steps += 1;
        if g.steps > g.max_steps {
            g.hang = Some(format!("step budget {} exhausted (livelock?)", g.max_steps));
            drop(g);
            self.finish_hang();
        }
        g.threads[me].yielded = true;
        g.threads[me].spinning = true;
        drop(self.switch(g, me));
    }
}

pub const JOIN_KEY: usize = 0x4000_0000;
pub const STALL_KEY: usize = 0x5000_0000;

#[derive(Clone, Debug)]
pub struct Config {
    pub seed: u64,
    pub strategy: Strategy,
    pub workers: usize,
    pub record: bool,
    pub max_steps: u64,
    pub poll_io: bool,
    pub sched_files: Vec<&'static str>,
    pub stall_n: u64,
    pub stall_ns: Vec<u64>,
    pub max_stalls: u32,
    pub stall_at: Option<(String, u32, u32, u32, u64)>,
    pub stall_at2: Option<(String, u32, u32, u32, u64)>,
}

impl Config {
    /// MAYV_SEED, MAYV_STRATEGY (random | sticky:N | pct:D:LEN), MAYV_WORKERS, MAYV_TRACE
    pub fn from_env() -> Config {
        let seed = std::env::var("MAYV_SEED").ok().and_then(|s| s.parse().ok()).unwrap_or(1u64);
        let strategy = match std::env::var("MAYV_STRATEGY").ok().as_deref() {
            None | Some("random") => Strategy::Random,
            Some(s) => {
                let p: Vec<&str> = s.split(':').collect();
                match p[0] {
                    "sticky" => Strategy::Sticky { n: p.get(1).and_then(|x| x.parse().ok()).unwrap_or(4) },
                    "pct" => Strategy::Pct {
                        d: p.get(1).and_then(|x| x.parse().ok()).unwrap_or(2),
                        len: p.get(2).and_then(|x| x.parse().ok()).unwrap_or(300),
                    },
                    _ => Strategy::Random,
                }
            }
        };
        let stall: (u64, Vec<u64>) = match std::env::var("MAYV_STALL").ok() {
            None => (0, vec![1]),
            Some(s) => {
                let p: Vec<&str> = s.split(':').collect();
                let n = p[0].parse().unwrap_or(0);
                let v: Vec<u64> = p.get(1).map(|x| x.split(',').filter_map(|y| y.parse().ok()).collect()).unwrap_or_default();
                (n, if v.is_empty() { vec![50_000, 2_000_000, 30_000_000] } else { v })
            }
        };
        let workers = std::env::var("MAYV_WORKERS").ok().and_then(|s| s.parse().ok()).unwrap_or(2usize);
        Config {
            seed,
            strategy,
            workers,
            record: std::env::var("MAYV_TRACE").is_ok(),
            max_steps: std::env::var("MAYV_MAX_STEPS").ok().and_then(|s| s.parse().ok()).unwrap_or(400_000),
            poll_io: false,
            sched_files: vec![],
            // MAYV_STALL=N:ns,ns,...  (probability 1/N per schedule point, at most MAYV_MAX_STALLS per run)
            stall_n: stall.0,
            stall_ns: stall.1,
            max_stalls: std::env::var("MAYV_MAX_STALLS").ok().and_then(|s| s.parse().ok()).unwrap_or(3),
            // MAYV_STALL_AT=file-suffix:line:col:k[:ns]
            stall_at2: std::env::var("MAYV_STALL_AT2").ok().and_then(|s| {
                let p: Vec<&str> = s.split(':').collect();
                if p.len() < 4 {
                    return None;
                }
                Some((
                    p[0].to_string(),
                    p[1].parse().ok()?,
                    p[2].parse().ok()?,
                    p[3].parse().ok()?,
                    p.get(4).and_then(|x| x.parse().ok()).unwrap_or(30_000_000),
                ))
            }),
            stall_at: std::env::var("MAYV_STALL_AT").ok().and_then(|s| {
                let p: Vec<&str> = s.split(':').collect();
                if p.len() < 4 {
                    return None;
                }
                Some((
                    p[0].to_string(),
                    p[1].parse().ok()?,
                    p[2].parse().ok()?,
                    p[3].parse().ok()?,
                    p.get(4).and_then(|x| x.parse().ok()).unwrap_or(30_000_000),
                ))
            }),
        }
    }
}

pub struct Ctx {
    pub ctl: &'static Ctl,
}

pub struct JoinH(usize);

impl Ctx {
    /// spawn a scenario thread that takes part in the schedule
    pub fn spawn<F: FnOnce() + Send + 'static>(&self, name: &str, f: F) -> JoinH {
        let n = self.ctl.m.lock().unwrap_or_else(|e| e.into_inner()).threads.len();
        self.ctl.spawn(name.to_string(), Box::new(f));
        JoinH(n)
    }
    pub fn join(&self, h: JoinH) {
        self.ctl.block(JOIN_KEY + h.0, None);
    }
    /// an API-level record in the trace (kind must be a static str; text is free)
    pub fn log(&self, kind: &'static str, a: u64, b: u64, text: Option<String>) {
        log(self.ctl, kind, a, b, text)
    }
    pub fn now(&self) -> u64 {
        self.ctl.now_ns()
    }
    /// switch trace recording on/off (e.g. off before tear-down code that no model follows)
    pub fn record(&self, on: bool) {
        let mut g = self.ctl.m.lock().unwrap_or_else(|e| e.into_inner());
        g.record = on && std::env::var("MAYV_TRACE").is_ok();
    }
    pub fn fail(&self, what: String) {
        self.ctl.m.lock().unwrap_or_else(|e| e.into_inner()).oracle_fail.push(what);
    }
    pub fn sleep_ns(&self, ns: u64) {
        let h: &dyn Hooks = self.ctl;
        h.block(usize::MAX - h.thread_key(), Some(h.now_ns() + ns));
    }
    /// a schedule point that scenario code can place between API calls
    pub fn point(&self) {
        self.ctl.yield_point();
    }
    /// the caller polls: prefer somebody else at this point
    pub fn yield_now(&self) {
        let h: &dyn Hooks = self.ctl;
        h.yield_now()
    }
    pub fn rand(&self) -> u64 {
        self.ctl.m.lock().unwrap_or_else(|e| e.into_inner()).next_rand()
    }
}

impl Ctl {
    pub fn yield_point(&self) {
        let me = tid();
        if me == usize::MAX {
            return;
        }
        let mut g = self.m.lock().unwrap_or_else(|e| e.into_inner());
        g.steps += 1;
        drop(self.switch(g, me));
    }
}

pub fn log(ctl: &Ctl, kind: &'static str, a: u64, b: u64, text: Option<String>) {
    let me = tid();
    let co = if me != usize::MAX { ctl.cur_co() } else { 0 };
    let mut g = ctl.m.lock().unwrap_or_else(|e| e.into_inner());
    if !g.record {
        return;
    }
    let now = g.now;
    g.trace.push(Rec { tid: me, co, kernel: false, loc: None, kind, obj: a as usize, val: b, b: 0, now, text });
}

static CTL: std::sync::OnceLock<&'static Ctl> = std::sync::OnceLock::new();
pub fn ctl() -> &'static Ctl {
    CTL.get().copied().expect("harness not started")
}
pub fn ctx() -> Ctx {
    Ctx { ctl: ctl() }
}

/// run a scenario on the calling (main) thread; never returns
pub fn run(cfg: Config, body: impl FnOnce(&Ctx)) -> ! {
    let mut st = State {
        cur: 0,
        threads: vec![T {
            name: "main".into(),
            st: TS::Ready,
            woken: false,
            prio: 1_500_000,
            rt: false,
            idle_mark: u64::MAX,
            last_loc: 0,
                last_val: 0,
                hist: [0; 12],
            same_loc: 0,
            yielded: false,
                spinning: false,
            kernel_of: 0,
                streak: 0,
        }],
        now: 0,
        rng: cfg.seed.wrapping_mul(0x9E3779B97F4A7C15) | 1,
        tokens: vec![],
        trace: vec![],
        record: cfg.record,
        switches: 0,
        steps: 0,
        progress: 0,
        strategy: cfg.strategy,
        change_points: vec![],
        next_low_prio: 900_000,
        hang: None,
        max_steps: cfg.max_steps,
        poll_io: cfg.poll_io,
        stale_polls: 0,
        spin_quantum: 20_000,
        // MAYV_SCHED_ALL=1: every hook point is a schedule point whatever the scenario restricted (oracle-only runs:
        // no acceptor follows a lower layer that is not atomic)
        sched_files: if std::env::var("MAYV_SCHED_ALL").is_ok() { vec![] } else { cfg.sched_files.clone() },
        oracle_fail: vec![],
        stall_n: cfg.stall_n,
        stall_ns: cfg.stall_ns.clone(),
        stalls: 0,
        max_stalls: cfg.max_stalls,
        stall_at: cfg.stall_at.clone(),
        stall_at_hits: 0,
        stall_at2: cfg.stall_at2.clone(),
        stall_at2_hits: 0,
        wake_ties: std::env::var("MAYV_TIES").map(|v| v == "1").unwrap_or(false),
    };
    for _ in 0..8 {
        st.next_rand();
    }
    if let Strategy::Pct { d, len } = cfg.strategy {
        for _ in 0..d {
            let c = 1 + st.next_rand() % len.max(1);
            st.change_points.push(c);
        }
    }
    let ctl: &'static Ctl = Box::leak(Box::new(Ctl { m: Mutex::new(st), cv: Condvar::new() }));
    let _ = CTL.set(ctl);
    TID.with(|t| t.set(0));
    may::verif::install(ctl);
    may::config().set_workers(cfg.workers).set_stack_size(0x4000);
    let c = Ctx { ctl };
    let r = std::panic::catch_unwind(std::panic::AssertUnwindSafe(|| body(&c)));
    let code = match r {
        Ok(()) => 0,
        Err(e) => {
            let msg = e.downcast_ref::<String>().cloned().or_else(|| e.downcast_ref::<&str>().map(|s| s.to_string())).unwrap_or_default();
            println!("PANIC main: {msg}");
            4
        }
    };
    finish(ctl, code)
}

pub fn arc<T>(t: T) -> Arc<T> {
    Arc::new(t)
}
