//! C09: a cancel must reach its target also when the target's Cancel still holds a STALE io registration for a
//! socket that another coroutine is using now.
//!
//! An io subscriber publishes the coroutine (`io_data.co.store`) before it registers the EventData with the
//! coroutine's Cancel (`set_io`).  If the subscriber's thread is held up in between while the event arrives on another
//! worker, the coroutine finishes the io (yield_with's `cancel.clear()` finds nothing yet), goes on, and the late
//! `set_io` leaves a registration behind that no longer belongs to a pending operation of this coroutine.
//! `CancelIoImpl::cancel` copes with an EMPTY EventData (it reports None and `CancelImpl::cancel` goes on to the co
//! slot; seeded change C09-6 broke exactly that).  This scenario fills the EventData with ANOTHER coroutine:
//!   T: recv on the shared datagram socket B (subscriber held by the directed stall), then coroutine::park()
//!   U: recv on B, after T's recv has returned                     (U's coroutine now sits in B's EventData)
//!   main: cancel(T); join(T) must return the Cancel error; U must not observe anything (it is fed afterwards)
//! Oracles: join(T) = Err(Cancel) without hanging; U returns exactly the datagram that was sent to it afterwards.
//! MAYV_FDMOD=r: B's descriptor number is r modulo the number of workers (= the selector that delivers its events)
//! and T starts on the next worker, so that the subscriber and the selector are different threads.
use mayv::*;
use std::os::unix::io::AsRawFd;
use std::sync::atomic::{AtomicUsize, Ordering};
use std::sync::Arc;

fn envn(k: &str, d: u64) -> u64 {
    std::env::var(k).ok().and_then(|s| s.parse().ok()).unwrap_or(d)
}

fn main() {
    let mut cfg = Config::from_env();
    cfg.poll_io = true;
    let workers = cfg.workers;
    let r = envn("MAYV_FDMOD", 0) as usize % workers;
    let with_u = envn("MAYV_U", 1) == 1;
    run(cfg, move |ctx| {
        for _ in 0..workers {
            let h = unsafe { may::coroutine::spawn(|| {}) };
            let _ = h.join();
        }
        // a datagram pair with one end (called B) that belongs to selector r
        let mut keep = vec![];
        let (a, b) = loop {
            let (x, y) = may::os::unix::net::UnixDatagram::pair().expect("pair");
            if y.as_raw_fd() as usize % workers == r {
                break (x, y);
            }
            if x.as_raw_fd() as usize % workers == r {
                break (y, x);
            }
            keep.push((x, y));
            if keep.len() > 16 {
                ctx.fail("no descriptor with the wanted residue".into());
                return;
            }
        };
        // MAYV_NEXT=io2: T's next blocking call is a recv on a SECOND socket C (nobody sends): the late registration of
        // B then REPLACES the registration of C
        let io2 = std::env::var("MAYV_NEXT").map(|v| v == "io2").unwrap_or(false);
        let (c_peer, c) = may::os::unix::net::UnixDatagram::pair().expect("pair");
        let c = Arc::new(c);
        let b = Arc::new(b);
        let stage = Arc::new(AtomicUsize::new(0));
        let (b2, st2, c2) = (b.clone(), stage.clone(), c.clone());
        let t = unsafe {
            may::coroutine::Builder::new().name("T".into()).id((r + 1) % workers).spawn(move || {
                let mut buf = [0u8; 16];
                st2.store(1, Ordering::SeqCst);
                match b2.recv(&mut buf) {
                    Ok(4) => {}
                    other => mayv::ctx().fail(format!("T: recv returned {other:?} instead of the 4 bytes sent")),
                }
                st2.store(2, Ordering::SeqCst);
                if io2 {
                    // nobody sends to C: only the cancel ends this
                    let _ = c2.recv(&mut buf);
                } else {
                    // nobody unparks T: only the cancel ends this
                    may::coroutine::park();
                }
                st2.store(3, Ordering::SeqCst);
            }).unwrap()
        };
        let wait_for = |v: usize, what: &str| -> bool {
            let mut n = 0u64;
            while stage.load(Ordering::SeqCst) < v {
                if n < 2000 {
                    ctx.yield_now();
                } else {
                    ctx.sleep_ns(50_000);
                }
                n += 1;
                if n > 200_000 {
                    ctx.fail(format!("{what} never happened"));
                    return false;
                }
            }
            true
        };
        if !wait_for(1, "T's recv") {
            return;
        }
        ctx.sleep_ns(1_000_000);
        a.send(b"ping").expect("send");
        if !wait_for(2, "the return of T's recv") {
            return;
        }
        // past any directed stall of T's subscriber (30 ms)
        ctx.sleep_ns(40_000_000);
        let ugot = Arc::new(AtomicUsize::new(0));
        let u = if with_u {
            let (b3, ug) = (b.clone(), ugot.clone());
            let h = unsafe {
                may::coroutine::Builder::new().name("U".into()).spawn(move || {
                    let mut buf = [0u8; 16];
                    match b3.recv(&mut buf) {
                        Ok(n) if &buf[..n] == b"for-U" => ug.store(1, Ordering::SeqCst),
                        other => mayv::ctx().fail(format!("U (never cancelled): recv returned {other:?} instead of its datagram")),
                    }
                }).unwrap()
            };
            // U is blocked in its recv by now
            ctx.sleep_ns(5_000_000);
            Some(h)
        } else {
            None
        };
        unsafe { t.coroutine().cancel() };
        match t.join() {
            Ok(()) => ctx.fail("join of the cancelled coroutine T returned Ok".into()),
            Err(e) => {
                // an ordinary panic carries a message; the payload of a cancellation is the generator's Error::Cancel
                let s = e.downcast_ref::<String>().cloned().or_else(|| e.downcast_ref::<&str>().map(|x| x.to_string()));
                if let Some(s) = s {
                    ctx.fail(format!("T ended with an ordinary panic ({s}), not with Cancel"));
                }
            }
        }
        if let Some(u) = u {
            a.send(b"for-U").expect("send");
            if u.join().is_err() {
                ctx.fail("U, which nobody cancelled, was unwound".into());
            }
            if ugot.load(Ordering::SeqCst) != 1 {
                ctx.fail("U did not get its datagram".into());
            }
        }
        drop(keep);
        drop(c_peer);
    })
}
