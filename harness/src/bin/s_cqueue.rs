//! C16 scenario: cqueue consumes each event once; select! returns a fully run arm.
//!
//! The REAL `may::cqueue` (scope / add / poll / Selector::remove / drop) and the `select!` macro run under the
//! baton scheduler.  An owner (MAYV_OWNER = co | th: a coroutine or a plain thread) opens `cqueue::scope`, adds
//! MAYV_ARMS (1..4) select coroutines and polls.  Every arm runs MAYV_ROUNDS rounds of
//!     top half (sleep to a virtual time that is the SAME for all arms with MAYV_EQ=1, seeded otherwise)
//!     es.send(round)
//!     bottom half
//! (MAYV_ROUNDS=0: forever, the arm ends only when the cqueue cancels it).  The owner polls with and without
//! timeouts (MAYV_TO = percent of timed polls), removes selectors (MAYV_REMOVE percent per poll), may leave the
//! closure while arms are pending (MAYV_EARLY percent per poll), may panic in the closure (MAYV_OPANIC), may catch
//! a panic that poll re-raised and go on (MAYV_CATCH percent); arms may panic in their top or bottom half
//! (MAYV_APANIC percent per round) and block inside the bottom half (MAYV_BBLOCK percent).  MAYV_CANCEL=1: a
//! thread cancels the owner coroutine at a seeded virtual time / hook point.
//! MAYV_MODE=select: the owner runs `select!` with MAYV_ARMS arms instead (oneshot arms made by the macro).
//! MAYV_BUSY=ns: arm i (i >= 1) is BUSY for i * ns of virtual time at the start of its first top half: it keeps its worker
//! thread without any cancellation point (the thread sleeps, not the coroutine), so a cancel of the arm (Cqueue::finish)
//! does not end it at once and the owner really parks in the final drain of cqueue::scope / select!.
//! MAYV_NOSEND=1: the arms end at once without sending; the owner naps 2 ms and goes on (with MAYV_OPANIC=100: fails
//! without having polled, so that Drop for Cqueue is the only wait for the select coroutines).
//! MAYV_CAIM=drain (with MAYV_CANCEL=1): the canceller waits until the owner has begun the final drain (the closure of
//! cqueue::scope was left / the winning arm of select! has run), then MAYV_BUSY/2 longer, and cancels the owner THERE:
//! parked in poll(None) with the cancel disabled.  The drain must go on waiting for the busy arm.
//!
//! MAYV_IDLE=1: the arms i >= 1 are IDLE: they sleep for IDLE_NS (3 s of virtual time, cancellable) at the start of their first
//! top half, and arm 0 panics at the end of its first top half (about 1 ms after it started): the owner is parked in a poll
//! by then and nothing but the end of arm 0 (its Done event) can wake it; timed polls use timeouts of 0.4 .. 1 s.
//!
//! Oracles (implementation side, independent of the Coq model):
//!  * consumed once: an event (arm, round) is returned by poll at most once, only after it was sent;
//!  * bottom half: runs only with its own top half done (tops == round + 1) and never twice (bots == round);
//!    when poll returns the event its bottom half HAS run (bots == round + 1, and finished unless it blocked);
//!  * Finished only when every added arm has ended; Timeout never before the deadline (virtual clock);
//!  * frame liveness: when `cqueue::scope` / `select!` returns or unwinds every arm has ended, and an arm that
//!    ends finds the owner's frame alive ("no arm is still executing when it returns");
//!  * select! returns the token of an arm whose top and bottom half both ran exactly once;
//!  * a panic of an arm is re-raised in the poller exactly once (never twice, never lost unless the owner
//!    itself unwinds); nobody hangs (harness), nothing aborts (exit code);
//!  * promptness of that re-raise: the first panic of an arm is re-raised by the poll that is pending when the arm ends (or
//!    the next one called): not later than PANIC_SLACK of virtual time after max(panic, call of that poll), and no poll
//!    reports Timeout while a panicked arm has been gone for longer than PANIC_SLACK without its panic re-raised
//!    (PANIC_SLACK = 200 ms exceeds the sum of the preemption stalls a run can get: 3 x 30 ms random + 30 ms directed).
//!
//! API records for the acceptor: see the binding coq/Rt/cqueue_sites.json.
use mayv::*;
use std::alloc::{GlobalAlloc, Layout, System};
use std::panic::{catch_unwind, AssertUnwindSafe};
use std::sync::atomic::{AtomicBool, AtomicU64, AtomicUsize, Ordering::SeqCst};
use std::sync::{Arc, Mutex};
use std::time::Duration;

/// never reuse an address (the virtual ThreadPark token and the trace normaliser are keyed by address)
struct Leak;
unsafe impl GlobalAlloc for Leak {
    unsafe fn alloc(&self, l: Layout) -> *mut u8 {
        System.alloc(l)
    }
    unsafe fn dealloc(&self, _p: *mut u8, _l: Layout) {}
}
#[global_allocator]
static GLOBAL: Leak = Leak;

fn envs(k: &str, d: &str) -> String {
    std::env::var(k).unwrap_or_else(|_| d.into())
}
fn envn(k: &str, d: u64) -> u64 {
    std::env::var(k).ok().and_then(|s| s.parse().ok()).unwrap_or(d)
}

const DURS: [u64; 8] = [0, 0, 1, 400_000, 1_000_000, 1_000_000, 2_500_000, 7_000_000];
const TOUTS: [u64; 5] = [1, 300_000, 1_000_000, 2_000_000, 5_000_000];
const MAXR: usize = 8;
/// MAYV_IDLE: how long an idle arm sleeps, the timeouts of the owner's timed polls
const IDLE_NS: u64 = 3_000_000_000;
const TOUTS_IDLE: [u64; 3] = [400_000_000, 600_000_000, 1_000_000_000];
/// a panic of an arm reaches the poller within this much virtual time (see the oracle list)
const PANIC_SLACK: u64 = 200_000_000;
const UNSET: u64 = u64::MAX;

#[derive(Clone)]
struct Cfg {
    arms: usize,
    rounds: usize,
    eq: bool,
    to: u64,
    remove: u64,
    early: u64,
    apanic: u64,
    opanic: u64,
    catch: u64,
    bblock: u64,
    polls: u64,
    bpanic: u64,
    o2d: bool,
    busy: u64,
    idle: bool,
    nosend: bool,
}

struct Sh {
    cfg: Cfg,
    tops: Vec<AtomicUsize>,     // top halves completed
    bots: Vec<AtomicUsize>,     // bottom halves started
    botdone: Vec<AtomicUsize>,  // bottom halves finished
    botblk: Vec<AtomicBool>,    // the bottom half in progress has blocked (poll may return before it ends)
    sendcalled: Vec<AtomicUsize>,
    sendraised: Vec<AtomicUsize>,
    consumed: Vec<Vec<AtomicUsize>>,
    started: Vec<AtomicBool>,
    ended: Vec<AtomicBool>,
    gone: Vec<AtomicBool>,      // the arm's EventSender has been dropped: its last access to the cqueue is over (cq mode)
    track_gone: AtomicBool,
    added: AtomicUsize,
    frame_alive: AtomicBool,
    arm_panics: AtomicUsize,    // user panics raised by arms
    panic_at: Vec<AtomicU64>,   // virtual time of the arm's user panic (UNSET: none)
    reraised: AtomicUsize,      // panics of arms that reached the owner (caught around poll, or left the scope)
    owner_unwound: AtomicBool,  // the owner panicked itself / was cancelled
    cancelled: AtomicBool,
    inpoll: AtomicBool,         // the owner is inside poll or leaving the scope: the only times a bottom half may start
    userpoll: AtomicBool,       // the owner is inside a poll it called from the closure
    poll_seq: AtomicUsize,      // polls started
    stale: AtomicBool,          // O2: thread::panicking() was seen set on the poller's thread while the poller was not unwinding
    draining: AtomicBool,       // the owner has begun (or is about to begin) the final drain of cqueue::scope / select!
}

struct Rng(u64);
impl Rng {
    fn new(seed: u64) -> Rng {
        let mut r = Rng(seed | 1);
        for _ in 0..8 {
            r.next();
        }
        r
    }
    fn next(&mut self) -> u64 {
        self.0 ^= self.0 >> 12;
        self.0 ^= self.0 << 25;
        self.0 ^= self.0 >> 27;
        self.0.wrapping_mul(0x2545F4914F6CDD1D) >> 8
    }
    fn pct(&mut self, p: u64) -> bool {
        self.next() % 100 < p
    }
}

fn nap(d: u64) {
    let c = mayv::ctx();
    if may::coroutine::is_coroutine() {
        may::coroutine::sleep(Duration::from_nanos(d));
    } else if d > 0 {
        c.sleep_ns(d);
    }
}
fn note_arm_panic(sh: &Arc<Sh>, i: usize) {
    sh.arm_panics.fetch_add(1, SeqCst);
    sh.panic_at[i].store(mayv::ctx().now(), SeqCst);
}
/// the arm whose panic is overdue: it panicked more than PANIC_SLACK ago and no panic of an arm has reached the owner
fn overdue_panic(sh: &Arc<Sh>, now: u64) -> Option<(usize, u64)> {
    if sh.reraised.load(SeqCst) != 0 {
        return None;
    }
    (0..sh.cfg.arms).map(|i| (i, sh.panic_at[i].load(SeqCst))).filter(|&(_, p)| p != UNSET && p + PANIC_SLACK < now).min_by_key(|&(_, p)| p)
}
/// MAYV_BUSY: the arm computes for a while: its worker THREAD is kept for i * busy ns, no cancellation point inside
fn busy_start(sh: &Arc<Sh>, i: usize) {
    if sh.cfg.busy > 0 && i > 0 {
        mayv::ctx().sleep_ns(sh.cfg.busy * i as u64);
    }
}
fn pause(r: &mut Rng) {
    let c = mayv::ctx();
    match r.next() % 4 {
        0 => {}
        1 => {
            if may::coroutine::is_coroutine() {
                may::coroutine::yield_now()
            } else {
                c.yield_now()
            }
        }
        _ => nap(DURS[(r.next() % DURS.len() as u64) as usize]),
    }
}

/// lives in the arm's closure: marks the arm ended (also when it unwinds) and checks the owner's frame
struct ArmGuard {
    sh: Arc<Sh>,
    i: usize,
    normal: bool,
    user_panic: bool,
    insend: bool,
}
impl Drop for ArmGuard {
    fn drop(&mut self) {
        let c = mayv::ctx();
        if !self.normal && !self.user_panic {
            // a Cancel raised at a cancellable point of the arm (or inside es.send)
            c.log("arm.unwind", self.i as u64, self.insend as u64, None);
        }
        if self.insend {
            self.sh.sendraised[self.i].fetch_add(1, SeqCst);
        }
        if !self.sh.frame_alive.load(SeqCst) {
            c.fail(format!("arm {} ended after the owner's frame was gone (cqueue::scope / select! had already returned)", self.i));
        }
        self.sh.ended[self.i].store(true, SeqCst);
    }
}

fn top_half(sh: &Arc<Sh>, i: usize, round: usize, r: &mut Rng, g: &mut ArmGuard) {
    let c = mayv::ctx();
    if round == 0 {
        busy_start(sh, i);
        if sh.cfg.idle && i > 0 {
            nap(IDLE_NS);
        }
    }
    let d = if sh.cfg.eq { 1_000_000 } else { DURS[(r.next() % DURS.len() as u64) as usize] };
    if sh.cfg.eq || r.pct(70) {
        nap(d);
    } else {
        pause(r);
    }
    if (r.pct(sh.cfg.apanic) && r.pct(50)) || (sh.cfg.idle && i == 0 && round == 0) {
        note_arm_panic(sh, i);
        g.user_panic = true;
        c.log("arm.panic", i as u64, 0, None);
        panic!("arm-panic-{i}");
    }
    let t = sh.tops[i].fetch_add(1, SeqCst);
    if t != round {
        c.fail(format!("arm {i}: top half {round} runs but {t} top halves were counted"));
    }
}

fn bottom_half(sh: &Arc<Sh>, i: usize, round: usize, r: &mut Rng, g: &mut ArmGuard) {
    let c = mayv::ctx();
    c.log("arm.bot", i as u64, round as u64, None);
    let (t, b) = (sh.tops[i].load(SeqCst), sh.bots[i].load(SeqCst));
    if t != round + 1 {
        c.fail(format!("arm {i}: bottom half {round} runs without its own top half (top halves done: {t})"));
    }
    if b != round {
        c.fail(format!("arm {i}: bottom half {round} runs but {b} bottom halves ran before (twice / out of order)"));
    }
    if !sh.inpoll.load(SeqCst) {
        c.fail(format!("arm {i}: bottom half {round} runs although no poll and no drain is in progress: it was not started by the consumption of its event"));
    }
    sh.botblk[i].store(false, SeqCst);
    sh.bots[i].fetch_add(1, SeqCst);
    if r.pct(sh.cfg.bblock) {
        sh.botblk[i].store(true, SeqCst);
        pause(r);
    }
    if r.pct(sh.cfg.apanic) || r.pct(sh.cfg.bpanic) {
        note_arm_panic(sh, i);
        g.user_panic = true;
        c.log("arm.panic", i as u64, 1, None);
        panic!("arm-panic-{i}");
    }
    sh.botdone[i].fetch_add(1, SeqCst);
}

/// O2 (known finding F33d): std's panic count is per OS thread; a select coroutine whose bottom half panicked while it ran inline
/// on the poller's thread and that then YIELDED while unwinding (EventSender::drop -> wait_kernel_yield) leaves it set there
fn note_stale_panicking(sh: &Arc<Sh>) {
    if sh.cfg.o2d && std::thread::panicking() && !sh.stale.swap(true, SeqCst) {
        let c = mayv::ctx();
        c.log("o2.stale", 0, 0, None);
        // the cancel arrives now, while the poller still runs on this thread (the canceller waits for the flag)
        let mut n = 0u64;
        while !sh.cancelled.load(SeqCst) && n < 100_000 {
            c.yield_now();
            n += 1;
        }
    }
}

/// what the owner checks when poll hands out an event
fn check_event(sh: &Arc<Sh>, i: usize, round: usize) {
    let c = mayv::ctx();
    if i >= sh.cfg.arms || round >= MAXR {
        c.fail(format!("poll returned an event nobody sent: token {i} extra {round}"));
        return;
    }
    if sh.consumed[i][round].fetch_add(1, SeqCst) != 0 {
        c.fail(format!("event (arm {i}, round {round}) was returned by poll twice"));
    }
    if sh.sendcalled[i].load(SeqCst) <= round {
        c.fail(format!("event (arm {i}, round {round}) was returned by poll before it was sent"));
    }
    let (b, bd) = (sh.bots[i].load(SeqCst), sh.botdone[i].load(SeqCst));
    if b != round + 1 {
        c.fail(format!("poll returned event (arm {i}, round {round}) but its bottom half has not run exactly once at that moment (bottom halves started: {b})"));
    }
    if bd != round + 1 && !sh.botblk[i].load(SeqCst) && sh.arm_panics.load(SeqCst) == 0 {
        c.fail(format!("poll returned event (arm {i}, round {round}) while its bottom half was still executing (finished: {bd})"));
    }
}

fn all_ended(sh: &Arc<Sh>) -> Option<usize> {
    let tg = sh.track_gone.load(SeqCst);
    (0..sh.added.load(SeqCst)).find(|&i| !sh.ended[i].load(SeqCst) || (tg && !sh.gone[i].load(SeqCst)))
}

/// owned by the ENVIRONMENT of the arm's closure (not by its body): dropped after the EventSender parameter, i.e. after
/// EventSender::drop has pushed the Done event, decremented cnt and woken the poller - the arm's last access to the cqueue
struct GoneGuard(Arc<Sh>, usize);
impl Drop for GoneGuard {
    fn drop(&mut self) {
        let c = mayv::ctx();
        if !self.0.frame_alive.load(SeqCst) {
            c.fail(format!("arm {} was still inside EventSender::drop (using the cqueue) after the owner's frame was gone", self.1));
        }
        self.0.gone[self.1].store(true, SeqCst);
        c.log("arm.gone", self.1 as u64, 0, None);
    }
}

struct FrameGuard(Arc<Sh>, &'static str);
impl Drop for FrameGuard {
    fn drop(&mut self) {
        let c = mayv::ctx();
        if let Some(i) = all_ended(&self.0) {
            c.fail(format!("{} left while arm {i} is still executing", self.1));
        }
        self.0.frame_alive.store(false, SeqCst);
        c.log("cq.left", 0, 0, None);
    }
}

fn payload_text(e: &Box<dyn std::any::Any + Send>) -> String {
    e.downcast_ref::<String>().cloned().or_else(|| e.downcast_ref::<&str>().map(|s| s.to_string())).unwrap_or_else(|| "non-string payload (Cancel)".into())
}

/// explicit cqueue::scope with hand written select coroutines (what cqueue_add! / cqueue_add_oneshot! expand to)
fn cq_owner(sh: &Arc<Sh>, seed: u64) {
    let c = mayv::ctx();
    let mut r = Rng::new(seed);
    let cfg = sh.cfg.clone();
    let guard = FrameGuard(sh.clone(), "cqueue::scope");
    let res = catch_unwind(AssertUnwindSafe(|| {
        may::cqueue::scope(|cq| {
            // when the closure is left (also by unwinding) the final drain begins
            struct ClosureEnd(Arc<Sh>);
            impl Drop for ClosureEnd {
                fn drop(&mut self) {
                    self.0.inpoll.store(true, SeqCst);
                    self.0.draining.store(true, SeqCst);
                }
            }
            let _ce = ClosureEnd(sh.clone());
            let mut sels = vec![];
            for i in 0..cfg.arms {
                let sh2 = sh.clone();
                let aseed = r.next();
                c.log("cq.add", i as u64, 0, None);
                sh.added.fetch_add(1, SeqCst);
                sh.track_gone.store(true, SeqCst);
                let gone = GoneGuard(sh.clone(), i);
                let s = may::go!(cq, i, move |es: may::cqueue::EventSender| {
                    let _still_in_env = &gone;
                    let c = mayv::ctx();
                    c.log("arm.start", i as u64, may::verif::current_co_id(), None);
                    let mut r = Rng::new(aseed);
                    let mut g = ArmGuard { sh: sh2.clone(), i, normal: false, user_panic: false, insend: false };
                    sh2.started[i].store(true, SeqCst);
                    if sh2.cfg.nosend {
                        // MAYV_NOSEND=1: the arm ends at once without an event: its Done event is pushed by the drop of
                        // the EventSender parameter, and the closure environment (GoneGuard) is dropped after that
                        c.log("arm.end", i as u64, 0, None);
                        g.normal = true;
                        return;
                    }
                    let mut round = 0usize;
                    loop {
                        top_half(&sh2, i, round, &mut r, &mut g);
                        sh2.sendcalled[i].fetch_add(1, SeqCst);
                        c.log("arm.send", i as u64, round as u64, None);
                        g.insend = true;
                        es.send(round);
                        g.insend = false;
                        bottom_half(&sh2, i, round, &mut r, &mut g);
                        round += 1;
                        if (sh2.cfg.rounds != 0 && round >= sh2.cfg.rounds) || round >= MAXR {
                            break;
                        }
                        c.log("arm.next", i as u64, round as u64, None);
                    }
                    c.log("arm.end", i as u64, 0, None);
                    g.normal = true;
                });
                sels.push(Some(s));
                if r.pct(30) {
                    pause(&mut r);
                }
            }
            if cfg.nosend {
                // the owner does not poll before it fails (MAYV_OPANIC=100): the Done events stay unconsumed, so the
                // only wait for the select coroutines is the one of Drop for Cqueue
                nap(2_000_000);
            }
            let mut k = 0u64;
            loop {
                if k >= cfg.polls || r.pct(cfg.early) {
                    break;
                }
                k += 1;
                if r.pct(cfg.remove) {
                    let i = (r.next() % cfg.arms as u64) as usize;
                    if let Some(s) = sels[i].take() {
                        c.log("cq.remove", i as u64, 0, None);
                        s.remove();
                    }
                }
                if r.pct(cfg.opanic) {
                    sh.owner_unwound.store(true, SeqCst);
                    c.log("cq.opanic", 0, 0, None);
                    panic!("owner-panic");
                }
                let touts: &[u64] = if cfg.idle { &TOUTS_IDLE } else { &TOUTS };
                let to = if r.pct(cfg.to) { Some(touts[(r.next() % touts.len() as u64) as usize]) } else { None };
                let t0 = c.now();
                c.log("poll.call", to.map_or(0, |d| d + 1), t0, None);
                let catch = r.pct(cfg.catch);
                note_stale_panicking(sh);
                sh.inpoll.store(true, SeqCst);
                sh.poll_seq.fetch_add(1, SeqCst);
                sh.userpoll.store(true, SeqCst);
                let pr = catch_unwind(AssertUnwindSafe(|| cq.poll(to.map(Duration::from_nanos))));
                sh.userpoll.store(false, SeqCst);
                sh.inpoll.store(false, SeqCst);
                note_stale_panicking(sh);
                let now = c.now();
                match pr {
                    Ok(Ok(ev)) => {
                        c.log("poll.ret", (ev.token + 16 * ev.extra) as u64 * 4, now, None);
                        check_event(sh, ev.token, ev.extra);
                    }
                    Ok(Err(may::cqueue::PollError::Timeout)) => {
                        c.log("poll.ret", 1, now, None);
                        match to {
                            None => c.fail("poll(None) returned Timeout".into()),
                            Some(d) => {
                                if now < t0 + d {
                                    c.fail(format!("poll returned Timeout {} ns before the deadline (called at {t0} with {d} ns, now {now})", t0 + d - now));
                                }
                                if let Some((i, p)) = overdue_panic(sh, now) {
                                    c.fail(format!("poll (called at {t0} with a timeout of {d} ns) reported Timeout at {now} although arm {i} had panicked at {p}, {} ns before: its Done event was not consumed and its panic not re-raised by the poll that was pending when the arm ended", now - p));
                                }
                            }
                        }
                    }
                    Ok(Err(may::cqueue::PollError::Finished)) => {
                        c.log("poll.ret", 2, now, None);
                        if let Some(i) = all_ended(sh) {
                            c.fail(format!("poll returned Finished while arm {i} is still executing"));
                        }
                        break;
                    }
                    Err(e) => {
                        let msg = payload_text(&e);
                        if msg.starts_with("arm-panic-") {
                            if let Some((i, p)) = overdue_panic(sh, now) {
                                if now > t0.max(p) + PANIC_SLACK {
                                    c.fail(format!("the panic of arm {i} (raised at {p}) was re-raised in the poller only at {now}, {} ns after max(panic, call of this poll at {t0}): the poll that was pending when the arm ended was not woken by its Done event", now - t0.max(p)));
                                }
                            }
                            if sh.reraised.fetch_add(1, SeqCst) != 0 {
                                c.fail(format!("a panic of a select coroutine was re-raised in the poller a second time ({msg})"));
                            }
                        }
                        if catch && msg.starts_with("arm-panic-") {
                            c.log("poll.ret", 3, now, None);
                        } else {
                            if !msg.starts_with("arm-panic-") {
                                sh.owner_unwound.store(true, SeqCst);
                            }
                            std::panic::resume_unwind(e);
                        }
                    }
                }
                if !cfg.o2d && r.pct(20) {
                    pause(&mut r);
                }
            }
            c.log("cq.close", 0, 0, None);
        })
    }));
    if let Some(i) = all_ended(sh) {
        c.fail(format!("cqueue::scope left while arm {i} is still executing"));
    }
    drop(guard);
    finish_checks(sh, res);
}

fn finish_checks(sh: &Arc<Sh>, res: std::thread::Result<()>) {
    let c = mayv::ctx();
    // every send that was not cancelled inside es.send had its bottom half run: nothing was left in the queue
    for i in 0..sh.added.load(SeqCst) {
        let (sc, b, sr) = (sh.sendcalled[i].load(SeqCst), sh.bots[i].load(SeqCst), sh.sendraised[i].load(SeqCst));
        if sc != b + sr {
            c.fail(format!("arm {i}: {sc} events sent, {b} bottom halves ran, {sr} sends were cancelled: an event was lost or run twice"));
        }
        if !sh.started[i].load(SeqCst) {
            c.fail(format!("arm {i} never ran"));
        }
    }
    let np = sh.arm_panics.load(SeqCst);
    match res {
        Ok(()) => {}
        Err(e) => {
            let msg = payload_text(&e);
            if msg.starts_with("arm-panic-") {
                // the poll that raised it was counted already when it went through the closure; a panic first seen by
                // the final drain shows up here only
                if sh.reraised.load(SeqCst) == 0 {
                    sh.reraised.fetch_add(1, SeqCst);
                }
                if np == 0 {
                    c.fail(format!("the owner got a panic nobody raised: {msg}"));
                }
            } else if msg.contains("cqueue drop unreachable") {
                // Cqueue::finish drains with poll(None): the only way out of that loop is Finished
                c.fail(format!("the final drain of cqueue::scope / select! was ended by poll(None) reporting Timeout although no time was given (cancelled: {}): the scope was left by the internal panic `{msg}` instead of waiting for its arms and returning", sh.cancelled.load(SeqCst)));
                sh.owner_unwound.store(true, SeqCst);
            } else if msg == "owner-panic" || (sh.cancelled.load(SeqCst) && e.downcast_ref::<String>().is_none() && e.downcast_ref::<&str>().is_none()) {
                // the owner's own panic, or the Cancel error of a cancelled owner (not a message)
                sh.owner_unwound.store(true, SeqCst);
            } else {
                c.fail(format!("unexpected panic out of the scope: {msg}"));
            }
        }
    }
    let rr = sh.reraised.load(SeqCst);
    if rr > 1 {
        c.fail(format!("panics of select coroutines were re-raised {rr} times"));
    }
    if np > 0 && rr == 0 && !sh.owner_unwound.load(SeqCst) {
        c.fail(format!("{np} select coroutines panicked but no panic was re-raised in the poller"));
    }
    println!("arm_panics={np} reraised={rr} owner_unwound={} vtime={}", sh.owner_unwound.load(SeqCst), c.now());
}

/// guard returned by the top half of a select! arm (bound by `_g = top => bottom`): dropped when the arm's closure ends
struct SelArm {
    sh: Arc<Sh>,
    i: usize,
    normal: bool,
    user_panic: bool,
}
impl Drop for SelArm {
    fn drop(&mut self) {
        let c = mayv::ctx();
        if !self.normal && !self.user_panic {
            c.log("arm.unwind", self.i as u64, 1, None);
            // unwound inside es.send or in the bottom half: when no bottom half ran the send was cancelled
            if self.sh.bots[self.i].load(SeqCst) == 0 {
                self.sh.sendraised[self.i].fetch_add(1, SeqCst);
            }
        }
        if !self.sh.frame_alive.load(SeqCst) {
            c.fail(format!("arm {} ended after the owner's frame was gone (select! had already returned)", self.i));
        }
        self.sh.ended[self.i].store(true, SeqCst);
    }
}
struct TopGuard(Arc<Sh>, usize, bool);
impl Drop for TopGuard {
    fn drop(&mut self) {
        if !self.2 {
            // the top half unwound (Cancel at a cancellable point): the arm ends here
            let c = mayv::ctx();
            c.log("arm.unwind", self.1 as u64, 0, None);
            if !self.0.frame_alive.load(SeqCst) {
                c.fail(format!("arm {} ended after the owner's frame was gone (select! had already returned)", self.1));
            }
            self.0.ended[self.1].store(true, SeqCst);
        }
    }
}
fn sel_top(sh: &Arc<Sh>, i: usize, seed: u64) -> SelArm {
    let c = mayv::ctx();
    c.log("arm.start", i as u64, may::verif::current_co_id(), None);
    sh.started[i].store(true, SeqCst);
    let mut r = Rng::new(seed ^ (i as u64 + 1).wrapping_mul(0x9E3779B97F4A7C15));
    let mut tg = TopGuard(sh.clone(), i, false);
    busy_start(sh, i);
    if sh.cfg.idle && i > 0 {
        nap(IDLE_NS);
    }
    let d = if sh.cfg.eq { 1_000_000 } else { DURS[(r.next() % DURS.len() as u64) as usize] };
    if sh.cfg.eq || r.pct(70) {
        nap(d);
    } else {
        pause(&mut r);
    }
    if r.pct(sh.cfg.apanic) || (sh.cfg.idle && i == 0) {
        note_arm_panic(sh, i);
        c.log("arm.panic", i as u64, 0, None);
        tg.2 = true;
        if !sh.frame_alive.load(SeqCst) {
            c.fail(format!("arm {i} ended after the owner's frame was gone (select! had already returned)"));
        }
        sh.ended[i].store(true, SeqCst);
        panic!("arm-panic-{i}");
    }
    sh.tops[i].fetch_add(1, SeqCst);
    sh.sendcalled[i].fetch_add(1, SeqCst);
    tg.2 = true;
    c.log("arm.send", i as u64, 0, None);
    SelArm { sh: sh.clone(), i, normal: false, user_panic: false }
}
fn sel_bot(sh: &Arc<Sh>, i: usize, seed: u64, g: &mut SelArm) {
    let c = mayv::ctx();
    let mut r = Rng::new(seed ^ (i as u64 + 77).wrapping_mul(0x9E3779B97F4A7C15));
    c.log("arm.bot", i as u64, 0, None);
    let (t, b) = (sh.tops[i].load(SeqCst), sh.bots[i].load(SeqCst));
    if t != 1 || b != 0 {
        c.fail(format!("select arm {i}: bottom half runs with {t} top halves done and {b} bottom halves before"));
    }
    sh.bots[i].fetch_add(1, SeqCst);
    if r.pct(sh.cfg.bblock) {
        sh.botblk[i].store(true, SeqCst);
        pause(&mut r);
    }
    if r.pct(sh.cfg.apanic) {
        note_arm_panic(sh, i);
        g.user_panic = true;
        c.log("arm.panic", i as u64, 1, None);
        panic!("arm-panic-{i}");
    }
    sh.botdone[i].fetch_add(1, SeqCst);
    c.log("arm.end", i as u64, 0, None);
    g.normal = true;
    // the winning arm has run: poll returns its event, select! leaves the closure and drains
    sh.draining.store(true, SeqCst);
}

fn select_owner(sh: &Arc<Sh>, seed: u64) {
    let c = mayv::ctx();
    let guard = FrameGuard(sh.clone(), "select!");
    sh.added.store(sh.cfg.arms, SeqCst);
    sh.inpoll.store(true, SeqCst);
    c.log("sel.call", sh.cfg.arms as u64, c.now(), None);
    let res = catch_unwind(AssertUnwindSafe(|| match sh.cfg.arms {
        1 => may::select!(mut g = sel_top(sh, 0, seed) => sel_bot(sh, 0, seed, &mut g)),
        2 => may::select!(
            mut g = sel_top(sh, 0, seed) => sel_bot(sh, 0, seed, &mut g),
            mut g = sel_top(sh, 1, seed) => sel_bot(sh, 1, seed, &mut g)
        ),
        3 => may::select!(
            mut g = sel_top(sh, 0, seed) => sel_bot(sh, 0, seed, &mut g),
            mut g = sel_top(sh, 1, seed) => sel_bot(sh, 1, seed, &mut g),
            mut g = sel_top(sh, 2, seed) => sel_bot(sh, 2, seed, &mut g)
        ),
        _ => may::select!(
            mut g = sel_top(sh, 0, seed) => sel_bot(sh, 0, seed, &mut g),
            mut g = sel_top(sh, 1, seed) => sel_bot(sh, 1, seed, &mut g),
            mut g = sel_top(sh, 2, seed) => sel_bot(sh, 2, seed, &mut g),
            mut g = sel_top(sh, 3, seed) => sel_bot(sh, 3, seed, &mut g)
        ),
    }));
    if let Some(i) = all_ended(sh) {
        c.fail(format!("select! left while arm {i} is still executing"));
    }
    if let Err(e) = &res {
        if payload_text(e).starts_with("arm-panic-") {
            let now = c.now();
            if let Some((i, p)) = overdue_panic(sh, now) {
                c.fail(format!("the panic of arm {i} (raised at {p}) left select! only at {now}, {} ns later: the poll that was pending when the arm ended was not woken by its Done event", now - p));
            }
        }
    }
    drop(guard);
    let res = match res {
        Ok(tok) => {
            c.log("sel.ret", tok as u64, c.now(), None);
            if tok >= sh.cfg.arms {
                c.fail(format!("select! returned token {tok} of no arm"));
            } else {
                let (t, b) = (sh.tops[tok].load(SeqCst), sh.bots[tok].load(SeqCst));
                if t != 1 || b != 1 {
                    c.fail(format!("select! returned token {tok} of an arm whose halves did not both run exactly once (top {t}, bottom {b})"));
                }
                if sh.botdone[tok].load(SeqCst) != 1 && !sh.botblk[tok].load(SeqCst) && sh.arm_panics.load(SeqCst) == 0 {
                    c.fail(format!("select! returned token {tok} but the bottom half of that arm has not finished"));
                }
            }
            Ok(())
        }
        Err(e) => Err(e),
    };
    finish_checks(sh, res);
}

extern "C" {
    fn signal(sig: i32, h: extern "C" fn(i32)) -> usize;
}
/// a crash of the real code (use after free ...) still leaves the trace behind: exit code 5
extern "C" fn on_segv(_s: i32) {
    println!("CRASH SIGSEGV in the code under test");
    mayv::finish(mayv::ctl(), 5);
}

fn main() {
    unsafe {
        signal(11, on_segv);
        signal(7, on_segv);
    }
    let mut cfg = Config::from_env();
    match envs("MAYV_SCHED", "narrow").as_str() {
        "narrow" => cfg.sched_files = vec!["src/cqueue.rs", "src/join.rs", "src/cancel.rs", "src/park.rs", "src/sync/blocking.rs", "src/sync/atomic_option.rs"],
        // schedule points (and preemption stalls) only at the accesses of cqueue.rs itself: the windows between them get all the attention
        "cq" => cfg.sched_files = vec!["src/cqueue.rs"],
        _ => {}
    }
    let sc = Cfg {
        arms: envn("MAYV_ARMS", 3).clamp(1, 4) as usize,
        rounds: envn("MAYV_ROUNDS", 1) as usize,
        eq: envn("MAYV_EQ", 1) == 1,
        to: envn("MAYV_TO", 0),
        remove: envn("MAYV_REMOVE", 0),
        early: envn("MAYV_EARLY", 0),
        apanic: envn("MAYV_APANIC", 0),
        opanic: envn("MAYV_OPANIC", 0),
        catch: envn("MAYV_CATCH", 0),
        bblock: envn("MAYV_BBLOCK", 0),
        polls: envn("MAYV_POLLS", 40),
        bpanic: envn("MAYV_BPANIC", 0),
        o2d: envn("MAYV_O2D", 0) == 1,
        busy: envn("MAYV_BUSY", 0),
        idle: envn("MAYV_IDLE", 0) == 1,
        nosend: envn("MAYV_NOSEND", 0) == 1,
    };
    let caim_drain = envs("MAYV_CAIM", "") == "drain";
    let owner_co = envs("MAYV_OWNER", "co") != "th";
    let cancel = envn("MAYV_CANCEL", 0) == 1;
    let select = envs("MAYV_MODE", "cq") == "select";
    match envn("MAYV_QUIET", 1) {
        1 => std::panic::set_hook(Box::new(|_| {})),
        2 => std::panic::set_hook(Box::new(|i| {
            eprintln!("PANIC-HOOK {:?} co={:x}\n{}", i.location(), may::verif::current_co_id(), std::backtrace::Backtrace::force_capture());
        })),
        _ => {}
    }
    run(cfg, move |ctx| {
        let n = sc.arms;
        let sh = Arc::new(Sh {
            cfg: sc.clone(),
            tops: (0..n).map(|_| AtomicUsize::new(0)).collect(),
            bots: (0..n).map(|_| AtomicUsize::new(0)).collect(),
            botdone: (0..n).map(|_| AtomicUsize::new(0)).collect(),
            botblk: (0..n).map(|_| AtomicBool::new(false)).collect(),
            sendcalled: (0..n).map(|_| AtomicUsize::new(0)).collect(),
            sendraised: (0..n).map(|_| AtomicUsize::new(0)).collect(),
            consumed: (0..n).map(|_| (0..MAXR).map(|_| AtomicUsize::new(0)).collect()).collect(),
            started: (0..n).map(|_| AtomicBool::new(false)).collect(),
            ended: (0..n).map(|_| AtomicBool::new(false)).collect(),
            gone: (0..n).map(|_| AtomicBool::new(false)).collect(),
            track_gone: AtomicBool::new(false),
            added: AtomicUsize::new(0),
            frame_alive: AtomicBool::new(true),
            arm_panics: AtomicUsize::new(0),
            panic_at: (0..n).map(|_| AtomicU64::new(UNSET)).collect(),
            reraised: AtomicUsize::new(0),
            owner_unwound: AtomicBool::new(false),
            cancelled: AtomicBool::new(false),
            inpoll: AtomicBool::new(false),
            userpoll: AtomicBool::new(false),
            poll_seq: AtomicUsize::new(0),
            stale: AtomicBool::new(false),
            draining: AtomicBool::new(false),
        });
        let seed = ctx.rand();
        let done = Arc::new(AtomicBool::new(false));
        let mut canceller = None;
        let outcome: Arc<Mutex<Option<bool>>> = Arc::new(Mutex::new(None));
        if owner_co {
            let (sh2, d2) = (sh.clone(), done.clone());
            let h = unsafe {
                may::coroutine::Builder::new()
                    .name("owner".into())
                    .spawn(move || {
                        struct D(Arc<AtomicBool>);
                        impl Drop for D {
                            fn drop(&mut self) {
                                self.0.store(true, SeqCst);
                            }
                        }
                        let _d = D(d2);
                        mayv::ctx().log("cq.owner", may::verif::current_co_id(), 1, None);
                        if select {
                            select_owner(&sh2, seed)
                        } else {
                            cq_owner(&sh2, seed)
                        }
                    })
                    .unwrap()
            };
            if cancel {
                let (sh2, d2) = (sh.clone(), done.clone());
                let root = h.coroutine().clone();
                let dt = DURS[(ctx.rand() % DURS.len() as u64) as usize] + [0u64, 0, 300_000, 1_000_000][(ctx.rand() % 4) as usize];
                let spins = ctx.rand() % 80;
                let o2d = sc.o2d;
                canceller = Some(ctx.spawn("canceller", move || {
                    let c = mayv::ctx();
                    if o2d {
                        // O2d variant: cancel the poller once its thread carries the stale panicking flag
                        let mut n = 0u64;
                        while !sh2.stale.load(SeqCst) && !d2.load(SeqCst) {
                            if n < 2000 {
                                c.yield_now();
                            } else {
                                c.sleep_ns(20_000);
                            }
                            n += 1;
                        }
                    } else if caim_drain {
                        // cancel the owner while it is parked in the final drain (cancel disabled there)
                        let mut n = 0u64;
                        while !sh2.draining.load(SeqCst) && !d2.load(SeqCst) {
                            if n < 2000 {
                                c.yield_now();
                            } else {
                                c.sleep_ns(20_000);
                            }
                            n += 1;
                        }
                        c.sleep_ns(sh2.cfg.busy / 2 + (dt % 1000));
                    } else if dt > 0 {
                        c.sleep_ns(dt);
                    }
                    for _ in 0..spins {
                        c.point();
                    }
                    if d2.load(SeqCst) {
                        return;
                    }
                    sh2.cancelled.store(true, SeqCst);
                    c.log("cancel.call", 0, 0, None);
                    unsafe { root.cancel() };
                    c.log("cancel.ret", 0, 0, None);
                }));
            }
            if sc.o2d {
                // watchdog: the cancelled poller neither unwinds nor blocks: it spins inside Cqueue::poll (no progress of the
                // virtual clock, no new poll) - reported and the run ended before the step budget is used up
                let (sh2, d2) = (sh.clone(), done.clone());
                ctx.spawn("watchdog", move || {
                    let c = mayv::ctx();
                    let (mut last, mut cnt) = ((0usize, 0u64), 0u64);
                    loop {
                        c.yield_now();
                        if d2.load(SeqCst) {
                            return;
                        }
                        let cur = (sh2.poll_seq.load(SeqCst), c.now());
                        if cur != last {
                            last = cur;
                            cnt = 0;
                        } else {
                            cnt += 1;
                        }
                        if cnt > 1500 && sh2.userpoll.load(SeqCst) && sh2.cancelled.load(SeqCst) {
                            if sh2.stale.load(SeqCst) {
                                c.fail(format!("O2d: the cancelled poller coroutine busy-spins inside Cqueue::poll (poll #{}, {} watchdog rounds without progress of the clock): thread::panicking() is set on its thread although it is not unwinding - a select coroutine yielded there while unwinding - so check_cancel skips the Cancel and park short-cuts", cur.0, cnt));
                            } else {
                                c.fail(format!("the cancelled poller coroutine busy-spins inside Cqueue::poll (poll #{}, {} watchdog rounds without progress of the clock) and no stale thread::panicking() flag was seen", cur.0, cnt));
                            }
                            mayv::finish(mayv::ctl(), 2);
                        }
                    }
                });
            }
            // the main thread is not an actor of the model: it does not register as a waiter while the trace is recorded
            let mut polls = 0u64;
            while !h.is_done() {
                ctx.sleep_ns(250_000);
                polls += 1;
                if polls > 400_000 {
                    ctx.fail("hang: the owner never finished (100 s of virtual time)".into());
                    return;
                }
            }
            ctx.record(false);
            let r = h.join();
            *outcome.lock().unwrap() = Some(r.is_ok());
        } else {
            let (sh2, o2) = (sh.clone(), outcome.clone());
            let t = ctx.spawn("owner", move || {
                mayv::ctx().log("cq.owner", 0, 0, None);
                let r = catch_unwind(AssertUnwindSafe(|| if select { select_owner(&sh2, seed) } else { cq_owner(&sh2, seed) }));
                *o2.lock().unwrap() = Some(r.is_ok());
            });
            ctx.join(t);
        }
        ctx.record(false);
        if let Some(t) = canceller {
            ctx.join(t);
        }
        let ok = outcome.lock().unwrap().take().expect("owner outcome");
        if !ok && !sh.cancelled.load(SeqCst) {
            ctx.fail("the owner ended with a panic although it was not cancelled (the scenario catches the panics it expects)".into());
        }
        println!("owner_ok={ok} cancelled={} vtime={}", sh.cancelled.load(SeqCst), ctx.now());
    })
}
