//! C03 scenario: the real may_queue::mpsc::Queue, k pushers x n values, one consumer mixing
//! pop (and, with MAYV_OPS=full, bulk_pop / peek / len), starting offset relative to the block boundary.
//! Oracles on the implementation: every pushed value popped exactly once, per-producer order, nothing invented.
use mayv::*;
use std::sync::atomic::{AtomicUsize, Ordering};
use std::sync::Arc;

fn envn(k: &str, d: usize) -> usize {
    std::env::var(k).ok().and_then(|s| s.parse().ok()).unwrap_or(d)
}

static DROPS: AtomicUsize = AtomicUsize::new(0);
static GOT: AtomicUsize = AtomicUsize::new(0);
struct Payload(usize);
impl Drop for Payload {
    fn drop(&mut self) {
        DROPS.fetch_add(1, Ordering::Relaxed);
    }
}

fn main() {
    let mut cfg = Config::from_env();
    cfg.sched_files = vec!["may_queue/src/mpsc.rs", "may_queue/src/atomic.rs"];
    let np = envn("MAYV_P", 2);
    let nv = envn("MAYV_N", 6);
    let off = envn("MAYV_OFF", 0);
    let full = std::env::var("MAYV_OPS").map(|s| s == "full").unwrap_or(false);
    let leave = envn("MAYV_LEAVE", 0); // values left in the queue when it is dropped
    run(cfg, move |ctx| {
        let q = Arc::new(may_queue::mpsc::Queue::<Payload>::new());
        // starting offset: sequential push/pop by main (part of the trace)
        for i in 0..off {
            let v = 100 + i;
            ctx.log("push.call", 0, v as u64, None);
            q.push(Payload(v));
            ctx.log("push.ret", 0, 0, None);
            ctx.log("pop.call", 0, 0, None);
            let r = q.pop();
            match &r {
                Some(p) => ctx.log("pop.ret", 1, p.0 as u64, None),
                None => ctx.log("pop.ret", 0, 0, None),
            }
            if r.map(|p| p.0) != Some(v) {
                ctx.fail(format!("offset phase: popped something else than {v}"));
            }
        }
        let mut hs = vec![];
        for p in 0..np {
            let q = q.clone();
            hs.push(ctx.spawn(&format!("p{p}"), move || {
                let c = mayv::ctx();
                for i in 0..nv {
                    let v = (p + 1) * 1000 + i;
                    c.log("push.call", 0, v as u64, None);
                    q.push(Payload(v));
                    c.log("push.ret", 0, 0, None);
                }
            }));
        }
        let total = np * nv;
        let want = total - leave.min(total);
        let q2 = q.clone();
        let cons = ctx.spawn("cons", move || {
            let c = mayv::ctx();
            let mut got: Vec<usize> = vec![];
            let mut peeked: Option<usize> = None;
            let mut tries = 0usize;
            while got.len() < want && tries < 200_000 {
                tries += 1;
                let mode = if full { c.rand() % 4 } else { 0 };
                match mode {
                    0 => {
                        c.log("pop.call", 0, 0, None);
                        match q2.pop() {
                            Some(p) => {
                                c.log("pop.ret", 1, p.0 as u64, None);
                                if let Some(v) = peeked.take() {
                                    if v != p.0 {
                                        c.fail(format!("peek showed {v} but the next pop returned {}", p.0));
                                    }
                                }
                                got.push(p.0);
                            }
                            None => {
                                c.log("pop.ret", 0, 0, None);
                                c.yield_now();
                            }
                        }
                    }
                    1 => {
                        c.log("bulk.call", 0, 0, None);
                        let v = q2.bulk_pop();
                        c.log("bulk.ret", v.len() as u64, v.first().map(|p| p.0).unwrap_or(0) as u64, None);
                        if let (Some(v0), Some(first)) = (peeked, v.first()) {
                            if v0 != first.0 {
                                c.fail(format!("peek showed {v0} but the next bulk_pop starts with {}", first.0));
                            }
                        }
                        if !v.is_empty() {
                            peeked = None;
                        }
                        for p in v {
                            got.push(p.0);
                        }
                    }
                    2 => {
                        c.log("len.call", 0, 0, None);
                        let l = q2.len();
                        c.log("len.ret", 0, l as u64, None);
                        if l > total {
                            c.fail(format!("len {l} exceeds everything ever pushed"));
                        }
                    }
                    _ => {
                        c.log("peek.call", 0, 0, None);
                        let r = unsafe { q2.peek() }.map(|p| p.0);
                        c.log("peek.ret", r.is_some() as u64, r.unwrap_or(0) as u64, None);
                        // the single consumer peeks: the next value it takes out must be the one it saw
                        if let Some(v) = r {
                            let pr = v / 1000;
                            if pr == 0 || pr > np || v % 1000 >= nv {
                                c.fail(format!("peek showed {v}, which was never pushed"));
                            }
                            peeked = Some(v);
                        }
                    }
                }
            }
            // oracles
            let mut seen = std::collections::HashSet::new();
            let mut last = vec![0usize; np + 2];
            for &v in &got {
                if !seen.insert(v) {
                    c.fail(format!("value {v} popped twice"));
                }
                let p = v / 1000;
                if p == 0 || p > np || v % 1000 >= nv {
                    c.fail(format!("value {v} was never pushed"));
                } else {
                    if v < last[p] {
                        c.fail(format!("producer {p}: {v} after {}", last[p]));
                    }
                    last[p] = v;
                }
            }
            if got.len() < want || got.len() > total {
                c.fail(format!("popped {} of {want} values", got.len()));
            }
            GOT.store(got.len(), Ordering::Relaxed);
        });
        for h in hs {
            ctx.join(h);
        }
        ctx.join(cons);
        ctx.record(false);
        let before = DROPS.load(Ordering::Relaxed);
        drop(q);
        let after = DROPS.load(Ordering::Relaxed);
        let left = total - GOT.load(Ordering::Relaxed);
        if after - before != left {
            ctx.fail(format!("queue drop released {} payloads, {} were left", after - before, left));
        }
        if after != off + total {
            ctx.fail(format!("{} payloads dropped in total, {} were created", after, off + total));
        }
    })
}
