//! C03 scenario: the real may_queue::mpsc::Queue, k pushers x n values, one consumer mixing
//! pop (and, with MAYV_OPS=full, bulk_pop / peek / len / is_empty), starting offset relative to the block boundary.
//!
//! MAYV_P pushers, MAYV_N values each, MAYV_OFF sequential push+pop pairs by main first (position relative to
//! the 64-slot block boundary), MAYV_LEAVE values left in the queue when it is dropped.
//! MAYV_FULL=1: the whole life of the queue is recorded for the full model (Queue::new, the allocator events
//! blk.alloc / blk.free of the block size class, Queue::drop with the payloads it drops); without it recording
//! stops before the queue is dropped (the linearisation-core acceptor does not follow the tear-down).
//! MAYV_ALLOC = fresh (default: a freed block address is never issued again, freed blocks are quarantined) |
//! reuse (the allocator re-issues the most recently freed block address: ABA on the packed tail word).
//! MAYV_ABA=1: directed ABA schedule: a pusher is descheduled between its tail load and its CAS while main does
//! MAYV_ABA_PAIRS (default 256) push+pop pairs; with MAYV_ALLOC=reuse the tail word comes back to the very value
//! the stale pusher holds (same address, same index, four blocks later) and its CAS succeeds.
//!
//! Oracles on the implementation: every pushed value obtained exactly once (pops + what Queue::drop drops),
//! nothing invented, per-producer order, real-time order of completed pushes, "empty" answers (pop None, empty
//! bulk_pop, peek None, is_empty) only when no completed push was waiting, len() between the completed pushes at
//! its call and the started pushes at its return, peek shows what the next pop returns, bulk_pop stays inside
//! one block, payload drop counter, Queue::drop drops exactly what was left, block accounting of the allocator
//! shim (every block freed exactly once, none leaked), no hooked access to a freed block (scan of the recorded
//! trace against the allocator events), nobody hangs (harness).
use mayv::*;
use std::alloc::{GlobalAlloc, Layout, System};
use std::collections::{HashMap, HashSet};
use std::sync::atomic::{AtomicBool, AtomicUsize, Ordering, Ordering::SeqCst};
use std::sync::{Arc, Mutex};

fn envn(k: &str, d: usize) -> usize {
    std::env::var(k).ok().and_then(|s| s.parse().ok()).unwrap_or(d)
}

// ---------------------------------------------------------------- allocator shim for the block size class
const BLK_SIZE: usize = 1088; // BlockNode<Payload>: 64 * (8 + 8) + next + start, align 64
const BLK_ALIGN: usize = 64;
const NLIVE: usize = 64;
static MODE: AtomicUsize = AtomicUsize::new(0); // 0 pass through, 1 fresh (freed blocks are quarantined), 2 reuse (one-element LIFO)
static LOGGING: AtomicBool = AtomicBool::new(false);
static FREE1: AtomicUsize = AtomicUsize::new(0);
static ALLOCS: AtomicUsize = AtomicUsize::new(0);
static FREES: AtomicUsize = AtomicUsize::new(0);
static REUSED: AtomicUsize = AtomicUsize::new(0);
static BADFREE: AtomicUsize = AtomicUsize::new(0);
#[allow(clippy::declare_interior_mutable_const)]
const Z: AtomicUsize = AtomicUsize::new(0);
static LIVE: [AtomicUsize; NLIVE] = [Z; NLIVE];
struct Shim;
fn live_add(p: usize) {
    for s in LIVE.iter() {
        if s.compare_exchange(0, p, SeqCst, SeqCst).is_ok() {
            return;
        }
    }
}
fn live_remove(p: usize) -> bool {
    for s in LIVE.iter() {
        if s.compare_exchange(p, 0, SeqCst, SeqCst).is_ok() {
            return true;
        }
    }
    false
}
unsafe impl GlobalAlloc for Shim {
    unsafe fn alloc(&self, l: Layout) -> *mut u8 {
        if l.size() == BLK_SIZE && l.align() == BLK_ALIGN {
            let m = MODE.load(SeqCst);
            if m != 0 {
                ALLOCS.fetch_add(1, SeqCst);
                let mut p = 0usize;
                if m == 2 {
                    p = FREE1.swap(0, SeqCst);
                    if p != 0 {
                        REUSED.fetch_add(1, SeqCst);
                    }
                }
                if p == 0 {
                    p = System.alloc(l) as usize;
                }
                live_add(p);
                if LOGGING.load(SeqCst) {
                    mayv::log(mayv::ctl(), "blk.alloc", 0, p as u64, None);
                }
                return p as *mut u8;
            }
        }
        System.alloc(l)
    }
    unsafe fn dealloc(&self, p: *mut u8, l: Layout) {
        if l.size() == BLK_SIZE && l.align() == BLK_ALIGN {
            let m = MODE.load(SeqCst);
            if m != 0 {
                FREES.fetch_add(1, SeqCst);
                if !live_remove(p as usize) {
                    // not a block that is currently allocated: double free / wild free; leave the memory alone
                    BADFREE.fetch_add(1, SeqCst);
                    return;
                }
                if LOGGING.load(SeqCst) {
                    mayv::log(mayv::ctl(), "blk.free", 0, p as usize as u64, None);
                }
                if m == 2 {
                    let old = FREE1.swap(p as usize, SeqCst);
                    if old != 0 {
                        System.dealloc(old as *mut u8, l);
                    }
                }
                // m == 1: quarantined for the rest of the (short) run, so the address cannot come back
                return;
            }
        }
        System.dealloc(p, l)
    }
}
#[global_allocator]
static GLOBAL: Shim = Shim;

// ---------------------------------------------------------------- payload
static DROPS: AtomicUsize = AtomicUsize::new(0);
static IN_QDROP: AtomicBool = AtomicBool::new(false);
static QDROPPED: Mutex<Vec<usize>> = Mutex::new(Vec::new());
static GOTV: Mutex<Vec<usize>> = Mutex::new(Vec::new());
// pushes started / completed (scenario-side counters, not part of the queue, not hooked) and a logical clock
static STARTED: AtomicUsize = AtomicUsize::new(0);
static DONE: AtomicUsize = AtomicUsize::new(0);
static STAMP: AtomicUsize = AtomicUsize::new(1);
static STAMPS: Mutex<Vec<(usize, usize, usize)>> = Mutex::new(Vec::new()); // (value, call stamp, return stamp)
struct Payload(usize);
impl Drop for Payload {
    fn drop(&mut self) {
        DROPS.fetch_add(1, Ordering::Relaxed);
        if IN_QDROP.load(SeqCst) {
            mayv::log(mayv::ctl(), "val.drop", 0, self.0 as u64, None);
            QDROPPED.lock().unwrap().push(self.0);
        }
    }
}

fn push_logged(c: &Ctx, q: &may_queue::mpsc::Queue<Payload>, v: usize, counted: bool) {
    let t0 = STAMP.fetch_add(1, SeqCst);
    if counted {
        STARTED.fetch_add(1, SeqCst);
    }
    c.log("push.call", 0, v as u64, None);
    q.push(Payload(v));
    c.log("push.ret", 0, 0, None);
    if counted {
        DONE.fetch_add(1, SeqCst);
    }
    let t1 = STAMP.fetch_add(1, SeqCst);
    STAMPS.lock().unwrap().push((v, t0, t1));
}

/// order oracles on a sequence of values in the order they left the queue
fn check_order(c: &Ctx, what: &str, seq: &[usize], np: usize, nv: usize, extra: &dyn Fn(usize) -> bool) {
    let mut seen = HashSet::new();
    let mut last = vec![0usize; np + 2];
    for &v in seq {
        if !seen.insert(v) {
            c.fail(format!("{what}: value {v} obtained twice"));
        }
        let p = v / 1000;
        if extra(v) {
            continue;
        }
        if p == 0 || p > np || v % 1000 >= nv {
            c.fail(format!("{what}: value {v} was never pushed"));
        } else {
            if v < last[p] {
                c.fail(format!("{what}: producer {p}: {v} after {}", last[p]));
            }
            last[p] = v;
        }
    }
    // real-time order: a push that returned before another one was called leaves the queue first
    let st: HashMap<usize, (usize, usize)> = STAMPS.lock().unwrap().iter().map(|&(v, a, b)| (v, (a, b))).collect();
    for i in 0..seq.len() {
        for j in i + 1..seq.len() {
            if let (Some(x), Some(y)) = (st.get(&seq[i]), st.get(&seq[j])) {
                if y.1 < x.0 {
                    c.fail(format!("{what}: {} left the queue before {} although push({}) had returned before push({}) was called", seq[i], seq[j], seq[j], seq[i]));
                    return;
                }
            }
        }
    }
}

fn main() {
    let mut cfg = Config::from_env();
    cfg.sched_files = vec!["may_queue/src/mpsc.rs", "may_queue/src/atomic.rs"];
    // always recorded in memory: the use-after-free scan below reads the trace (it is written out only with MAYV_TRACE)
    let want_trace = cfg.record;
    cfg.record = true;
    let np = envn("MAYV_P", 2);
    let nv = envn("MAYV_N", 6);
    let off = envn("MAYV_OFF", 0);
    let full = std::env::var("MAYV_OPS").map(|s| s == "full").unwrap_or(false);
    let fullrec = envn("MAYV_FULL", 0) != 0;
    let leave = envn("MAYV_LEAVE", 0); // values left in the queue when it is dropped
    let reuse = std::env::var("MAYV_ALLOC").map(|s| s == "reuse").unwrap_or(false);
    let aba = envn("MAYV_ABA", 0) != 0;
    let aba_pairs = envn("MAYV_ABA_PAIRS", 256);
    MODE.store(if reuse { 2 } else { 1 }, SeqCst);
    run(cfg, move |ctx| {
        let _ = want_trace;
        LOGGING.store(true, SeqCst);
        let a0 = ALLOCS.load(SeqCst);
        let q = Arc::new(may_queue::mpsc::Queue::<Payload>::new());
        if ALLOCS.load(SeqCst) != a0 + 2 {
            ctx.fail(format!("allocator shim: expected two block allocations of {BLK_SIZE} bytes for a new queue, saw {}", ALLOCS.load(SeqCst) - a0));
        }
        // starting offset: sequential push/pop by main (part of the trace)
        for i in 0..off {
            let v = 100 + i;
            push_logged(ctx, &q, v, false);
            ctx.log("pop.call", 0, 0, None);
            let r = q.pop();
            match &r {
                Some(p) => ctx.log("pop.ret", 1, p.0 as u64, None),
                None => ctx.log("pop.ret", 0, 0, None),
            }
            if r.map(|p| p.0) != Some(v) {
                ctx.fail(format!("offset phase: popped something else than {v}"));
            }
        }
        let mut created = off;
        if aba {
            created += aba_phase(ctx, &q, off, aba_pairs);
        }
        let mut hs = vec![];
        for p in 0..np {
            let q = q.clone();
            hs.push(ctx.spawn(&format!("p{p}"), move || {
                let c = mayv::ctx();
                for i in 0..nv {
                    let v = (p + 1) * 1000 + i;
                    push_logged(&c, &q, v, true);
                }
            }));
        }
        let total = np * nv;
        let want = total - leave.min(total);
        let q2 = q.clone();
        let pos0 = off + if aba { aba_pairs + 1 } else { 0 };
        let cons = ctx.spawn("cons", move || {
            let c = mayv::ctx();
            let mut got: Vec<usize> = vec![];
            let mut peeked: Option<usize> = None;
            let mut tries = 0usize;
            while got.len() < want && tries < 200_000 {
                tries += 1;
                let mode = if full { c.rand() % (if fullrec { 5 } else { 4 }) } else { 0 };
                let done0 = DONE.load(SeqCst);
                match mode {
                    0 => {
                        c.log("pop.call", 0, 0, None);
                        match q2.pop() {
                            Some(p) => {
                                c.log("pop.ret", 1, p.0 as u64, None);
                                if let Some(v) = peeked.take() {
                                    if v != p.0 {
                                        c.fail(format!("peek showed {v} but the next pop returned {}", p.0));
                                    }
                                }
                                got.push(p.0);
                            }
                            None => {
                                c.log("pop.ret", 0, 0, None);
                                if done0 > got.len() {
                                    c.fail(format!("pop returned None although {} completed pushes were waiting during the whole call", done0 - got.len()));
                                }
                                c.yield_now();
                            }
                        }
                    }
                    1 => {
                        c.log("bulk.call", 0, 0, None);
                        let v = q2.bulk_pop();
                        for (i, p) in v.iter().enumerate() {
                            c.log("bulk.item", i as u64, p.0 as u64, None);
                        }
                        c.log("bulk.ret", v.len() as u64, v.first().map(|p| p.0).unwrap_or(0) as u64, None);
                        if let (Some(v0), Some(first)) = (peeked, v.first()) {
                            if v0 != first.0 {
                                c.fail(format!("peek showed {v0} but the next bulk_pop starts with {}", first.0));
                            }
                        }
                        if !v.is_empty() {
                            peeked = None;
                        } else if done0 > got.len() {
                            c.fail(format!("bulk_pop returned nothing although {} completed pushes were waiting during the whole call", done0 - got.len()));
                        }
                        let pos = pos0 + got.len();
                        if v.len() > 64 - pos % 64 {
                            c.fail(format!("bulk_pop returned {} values from position {pos}: more than the rest of the block", v.len()));
                        }
                        for p in v {
                            got.push(p.0);
                        }
                    }
                    2 => {
                        c.log("len.call", 0, 0, None);
                        let l = q2.len();
                        c.log("len.ret", 0, l as u64, None);
                        if l > total {
                            c.fail(format!("len {l} exceeds everything ever pushed"));
                        }
                        let started1 = STARTED.load(SeqCst);
                        if l + got.len() < done0 || l + got.len() > started1 {
                            c.fail(format!("len {l} outside [{}, {}] = [completed pushes at call, started pushes at return] - popped", done0 - got.len().min(done0), started1 - got.len()));
                        }
                    }
                    3 => {
                        c.log("peek.call", 0, 0, None);
                        let r = unsafe { q2.peek() }.map(|p| p.0);
                        c.log("peek.ret", r.is_some() as u64, r.unwrap_or(0) as u64, None);
                        // the single consumer peeks: the next value it takes out must be the one it saw
                        if let Some(v) = r {
                            let pr = v / 1000;
                            if pr == 0 || pr > np || v % 1000 >= nv {
                                c.fail(format!("peek showed {v}, which was never pushed"));
                            }
                            peeked = Some(v);
                        } else if done0 > got.len() {
                            c.fail(format!("peek returned None although {} completed pushes were waiting", done0 - got.len()));
                        }
                    }
                    _ => {
                        c.log("empty.call", 0, 0, None);
                        let e = q2.is_empty();
                        c.log("empty.ret", 0, e as u64, None);
                        let started1 = STARTED.load(SeqCst);
                        if e && done0 > got.len() {
                            c.fail(format!("is_empty although {} completed pushes were waiting", done0 - got.len()));
                        }
                        if !e && started1 <= got.len() {
                            c.fail("is_empty = false although every push ever started had been popped".to_string());
                        }
                    }
                }
            }
            // oracles
            check_order(&c, "popped", &got, np, nv, &|_| false);
            if got.len() < want || got.len() > total {
                c.fail(format!("popped {} of {want} values", got.len()));
            }
            *GOTV.lock().unwrap() = got;
        });
        for h in hs {
            ctx.join(h);
        }
        ctx.join(cons);
        created += total;
        if !fullrec {
            ctx.record(false);
        }
        let before = DROPS.load(Ordering::Relaxed);
        ctx.log("drop.call", 0, 0, None);
        IN_QDROP.store(true, SeqCst);
        drop(q);
        IN_QDROP.store(false, SeqCst);
        ctx.log("drop.ret", 0, 0, None);
        let after = DROPS.load(Ordering::Relaxed);
        let got = GOTV.lock().unwrap().clone();
        let left = total - got.len();
        if after - before != left {
            ctx.fail(format!("queue drop released {} payloads, {} were left", after - before, left));
        }
        if after != created {
            ctx.fail(format!("{} payloads dropped in total, {} were created", after, created));
        }
        // what Queue::drop dropped is exactly what was never popped, once each, in queue order
        let qd = QDROPPED.lock().unwrap().clone();
        let gs: HashSet<usize> = got.iter().cloned().collect();
        for v in &qd {
            if gs.contains(v) {
                ctx.fail(format!("Queue::drop dropped {v}, which had been popped"));
            }
        }
        if qd.len() != left {
            ctx.fail(format!("Queue::drop dropped {} payloads one by one, {} were left", qd.len(), left));
        }
        check_order(ctx, "dropped by Queue::drop", &qd, np, nv, &|_| false);
        // block accounting
        let (al, fr, bf) = (ALLOCS.load(SeqCst) - a0, FREES.load(SeqCst), BADFREE.load(SeqCst));
        if bf != 0 {
            ctx.fail(format!("block accounting: {bf} frees of a block that was not allocated (double free)"));
        }
        if al != fr {
            ctx.fail(format!("block accounting: {al} blocks allocated, {fr} freed"));
        }
        LOGGING.store(false, SeqCst);
        uaf_scan(ctx);
        if reuse {
            println!("NOTE reused={}", REUSED.load(SeqCst));
        }
    })
}

/// every hooked access of mpsc.rs must hit memory that is not inside a freed block (freed = blk.free seen,
/// no later blk.alloc of the same address)
fn uaf_scan(ctx: &Ctx) {
    let g = ctx.ctl.m.lock().unwrap_or_else(|e| e.into_inner());
    let mut freed: Vec<usize> = vec![];
    let mut bad: Option<String> = None;
    for r in g.trace.iter() {
        match r.loc {
            None => {
                if r.kind == "blk.free" {
                    freed.push(r.val as usize);
                } else if r.kind == "blk.alloc" {
                    freed.retain(|a| *a != r.val as usize);
                }
            }
            Some(l) => {
                if !l.file().ends_with("may_queue/src/mpsc.rs") {
                    continue;
                }
                if let Some(a) = freed.iter().find(|a| r.obj >= **a && r.obj < **a + BLK_SIZE) {
                    bad = Some(format!(
                        "use after free: {} at {}:{}:{} by thread {} touches offset {} of the freed block {:#x}",
                        r.kind,
                        l.file(),
                        l.line(),
                        l.column(),
                        r.tid,
                        r.obj - *a,
                        a
                    ));
                    break;
                }
            }
        }
    }
    drop(g);
    if let Some(b) = bad {
        ctx.fail(b);
    }
}

/// Directed ABA schedule.  A pusher thread loads the tail word and is descheduled right before its CAS (the site is
/// found in the trace of the offset phase, so no line number is wired in); main then does `pairs` push+pop pairs, which
/// retire blocks; with the reusing allocator the fifth block of the chain lives at the address of the first one, so
/// after 4 * 64 pairs the tail word is bit for bit the value the stale pusher holds and its CAS succeeds.
fn aba_phase(ctx: &Ctx, q: &Arc<may_queue::mpsc::Queue<Payload>>, off: usize, pairs: usize) -> usize {
    let site = {
        let g = ctx.ctl.m.lock().unwrap_or_else(|e| e.into_inner());
        g.trace.iter().find_map(|r| match r.loc {
            Some(l) if r.kind == "cas" && l.file().ends_with("may_queue/src/mpsc.rs") => Some((l.file().to_string(), l.line(), l.column())),
            _ => None,
        })
    };
    let (f, l, c) = match site {
        Some(s) => s,
        None => {
            ctx.fail("ABA schedule needs MAYV_OFF >= 1 (the CAS site is taken from the offset phase)".to_string());
            return 0;
        }
    };
    {
        let mut g = ctx.ctl.m.lock().unwrap_or_else(|e| e.into_inner());
        g.stall_at = Some((f, l, c, 1, 3_000_000_000));
        g.stall_at_hits = 0;
    }
    let q1 = q.clone();
    let stale = ctx.spawn("stale", move || {
        let c = mayv::ctx();
        push_logged(&c, &q1, 900, false);
    });
    // let the stale pusher run up to its CAS (it is descheduled there for a long virtual time)
    ctx.sleep_ns(1000);
    for i in 0..pairs {
        let v = 300 + i;
        push_logged(ctx, q, v, false);
        ctx.log("pop.call", 0, 0, None);
        let r = q.pop();
        match &r {
            Some(p) => ctx.log("pop.ret", 1, p.0 as u64, None),
            None => ctx.log("pop.ret", 0, 0, None),
        }
        if r.map(|p| p.0) != Some(v) {
            ctx.fail(format!("ABA phase: popped something else than {v}"));
        }
    }
    ctx.join(stale);
    // how many CAS attempts did the stale pusher need?  exactly one = its stale tail word was accepted
    let ncas = {
        let g = ctx.ctl.m.lock().unwrap_or_else(|e| e.into_inner());
        let tid = g.threads.iter().position(|t| t.name == "stale").unwrap_or(usize::MAX);
        g.trace.iter().filter(|r| r.tid == tid && r.kind == "cas").count()
    };
    println!("NOTE aba_cas_attempts={ncas} pairs={pairs} off={off} reused={}", REUSED.load(SeqCst));
    ctx.log("pop.call", 0, 0, None);
    let r = q.pop();
    match &r {
        Some(p) => ctx.log("pop.ret", 1, p.0 as u64, None),
        None => ctx.log("pop.ret", 0, 0, None),
    }
    if r.map(|p| p.0) != Some(900) {
        ctx.fail("ABA phase: the value of the stale pusher was not the next one popped".to_string());
    }
    pairs + 1
}
