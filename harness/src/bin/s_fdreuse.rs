//! C17 / C18: a socket is deregistered from its selector BEFORE its descriptor is closed.
//!
//! The I/O model (coq/Io/IoModel.v) identifies a socket with its registration: an event for a descriptor is
//! delivered to the EventData registered for it.  That only holds if `IoData::drop -> Selector::del_fd`
//! (EPOLL_CTL_DEL by descriptor NUMBER) runs while the number still belongs to the socket being dropped: once the
//! descriptor is closed the kernel hands the number to the next socket created by any thread, and a late
//! EPOLL_CTL_DEL then removes the registration of that new socket; its reader is never resumed again.
//! (The static tie pins the field = drop order of TcpStream / TcpListener / UdpSocket / CoIo; this scenario gives
//! the failing input.)
//!
//! Per round: coroutine A owns socket V and drops it; coroutine B (another worker) creates socket W right after
//! A announced the drop and blocks in a read on W; the data for W is sent much later.  The check's directed runs
//! hold A's thread at the first hooked access of `Selector::del_fd` (MAYV_STALL_AT), i.e. inside the drop.
//! Oracles: B's read returns the data that was sent (otherwise: lost registration); no hang.
//! MAYV_SOCK = udp | tcp.
use mayv::*;
use std::io::{Read, Write};
use std::os::unix::io::AsRawFd;
use std::sync::atomic::{AtomicBool, AtomicI64, Ordering};
use std::sync::Arc;

fn envn(k: &str, d: u64) -> u64 {
    std::env::var(k).ok().and_then(|s| s.parse().ok()).unwrap_or(d)
}

enum Sock {
    Udp(may::net::UdpSocket),
    Tcp(may::net::TcpStream),
}

fn std_accept(ctx: &Ctx, l: &std::net::TcpListener) -> Option<std::net::TcpStream> {
    for _ in 0..2000 {
        match l.accept() {
            Ok((s, _)) => return Some(s),
            Err(e) if e.kind() == std::io::ErrorKind::WouldBlock => ctx.sleep_ns(1_000_000),
            Err(_) => return None,
        }
    }
    None
}

fn main() {
    let mut cfg = Config::from_env();
    cfg.poll_io = true;
    let workers = cfg.workers;
    let tcp = std::env::var("MAYV_SOCK").map(|s| s == "tcp").unwrap_or(false);
    let rounds = envn("MAYV_ROUNDS", 3);
    let late = envn("MAYV_LATE", 80_000_000);
    run(cfg, move |ctx| {
        // every worker leaves its first (untimed) select before the scenario starts, see s_io.rs
        for _ in 0..workers {
            let h = unsafe { may::coroutine::spawn(|| {}) };
            let _ = h.join();
        }
        let lst = std::net::TcpListener::bind("127.0.0.1:0").expect("bind");
        lst.set_nonblocking(true).unwrap();
        let laddr = lst.local_addr().unwrap();
        for r in 0..rounds {
            let go = Arc::new(AtomicBool::new(false));
            let dropping = Arc::new(AtomicBool::new(false));
            let vfd = Arc::new(AtomicI64::new(-1));
            let wfd = Arc::new(AtomicI64::new(-1));
            let waddr = Arc::new(std::sync::Mutex::new(None::<std::net::SocketAddr>));
            let got = Arc::new(AtomicI64::new(-1));
            // A: owns V, drops it when told to
            let (go2, dr2, vfd2) = (go.clone(), dropping.clone(), vfd.clone());
            let a = unsafe {
                may::coroutine::Builder::new().name(format!("r{r}.A")).spawn(move || {
                    let v = if tcp {
                        Sock::Tcp(may::net::TcpStream::connect(laddr).expect("connect V"))
                    } else {
                        Sock::Udp(may::net::UdpSocket::bind("127.0.0.1:0").expect("bind V"))
                    };
                    vfd2.store(match &v { Sock::Udp(s) => s.as_raw_fd(), Sock::Tcp(s) => s.as_raw_fd() } as i64, Ordering::SeqCst);
                    while !go2.load(Ordering::SeqCst) {
                        may::coroutine::yield_now();
                    }
                    dr2.store(true, Ordering::SeqCst);
                    drop(v);
                }).unwrap()
            };
            while vfd.load(Ordering::SeqCst) < 0 {
                ctx.sleep_ns(200_000);
            }
            let peer_v = if tcp { std_accept(ctx, &lst) } else { None };
            // B: creates W as soon as A is inside the drop of V, then blocks reading W
            let (dr3, wfd3, wa3, got3) = (dropping.clone(), wfd.clone(), waddr.clone(), got.clone());
            let b = unsafe {
                may::coroutine::Builder::new().name(format!("r{r}.B")).spawn(move || {
                    while !dr3.load(Ordering::SeqCst) {
                        may::coroutine::yield_now();
                    }
                    // a little virtual time, so that the other worker is well inside the drop
                    may::coroutine::sleep(std::time::Duration::from_micros(300));
                    let mut buf = [0u8; 16];
                    if tcp {
                        let mut w = may::net::TcpStream::connect(laddr).expect("connect W");
                        wfd3.store(w.as_raw_fd() as i64, Ordering::SeqCst);
                        match w.read(&mut buf) {
                            Ok(n) => got3.store(n as i64, Ordering::SeqCst),
                            Err(_) => got3.store(-2, Ordering::SeqCst),
                        }
                    } else {
                        let w = may::net::UdpSocket::bind("127.0.0.1:0").expect("bind W");
                        *wa3.lock().unwrap() = w.local_addr().ok();
                        wfd3.store(w.as_raw_fd() as i64, Ordering::SeqCst);
                        match w.recv_from(&mut buf) {
                            Ok((n, _)) => got3.store(n as i64, Ordering::SeqCst),
                            Err(_) => got3.store(-2, Ordering::SeqCst),
                        }
                    }
                }).unwrap()
            };
            go.store(true, Ordering::SeqCst);
            let mut n = 0;
            while wfd.load(Ordering::SeqCst) < 0 {
                ctx.sleep_ns(500_000);
                n += 1;
                if n > 2000 {
                    ctx.fail(format!("round {r}: B did not get its socket: its bind / connect never returned (a blocked connect whose descriptor was recycled from the concurrently dropped V lost its registration?)"));
                    return;
                }
            }
            let peer_w = if tcp { std_accept(ctx, &lst) } else { None };
            // the data comes late: B is blocked by then, and the drop of V is over
            ctx.sleep_ns(late);
            if tcp {
                match peer_w {
                    Some(mut p) => {
                        p.write_all(b"ping").unwrap();
                        std::mem::forget(p); // keep the connection open: no EOF event that could mask a lost registration
                    }
                    None => {
                        ctx.fail(format!("round {r}: connection of W never arrived at the listener"));
                        return;
                    }
                }
            } else {
                let s = std::net::UdpSocket::bind("127.0.0.1:0").unwrap();
                let to = waddr.lock().unwrap().expect("addr of W");
                s.send_to(b"ping", to).unwrap();
            }
            let mut n = 0;
            while got.load(Ordering::SeqCst) == -1 {
                ctx.sleep_ns(1_000_000);
                n += 1;
                if n > 400 {
                    ctx.fail(format!(
                        "round {r}: 4 bytes were sent to socket W (fd {}) but its blocked {} was never resumed: the registration of the descriptor was lost (V had fd {}, dropped concurrently)",
                        wfd.load(Ordering::SeqCst),
                        if tcp { "read" } else { "recv_from" },
                        vfd.load(Ordering::SeqCst)
                    ));
                    return;
                }
            }
            if got.load(Ordering::SeqCst) != 4 {
                ctx.fail(format!("round {r}: read on W returned {} instead of the 4 bytes sent", got.load(Ordering::SeqCst)));
            }
            let _ = a.join();
            let _ = b.join();
            drop(peer_v);
        }
    })
}
