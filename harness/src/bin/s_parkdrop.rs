//! Finding F12 demonstration: a coroutine that is resumed by Park::subscribe itself (unpark raced with
//! the registration: fast wake-up) and then finishes while nobody else holds its handle deadlocks the
//! worker: Park::drop waits for the kernel guard that the nested subscribe frame still holds.
use mayv::*;
use std::sync::atomic::{AtomicBool, Ordering};
use std::sync::Arc;

fn main() {
    let cfg = Config::from_env();
    run(cfg, |ctx| {
        let done = Arc::new(AtomicBool::new(false));
        let d2 = done.clone();
        let started = Arc::new(AtomicBool::new(false));
        let st2 = started.clone();
        let h = unsafe {
            may::coroutine::spawn(move || {
                st2.store(true, Ordering::SeqCst);
                may::coroutine::park();
                d2.store(true, Ordering::SeqCst);
            })
        };
        let co = h.coroutine().clone();
        drop(h); // detached
        let u = ctx.spawn("u", move || {
            while !started.load(Ordering::SeqCst) {
                mayv::ctx().yield_now();
            }
            co.unpark();
            drop(co);
        });
        ctx.join(u);
        let mut n = 0;
        while !done.load(Ordering::SeqCst) {
            ctx.sleep_ns(1_000_000);
            n += 1;
            if n > 100 {
                ctx.fail("parked coroutine was unparked but never finished".into());
                break;
            }
        }
        // let the runtime settle: the worker must come back to its idle loop
        ctx.sleep_ns(50_000_000);
    })
}
