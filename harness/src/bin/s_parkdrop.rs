//! Finding F12 demonstration: a coroutine that is resumed by Park::subscribe itself (unpark raced with
//! the registration: fast wake-up) and then finishes while nobody else holds its handle deadlocks the
//! worker: Park::drop waits for the kernel guard that the nested subscribe frame still holds.
//! Oracles: the parked coroutine finishes after the unpark; afterwards every worker is still available.
use mayv::*;
use std::sync::atomic::{AtomicBool, AtomicUsize, Ordering};
use std::sync::Arc;

fn main() {
    let cfg = Config::from_env();
    let workers = cfg.workers;
    run(cfg, move |ctx| {
        let done = Arc::new(AtomicBool::new(false));
        let d2 = done.clone();
        let started = Arc::new(AtomicBool::new(false));
        let st2 = started.clone();
        let h = unsafe {
            may::coroutine::spawn(move || {
                st2.store(true, Ordering::SeqCst);
                may::coroutine::park();
                d2.store(true, Ordering::SeqCst);
            })
        };
        let co = h.coroutine().clone();
        drop(h); // detached
        // MAYV_DROP_MODE=race (default): the unpark is issued a seeded number of schedule points after the
        // coroutine started, so that it lands in the window between the parker's check and subscribe's re-check;
        // wait: right after the start (the original demonstration)
        let race = std::env::var("MAYV_DROP_MODE").map(|m| m != "wait").unwrap_or(true);
        let k = if race { ctx.rand() % 12 } else { 0 };
        let u = ctx.spawn("u", move || {
            while !started.load(Ordering::SeqCst) {
                mayv::ctx().yield_now();
            }
            // a few schedule points of our own (handle clones: atomic operations of the runtime)
            for _ in 0..k {
                let c2 = co.clone();
                drop(c2);
            }
            co.unpark();
            drop(co);
        });
        ctx.join(u);
        let mut n = 0;
        while !done.load(Ordering::SeqCst) {
            ctx.sleep_ns(1_000_000);
            n += 1;
            if n > 100 {
                ctx.fail("parked coroutine was unparked but never finished".into());
                break;
            }
        }
        // let the runtime settle: the worker must come back to its idle loop
        ctx.sleep_ns(50_000_000);
        // oracle: every worker is still there.  `workers` probe coroutines each keep their worker busy until all of
        // them have arrived: that needs all the workers (one spinning for ever in Park::drop is missing)
        let arrived = Arc::new(AtomicUsize::new(0));
        let giveup = Arc::new(AtomicBool::new(false));
        for _ in 0..workers {
            let (a, g) = (arrived.clone(), giveup.clone());
            let _ = unsafe {
                may::coroutine::spawn(move || {
                    a.fetch_add(1, Ordering::SeqCst);
                    while a.load(Ordering::SeqCst) < workers && !g.load(Ordering::SeqCst) {
                        mayv::ctx().yield_now();
                    }
                })
            };
        }
        let mut n = 0;
        while arrived.load(Ordering::SeqCst) < workers {
            ctx.sleep_ns(1_000_000);
            n += 1;
            if n > 300 {
                ctx.fail(format!(
                    "worker lost: only {} of {} workers picked up a coroutine after the parked coroutine finished",
                    arrived.load(Ordering::SeqCst),
                    workers
                ));
                giveup.store(true, Ordering::SeqCst);
                break;
            }
        }
    })
}
