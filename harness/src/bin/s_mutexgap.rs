//! C05: an unlock hands the lock to a live waiter - also when the queue holds the blocker of a CANCELLED waiter
//! followed by the blocker of a waiter that has registered but not counted itself in yet.
//!
//! `Mutex::lock` registers its blocker (`to_wake.push`) before it counts itself in (`cnt.fetch_add`).  History:
//!   H holds the mutex; coroutine W waits and is cancelled while waiting (its blocker stays queued with the release flag
//!   set, its count stays); thread C calls lock() and is held between push and fetch_add (site-directed stall);
//!   H unlocks (the count of W is given back through the release handshake: the lock becomes free, C's blocker must stay
//!   queued); D takes the free lock with try_lock and holds it for a while; C counts itself in, waits for D, gets the lock.
//! Oracles: never two holders (occupancy), C gets the lock after D, nobody panics ("got null blocker!"), no hang.
//! MAYV_D=0: without D (C then finds the lock free when it counts itself in).
use mayv::*;
use std::sync::atomic::{AtomicBool, AtomicUsize, Ordering::SeqCst};
use std::sync::Arc;

fn envn(k: &str, d: u64) -> u64 {
    std::env::var(k).ok().and_then(|s| s.parse().ok()).unwrap_or(d)
}

fn main() {
    let cfg = Config::from_env();
    let with_d = envn("MAYV_D", 1) == 1;
    run(cfg, move |ctx| {
        let m = Arc::new(may::sync::Mutex::new(0u64));
        let occ = Arc::new(AtomicUsize::new(0));
        let enter = |occ: &AtomicUsize, who: &str| {
            if occ.fetch_add(1, SeqCst) != 0 {
                mayv::ctx().fail(format!("mutual exclusion broken: {who} entered the critical section while somebody else was inside"));
            }
        };
        let h_locked = Arc::new(AtomicBool::new(false));
        let h_release = Arc::new(AtomicBool::new(false));
        let h_done = Arc::new(AtomicBool::new(false));
        // H
        let (m1, occ1, hl, hr, hd) = (m.clone(), occ.clone(), h_locked.clone(), h_release.clone(), h_done.clone());
        let h = ctx.spawn("H", move || {
            let c = mayv::ctx();
            let g = m1.lock().unwrap();
            enter(&occ1, "H");
            hl.store(true, SeqCst);
            while !hr.load(SeqCst) {
                c.sleep_ns(200_000);
            }
            occ1.fetch_sub(1, SeqCst);
            drop(g);
            hd.store(true, SeqCst);
        });
        while !h_locked.load(SeqCst) {
            ctx.sleep_ns(100_000);
        }
        // W: waits, is cancelled while waiting
        let (m2, occ2) = (m.clone(), occ.clone());
        let w = unsafe {
            may::coroutine::Builder::new().name("W".into()).spawn(move || {
                let g = m2.lock().unwrap();
                enter(&occ2, "W");
                occ2.fetch_sub(1, SeqCst);
                drop(g);
            }).unwrap()
        };
        ctx.sleep_ns(3_000_000);
        unsafe { w.coroutine().cancel() };
        if w.join().is_ok() {
            ctx.fail("W got the lock although H still holds it".into());
        }
        // C: lock(), held by the directed stall between its registration and its count
        let (m3, occ3) = (m.clone(), occ.clone());
        let c_got = Arc::new(AtomicBool::new(false));
        let cg = c_got.clone();
        let cth = ctx.spawn("C", move || {
            let r = std::panic::catch_unwind(std::panic::AssertUnwindSafe(|| {
                let g = m3.lock().unwrap();
                enter(&occ3, "C");
                mayv::ctx().sleep_ns(1_000_000);
                occ3.fetch_sub(1, SeqCst);
                drop(g);
            }));
            if r.is_err() {
                mayv::ctx().fail("C: lock() panicked (got null blocker?)".into());
            }
            cg.store(true, SeqCst);
        });
        ctx.sleep_ns(5_000_000);
        h_release.store(true, SeqCst);
        while !h_done.load(SeqCst) {
            ctx.sleep_ns(100_000);
        }
        ctx.join(h);
        if with_d {
            let (m4, occ4) = (m.clone(), occ.clone());
            let d = ctx.spawn("D", move || {
                let c = mayv::ctx();
                for _ in 0..200 {
                    if let Ok(g) = m4.try_lock() {
                        enter(&occ4, "D");
                        c.sleep_ns(60_000_000);
                        occ4.fetch_sub(1, SeqCst);
                        drop(g);
                        return;
                    }
                    c.sleep_ns(500_000);
                }
                c.fail("D: try_lock never succeeded".into());
            });
            ctx.join(d);
        }
        ctx.join(cth);
        if !c_got.load(SeqCst) {
            ctx.fail("C never got the lock".into());
        }
        let free = match m.try_lock() {
            Ok(_) => true,
            Err(std::sync::TryLockError::WouldBlock) => false,
            Err(_) => true,
        };
        if !free {
            ctx.fail("the mutex is still taken after everybody has finished".into());
        }
    })
}
