//! C13 scenario: panicking coroutine bodies among normal ones on the REAL runtime (1-2 workers, small stack
//! pool so that stacks are reused), with Mutex / RwLock guards dropped normally, by a panic, by a cancellation.
//!
//! MAYV_ROUNDS rounds; in each round MAYV_N coroutines are spawned (by main, MAYV_SEQ=1: one after the other
//! with a join in between = forced reuse of the pooled stack).  What coroutine j does is a function of
//! (seed, j): up to three lock operations on MAYV_LOCKS shared Mutexes / RwLocks (write or read), optionally
//! yielding / sleeping inside the critical section (so that others queue up behind a holder that is about to
//! panic), and then it ends in one of three ways, holding its last guard or not:
//!   Ret(v)       returns v
//!   Pan(p)       std::panic::panic_any(p)                                   (MAYV_PANIC percent)
//!   CancelHold   blocks for ever at a cancellable call (yield_now / sleep / park loop) holding its guard; main cancels
//!                it when it got there                                       (MAYV_CANCEL percent)
//!                MAYV_EARLY=1 (not part of the check; replay of O2 on ONE thread): the cancel may also come at a
//!                seeded earlier moment and hit the coroutine inside lock(); the cancellation unwind then drops the
//!                SyncBlocker, Park::drop waits for the kernel half with yield_now - the coroutine is suspended INSIDE
//!                its unwinding, and std::thread::panicking() is true for every other coroutine the worker runs
//!                meanwhile: a well-behaved one that drops a Mutex guard normally POISONS the Mutex.
//! MAYV_SCOPE=1 adds a scoped owner per round: it takes a Mutex, opens coroutine::scope with a child that panics
//! (payload p) and possibly a well-behaved one: the panic must be re-raised in the owner (join(owner) = Err(p)), the
//! owner's guard must poison and release.  MAYV_SELECT=1 does the same with select! (a panicking top half).
//! MAYV_WAITUNW=1: the scope owner may have a second child it has to wait for WHILE it unwinds (Drop for Scope);
//! checked only with the owner alone on one worker (MAYV_N=0 MAYV_WORKERS=1): while a coroutine is suspended inside
//! its unwinding, std::thread::panicking() is true for everything else that thread runs (observation O2).
//! MAYV_O2=1 (not part of the check; replay of O2): the same with other coroutines around and two workers; the owner
//! may be resumed on another worker, where std::thread::panicking() is false: its guard does not poison.
//! MAYV_RUNWIND=1: a body may panic / be cancelled while it holds a READ guard.  Checked only with MAYV_NOSLEEP=1
//! MAYV_WORKERS=1 (then the worker is the only thread that runs coroutines - a sleeping coroutine is resumed by the
//! timer thread - and RwLockReadGuard::drop never has to wait).  Otherwise (not part of the check; replay of O2 inside
//! the runtime itself): RwLockReadGuard::drop blocks on the reader-count mutex while the coroutine unwinds; it may be
//! resumed by another thread - the thread-local panic counters of both threads are wrong from then on, a later genuine
//! panic there does not poison -, and while it is suspended the thread it left reports thread::panicking() = true to
//! every other coroutine: a cancelled coroutine that loops on yield_now() is then never cancelled and never leaves the
//! worker (livelock; MAYV_TLSCHECK=1 prints what happened).
//! MAYV_D1=1 (not part of the check; replay of the reported defect): cancel() reaches a coroutine that then
//! panics for real inside a guard.
//!
//! Oracles on the implementation (independent of the Coq models):
//!  * join() returns exactly Ok(v) / Err(payload p) / Err(Cancel) as planned, for every coroutine;
//!  * every body is entered exactly once; after every round a probe coroutine is spawned and must return its
//!    sentinel (the workers survive; with MAYV_WORKERS=1 the only one); nobody hangs (harness);
//!  * mutual exclusion inside every lock (occupancy counters), the protected counters equal the number of
//!    increments made through guards (also through guards taken out of PoisonError);
//!  * poisoning: a lock call reports Poisoned only if a genuine panic has unwound a write guard of that lock before
//!    (flag set by the panicking body right before the panic), and it MUST report Poisoned if such a guard was
//!    already dropped when the call started (flag set by a destructor that runs after the guard's); at the end
//!    is_poisoned() <=> planned, for every lock; cancellations never poison;
//!  * released: at the end every lock can be taken by try_lock / try_write / try_read (through the PoisonError);
//!  * MAYV_SEQ=1: some coroutine ran on the very stack a panicked one had used before (reuse really happened).
use may::sync::{Mutex, RwLock};
use mayv::*;
use std::alloc::{GlobalAlloc, Layout, System};
use std::cell::Cell;
use std::collections::HashMap;
use std::panic::panic_any;
use std::sync::atomic::{AtomicBool, AtomicIsize, AtomicU32, AtomicU64, AtomicUsize, Ordering::SeqCst};
use std::sync::{Arc, TryLockError};
use std::time::Duration;

struct Leak;
unsafe impl GlobalAlloc for Leak {
    unsafe fn alloc(&self, l: Layout) -> *mut u8 {
        System.alloc(l)
    }
    unsafe fn dealloc(&self, _p: *mut u8, _l: Layout) {}
}
#[global_allocator]
static GLOBAL: Leak = Leak;

fn envn(k: &str, d: u64) -> u64 {
    std::env::var(k).ok().and_then(|s| s.parse().ok()).unwrap_or(d)
}

#[derive(Clone, Copy)]
struct Rng(u64);
impl Rng {
    fn next(&mut self) -> u64 {
        self.0 ^= self.0 >> 12;
        self.0 ^= self.0 << 25;
        self.0 ^= self.0 >> 27;
        self.0.wrapping_mul(0x2545F4914F6CDD1D) >> 8
    }
    fn below(&mut self, n: u64) -> u64 {
        self.next() % n.max(1)
    }
}

fn mix(mut z: u64) -> u64 {
    z = z.wrapping_add(0x9E3779B97F4A7C15);
    z = (z ^ (z >> 30)).wrapping_mul(0xBF58476D1CE4E5B9);
    z = (z ^ (z >> 27)).wrapping_mul(0x94D049BB133111EB);
    z ^ (z >> 31)
}

const MAXC: usize = 600;

#[derive(Clone, Copy, PartialEq, Debug)]
enum End {
    Ret(u64),
    Pan(u64),
    CancelHold,
}
#[derive(Clone, Copy, PartialEq, Debug)]
enum LK {
    M,
    W,
    R,
}
#[derive(Clone, Copy)]
struct Op {
    kind: LK,
    k: usize,
    inside: u64, // 0 nothing, 1 yield, 2 sleep inside the critical section
}
struct Plan {
    ops: Vec<Op>,
    hold_at_end: bool,
    end: End,
    early_cancel: bool,
    block_how: u64,
}

struct LockSt {
    m: Mutex<u64>,
    rw: RwLock<u64>,
    occ_m: AtomicUsize,
    occ_w: AtomicUsize,
    occ_r: AtomicIsize,
    incs_m: AtomicU64,
    incs_w: AtomicU64,
    exp_m: AtomicBool,
    exp_w: AtomicBool,
    vis_m: AtomicBool,
    vis_w: AtomicBool,
    // evidence of observation O2 (std::thread::panicking() is a per-thread counter), per lock:
    // o2a: a write guard was dropped by a genuine panic that started inside it, but thread::panicking() was false right
    //      after the drop (the coroutine was resumed by another thread while it unwinds / the counter of this thread
    //      had been left at -1), or it was true already when the guard was made (another coroutine suspended inside
    //      its unwinding on this thread): the poisoning is lost
    // o2b: a guard was dropped NORMALLY while thread::panicking() was true: spurious poisoning
    o2a_m: AtomicBool,
    o2a_w: AtomicBool,
    o2b_m: AtomicBool,
    o2b_w: AtomicBool,
}

struct Sh {
    seed: u64,
    panic_pct: u64,
    cancel_pct: u64,
    d1: bool,
    r_unwind: bool,
    nosleep: bool,
    early: bool,
    locks: Vec<LockSt>,
    exec: Vec<AtomicU32>,
    ready: Vec<AtomicBool>,
    cancel_req: Vec<AtomicBool>,
    unwind_tid: Vec<AtomicUsize>,
    forced: Vec<AtomicU64>, // != 0: coroutine j is a probe that just returns this value
    next: AtomicUsize,
    stacks: std::sync::Mutex<HashMap<usize, u8>>, // marker address -> how the last occupant ended (1 returned, 2 panicked, 3 cancelled)
    reuse_after_panic: AtomicUsize,
    reuse_total: AtomicUsize,
    panics: AtomicUsize,
    cancels: AtomicUsize,
}

fn plan(sh: &Sh, j: usize) -> Plan {
    let mut r = Rng(mix(sh.seed ^ mix(j as u64)) | 1);
    r.next();
    let f = sh.forced[j].load(SeqCst);
    if f != 0 {
        return Plan { ops: vec![], hold_at_end: false, end: End::Ret(f), early_cancel: false, block_how: 0 };
    }
    let nl = sh.locks.len() as u64;
    let nops = r.below(4);
    let mut ops = vec![];
    for _ in 0..nops {
        let kind = [LK::M, LK::M, LK::W, LK::R][r.below(4) as usize];
        let mut inside = r.below(3);
        if sh.nosleep && inside == 2 {
            inside = 1;
        }
        ops.push(Op { kind, k: r.below(nl) as usize, inside });
    }
    let x = r.below(100);
    let v = 1 + r.below(50) + 100 * (j as u64);
    let end = if x < sh.panic_pct {
        End::Pan(v)
    } else if x < sh.panic_pct + sh.cancel_pct {
        End::CancelHold
    } else {
        End::Ret(v)
    };
    let mut hold_at_end = r.below(3) != 0;
    // unwinding (panic or cancel) with a read guard: RwLockReadGuard::drop blocks on the reader-count mutex, the
    // coroutine may be resumed by another worker while it unwinds (observation O2): only where that cannot happen
    if !sh.r_unwind && end != End::Ret(v) && ops.last().map(|o| o.kind == LK::R).unwrap_or(false) {
        hold_at_end = false;
    }
    let early_cancel = (r.below(2) == 0) && sh.early;
    let mut block_how = r.below(3);
    if sh.nosleep && block_how == 1 {
        block_how = 0;
    }
    Plan { ops, hold_at_end, end, early_cancel, block_how }
}

/// dropped BEFORE the guard (declared after it): leaves the critical section
struct Occ<'a> {
    l: &'a LockSt,
    kind: LK,
}
impl<'a> Occ<'a> {
    fn enter(l: &'a LockSt, kind: LK, j: usize) -> Occ<'a> {
        let c = mayv::ctx();
        match kind {
            LK::M => {
                if l.occ_m.fetch_add(1, SeqCst) != 0 {
                    c.fail(format!("coroutine {j}: two holders inside a Mutex"));
                }
            }
            LK::W => {
                if l.occ_w.fetch_add(1, SeqCst) != 0 || l.occ_r.load(SeqCst) != 0 {
                    c.fail(format!("coroutine {j}: a writer is not alone inside a RwLock"));
                }
            }
            LK::R => {
                l.occ_r.fetch_add(1, SeqCst);
                if l.occ_w.load(SeqCst) != 0 {
                    c.fail(format!("coroutine {j}: a reader inside a RwLock together with a writer"));
                }
            }
        }
        Occ { l, kind }
    }
}
impl Drop for Occ<'_> {
    fn drop(&mut self) {
        match self.kind {
            LK::M => {
                self.l.occ_m.fetch_sub(1, SeqCst);
            }
            LK::W => {
                self.l.occ_w.fetch_sub(1, SeqCst);
            }
            LK::R => {
                self.l.occ_r.fetch_sub(1, SeqCst);
            }
        }
    }
}

/// dropped AFTER the guard (declared before it): publishes that a panic has dropped a write guard
struct After<'a> {
    l: &'a LockSt,
    kind: LK,
    armed: Cell<bool>,
    /// thread::panicking() was true when the guard was made although this coroutine was not unwinding
    stale: Cell<bool>,
}
impl<'a> After<'a> {
    fn new(l: &'a LockSt, kind: LK) -> After<'a> {
        After { l, kind, armed: Cell::new(false), stale: Cell::new(false) }
    }
}
impl Drop for After<'_> {
    fn drop(&mut self) {
        if self.armed.get() {
            // the guard has just been dropped by the unwinding, on this thread
            let lost = !std::thread::panicking() || self.stale.get();
            match self.kind {
                LK::M => {
                    if lost {
                        self.l.o2a_m.store(true, SeqCst);
                    }
                    self.l.vis_m.store(true, SeqCst)
                }
                LK::W => {
                    if lost {
                        self.l.o2a_w.store(true, SeqCst);
                    }
                    self.l.vis_w.store(true, SeqCst)
                }
                LK::R => {}
            }
        }
    }
}

struct BodyGuard {
    sh: Arc<Sh>,
    marker: usize,
    cancel_planned: bool,
    j: usize,
}
impl Drop for BodyGuard {
    fn drop(&mut self) {
        if std::env::var("MAYV_TLSCHECK").is_ok() {
            println!("NOTE body {} ends on thread {} (thread::panicking() = {})", self.j, mayv::tid(), std::thread::panicking());
            let t0 = self.sh.unwind_tid[self.j].load(SeqCst);
            if t0 != usize::MAX && t0 != mayv::tid() {
                let p = plan(&self.sh, self.j);
                println!(
                    "NOTE coroutine {} started to unwind on thread {} and finishes on thread {} (thread::panicking() = {}); ops {:?} hold_at_end {}",
                    self.j,
                    t0,
                    mayv::tid(),
                    std::thread::panicking(),
                    p.ops.iter().map(|o| (o.kind, o.k)).collect::<Vec<_>>(),
                    p.hold_at_end
                );
            }
        }
        let how = if std::thread::panicking() {
            if self.cancel_planned {
                3
            } else {
                2
            }
        } else {
            1
        };
        self.sh.stacks.lock().unwrap().insert(self.marker, how);
    }
}

/// first destructor of a cancellation unwind out of block_forever: where did it start?
struct UnwStart<'a>(&'a Sh, usize, u64);
impl Drop for UnwStart<'_> {
    fn drop(&mut self) {
        self.0.unwind_tid[self.1].store(mayv::tid(), SeqCst);
        if std::env::var("MAYV_TLSCHECK").is_ok() {
            println!("NOTE body {} (blocked by kind {}) starts to unwind on thread {} (thread::panicking() = {})", self.1, self.2 % 3, mayv::tid(), std::thread::panicking());
        }
    }
}

fn block_forever(sh: &Sh, j: usize, how: u64) -> ! {
    let _s = UnwStart(sh, j, how);
    let mut n = 0u64;
    loop {
        n += 1;
        if n == 3000 && std::env::var("MAYV_O2TAG").is_ok() && sh.cancel_req[j].load(SeqCst) && std::thread::panicking() {
            // not unwinding ourselves, cancelled, and the cancellation point keeps returning: check_cancel is suppressed
            // by `!thread::panicking()` - another coroutine is suspended inside its unwinding on this thread (or the
            // thread's counter was left wrong).  This loop never leaves the worker: end the run here
            let c = mayv::ctx();
            c.fail(format!(
                "O2c: coroutine {j} was cancelled but its cancellation point (kind {}) returned 3000 times without raising the cancel panic while std::thread::panicking() is true on its thread",
                how % 3
            ));
            mayv::finish(mayv::ctl(), 0);
        }
        if n == 2000 && std::env::var("MAYV_TLSCHECK").is_ok() {
            println!(
                "NOTE a coroutine blocked at a cancellable call (kind {}) was resumed 2000 times without being cancelled; thread::panicking() = {} on thread {}",
                how % 3,
                std::thread::panicking(),
                mayv::tid()
            );
        }
        match how % 3 {
            0 => may::coroutine::yield_now(),
            1 => may::coroutine::sleep(Duration::from_millis(1)),
            _ => may::coroutine::park(),
        }
    }
}

/// the last statement(s) of a body; `held`: the write-kind lock whose guard is still alive
fn finish(sh: &Sh, j: usize, p: &Plan, held: Option<(&LockSt, LK, &After)>) -> u64 {
    match p.end {
        End::Ret(v) => {
            // the guard that is still held is dropped normally when the body returns
            if let Some((l, kind, _)) = held {
                if std::thread::panicking() {
                    match kind {
                        LK::M => l.o2b_m.store(true, SeqCst),
                        LK::W => l.o2b_w.store(true, SeqCst),
                        LK::R => {}
                    }
                }
            }
            v
        }
        End::Pan(v) => {
            if let Some((l, kind, after)) = held {
                // from here on the lock may be found poisoned
                match kind {
                    LK::M => l.exp_m.store(true, SeqCst),
                    LK::W => l.exp_w.store(true, SeqCst),
                    LK::R => {}
                }
                after.armed.set(true);
            }
            if sh.d1 {
                unsafe { may::coroutine::current().cancel() };
            }
            sh.panics.fetch_add(1, SeqCst);
            sh.unwind_tid[j].store(mayv::tid(), SeqCst);
            if std::env::var("MAYV_TLSCHECK").is_ok() {
                println!("NOTE body {j} panics on thread {} holding {:?}", mayv::tid(), held.map(|h| h.1));
            }
            panic_any(v)
        }
        End::CancelHold => {
            if std::env::var("MAYV_TLSCHECK").is_ok() {
                println!("NOTE body {j} blocks for ever on thread {} holding {:?} (thread::panicking() = {})", mayv::tid(), held.map(|h| h.1), std::thread::panicking());
            }
            sh.ready[j].store(true, SeqCst);
            block_forever(sh, j, p.block_how)
        }
    }
}

fn inside(x: u64) {
    match x {
        1 => may::coroutine::yield_now(),
        2 => may::coroutine::sleep(Duration::from_nanos(300_000)),
        _ => {}
    }
}

/// prefix of an oracle text: the failure has the signature of observation O2 (evidence flag set) and the run asks for
/// the tag (MAYV_O2TAG=1: the known-finding variants)
fn o2p(tag: &str, evidence: &AtomicBool) -> String {
    if std::env::var("MAYV_O2TAG").is_ok() && evidence.load(SeqCst) {
        format!("{tag}: ")
    } else {
        String::new()
    }
}

/// std's order: the poison flag is set BEFORE the lock is released.  `exp` is set by a body that is about to panic
/// while it holds the write guard, so whoever acquires the lock and then finds `exp` set came after that holder and
/// must have been told Poisoned.  (Not in the O2 replay variants: there the flag is legitimately never set.)
fn check_order(j: usize, what: &str, err: bool, exp: &AtomicBool) {
    if !err && exp.load(SeqCst) && std::env::var("MAYV_O2TAG").is_err() && std::env::var("MAYV_NOORDER").is_err() {
        mayv::ctx().fail(format!(
            "coroutine {j}: {what} returned Ok although the previous holder panicked inside its write guard: the lock was released before the poison flag was set"
        ));
    }
}

fn check_obs(j: usize, what: &str, err: bool, vis_before: bool, exp: &AtomicBool, o2a: &AtomicBool, o2b: &AtomicBool) {
    let c = mayv::ctx();
    if err && !exp.load(SeqCst) {
        c.fail(format!("{}coroutine {j}: {what} reports Poisoned but no panic has unwound a write guard of this lock", o2p("O2b", o2b)));
    }
    if !err && vis_before {
        c.fail(format!(
            "{}coroutine {j}: {what} reports Ok although a panic had dropped a write guard of this lock before the call",
            o2p("O2a", o2a)
        ));
    }
}

fn body(sh: Arc<Sh>, j: usize) -> u64 {
    let c = mayv::ctx();
    let marker = 0u8;
    let maddr = &marker as *const u8 as usize;
    if sh.exec[j].fetch_add(1, SeqCst) != 0 {
        c.fail(format!("closure of coroutine {j} entered more than once"));
    }
    let p = plan(&sh, j);
    {
        let st = sh.stacks.lock().unwrap();
        if let Some(h) = st.get(&maddr) {
            sh.reuse_total.fetch_add(1, SeqCst);
            if *h == 2 {
                sh.reuse_after_panic.fetch_add(1, SeqCst);
            }
        }
    }
    if std::env::var("MAYV_TLSCHECK").is_ok() && std::thread::panicking() {
        println!("NOTE coroutine {j} starts on thread {} where thread::panicking() is already true", mayv::tid());
    }
    let _bg = BodyGuard { sh: sh.clone(), marker: maddr, cancel_planned: p.end == End::CancelHold, j };
    let n = p.ops.len();
    for (i, op) in p.ops.iter().enumerate() {
        let last = i + 1 == n && p.hold_at_end;
        let l = &sh.locks[op.k];
        match op.kind {
            LK::M => {
                let vis = l.vis_m.load(SeqCst);
                let after = After::new(l, LK::M);
                let (mut g, err) = match l.m.lock() {
                    Ok(g) => (g, false),
                    Err(e) => (e.into_inner(), true),
                };
                check_obs(j, "Mutex::lock", err, vis, &l.exp_m, &l.o2a_m, &l.o2b_m);
                check_order(j, "Mutex::lock", err, &l.exp_m);
                after.stale.set(std::thread::panicking());
                let occ = Occ::enter(l, LK::M, j);
                *g += 1;
                l.incs_m.fetch_add(1, SeqCst);
                inside(op.inside);
                if last {
                    return finish(&sh, j, &p, Some((l, LK::M, &after)));
                }
                drop(occ);
                if std::thread::panicking() {
                    l.o2b_m.store(true, SeqCst);
                    if std::env::var("MAYV_TLSCHECK").is_ok() {
                        println!("NOTE body {j} drops its Mutex guard NORMALLY while thread::panicking() = true on thread {}", mayv::tid());
                    }
                }
                drop(g);
                drop(after);
            }
            LK::W => {
                let vis = l.vis_w.load(SeqCst);
                let after = After::new(l, LK::W);
                let (mut g, err) = match l.rw.write() {
                    Ok(g) => (g, false),
                    Err(e) => (e.into_inner(), true),
                };
                check_obs(j, "RwLock::write", err, vis, &l.exp_w, &l.o2a_w, &l.o2b_w);
                check_order(j, "RwLock::write", err, &l.exp_w);
                after.stale.set(std::thread::panicking());
                let occ = Occ::enter(l, LK::W, j);
                *g += 1;
                l.incs_w.fetch_add(1, SeqCst);
                inside(op.inside);
                if last {
                    return finish(&sh, j, &p, Some((l, LK::W, &after)));
                }
                drop(occ);
                if std::thread::panicking() {
                    l.o2b_w.store(true, SeqCst);
                }
                drop(g);
                drop(after);
            }
            LK::R => {
                let vis = l.vis_w.load(SeqCst);
                let after = After::new(l, LK::R);
                let (g, err) = match l.rw.read() {
                    Ok(g) => (g, false),
                    Err(e) => (e.into_inner(), true),
                };
                check_obs(j, "RwLock::read", err, vis, &l.exp_w, &l.o2a_w, &l.o2b_w);
                check_order(j, "RwLock::read", err, &l.exp_w);
                let occ = Occ::enter(l, LK::R, j);
                let _ = *g;
                inside(op.inside);
                if last {
                    return finish(&sh, j, &p, Some((l, LK::R, &after)));
                }
                drop(occ);
                drop(g);
                drop(after);
            }
        }
    }
    finish(&sh, j, &p, None)
}

type H = may::coroutine::JoinHandle<u64>;

/// 1 + 4v value, 2 + 4v panic payload v, 3 Cancel, 7 a message panic
fn code_of(res: &std::thread::Result<u64>) -> u64 {
    match res {
        Ok(v) => 1 + 4 * *v,
        Err(e) => match e.downcast_ref::<u64>() {
            Some(v) => 2 + 4 * *v,
            None => {
                if e.downcast_ref::<String>().is_some() || e.downcast_ref::<&str>().is_some() {
                    7
                } else {
                    3
                }
            }
        },
    }
}
fn expected_code(e: End) -> u64 {
    match e {
        End::Ret(v) => 1 + 4 * v,
        End::Pan(v) => 2 + 4 * v,
        End::CancelHold => 3,
    }
}

fn join_check(sh: &Sh, j: usize, h: H, exp: u64, what: &str) {
    let c = mayv::ctx();
    let res = h.join();
    let code = code_of(&res);
    if code != exp {
        c.fail(format!("join() of {what} {j} returned code {code}, expected {exp} (1+4v value v, 2+4v panic payload v, 3 Cancel)"));
    }
    let e = sh.exec[j].load(SeqCst);
    if e != 1 {
        c.fail(format!("{what} {j} finished but its body was entered {e} times"));
    }
}

fn spawn_body(sh: &Arc<Sh>) -> (usize, H) {
    let j = sh.next.fetch_add(1, SeqCst);
    assert!(j < MAXC);
    let sh2 = sh.clone();
    let h = unsafe { may::coroutine::spawn(move || body(sh2, j)) };
    (j, h)
}

/// the owner of a scope / select whose child panics with payload p while the owner holds Mutex k
fn spawn_owner(sh: &Arc<Sh>, select: bool, o2: bool, may_wait_unwinding: bool, r: &mut Rng) -> (usize, H, u64) {
    let j = sh.next.fetch_add(1, SeqCst);
    let p = 7000 + j as u64;
    let k = r.below(sh.locks.len() as u64) as usize;
    // a second child the owner has to wait for while it unwinds: only where it cannot migrate meanwhile (O2)
    let two = o2 || (may_wait_unwinding && r.below(2) == 0);
    let sh2 = sh.clone();
    let h = unsafe {
        may::coroutine::spawn(move || -> u64 {
            let c = mayv::ctx();
            sh2.exec[j].fetch_add(1, SeqCst);
            let l = &sh2.locks[k];
            let vis = l.vis_m.load(SeqCst);
            let after = After::new(l, LK::M);
            let (mut g, err) = match l.m.lock() {
                Ok(g) => (g, false),
                Err(e) => (e.into_inner(), true),
            };
            check_obs(j, "Mutex::lock (scope owner)", err, vis, &l.exp_m, &l.o2a_m, &l.o2b_m);
            after.stale.set(std::thread::panicking());
            let _occ = Occ::enter(l, LK::M, j);
            *g += 1;
            l.incs_m.fetch_add(1, SeqCst);
            // the child's panic will be re-raised here, inside the guard
            l.exp_m.store(true, SeqCst);
            after.armed.set(true);
            sh2.panics.fetch_add(1, SeqCst);
            if select {
                let _tok = may::select!(
                    _ = { may::coroutine::yield_now(); panic_any(p) } => {},
                    _ = may::coroutine::sleep(Duration::from_millis(40)) => {}
                );
            } else {
                let done = AtomicBool::new(false);
                may::coroutine::scope(|s| {
                    if two {
                        // registered first = joined last: the owner waits for it while it already unwinds
                        unsafe {
                            s.spawn(|| {
                                for _ in 0..(if o2 { 12 } else { 2 }) {
                                    may::coroutine::yield_now();
                                }
                                done.store(true, SeqCst);
                            })
                        };
                    }
                    unsafe {
                        s.spawn(move || {
                            may::coroutine::yield_now();
                            panic_any(p)
                        })
                    };
                });
                let _ = done.load(SeqCst);
            }
            c.fail(format!("scope/select owner {j}: the call returned normally although a child panicked"));
            0
        })
    };
    (j, h, 2 + 4 * p)
}

/// MAYV_O2MODE=b | c: the two one-thread consequences of observation O2, deterministically (MAYV_WORKERS=1, no sleeps).
/// A scope owner O has two children: A panics (payload p), B runs on until it is released.  O joins A first, re-raises
/// p and - unwinding - waits in Drop for Scope for B: O is suspended INSIDE its unwinding and the worker runs the other
/// coroutines with std::thread::panicking() = true.
///   b: C, a well-behaved coroutine that took Mutex 0 before, drops its guard normally now: the Mutex is poisoned; D, a
///      later locker, is told so.
///   c: C, a cancelled coroutine, loops on yield_now(): check_cancel never raises, the loop never leaves the worker.
fn o2_script(ctx: &Ctx, sh: &Arc<Sh>, mode: &str) {
    let c_ready = Arc::new(AtomicBool::new(false));
    let c_done = Arc::new(AtomicBool::new(false));
    let p = 7777u64;
    // C is spawned by O, so that both are in the worker's local queue (a coroutine that loops on yield_now() would
    // keep the worker away from its global queue)
    let jc = sh.next.fetch_add(1, SeqCst);
    let slot: Arc<std::sync::Mutex<Option<H>>> = Arc::new(std::sync::Mutex::new(None));
    let (sh2, r2, d2, m2) = (sh.clone(), c_ready.clone(), c_done.clone(), mode.to_string());
    let c_body = move || -> u64 {
        sh2.exec[jc].fetch_add(1, SeqCst);
        let l = &sh2.locks[0];
        if m2 == "b" {
            let vis = l.vis_m.load(SeqCst);
            let after = After::new(l, LK::M);
            let (mut g, err) = match l.m.lock() {
                Ok(g) => (g, false),
                Err(e) => (e.into_inner(), true),
            };
            check_obs(jc, "Mutex::lock", err, vis, &l.exp_m, &l.o2a_m, &l.o2b_m);
            let occ = Occ::enter(l, LK::M, jc);
            *g += 1;
            l.incs_m.fetch_add(1, SeqCst);
            r2.store(true, SeqCst);
            // hold the guard until the owner is inside its unwinding (what this thread's counter says), at most a while
            for _ in 0..5000 {
                if std::thread::panicking() {
                    break;
                }
                may::coroutine::yield_now();
            }
            drop(occ);
            if std::thread::panicking() {
                l.o2b_m.store(true, SeqCst);
            }
            drop(g);
            drop(after);
            d2.store(true, SeqCst);
            1
        } else {
            for _ in 0..5000 {
                if std::thread::panicking() {
                    break;
                }
                may::coroutine::yield_now();
            }
            r2.store(true, SeqCst);
            // main cancels us now; every yield_now is a cancellation point
            block_forever(&sh2, jc, 0)
        }
    };
    // O
    let jo = sh.next.fetch_add(1, SeqCst);
    let (sh3, d3, slot3) = (sh.clone(), c_done.clone(), slot.clone());
    let ho = unsafe {
        may::coroutine::spawn(move || -> u64 {
            sh3.exec[jo].fetch_add(1, SeqCst);
            *slot3.lock().unwrap() = Some(may::coroutine::spawn(c_body));
            may::coroutine::yield_now();
            may::coroutine::scope(|s| {
                // registered first = joined last: the owner waits for it while it already unwinds
                s.spawn(|| {
                    for _ in 0..20000 {
                        if d3.load(SeqCst) {
                            break;
                        }
                        may::coroutine::yield_now();
                    }
                });
                s.spawn(move || {
                    may::coroutine::yield_now();
                    panic_any(p)
                });
            });
            mayv::ctx().fail(format!("scope owner {jo}: scope() returned normally although a child panicked"));
            0
        })
    };
    let hc = loop {
        if let Some(h) = slot.lock().unwrap().take() {
            break h;
        }
        ctx.yield_now();
    };
    if mode == "c" {
        while !c_ready.load(SeqCst) {
            ctx.yield_now();
        }
        sh.cancel_req[jc].store(true, SeqCst);
        unsafe { hc.coroutine().cancel() };
        join_check(sh, jc, hc, 3, "cancelled coroutine");
        c_done.store(true, SeqCst);
    } else {
        join_check(sh, jc, hc, 1 + 4, "well-behaved coroutine");
    }
    join_check(sh, jo, ho, 2 + 4 * p, "scope owner");
    // D: a later locker of Mutex 0 (nobody panicked inside it)
    let jd = sh.next.load(SeqCst);
    sh.forced[jd].store(900_001, SeqCst);
    let (jd, hd) = spawn_body(sh);
    let _ = jd;
    let sh4 = sh.clone();
    let he = unsafe {
        may::coroutine::spawn(move || {
            let l = &sh4.locks[0];
            let vis = l.vis_m.load(SeqCst);
            let err = l.m.lock().is_err();
            check_obs(0, "Mutex::lock (later)", err, vis, &l.exp_m, &l.o2a_m, &l.o2b_m);
        })
    };
    he.join().ok();
    join_check(sh, jd, hd, 1 + 4 * 900_001, "probe coroutine");
}

fn main() {
    let mut cfg = Config::from_env();
    cfg.max_steps = envn("MAYV_MAX_STEPS", 2_000_000);
    let n = envn("MAYV_N", 5) as usize;
    let rounds = envn("MAYV_ROUNDS", 3) as usize;
    let nlocks = envn("MAYV_LOCKS", 2) as usize;
    let seq = envn("MAYV_SEQ", 0) != 0;
    let scope = envn("MAYV_SCOPE", 0) != 0;
    let select = envn("MAYV_SELECT", 0) != 0;
    let o2 = envn("MAYV_O2", 0) != 0;
    let pool = envn("MAYV_POOL", 2) as usize;
    let wait_unw = envn("MAYV_WAITUNW", 0) != 0;
    let sh = Arc::new(Sh {
        seed: cfg.seed,
        panic_pct: envn("MAYV_PANIC", 35),
        cancel_pct: envn("MAYV_CANCEL", 15),
        d1: envn("MAYV_D1", 0) != 0,
        r_unwind: envn("MAYV_RUNWIND", 0) != 0,
        nosleep: envn("MAYV_NOSLEEP", 0) != 0,
        early: envn("MAYV_EARLY", 0) != 0,
        locks: (0..nlocks)
            .map(|_| LockSt {
                m: Mutex::new(0),
                rw: RwLock::new(0),
                occ_m: AtomicUsize::new(0),
                occ_w: AtomicUsize::new(0),
                occ_r: AtomicIsize::new(0),
                incs_m: AtomicU64::new(0),
                incs_w: AtomicU64::new(0),
                exp_m: AtomicBool::new(false),
                exp_w: AtomicBool::new(false),
                vis_m: AtomicBool::new(false),
                vis_w: AtomicBool::new(false),
                o2a_m: AtomicBool::new(false),
                o2a_w: AtomicBool::new(false),
                o2b_m: AtomicBool::new(false),
                o2b_w: AtomicBool::new(false),
            })
            .collect(),
        exec: (0..MAXC).map(|_| AtomicU32::new(0)).collect(),
        ready: (0..MAXC).map(|_| AtomicBool::new(false)).collect(),
        cancel_req: (0..MAXC).map(|_| AtomicBool::new(false)).collect(),
        unwind_tid: (0..MAXC).map(|_| AtomicUsize::new(usize::MAX)).collect(),
        forced: (0..MAXC).map(|_| AtomicU64::new(0)).collect(),
        next: AtomicUsize::new(1),
        stacks: std::sync::Mutex::new(HashMap::new()),
        reuse_after_panic: AtomicUsize::new(0),
        reuse_total: AtomicUsize::new(0),
        panics: AtomicUsize::new(0),
        cancels: AtomicUsize::new(0),
    });
    if std::env::var("MAYV_TLSCHECK").is_ok() {
        std::panic::set_hook(Box::new(|_| {
            println!("NOTE a panic starts on thread {} (coroutine context: {})", mayv::tid(), may::coroutine::is_coroutine());
        }));
    } else {
        std::panic::set_hook(Box::new(|_| {}));
    }
    run(cfg, move |ctx| {
        may::config().set_pool_capacity(pool);
        let mut r = Rng(mix(sh.seed.wrapping_mul(31)) | 1);
        r.next();
        // the scheduler is created by the first spawn
        unsafe { may::coroutine::spawn(|| {}) }.join().ok();
        let mut panicked_before_last_round = false;
        let o2mode = std::env::var("MAYV_O2MODE").unwrap_or_default();
        if !o2mode.is_empty() {
            o2_script(ctx, &sh, &o2mode);
        }
        for round in 0..(if o2mode.is_empty() { rounds } else { 0 }) {
            let mut hs: Vec<(usize, H)> = vec![];
            let mut owners: Vec<(usize, H, u64)> = vec![];
            let cancel_round = |sh: &Arc<Sh>, hs: &Vec<(usize, H)>, r: &mut Rng| {
                // cancel every CancelHold coroutine: when it got to its blocking call, or early
                let mut pend: Vec<usize> = (0..hs.len()).filter(|&i| plan(sh, hs[i].0).end == End::CancelHold).collect();
                let mut spins = 0u64;
                while !pend.is_empty() {
                    let mut i = 0;
                    while i < pend.len() {
                        let (j, h) = &hs[pend[i]];
                        let p = plan(sh, *j);
                        if sh.ready[*j].load(SeqCst) || (p.early_cancel && spins >= r.below(6)) {
                            sh.cancel_req[*j].store(true, SeqCst);
                            sh.cancels.fetch_add(1, SeqCst);
                            unsafe { h.coroutine().cancel() };
                            pend.swap_remove(i);
                        } else {
                            i += 1;
                        }
                    }
                    spins += 1;
                    mayv::ctx().yield_now();
                }
            };
            if seq {
                for _ in 0..n {
                    let (j, h) = spawn_body(&sh);
                    let one = vec![(j, h)];
                    cancel_round(&sh, &one, &mut r);
                    let (j, h) = one.into_iter().next().unwrap();
                    join_check(&sh, j, h, expected_code(plan(&sh, j).end), "coroutine");
                    // let the worker finish drop_coroutine (pool.put) before the next spawn takes a stack
                    ctx.sleep_ns(200_000);
                }
            } else {
                for _ in 0..n {
                    hs.push(spawn_body(&sh));
                    if r.below(3) == 0 {
                        ctx.yield_now();
                    }
                }
                if scope || select || o2 {
                    owners.push(spawn_owner(&sh, select, o2, wait_unw, &mut r));
                }
                cancel_round(&sh, &hs, &mut r);
                while !hs.is_empty() {
                    let i = r.below(hs.len() as u64) as usize;
                    let (j, h) = hs.remove(i);
                    join_check(&sh, j, h, expected_code(plan(&sh, j).end), "coroutine");
                }
                for (j, h, exp) in owners {
                    join_check(&sh, j, h, exp, "scope/select owner");
                }
            }
            // the workers survived: a later spawn runs and returns
            let sentinel = 900_000 + round as u64;
            let pj = sh.next.load(SeqCst);
            sh.forced[pj].store(sentinel, SeqCst);
            let (pj, probe) = spawn_body(&sh);
            join_check(&sh, pj, probe, 1 + 4 * sentinel, "probe coroutine (spawned after the round)");
            if round + 1 < rounds && sh.panics.load(SeqCst) > 0 {
                panicked_before_last_round = true;
            }
        }
        // final state of every lock
        for (k, l) in sh.locks.iter().enumerate() {
            for (name, exp, pois) in [("Mutex", &l.exp_m, l.m.is_poisoned()), ("RwLock", &l.exp_w, l.rw.is_poisoned())] {
                let e = exp.load(SeqCst);
                if pois != e {
                    let (o2a, o2b) = if name == "Mutex" { (&l.o2a_m, &l.o2b_m) } else { (&l.o2a_w, &l.o2b_w) };
                    ctx.fail(format!(
                        "{}{name} {k}: is_poisoned() = {pois} at the end, but {} panic unwound one of its write guards",
                        if e { o2p("O2a", o2a) } else { o2p("O2b", o2b) },
                        if e { "a" } else { "no" }
                    ));
                }
            }
            match l.m.try_lock() {
                Ok(g) => {
                    if *g != l.incs_m.load(SeqCst) {
                        ctx.fail(format!("Mutex {k}: protected counter {} after {} increments", *g, l.incs_m.load(SeqCst)));
                    }
                }
                Err(TryLockError::Poisoned(e)) => {
                    let g = e.into_inner();
                    if *g != l.incs_m.load(SeqCst) {
                        ctx.fail(format!("Mutex {k}: protected counter {} after {} increments", *g, l.incs_m.load(SeqCst)));
                    }
                }
                Err(TryLockError::WouldBlock) => ctx.fail(format!("Mutex {k} is still locked at the end: a guard drop did not release it")),
            }
            match l.rw.try_write() {
                Ok(g) => {
                    if *g != l.incs_w.load(SeqCst) {
                        ctx.fail(format!("RwLock {k}: protected counter {} after {} increments", *g, l.incs_w.load(SeqCst)));
                    }
                }
                Err(TryLockError::Poisoned(e)) => {
                    let g = e.into_inner();
                    if *g != l.incs_w.load(SeqCst) {
                        ctx.fail(format!("RwLock {k}: protected counter {} after {} increments", *g, l.incs_w.load(SeqCst)));
                    }
                }
                Err(TryLockError::WouldBlock) => ctx.fail(format!("RwLock {k} is still locked at the end: a guard drop did not release it")),
            }
            match l.rw.try_read() {
                Ok(_) | Err(TryLockError::Poisoned(_)) => {}
                Err(TryLockError::WouldBlock) => ctx.fail(format!("RwLock {k}: try_read fails at the end")),
            }
        }
        if seq && pool > 0 && panicked_before_last_round && sh.reuse_after_panic.load(SeqCst) == 0 {
            ctx.fail("no coroutine ran on the stack of a panicked one: the pooled stack was not reused".into());
        }
        println!(
            "STAT coroutines={} panics={} cancels={} reuse_total={} reuse_after_panic={}",
            sh.next.load(SeqCst) - 1,
            sh.panics.load(SeqCst),
            sh.cancels.load(SeqCst),
            sh.reuse_total.load(SeqCst),
            sh.reuse_after_panic.load(SeqCst)
        );
    })
}
