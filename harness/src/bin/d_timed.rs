//! C08 (callers) differential driver: the REAL timed APIs under the virtual clock with SCRIPTED event times
//! (messages / wake-ups / disconnects landing before, at and after the deadline and the armed timer), one call
//! per case.  Prints `CASE api ctx t0 d result t1 [time kind]* => result t1`; the check evaluates the Gallina
//! function `tc_run` (coq/Rt/TimedCallers.v: the model under the virtual-clock schedule) on the same input by
//! vm_compute and compares result and return time EXACTLY.
//!
//! MAYV_DIFF = mpsc   Receiver::recv_timeout                          (api 0; events: send, last sender dropped)
//!             mpscw  the same with every `send` descheduled between its push and its `to_wake.take()` for
//!                    MAYV_SENDSTALL ns (directed preemption at that site): push and wake-up are separate events,
//!                    and the wake-up of a message that was consumed BEFORE the call lands inside the call
//!                    (a wake-up without data)
//!             cq     Cqueue::poll(Some(d))                           (api 1; events: Normal event, select coroutine
//!                    done = wake-up without data, last one done = Finished)
//!             sem | flag | mpmc | cond | blocker                     (api 2: one park and its verdict)
//!             sleep  coroutine::sleep / thread sleep                 (api 3)
//! MAYV_CTX  = co | th      context of the caller
//! Oracles on the implementation (independent of the model): Timeout never before call + d; Timeout no later than
//! call + d + 1 ms (nothing delays a differential run) whatever wake-ups without data were scripted (fix 3916da2);
//! a timeout that does not fit the clock (Duration::MAX) neither panics nor expires (fix 03f0e0d); every call returns.
use mayv::*;
use std::alloc::{GlobalAlloc, Layout, System};
use std::sync::{Arc, Mutex};
use std::time::Duration;

/// never reuse an address: the virtual ThreadPark token of the harness is keyed by the address of the ThreadPark,
/// a late unpark of an earlier case must not reach a Blocker of a later one
struct Leak;
unsafe impl GlobalAlloc for Leak {
    unsafe fn alloc(&self, l: Layout) -> *mut u8 {
        System.alloc(l)
    }
    unsafe fn dealloc(&self, _p: *mut u8, _l: Layout) {}
}
#[global_allocator]
static GLOBAL: Leak = Leak;

fn envs(k: &str, d: &str) -> String {
    std::env::var(k).unwrap_or_else(|_| d.into())
}
fn envn(k: &str, d: u64) -> u64 {
    std::env::var(k).ok().and_then(|s| s.parse().ok()).unwrap_or(d)
}

const MS: u64 = 1_000_000;
const DURS: [u64; 12] = [0, 1, 400_000, 999_999, MS, MS + 1, 1_500_000, 1_900_000, 2 * MS, 3 * MS, 7 * MS, 2_500_000];

/// where `Location::caller()` puts `self.to_wake.take()` of `InnerQueue::send` in the CURRENT source
fn send_take_site() -> Option<(u32, u32)> {
    let src = std::fs::read_to_string("/repo/src/sync/mpsc.rs").ok()?;
    let f = src.find("pub fn send(&self, t: T) -> Result<(), T>")?;
    let rel = src[f..].find("self.to_wake.take()")?;
    let off = f + rel + "self.to_wake.".len();
    let line = src[..off].matches('\n').count() as u32 + 1;
    let col = (off - src[..off].rfind('\n').map(|x| x + 1).unwrap_or(0)) as u32 + 1;
    Some((line, col))
}

#[derive(Clone, Copy, Debug)]
struct Ev {
    off: i64, // relative to the planned call time
    kind: u8, // 1 message, 2 wake-up without data, 3 disconnect / finished
}

/// a script: offsets chosen around the interesting instants of a call with timeout d (deadline d, armed timer a);
/// one case in three is a classic pattern: wake-ups without data (kind 2, where the API has them) before the deadline and
/// between the deadline and the end of the re-armed park - they tell the code, the textbook loop and the slip
/// "deadline recomputed in the loop" apart
fn script(c: &Ctx, d: u64, a: u64, max_ev: u64, kinds: &[u8]) -> Vec<Ev> {
    let (d_, a_) = (d as i64, a as i64);
    if kinds.contains(&2) && d >= 400_000 && c.rand() % 3 == 0 {
        let other = *kinds.iter().find(|k| **k != 2).unwrap_or(&2);
        let pats: [Vec<Ev>; 6] = [
            vec![Ev { off: d_ / 2, kind: 2 }, Ev { off: d_ + d_ / 4, kind: 2 }],
            vec![Ev { off: d_ / 2, kind: 2 }],
            vec![Ev { off: d_ / 2, kind: 2 }, Ev { off: d_ + d_ / 4, kind: 2 }, Ev { off: d_ / 2 + a_ + 1, kind: other }],
            vec![Ev { off: d_ / 2, kind: 2 }, Ev { off: d_ + d_ / 4, kind: 2 }, Ev { off: 2 * d_, kind: 2 }],
            vec![Ev { off: d_ - 1, kind: 2 }, Ev { off: d_, kind: other }],
            vec![Ev { off: d_ / 2, kind: 2 }, Ev { off: d_ / 2 + a_ - 1, kind: other }],
        ];
        let mut v = pats[(c.rand() % 6) as usize].clone();
        v.truncate(max_ev.max(1) as usize);
        if let Some(p) = v.iter().position(|e| e.kind == 3) {
            v.truncate(p + 1);
        }
        return v;
    }
    let n = c.rand() % (max_ev + 1);
    let mut v = vec![];
    let marks = [d_, a_, d_ / 2, a_ + d_, a_ + a_, 0, d_ + d_ / 4];
    for _ in 0..n {
        let m = marks[(c.rand() % marks.len() as u64) as usize];
        let delta = [0i64, 0, -1, 1, -300_000, 300_000, -700_000, 1_200_000][(c.rand() % 8) as usize];
        let off = (m + delta).max(0);
        let kind = kinds[(c.rand() % kinds.len() as u64) as usize];
        v.push(Ev { off, kind });
    }
    v.sort_by_key(|e| e.off);
    // a disconnect ends the script
    if let Some(p) = v.iter().position(|e| e.kind == 3) {
        v.truncate(p + 1);
    }
    v
}

fn armed_ns(d: u64, in_co: bool) -> u64 {
    if in_co {
        d.div_ceil(MS) * MS
    } else {
        d
    }
}

/// run `f` as the caller in the chosen context and wait for it
fn in_ctx<F: FnOnce() + Send + 'static>(c: &Ctx, in_co: bool, f: F) {
    if in_co {
        let h = unsafe { may::coroutine::Builder::new().name("caller".into()).spawn(f).unwrap() };
        if h.join().is_err() {
            c.fail("the caller coroutine panicked".into());
        }
    } else {
        let h = c.spawn("caller", f);
        c.join(h);
    }
}

fn wait_until(t: u64) {
    let c = mayv::ctx();
    let now = c.now();
    if t > now {
        if may::coroutine::is_coroutine() {
            may::coroutine::sleep(Duration::from_nanos(t - now));
        } else {
            c.sleep_ns(t - now);
        }
    }
}

struct Out {
    t0: u64,
    res: i64,
    t1: u64,
}

fn print_case(c: &Ctx, api: u32, in_co: bool, d: u64, o: &Out, evs: &[(u64, u8)], spurious: bool) {
    let mut s = format!("CASE {} {} {} {} {} {}", api, if in_co { 0 } else { 1 }, o.t0, d, o.res, o.t1);
    for (t, k) in evs {
        s += &format!(" {} {}", t, k);
    }
    println!("{} => {} {}", s, o.res, o.t1);
    let el = o.t1 - o.t0;
    if o.res == 1 && el < d {
        c.fail(format!("api {api} ctx {}: timeout of {d} ns reported after only {el} ns", if in_co { "co" } else { "th" }));
    }
    if o.res == 1 && el > d + MS {
        c.fail(format!("api {api} ctx {}: timeout of {d} ns reported only after {el} ns although nothing delayed the call{}", if in_co { "co" } else { "th" }, if spurious { " (it was woken without data)" } else { "" }));
    }
}

fn main() {
    let mut cfg = Config::from_env();
    let mode = envs("MAYV_DIFF", "mpsc");
    let in_co = envs("MAYV_CTX", "co") == "co";
    let n = envn("MAYV_N", 12);
    let stall_x = envn("MAYV_SENDSTALL", 1_300_000);
    if mode == "mpscw" {
        match send_take_site() {
            Some((l, col)) => {
                cfg.stall_at = Some(("src/sync/mpsc.rs".into(), l, col, 0, stall_x));
                cfg.max_stalls = 10_000;
            }
            None => {
                println!("ORACLE cannot find `self.to_wake.take()` in InnerQueue::send of src/sync/mpsc.rs");
                std::process::exit(2);
            }
        }
    }
    run(cfg, move |ctx| {
        // initialise the runtime (a lazy std Once) from this thread alone, before anything else can race for it
        {
            let h = unsafe { may::coroutine::Builder::new().name("warmup".into()).spawn(|| {}).unwrap() };
            let _ = h.join();
        }
        for _ in 0..n {
            let d = DURS[(ctx.rand() % DURS.len() as u64) as usize];
            let a = armed_ns(d, in_co);
            let lead = 3 * MS; // the call is made `lead` after the case starts (room for events before the call)
            let base = ctx.now();
            let tc = base + lead;
            let out = Arc::new(Mutex::new(None::<Out>));
            let o2 = out.clone();
            match mode.as_str() {
                "mpsc" | "mpscw" => {
                    let stalled = mode == "mpscw";
                    let (tx, rx) = may::sync::mpsc::channel::<u32>();
                    let mut evs = script(ctx, d, a, 3, if stalled { &[1, 1, 9] } else { &[1, 1, 1, 3] });
                    // kind 9 (mpscw only): a message sent BEFORE the call, consumed before the call; its wake-up comes later
                    if stalled && d >= 400_000 && ((d + d / 4) as u64) < stall_x && ctx.rand() % 2 == 0 {
                        // classic pattern: wake-ups without data at d/2 and at d + d/4
                        evs = vec![Ev { off: (d / 2) as i64 - stall_x as i64, kind: 8 }, Ev { off: (d + d / 4) as i64 - stall_x as i64, kind: 8 }];
                        if 2 * d < stall_x {
                            evs.push(Ev { off: (2 * d) as i64 - stall_x as i64, kind: 8 });
                        }
                    }
                    for e in evs.iter_mut() {
                        if e.kind == 9 {
                            e.off = -((ctx.rand() % 1_200_000) as i64) - 1;
                        } else if stalled && e.off == 0 {
                            // strictly inside the call: the drain before the call must not race with it
                            e.off = 1;
                        }
                    }
                    evs.sort_by_key(|e| e.off);
                    let mut hs = vec![];
                    let mut model_evs: Vec<(u64, u8)> = vec![];
                    let mut txo = Some(tx);
                    for e in &evs {
                        let t = (tc as i64 + e.off) as u64;
                        match e.kind {
                            1 | 8 | 9 => {
                                let txc = txo.as_ref().unwrap().clone();
                                hs.push(ctx.spawn("snd", move || {
                                    wait_until(t);
                                    let _ = txc.send(7);
                                }));
                                if stalled {
                                    if e.kind == 1 {
                                        model_evs.push((t, 4));
                                    }
                                    model_evs.push((t + stall_x, 2));
                                } else {
                                    model_evs.push((t, 1));
                                }
                            }
                            _ => {
                                let txl = txo.take().unwrap();
                                hs.push(ctx.spawn("drp", move || {
                                    wait_until(t);
                                    drop(txl);
                                }));
                                model_evs.push((t, 3));
                            }
                        }
                    }
                    model_evs.sort();
                    let drain = evs.iter().any(|e| e.kind == 9 || e.kind == 8);
                    in_ctx(ctx, in_co, move || {
                        let c = mayv::ctx();
                        wait_until(tc);
                        if drain {
                            while rx.try_recv().is_ok() {}
                        }
                        let t0 = c.now();
                        let r = rx.recv_timeout(Duration::from_nanos(d));
                        let t1 = c.now();
                        let res = match r {
                            Ok(_) => 0,
                            Err(std::sync::mpsc::RecvTimeoutError::Timeout) => 1,
                            Err(std::sync::mpsc::RecvTimeoutError::Disconnected) => 2,
                        };
                        *o2.lock().unwrap() = Some(Out { t0, res, t1 });
                        // let the rest of the script run out before the receiver goes away
                        drop(rx);
                    });
                    for h in hs {
                        ctx.join(h);
                    }
                    drop(txo);
                    let o = out.lock().unwrap().take().unwrap();
                    let spurious = model_evs.iter().any(|(_, k)| *k == 2);
                    print_case(ctx, 0, in_co, d, &o, &model_evs, spurious);
                }
                "cq" => {
                    // arms: (offset, kind) 1 = Normal event, 2 = done without an event; one more arm never ends by itself
                    // unless the script ends with kind 3 (then the last arm to finish makes the cqueue Finished)
                    let mut evs = script(ctx, d, a, 3, &[1, 2, 2, 3]);
                    let finished = evs.last().map(|e| e.kind == 3).unwrap_or(false);
                    if finished {
                        // every arm must be done by then: no Normal events in this script (their arms end later)
                        for e in evs.iter_mut() {
                            if e.kind == 1 {
                                e.kind = 2;
                            }
                        }
                    }
                    let evs2 = evs.clone();
                    let mevs = Arc::new(Mutex::new(vec![]));
                    let mevs2 = mevs.clone();
                    in_ctx(ctx, in_co, move || {
                        let c = mayv::ctx();
                        wait_until(tc);
                        may::cqueue::scope(|cq| {
                            let ts = c.now();
                            for (i, e) in evs2.iter().enumerate() {
                                let off = e.off as u64;
                                let kind = e.kind;
                                cq.add(i, move |es| {
                                    wait_until(ts + off);
                                    if kind == 1 {
                                        es.send(0);
                                    }
                                });
                                mevs2.lock().unwrap().push((ts + off, kind));
                            }
                            if !finished {
                                cq.add(99, move |_es| {
                                    may::coroutine::sleep(Duration::from_secs(3600));
                                });
                            }
                            let t0 = c.now();
                            let r = cq.poll(Some(Duration::from_nanos(d)));
                            let t1 = c.now();
                            let res = match r {
                                Ok(_) => 0,
                                Err(may::cqueue::PollError::Timeout) => 1,
                                Err(may::cqueue::PollError::Finished) => 2,
                            };
                            *o2.lock().unwrap() = Some(Out { t0, res, t1 });
                        });
                    });
                    let o = out.lock().unwrap().take().unwrap();
                    let m = mevs.lock().unwrap().clone();
                    let spurious = m.iter().any(|(_, k)| *k == 2);
                    print_case(ctx, 1, in_co, d, &o, &m, spurious);
                }
                "sleep" => {
                    in_ctx(ctx, in_co, move || {
                        let c = mayv::ctx();
                        wait_until(tc);
                        let t0 = c.now();
                        may::coroutine::sleep(Duration::from_nanos(d));
                        let t1 = c.now();
                        *o2.lock().unwrap() = Some(Out { t0, res: 1, t1 });
                    });
                    let o = out.lock().unwrap().take().unwrap();
                    print_case(ctx, 3, in_co, d, &o, &[], false);
                }
                _ => {
                    // one park and its verdict
                    let kinds: &[u8] = match mode.as_str() {
                        "cond" | "blocker" => &[2],
                        _ => &[1],
                    };
                    let evs = script(ctx, d, a, 2, kinds);
                    let sem = Arc::new(may::sync::Semphore::new(0));
                    let flag = Arc::new(may::sync::SyncFlag::new());
                    let (mtx, mrx) = may::sync::mpmc::channel::<u32>();
                    let mx = Arc::new(may::sync::Mutex::new(0u32));
                    let cv = Arc::new(may::sync::Condvar::new());
                    let blk: Arc<Mutex<Option<Arc<may::sync::Blocker>>>> = Arc::new(Mutex::new(None));
                    let mut hs = vec![];
                    let mut model_evs: Vec<(u64, u8)> = vec![];
                    for e in &evs {
                        let t = (tc as i64 + e.off) as u64;
                        model_evs.push((t, e.kind));
                        let (sem, flag, mtx, mx, cv, blk, mode) = (sem.clone(), flag.clone(), mtx.clone(), mx.clone(), cv.clone(), blk.clone(), mode.clone());
                        hs.push(ctx.spawn("ev", move || {
                            wait_until(t);
                            match mode.as_str() {
                                "sem" => sem.post(),
                                "flag" => flag.fire(),
                                "mpmc" => {
                                    let _ = mtx.send(1);
                                }
                                "cond" => {
                                    let g = mx.lock().unwrap();
                                    cv.notify_all();
                                    drop(g);
                                }
                                _ => {
                                    // never hold the (real) std mutex across a schedule point: another event thread that is
                                    // due at the same instant would block on it while it holds the baton
                                    let b = blk.lock().unwrap().clone();
                                    if let Some(b) = b {
                                        b.unpark();
                                    }
                                }
                            }
                        }));
                    }
                    let mode2 = mode.clone();
                    in_ctx(ctx, in_co, move || {
                        let c = mayv::ctx();
                        wait_until(tc);
                        let dur = Duration::from_nanos(d);
                        let b = if mode2 == "blocker" {
                            let b = may::sync::Blocker::current();
                            *blk.lock().unwrap() = Some(b.clone());
                            Some(b)
                        } else {
                            None
                        };
                        let t0 = c.now();
                        let timed_out = match mode2.as_str() {
                            "sem" => !sem.wait_timeout(dur),
                            "flag" => !flag.wait_timeout(dur),
                            "mpmc" => mrx.recv_timeout(dur).is_err(),
                            "cond" => {
                                let g = mx.lock().unwrap();
                                let (g, r) = cv.wait_timeout(g, dur).unwrap();
                                drop(g);
                                r.timed_out()
                            }
                            _ => b.as_ref().unwrap().park(Some(dur)).is_err(),
                        };
                        let t1 = c.now();
                        *o2.lock().unwrap() = Some(Out { t0, res: timed_out as i64, t1 });
                    });
                    for h in hs {
                        ctx.join(h);
                    }
                    drop(mtx);
                    let o = out.lock().unwrap().take().unwrap();
                    print_case(ctx, 2, in_co, d, &o, &model_evs, false);
                }
            }
            // a gap between the cases: late events of this case must not reach the next one
            ctx.sleep_ns(40 * MS);
        }
        // a timeout too large for the clock: the call waits for the event (at + 2 ms), it neither panics nor times out
        if mode == "mpsc" || mode == "cq" {
            let tc = ctx.now() + 3 * MS;
            let out = Arc::new(Mutex::new(None::<Out>));
            let o2 = out.clone();
            let dmax = Duration::MAX.as_nanos();
            if mode == "mpsc" {
                let (tx, rx) = may::sync::mpsc::channel::<u32>();
                let h = ctx.spawn("snd", move || {
                    wait_until(tc + 2 * MS);
                    let _ = tx.send(7);
                    wait_until(tc + 3 * MS);
                });
                in_ctx(ctx, in_co, move || {
                    let c = mayv::ctx();
                    wait_until(tc);
                    let t0 = c.now();
                    let r = std::panic::catch_unwind(std::panic::AssertUnwindSafe(|| rx.recv_timeout(Duration::MAX)));
                    let t1 = c.now();
                    let res = match r {
                        Ok(Ok(_)) => 0,
                        Ok(Err(std::sync::mpsc::RecvTimeoutError::Timeout)) => 1,
                        Ok(Err(_)) => 2,
                        Err(_) => 9,
                    };
                    *o2.lock().unwrap() = Some(Out { t0, res, t1 });
                });
                ctx.join(h);
            } else {
                in_ctx(ctx, in_co, move || {
                    let c = mayv::ctx();
                    wait_until(tc);
                    may::cqueue::scope(|cq| {
                        cq.add(0, move |es| {
                            wait_until(tc + 2 * MS);
                            es.send(0);
                        });
                        cq.add(99, move |_es| {
                            may::coroutine::sleep(Duration::from_secs(3600));
                        });
                        let t0 = c.now();
                        let r = std::panic::catch_unwind(std::panic::AssertUnwindSafe(|| cq.poll(Some(Duration::MAX))));
                        let t1 = c.now();
                        let res = match r {
                            Ok(Ok(_)) => 0,
                            Ok(Err(may::cqueue::PollError::Timeout)) => 1,
                            Ok(Err(_)) => 2,
                            Err(_) => 9,
                        };
                        *o2.lock().unwrap() = Some(Out { t0, res, t1 });
                    });
                });
            }
            let o = out.lock().unwrap().take().unwrap();
            println!("CASE {} {} {} {} {} {} {} 1 => {} {}", if mode == "mpsc" { 0 } else { 1 }, if in_co { 0 } else { 1 }, o.t0, dmax, o.res, o.t1, tc + 2 * MS, o.res, o.t1);
            // prompt, not "at the same virtual instant": when several threads are ready at once the virtual clock may
            // advance by polling quanta (at most 5 ms each) before the poller gets the baton
            if o.res != 0 || o.t1 < tc + 2 * MS || o.t1 > tc + 2 * MS + 20 * MS {
                ctx.fail(format!("a call with Duration::MAX as timeout {} at {} (the event came at {})", match o.res { 9 => "panicked", 1 => "timed out", 0 => "returned the event", _ => "failed" }, o.t1, tc + 2 * MS));
            }
        }
    })
}
