//! C19 side scenario (implementation oracles only, no model): may_queue::mpsc_list::Queue, the non-removable
//! variant of the timer list (same push / pop protocol without prev / refs / handles; not used by `may` itself).
//! k producers x n tagged values, one consumer mixing pop and is_empty; MAYV_LEAVE values stay in the queue
//! when it is dropped.  Oracles: every value popped exactly once, per-producer order, `None` / `is_empty`
//! only when every completed push is consumed, payloads dropped exactly once.
use may_queue::mpsc_list::Queue;
use mayv::*;
use std::collections::BTreeSet;
use std::sync::atomic::{AtomicUsize, Ordering};
use std::sync::{Arc, Mutex};

fn envn(k: &str, d: usize) -> usize {
    std::env::var(k).ok().and_then(|s| s.parse().ok()).unwrap_or(d)
}

static DROPS: AtomicUsize = AtomicUsize::new(0);
struct Payload(usize);
impl Drop for Payload {
    fn drop(&mut self) {
        DROPS.fetch_add(1, Ordering::Relaxed);
    }
}

#[derive(Default)]
struct Shadow {
    consumed: BTreeSet<usize>,
    completed: Vec<usize>,
    started: usize,
}

fn main() {
    let mut cfg = Config::from_env();
    cfg.sched_files = vec!["may_queue/src/mpsc_list.rs"];
    let np = envn("MAYV_P", 2);
    let nv = envn("MAYV_N", 5);
    let leave = envn("MAYV_LEAVE", 0);
    run(cfg, move |ctx| {
        let q = Arc::new(Queue::<Payload>::new());
        let sh: Arc<Mutex<Shadow>> = Arc::new(Mutex::new(Shadow::default()));
        let total = np * nv;
        let mut hs = vec![];
        for p in 0..np {
            let (q, sh) = (q.clone(), sh.clone());
            hs.push(ctx.spawn(&format!("p{p}"), move || {
                for i in 0..nv {
                    let tag = (p + 1) * 100 + i;
                    sh.lock().unwrap().started += 1;
                    q.push(Payload(tag));
                    sh.lock().unwrap().completed.push(tag);
                }
            }));
        }
        let want = total - leave.min(total);
        let (q2, sh2) = (q.clone(), sh.clone());
        let cons = ctx.spawn("cons", move || {
            let c = mayv::ctx();
            let mut popped: Vec<usize> = vec![];
            let mut tries = 0;
            let all_completed_consumed = |c: &Ctx, what: &str| {
                let s = sh2.lock().unwrap();
                for t in &s.completed {
                    if !s.consumed.contains(t) {
                        c.fail(format!("{what} although the pushed value {t} is unconsumed"));
                        break;
                    }
                }
            };
            while popped.len() < want && tries < 4000 {
                tries += 1;
                if c.rand() % 4 == 0 {
                    let e = q2.is_empty();
                    if e {
                        all_completed_consumed(&c, "is_empty returned true");
                    } else {
                        let s = sh2.lock().unwrap();
                        if s.started == s.consumed.len() {
                            c.fail("is_empty returned false although every pushed value is consumed".into());
                        }
                    }
                    continue;
                }
                match q2.pop() {
                    Some(p) => {
                        if !sh2.lock().unwrap().consumed.insert(p.0) {
                            c.fail(format!("value {} popped twice", p.0));
                        }
                        if p.0 / 100 == 0 || p.0 / 100 > np || p.0 % 100 >= nv {
                            c.fail(format!("value {} was never pushed", p.0));
                        }
                        popped.push(p.0);
                    }
                    None => {
                        all_completed_consumed(&c, "pop returned None");
                        c.yield_now();
                    }
                }
            }
            let mut last = vec![None::<usize>; np + 2];
            for &v in &popped {
                let p = v / 100;
                if p >= 1 && p <= np {
                    if let Some(l) = last[p] {
                        if v <= l {
                            c.fail(format!("producer {p}: {v} popped after {l}"));
                        }
                    }
                    last[p] = Some(v);
                }
            }
            if popped.len() != want {
                c.fail(format!("popped {} of {want} values", popped.len()));
            }
        });
        for h in hs {
            ctx.join(h);
        }
        ctx.join(cons);
        ctx.record(false);
        let before = DROPS.load(Ordering::Relaxed);
        let left = total - sh.lock().unwrap().consumed.len();
        drop(q);
        let after = DROPS.load(Ordering::Relaxed);
        if after - before != left {
            ctx.fail(format!("queue drop released {} payloads, {left} were left", after - before));
        }
        if after != total {
            ctx.fail(format!("{after} payloads dropped in total, {total} were created"));
        }
    })
}
