//! C19, directed replay of the model witness `head_report_c_refuted_under_address_reuse`
//! (coq/Queue/ListV1Aba.v) on the real may_queue::mpsc_list_v1::Queue.
//!
//!   A pushes 100 (node X).  B pushes 200 behind X and is pre-empted between its `prev.next` store and its
//!   read of the consumer position.  Meanwhile the consumer thread pops 100 and 200 (X is passed), drops
//!   X's handle (X is freed), pushes 300 itself (the allocator hands X's address to the new node) and pops
//!   it (the new node is the stub).  B resumes: `ptr::eq(tail, prev)` compares the new stub with the stale
//!   `prev` -> is_head = true for an entry that was consumed long ago.
//!
//! Only the pre-emption of B is left to the scheduler (use MAYV_STRATEGY=sticky:10 and a few hundred seeds).
//! Exit code 2 with `ORACLE head report: ...` when the spurious report was produced; `ABA address-reused=..`
//! tells whether the allocator re-used the address in this run.
use may_queue::mpsc_list_v1::{Entry, Queue};
use mayv::*;
use std::sync::atomic::{AtomicBool, AtomicUsize, Ordering};
use std::sync::{Arc, Mutex};

struct Payload(usize);

fn node_addr(e: Entry<Payload>) -> (Entry<Payload>, usize) {
    let p = e.into_ptr();
    let a = p as usize;
    (unsafe { Entry::from_ptr(p) }, a)
}

fn main() {
    let mut cfg = Config::from_env();
    cfg.sched_files = vec!["may_queue/src/mpsc_list_v1.rs"];
    run(cfg, move |ctx| {
        let q = Arc::new(Queue::<Payload>::new());
        let hx: Arc<Mutex<Option<(Entry<Payload>, usize)>>> = Arc::new(Mutex::new(None));
        let a_done = Arc::new(AtomicBool::new(false));
        let consumed200 = Arc::new(AtomicBool::new(false));
        let reused = Arc::new(AtomicUsize::new(0));
        let (q1, hx1, a1) = (q.clone(), hx.clone(), a_done.clone());
        let ta = ctx.spawn("A", move || {
            let c = mayv::ctx();
            c.log("push.call", 0, 100, None);
            let (e, is_head) = q1.push(Payload(100));
            let (e, addr) = node_addr(e);
            c.log("push.ret", is_head as u64, addr as u64, None);
            *hx1.lock().unwrap() = Some((e, addr));
            a1.store(true, Ordering::SeqCst);
        });
        let (q2, a2, c200) = (q.clone(), a_done.clone(), consumed200.clone());
        let hb: Arc<Mutex<Option<Entry<Payload>>>> = Arc::new(Mutex::new(None));
        let hb2 = hb.clone();
        let tb = ctx.spawn("B", move || {
            let c = mayv::ctx();
            while !a2.load(Ordering::SeqCst) {
                c.yield_now();
            }
            c.log("push.call", 0, 200, None);
            let (e, is_head) = q2.push(Payload(200));
            let (e, addr) = node_addr(e);
            c.log("push.ret", is_head as u64, addr as u64, None);
            if is_head && c200.load(Ordering::SeqCst) {
                c.fail("head report: push of 200 reported is_head=true but the entry was already consumed (stale prev compared equal to the re-allocated stub)".into());
            }
            *hb2.lock().unwrap() = Some(e);
        });
        let (q3, hx3, c200b, reused3) = (q.clone(), hx.clone(), consumed200.clone(), reused.clone());
        let tc = ctx.spawn("cons", move || {
            let c = mayv::ctx();
            let mut got = vec![];
            let mut tries = 0;
            while got.len() < 2 && tries < 3000 {
                tries += 1;
                c.log("pop.call", 0, 0, None);
                match q3.pop() {
                    Some(p) => {
                        c.log("pop.ret", 1, p.0 as u64, None);
                        if p.0 == 200 {
                            c200b.store(true, Ordering::SeqCst);
                        }
                        got.push(p.0);
                    }
                    None => {
                        c.log("pop.ret", 0, 0, None);
                        c.yield_now();
                    }
                }
            }
            if got != vec![100, 200] {
                c.fail(format!("popped {got:?}"));
                return;
            }
            // X was popped and passed: dropping its handle frees the node on this thread
            let (ex, ax) = hx3.lock().unwrap().take().expect("handle of X");
            c.log("drop.call", 0, 100, None);
            drop(ex);
            // the next node allocated on this thread gets X's address (allocator's free list is LIFO)
            c.log("push.call", 0, 300, None);
            let (ey, _h) = q3.push(Payload(300));
            let (ey, ay) = node_addr(ey);
            c.log("push.ret", _h as u64, ay as u64, None);
            reused3.store((ay == ax) as usize, Ordering::SeqCst);
            c.log("pop.call", 0, 0, None);
            let r = q3.pop();
            c.log("pop.ret", r.is_some() as u64, r.as_ref().map(|p| p.0).unwrap_or(0) as u64, None);
            c.log("drop.call", 0, 300, None);
            drop(ey);
        });
        ctx.join(ta);
        ctx.join(tb);
        ctx.join(tc);
        ctx.record(false);
        println!("ABA address-reused={}", reused.load(Ordering::SeqCst));
        drop(hb.lock().unwrap().take());
        drop(q);
    })
}
