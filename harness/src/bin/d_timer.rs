//! C08 differential drivers: the REAL AtomicDuration and TimeOutList on seeded inputs / operation
//! sequences; prints `CASE <inputs> => <outputs>` lines that the check replays through the Gallina model.
use may::verif::{AtomicDuration, TimeOutList};
use mayv::*;
use std::time::Duration;

fn envn(k: &str, d: u64) -> u64 {
    std::env::var(k).ok().and_then(|s| s.parse().ok()).unwrap_or(d)
}

fn dur_of_ns(ns: u128) -> Duration {
    Duration::new((ns / 1_000_000_000) as u64, (ns % 1_000_000_000) as u32)
}

fn main() {
    let cfg = Config::from_env();
    let mode = std::env::var("MAYV_DIFF").unwrap_or_else(|_| "dur".into());
    let n = envn("MAYV_N", 40);
    run(cfg, move |ctx| {
        if mode == "dur" {
            let a = AtomicDuration::new(None);
            println!("CASE -1 => {}", a.take().map(|d| d.as_nanos() as i128).unwrap_or(-1));
            for i in 0..n {
                // structured: around multiples of a millisecond, tiny, zero, huge
                let k = ctx.rand();
                let ms = [0u128, 1, 2, 7, 1000, 3_600_000, 1u128 << 40, (1u128 << 64) - 3, 1u128 << 64, (1u128 << 64) + 5][(k % 10) as usize];
                let off = [0i128, 1, -1, 999_999, 500_000, 1_900_000, 2][((k >> 8) % 7) as usize];
                let mut ns = (ms * 1_000_000) as i128 + off;
                if i % 5 == 4 {
                    ns = (ctx.rand() % 20_000_000) as i128;
                }
                if ns < 0 {
                    ns = 0;
                }
                let d = dur_of_ns(ns as u128);
                let out = if k & 1 == 0 {
                    a.store(Some(d));
                    a.take()
                } else {
                    AtomicDuration::new(Some(d)).get()
                };
                println!("CASE {} => {}", ns, out.map(|d| d.as_nanos() as i128).unwrap_or(-1));
                // property oracle on the implementation: never early, < 1 ms late (below the 292 year cap), never "none"
                match out {
                    None => ctx.fail(format!("timeout of {ns} ns is treated as no timeout")),
                    Some(t) => {
                        let t = t.as_nanos() as i128;
                        let cap_ns: i128 = (u64::MAX / 2_000_000) as i128 * 1_000_000;
                        if ns <= cap_ns - 1_000_000 && !(ns <= t && t < ns + 1_000_000) {
                            ctx.fail(format!("timeout of {ns} ns is armed as {t} ns"));
                        }
                        if ns > cap_ns && t < cap_ns {
                            ctx.fail(format!("huge timeout of {ns} ns is armed as only {t} ns"));
                        }
                    }
                }
                // a taken duration leaves None behind
                if a.take().is_some() {
                    ctx.fail("AtomicDuration::take left a value behind".into());
                }
            }
        } else {
            let tl: TimeOutList<usize> = TimeOutList::new();
            let mut handles: Vec<Option<(usize, may::verif::TimeoutHandleOf<usize>)>> = vec![];
            let mut ops: Vec<i128> = vec![];
            let mut outs: Vec<i128> = vec![];
            let mut next_id = 1usize;
            // shadow state for the property oracles: id -> deadline of every timer that has not fired and was not removed
            let mut alive: std::collections::BTreeMap<usize, u64> = Default::default();
            let durs = [1_000_000u64, 2_000_000, 5_000_000, 1_500_000];
            for _ in 0..n {
                match ctx.rand() % 10 {
                    0..=3 => {
                        let d = durs[(ctx.rand() % (1 + envn("MAYV_DURS", 3))) as usize % durs.len()];
                        let id = next_id;
                        next_id += 1;
                        alive.insert(id, ctx.now() + d);
                        let (h, is_head) = tl.add_timer(Duration::from_nanos(d), id);
                        handles.push(Some((id, h)));
                        ops.extend([1, d as i128, id as i128]);
                        outs.push(is_head as i128);
                    }
                    4..=5 => {
                        let dt = [100_000u64, 1_000_000, 900_000, 3_000_000][(ctx.rand() % 4) as usize];
                        ctx.sleep_ns(dt);
                        ops.extend([2, dt as i128]);
                    }
                    6..=7 => {
                        let fired = std::cell::RefCell::new(vec![]);
                        let nx = tl.schedule_timer(ctx.now(), &|id: usize| fired.borrow_mut().push(id as i128));
                        let mut f = fired.into_inner();
                        f.sort();
                        let now = ctx.now();
                        for id in &f {
                            match alive.remove(&(*id as usize)) {
                                None => ctx.fail(format!("timer {id} fired twice or after it was removed")),
                                Some(dl) if dl > now => ctx.fail(format!("timer {id} fired at {now}, before its deadline {dl}")),
                                _ => {}
                            }
                        }
                        for (id, dl) in &alive {
                            if *dl <= now {
                                ctx.fail(format!("timer {id} due at {dl} was not fired by schedule_timer({now})"));
                            }
                        }
                        match (nx, alive.values().min()) {
                            (None, Some(dl)) => ctx.fail(format!("schedule_timer reports nothing pending but a timer is due at {dl}")),
                            (Some(t), Some(dl)) if now + t > *dl => ctx.fail(format!("next expiration {} is later than the earliest deadline {dl}", now + t)),
                            _ => {}
                        }
                        ops.push(3);
                        outs.push(f.len() as i128);
                        outs.extend(f);
                        outs.push(nx.map(|x| x as i128).unwrap_or(-1));
                    }
                    _ => {
                        if handles.is_empty() {
                            continue;
                        }
                        let k = (ctx.rand() as usize) % handles.len();
                        if let Some((id, h)) = handles[k].take() {
                            let r = h.remove();
                            if r.is_some() {
                                if alive.remove(&id).is_none() {
                                    ctx.fail(format!("remove returned timer {id} that had already fired"));
                                }
                            }
                            ops.extend([4, id as i128]);
                            outs.push(r.is_some() as i128);
                        }
                    }
                }
            }
            let s = |v: &Vec<i128>| v.iter().map(|x| x.to_string()).collect::<Vec<_>>().join(" ");
            println!("CASE {} => {}", s(&ops), s(&outs));
        }
    })
}
