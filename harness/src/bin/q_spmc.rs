//! C04 scenario: the real may_queue::spmc queue (work-stealing run queue), thread-only.
//!
//! One owner thread pushes tagged tasks (tags 1, 2, 3, ... in push order, so tag = logical slot + 1) and
//! pops locally; 1-3 stealer threads take tasks concurrently.  Two flavours (MAYV_KIND):
//!   local : the `Local` / `Steal` handles of `spmc::local()` as the scheduler uses them: owner
//!           `push_back` / `pop` (= local_pop), stealers `steal_into(&mut own_local)` / `is_empty`
//!   queue : a bare `spmc::Queue`: owner `push`, stealers `pop` / `bulk_pop` / `is_empty`
//! MAYV_OFF sequential push+pop pairs by main first (position relative to the 32-slot block boundary),
//! MAYV_PRE tasks pushed before the stealers start, MAYV_N pushes while they run, MAYV_LP = owner pops
//! after a push with probability LP/8, MAYV_S stealers with MAYV_OPS attempts each.
//! MAYV_ALLOC = fresh (a freed block address is never issued again) | reuse (the allocator re-issues
//! the most recently freed block address: ABA on the head word).  While the owner waits for the
//! stealers it pushes a filler task from time to time (MAYV_FILL, default on): a stealer that claimed
//! slots beyond the tail (possible after an ABA) must complete as soon as they are filled.
//! MAYV_F10 = 1: the directed schedule of finding F10? (no fillers: the stealer waits for ever when the ABA happens);
//! MAYV_F10 = 2: the same with fillers (the stealer completes as soon as the owner pushes again);
//! MAYV_F10 = 4: as 2, but the queue is empty when the stale CAS succeeds (the claim is exactly the slot at the tail).
//!
//! Oracles on the implementation: every task obtained exactly once overall (owner pops + stealers'
//! results + what is left in the stealers' own queues + final drain), never a value that was not
//! pushed, owner's pops in push order, every stolen batch consecutive and in push order, payload drop
//! counter, block allocation balance (no leaked / doubly freed block), nobody hangs (harness).
use mayv::*;
use std::alloc::{GlobalAlloc, Layout, System};
use std::sync::atomic::{AtomicBool, AtomicIsize, AtomicUsize, Ordering::SeqCst};
use std::sync::{Arc, Mutex};

fn envn(k: &str, d: usize) -> usize {
    std::env::var(k).ok().and_then(|s| s.parse().ok()).unwrap_or(d)
}

// ---------------------------------------------------------------- allocator shim for the block size class
const BLK_SIZE: usize = 288; // BlockNode<Task>: 32 * 8 + used + next + start, align 32
const BLK_ALIGN: usize = 32;
static MODE: AtomicUsize = AtomicUsize::new(0); // 0 pass through, 1 fresh (freed blocks are quarantined), 2 reuse (one-element LIFO)
static FREE1: AtomicUsize = AtomicUsize::new(0);
static ALLOCS: AtomicUsize = AtomicUsize::new(0);
static FREES: AtomicUsize = AtomicUsize::new(0);
static REUSED: AtomicUsize = AtomicUsize::new(0);
struct Shim;
unsafe impl GlobalAlloc for Shim {
    unsafe fn alloc(&self, l: Layout) -> *mut u8 {
        if l.size() == BLK_SIZE && l.align() == BLK_ALIGN {
            let m = MODE.load(SeqCst);
            if m != 0 {
                ALLOCS.fetch_add(1, SeqCst);
                if m == 2 {
                    let p = FREE1.swap(0, SeqCst);
                    if p != 0 {
                        REUSED.fetch_add(1, SeqCst);
                        return p as *mut u8;
                    }
                }
            }
        }
        System.alloc(l)
    }
    unsafe fn dealloc(&self, p: *mut u8, l: Layout) {
        if l.size() == BLK_SIZE && l.align() == BLK_ALIGN {
            let m = MODE.load(SeqCst);
            if m != 0 {
                FREES.fetch_add(1, SeqCst);
                if m == 2 {
                    let old = FREE1.swap(p as usize, SeqCst);
                    if old != 0 {
                        System.dealloc(old as *mut u8, l);
                    }
                }
                // m == 1: quarantined for the rest of the (short) run, so the address cannot come back
                return;
            }
        }
        System.dealloc(p, l)
    }
}
#[global_allocator]
static GLOBAL: Shim = Shim;

// ---------------------------------------------------------------- payload
static DROPS: AtomicUsize = AtomicUsize::new(0);
// scenario-side pacing hints (not part of the queue, not hooked): tasks probably in the queue, owner finished pushing
static HINT: AtomicIsize = AtomicIsize::new(0);
static OWNER_DONE: AtomicBool = AtomicBool::new(false);
struct Task(usize);
impl Drop for Task {
    fn drop(&mut self) {
        DROPS.fetch_add(1, SeqCst);
    }
}

#[derive(Default)]
struct Results {
    owner: Vec<usize>,            // owner's local pops, in order
    batches: Vec<Vec<usize>>,     // every stolen batch in queue order (steal_into: re-queued part ++ [returned])
    loose: Vec<usize>,            // obtained, no order claim (own queue drained after several steals)
    singles: Vec<usize>,          // Queue::pop results of stealers
}

enum Victim {
    Local(may_queue::spmc::Steal<Task>),
    Queue(Arc<may_queue::spmc::Queue<Task>>),
}

fn main() {
    let mut cfg = Config::from_env();
    cfg.sched_files = vec!["may_queue/src/spmc.rs", "may_queue/src/atomic.rs"];
    let kind_queue = std::env::var("MAYV_KIND").map(|s| s == "queue").unwrap_or(false);
    let reuse = std::env::var("MAYV_ALLOC").map(|s| s == "reuse").unwrap_or(false);
    let f10 = envn("MAYV_F10", 0);
    let off = envn("MAYV_OFF", 0);
    let pre = envn("MAYV_PRE", 0);
    let n = envn("MAYV_N", 8);
    let lp = envn("MAYV_LP", 3);
    let ns = envn("MAYV_S", 2);
    let ops = envn("MAYV_OPS", 6);
    let fill = envn("MAYV_FILL", 1);
    MODE.store(if reuse { 2 } else { 1 }, SeqCst);
    run(cfg, move |ctx| {
        // the size class the shim looks for must be the block size of this build
        let a0 = ALLOCS.load(SeqCst);
        let res = Arc::new(Mutex::new(Results::default()));
        let next_tag = Arc::new(AtomicUsize::new(1));
        let finished = Arc::new(AtomicUsize::new(0));
        let started = Arc::new(AtomicUsize::new(0));

        let (victim, mut local, queue) = if kind_queue {
            let q = Arc::new(may_queue::spmc::Queue::<Task>::new());
            (Victim::Queue(q.clone()), None, Some(q))
        } else {
            let (s, l) = may_queue::spmc::local::<Task>();
            (Victim::Local(s), Some(l), None)
        };
        if ALLOCS.load(SeqCst) != a0 + 1 {
            ctx.fail(format!("allocator shim: expected one block allocation of {BLK_SIZE} bytes for a new queue, saw {}", ALLOCS.load(SeqCst) - a0));
        }

        // ---- owner-side helpers (used by main in the offset phase, then by the owner thread)
        fn push(c: &Ctx, local: &mut Option<may_queue::spmc::Local<Task>>, queue: &Option<Arc<may_queue::spmc::Queue<Task>>>, tag: usize) {
            c.log("push.call", 0, tag as u64, None);
            match local {
                Some(l) => l.push_back(Task(tag)),
                None => queue.as_ref().unwrap().push(Task(tag)),
            }
            c.log("push.ret", 0, 0, None);
            HINT.fetch_add(1, SeqCst);
        }
        // the owner takes one task itself: local_pop through the Local handle, Queue::pop on the bare queue
        fn opop(c: &Ctx, local: &mut Option<may_queue::spmc::Local<Task>>, queue: &Option<Arc<may_queue::spmc::Queue<Task>>>) -> Option<usize> {
            match local {
                Some(l) => {
                    c.log("lpop.call", 0, 0, None);
                    let r = l.pop().map(|t| t.0);
                    c.log("lpop.ret", r.is_some() as u64, r.unwrap_or(0) as u64, None);
                    if r.is_some() {
                        HINT.fetch_sub(1, SeqCst);
                    }
                    r
                }
                None => {
                    c.log("pop.call", 0, 0, None);
                    let r = queue.as_ref().unwrap().pop().map(|t| t.0);
                    c.log("pop.ret", r.is_some() as u64, r.unwrap_or(0) as u64, None);
                    if r.is_some() {
                        HINT.fetch_sub(1, SeqCst);
                    }
                    r
                }
            }
        }

        // ---- offset phase: sequential, recorded
        for _ in 0..off {
            let tag = next_tag.fetch_add(1, SeqCst);
            push(ctx, &mut local, &queue, tag);
            let r = opop(ctx, &mut local, &queue);
            if r != Some(tag) {
                ctx.fail(format!("offset phase: popped {r:?} instead of {tag}"));
            }
        }
        for _ in 0..pre {
            let tag = next_tag.fetch_add(1, SeqCst);
            push(ctx, &mut local, &queue, tag);
        }

        // ---- stealers
        let mut hs = vec![];
        for si in 0..ns {
            let victim = match &victim {
                Victim::Local(s) => Victim::Local(s.clone()),
                Victim::Queue(q) => Victim::Queue(q.clone()),
            };
            let res = res.clone();
            let finished = finished.clone();
            let started = started.clone();
            hs.push(ctx.spawn(&format!("s{si}"), move || {
                let c = mayv::ctx();
                let (_own_steal, mut own) = may_queue::spmc::local::<Task>();
                let mut batches: Vec<Vec<usize>> = vec![];
                let mut loose: Vec<usize> = vec![];
                let mut singles: Vec<usize> = vec![];
                let mut undrained: Vec<usize> = vec![]; // returned values of steals whose re-queued part is still in `own`
                let drain = |c: &Ctx, own: &mut may_queue::spmc::Local<Task>| -> Vec<usize> {
                    let mut v = vec![];
                    loop {
                        c.log("own.pop.call", 0, 0, None);
                        let r = own.pop().map(|t| t.0);
                        c.log("own.pop.ret", r.is_some() as u64, r.unwrap_or(0) as u64, None);
                        match r {
                            Some(x) => {
                                HINT.fetch_sub(1, SeqCst);
                                v.push(x)
                            }
                            None => break,
                        }
                    }
                    v
                };
                started.fetch_add(1, SeqCst);
                let mut done_ops = 0usize;
                let mut idle = 0usize;
                while done_ops < ops {
                    // do not burn the attempts on an empty queue while the owner is still going to push
                    if HINT.load(SeqCst) <= 0 && !OWNER_DONE.load(SeqCst) && idle < 3000 && c.rand() % 4 != 0 {
                        idle += 1;
                        c.yield_now();
                        continue;
                    }
                    done_ops += 1;
                    let mode = c.rand() % 8;
                    match &victim {
                        Victim::Local(st) => {
                            if mode == 7 {
                                c.log("empty.call", 0, 0, None);
                                let e = st.is_empty();
                                c.log("empty.ret", 0, e as u64, None);
                                continue;
                            }
                            c.log("steal.call", 0, 0, None);
                            let r = st.steal_into(&mut own).map(|t| t.0);
                            c.log("steal.ret", r.is_some() as u64, r.unwrap_or(0) as u64, None);
                            match r {
                                Some(x) => {
                                    HINT.fetch_sub(1, SeqCst);
                                    undrained.push(x);
                                    if c.rand() % 3 != 0 {
                                        let mut d = drain(&c, &mut own);
                                        if undrained.len() == 1 {
                                            d.push(x);
                                            batches.push(d);
                                        } else {
                                            loose.extend(d);
                                            loose.extend(undrained.iter().copied());
                                        }
                                        undrained.clear();
                                    }
                                }
                                None => c.yield_now(),
                            }
                        }
                        Victim::Queue(q) => match mode {
                            0..=2 => {
                                c.log("pop.call", 0, 0, None);
                                let r = q.pop().map(|t| t.0);
                                c.log("pop.ret", r.is_some() as u64, r.unwrap_or(0) as u64, None);
                                match r {
                                    Some(x) => {
                                        HINT.fetch_sub(1, SeqCst);
                                        singles.push(x)
                                    }
                                    None => c.yield_now(),
                                }
                            }
                            3..=6 => {
                                c.log("bulk.call", 0, 0, None);
                                let v: Vec<usize> = q.bulk_pop().into_iter().map(|t| t.0).collect();
                                c.log("bulk.ret", v.len() as u64, 0, None);
                                for (k, x) in v.iter().enumerate() {
                                    c.log("bulk.item", k as u64, *x as u64, None);
                                }
                                HINT.fetch_sub(v.len() as isize, SeqCst);
                                if v.is_empty() {
                                    c.yield_now();
                                } else {
                                    batches.push(v);
                                }
                            }
                            _ => {
                                c.log("empty.call", 0, 0, None);
                                let e = q.is_empty();
                                c.log("empty.ret", 0, e as u64, None);
                            }
                        },
                    }
                }
                // what is left in the own queue
                let d = drain(&c, &mut own);
                if undrained.len() == 1 {
                    let mut d = d;
                    d.push(undrained[0]);
                    batches.push(d);
                } else {
                    loose.extend(d);
                    loose.extend(undrained.iter().copied());
                }
                // dropping the own queue runs local_pop / bulk_pop on that instance
                c.log("own.pop.call", 0, 0, None);
                drop(own);
                drop(_own_steal);
                let mut g = res.lock().unwrap();
                g.batches.extend(batches);
                g.loose.extend(loose);
                g.singles.extend(singles);
                drop(g);
                finished.fetch_add(1, SeqCst);
            }));
        }

        // ---- owner
        let res2 = res.clone();
        let next_tag2 = next_tag.clone();
        let finished2 = finished.clone();
        let started2 = started.clone();
        let owner = ctx.spawn("owner", move || {
            let c = mayv::ctx();
            let mut local = local;
            let queue = queue;
            let mut mine: Vec<usize> = vec![];
            let take = |c: &Ctx, local: &mut Option<may_queue::spmc::Local<Task>>, mine: &mut Vec<usize>| -> bool {
                match opop(c, local, &queue) {
                    Some(x) => {
                        mine.push(x);
                        true
                    }
                    None => false,
                }
            };
            let put = |c: &Ctx, local: &mut Option<may_queue::spmc::Local<Task>>| {
                let tag = next_tag2.fetch_add(1, SeqCst);
                push(c, local, &queue, tag);
            };
            if f10 != 0 {
                // directed schedule for F10?: the stealer should load (block A, 0), tail.index = 2, tail.block = A and then be
                // descheduled in front of its CAS (MAYV_STALL); meanwhile block A is consumed, freed and issued again
                put(&c, &mut local);
                put(&c, &mut local);
                while started2.load(SeqCst) == 0 {
                    c.yield_now();
                }
                for _ in 0..(c.rand() % 6) {
                    c.yield_now();
                }
                for _ in 0..30 {
                    put(&c, &mut local);
                }
                for _ in 0..32 {
                    take(&c, &mut local, &mut mine);
                }
                for _ in 0..32 {
                    put(&c, &mut local);
                }
                for _ in 0..32 {
                    take(&c, &mut local, &mut mine);
                }
                // MAYV_F10 = 4: the queue stays EMPTY here, so the stalled taker's stale CAS claims exactly the slot at the
                // tail and has to wait for the fillers (a taker that does not wait returns an unfilled slot)
                if f10 != 4 {
                    put(&c, &mut local);
                }
            } else {
                for _ in 0..n {
                    put(&c, &mut local);
                    if (c.rand() % 8) < lp as u64 {
                        take(&c, &mut local, &mut mine);
                    }
                }
            }
            OWNER_DONE.store(true, SeqCst);
            if f10 == 2 || f10 == 4 {
                // let the stalled stealer (MAYV_STALL=..:1000000000) come back and start waiting before the next push
                while c.now() < 1_200_000_000 && finished2.load(SeqCst) < ns {
                    c.yield_now();
                }
            }
            // wait for the stealers; a claimer that waits for slots beyond the tail is released by further pushes
            let mut spins = 0usize;
            let mut fillers = 0usize;
            while finished2.load(SeqCst) < ns {
                c.yield_now();
                spins += 1;
                if fill != 0 && f10 != 1 && spins % 40 == 0 && fillers < 70 {
                    fillers += 1;
                    if f10 == 4 {
                        // the owner looks into its queue while a taker may hold a claim beyond the tail: it must see it empty
                        take(&c, &mut local, &mut mine);
                    }
                    put(&c, &mut local);
                }
            }
            // final drain
            while take(&c, &mut local, &mut mine) {}
            res2.lock().unwrap().owner.extend(mine);
            c.record(false);
            drop(local);
            drop(queue);
        });
        for h in hs {
            ctx.join(h);
        }
        ctx.join(owner);
        ctx.record(false);
        drop(victim);

        // ---------------------------------------------------------------- oracles
        let total = next_tag.load(SeqCst) - 1;
        let g = res.lock().unwrap();
        let mut count = vec![0usize; total + 2];
        let mut note = |v: usize, who: &str, ctx: &Ctx| {
            if v == 0 || v > total {
                ctx.fail(format!("{who} obtained {v}, which was never pushed (garbage / uninitialised slot)"));
            } else {
                count[v] += 1;
                if count[v] == 2 {
                    ctx.fail(format!("task {v} obtained twice (second time by {who})"));
                }
            }
        };
        // the offset phase obtained tags 1..=off
        for v in 1..=off {
            note(v, "offset phase", ctx);
        }
        for &v in &g.owner {
            note(v, "owner", ctx);
        }
        for b in &g.batches {
            for &v in b {
                note(v, "stolen batch", ctx);
            }
        }
        for &v in g.loose.iter().chain(g.singles.iter()) {
            note(v, "stealer", ctx);
        }
        for v in 1..=total {
            if count[v] == 0 {
                ctx.fail(format!("task {v} was pushed but never obtained (lost)"));
            }
        }
        // the owner's own pops come out in push order (local_pop; on the bare queue its Queue::pop calls)
        for w in g.owner.windows(2) {
            if w[0] >= w[1] {
                ctx.fail(format!("owner popped {} after {}", w[1], w[0]));
            }
        }
        // a stolen batch is a run of consecutive tasks in push order
        for b in &g.batches {
            for w in b.windows(2) {
                if w[0] + 1 != w[1] {
                    ctx.fail(format!("stolen batch {b:?} is not a run of consecutive tasks in push order"));
                    break;
                }
            }
        }
        if DROPS.load(SeqCst) != total {
            ctx.fail(format!("{} payloads dropped, {} were created", DROPS.load(SeqCst), total));
        }
        let (al, fr) = (ALLOCS.load(SeqCst) - a0, FREES.load(SeqCst));
        if al != fr {
            ctx.fail(format!("block accounting: {al} blocks allocated, {fr} freed"));
        }
    })
}
