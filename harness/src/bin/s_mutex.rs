//! C05 scenario: the real may::sync::Mutex under the baton scheduler.
//!
//! 2-4 actors, threads and coroutines mixed (MAYV_MIX, one letter per actor: `t` thread, `c` coroutine),
//! each runs MAYV_ITERS rounds of lock / try_lock (MAYV_TRY percent) / unlock around a critical section
//! that bumps a NON-atomic counter (read, schedule point, write) and an occupancy counter.
//! MAYV_CANCEL coroutines are cancelled by main at a random schedule point (also while they wait).
//! MAYV_CV=1: actor 0 waits on a Condvar (re-locks the mutex with the cancel disabled: the `b_ignore`
//! path of Mutex::lock), actor 1 is the notifier that keeps the mutex for a while after notify_one, the
//! others queue up behind; main cancels actor 0 while it re-locks (the F1 schedule, notes/repro/mx.rs): with
//! MAYV_AIM=1 (default) main waits for the notify before it counts down to the cancel.
//! MAYV_AIMU=1 (plain variant): main cancels right when some holder starts its unlock (cancel races with the hand-off).
//!
//! Oracles on the implementation (independent of the model):
//!   * occupancy never 2 (checked on entry and on exit of every critical section)
//!   * no lost update on the plain counter: final counter == number of successful acquisitions
//!   * every lock() of a non-cancelled actor returned and the mutex is free at the end: main's final
//!     lock() returns (otherwise the harness reports HANG) and a final try_lock succeeds
//!   * try_lock succeeded only with nobody inside (occupancy), and a cancelled coroutine never ran
//!     its critical section after the cancel panic (would show as thread/coroutine panic otherwise)
//! API events for the acceptor: mx.actor(k, coroutine id), cs.read(v)/cs.write(v+1), lock.call/lock.ret, try.call/try.ret(ok), unlock.call/unlock.ret,
//! mx.cancel(k) right before `cancel()`, cv.wait.call / cv.wait.ret.
use mayv::*;
use std::cell::UnsafeCell;
use std::sync::atomic::{AtomicUsize, Ordering};
use std::sync::Arc;

/// never reuse an address: the virtual ThreadPark token of the harness is keyed by address, and the trace normaliser
/// numbers objects by address (see s_rwlock.rs: a recycled ThreadPark inherited a pending virtual token once)
struct Leak;
unsafe impl std::alloc::GlobalAlloc for Leak {
    unsafe fn alloc(&self, l: std::alloc::Layout) -> *mut u8 {
        std::alloc::System.alloc(l)
    }
    unsafe fn dealloc(&self, _p: *mut u8, _l: std::alloc::Layout) {}
}
#[global_allocator]
static GLOBAL: Leak = Leak;

fn envn(k: &str, d: usize) -> usize {
    std::env::var(k).ok().and_then(|s| s.parse().ok()).unwrap_or(d)
}

static OCC: AtomicUsize = AtomicUsize::new(0);
static ACQ: AtomicUsize = AtomicUsize::new(0);
static DONE: AtomicUsize = AtomicUsize::new(0);
static GO: AtomicUsize = AtomicUsize::new(0);
static NOTIFIED: AtomicUsize = AtomicUsize::new(0);
static WAITING: AtomicUsize = AtomicUsize::new(0);
static UNLOCKS: AtomicUsize = AtomicUsize::new(0);
const HOLD_KEY: usize = 0x7777_0001;

/// first thing every actor does: wait until all actors exist (coroutine objects are pooled: an actor that
/// finished before the next one is spawned would hand its identity on), then announce itself to the acceptor
fn hello(who: usize) {
    let c = mayv::ctx();
    while GO.load(Ordering::SeqCst) == 0 {
        c.yield_now();
    }
    c.log("mx.actor", who as u64, may::verif::current_co_id(), None);
}

struct Shared {
    m: may::sync::Mutex<bool>,
    cv: may::sync::Condvar,
    /// plain counter protected only by the mutex
    plain: UnsafeCell<u64>,
}
unsafe impl Sync for Shared {}
unsafe impl Send for Shared {}

/// the critical section: occupancy must be 0 on entry and 1 on exit; read - point - write on the plain counter
fn critical(sh: &Shared, who: usize, pts: usize) {
    let c = mayv::ctx();
    let o = OCC.fetch_add(1, Ordering::SeqCst);
    if o != 0 {
        c.fail(format!("mutual-exclusion: actor {who} entered the critical section with {o} other holder(s) inside"));
    }
    ACQ.fetch_add(1, Ordering::SeqCst);
    let v = unsafe { *sh.plain.get() };
    c.log("cs.read", 0, v, None);
    for _ in 0..pts {
        c.point();
    }
    unsafe { *sh.plain.get() = v + 1 };
    c.log("cs.write", 0, v + 1, None);
    let o = OCC.fetch_sub(1, Ordering::SeqCst);
    if o != 1 {
        c.fail(format!("mutual-exclusion: actor {who} leaves the critical section, occupancy was {o}"));
    }
}

/// MAYV_POISON=1: the mutex is poisoned before anybody else uses it; everybody takes the guards out of the errors
fn poisoned_on_purpose() -> bool {
    envn("MAYV_POISON", 0) == 1
}

fn plain_actor(sh: Arc<Shared>, who: usize, iters: usize, try_pct: u64) {
    let c = mayv::ctx();
    hello(who);
    for _ in 0..iters {
        let r = c.rand() % 100;
        let pts = (c.rand() % 3) as usize;
        if r < try_pct {
            c.log("try.call", 0, 0, None);
            match sh.m.try_lock() {
                Ok(g) => {
                    c.log("try.ret", 0, 1, None);
                    critical(&sh, who, pts);
                    UNLOCKS.fetch_add(1, Ordering::SeqCst);
                    c.log("unlock.call", 0, 0, None);
                    drop(g);
                    c.log("unlock.ret", 0, 0, None);
                }
                Err(std::sync::TryLockError::WouldBlock) => {
                    c.log("try.ret", 0, 0, None);
                    c.point();
                }
                Err(std::sync::TryLockError::Poisoned(e)) => {
                    if !poisoned_on_purpose() {
                        c.fail(format!("actor {who}: mutex poisoned"));
                        return;
                    }
                    // MAYV_POISON=1: the guard inside the error is a guard like any other
                    let g = e.into_inner();
                    c.log("try.ret", 0, 1, None);
                    critical(&sh, who, pts);
                    UNLOCKS.fetch_add(1, Ordering::SeqCst);
                    c.log("unlock.call", 0, 0, None);
                    drop(g);
                    c.log("unlock.ret", 0, 0, None);
                }
            }
        } else {
            c.log("lock.call", 0, 0, None);
            let g = match sh.m.lock() {
                Ok(g) => g,
                Err(e) => {
                    if !poisoned_on_purpose() {
                        c.fail(format!("actor {who}: mutex poisoned"));
                        return;
                    }
                    e.into_inner()
                }
            };
            c.log("lock.ret", 0, 0, None);
            critical(&sh, who, pts);
            UNLOCKS.fetch_add(1, Ordering::SeqCst);
            c.log("unlock.call", 0, 0, None);
            drop(g);
            c.log("unlock.ret", 0, 0, None);
        }
    }
    DONE.fetch_add(1, Ordering::SeqCst);
}

/// actor 0 of the condvar variant: waits for the flag (Condvar::wait re-locks with the cancel disabled)
fn cv_waiter(sh: Arc<Shared>, who: usize) {
    let c = mayv::ctx();
    hello(who);
    c.log("lock.call", 0, 0, None);
    let mut g = sh.m.lock().unwrap();
    c.log("lock.ret", 0, 0, None);
    while !*g {
        c.log("cv.wait.call", 0, 0, None);
        WAITING.store(1, Ordering::SeqCst);
        // MAYV_CVT=1: the timed flavour (its cancel exit is separate code); the timeout is far away and never fires
        g = if envn("MAYV_CVT", 0) == 1 {
            sh.cv.wait_timeout(g, std::time::Duration::from_secs(3600)).unwrap().0
        } else {
            sh.cv.wait(g).unwrap()
        };
        c.log("cv.wait.ret", 0, 0, None);
    }
    critical(&sh, who, 1);
    c.log("unlock.call", 0, 0, None);
    drop(g);
    c.log("unlock.ret", 0, 0, None);
    DONE.fetch_add(1, Ordering::SeqCst);
}

/// actor 1 of the condvar variant: sets the flag, notifies, keeps the mutex for a while
fn cv_notifier(sh: Arc<Shared>, who: usize, hold: usize, wait_cancel: bool) {
    let c = mayv::ctx();
    hello(who);
    // usually let the waiter get to its Condvar::wait first (it holds the mutex until the wait releases it)
    if wait_cancel && c.rand() % 5 != 0 {
        let mut n = 0;
        while WAITING.load(Ordering::SeqCst) == 0 && n < 2000 {
            c.yield_now();
            n += 1;
        }
    }
    c.log("lock.call", 0, 0, None);
    let mut g = sh.m.lock().unwrap();
    c.log("lock.ret", 0, 0, None);
    *g = true;
    sh.cv.notify_one();
    NOTIFIED.store(1, Ordering::SeqCst);
    critical(&sh, who, hold);
    // keep the mutex until main has cancelled the waiter that is re-locking it (blocks in the harness, no spinning)
    if wait_cancel {
        may::verif::Hooks::block(c.ctl, HOLD_KEY, None);
    }
    c.log("unlock.call", 0, 0, None);
    drop(g);
    c.log("unlock.ret", 0, 0, None);
    DONE.fetch_add(1, Ordering::SeqCst);
}

enum H {
    T(JoinH),
    C(may::coroutine::JoinHandle<()>),
}

fn main() {
    let mut cfg = Config::from_env();
    // schedule points: the mutex, the blocker handshake, park/unpark and cancel; the waiter queue
    // (may_queue::mpsc) runs atomically: the atomic-FIFO abstraction of the model (DESIGN 2.1, C03)
    cfg.sched_files = vec![
        "src/sync/mutex.rs",
        "src/sync/blocking.rs",
        "src/park.rs",
        "src/cancel.rs",
        "src/sync/condvar.rs",
        "src/sync/atomic_option.rs",
    ];
    let mix: Vec<char> = std::env::var("MAYV_MIX").unwrap_or_else(|_| "tcc".into()).chars().collect();
    let iters = envn("MAYV_ITERS", 2);
    let try_pct = envn("MAYV_TRY", 30) as u64;
    let ncancel = envn("MAYV_CANCEL", 1);
    let cvmode = envn("MAYV_CV", 0) == 1;
    let spread = envn("MAYV_SPREAD", 40) as u64;
    let aim = envn("MAYV_AIM", 1) == 1;
    let aimu = envn("MAYV_AIMU", 0) == 1;
    run(cfg, move |ctx| {
        ctx.log("mx.actor", 99, 0, None);
        let sh = Arc::new(Shared { m: may::sync::Mutex::new(false), cv: may::sync::Condvar::new(), plain: UnsafeCell::new(0) });
        if poisoned_on_purpose() {
            // a holder panics inside the critical section (not recorded: the model starts from the free, poisoned mutex)
            ctx.record(false);
            let sh3 = sh.clone();
            let _ = std::panic::catch_unwind(std::panic::AssertUnwindSafe(move || {
                let _g = sh3.m.lock().unwrap();
                panic!("poison the mutex");
            }));
            if !sh.m.is_poisoned() {
                ctx.fail("the mutex is not poisoned after a holder panicked".into());
            }
            ctx.record(true);
        }
        let mut hs: Vec<H> = vec![];
        for (k, kind) in mix.iter().enumerate() {
            let sh2 = sh.clone();
            let body: Box<dyn FnOnce() + Send + 'static> = if cvmode && k == 0 {
                Box::new(move || cv_waiter(sh2, k))
            } else if cvmode && k == 1 {
                let hold = 2 + (ctx.rand() % 4) as usize;
                let wait_cancel = aim && ncancel > 0 && mix[0] == 'c';
                Box::new(move || cv_notifier(sh2, k, hold, wait_cancel))
            } else {
                Box::new(move || plain_actor(sh2, k, iters, try_pct))
            };
            if *kind == 'c' {
                let h = unsafe { may::coroutine::Builder::new().name(format!("a{k}")).spawn(body).unwrap() };
                hs.push(H::C(h));
            } else {
                hs.push(H::T(ctx.spawn(&format!("a{k}"), body)));
            }
        }
        GO.store(1, Ordering::SeqCst);
        // cancel some coroutines at random schedule points
        let cos: Vec<usize> = mix.iter().enumerate().filter(|(_, c)| **c == 'c').map(|(k, _)| k).collect();
        let mut victims: Vec<usize> = vec![];
        if cvmode && mix[0] == 'c' && ncancel > 0 {
            victims.push(0);
        }
        while victims.len() < ncancel.min(cos.len()) {
            let k = cos[(ctx.rand() as usize) % cos.len()];
            if !victims.contains(&k) {
                victims.push(k);
            }
        }
        for (vi, &k) in victims.iter().enumerate() {
            // condvar variant: aim at the window in which actor 0 re-locks the mutex that the notifier still holds
            if cvmode && aim && vi == 0 {
                let mut guard = 0;
                while NOTIFIED.load(Ordering::SeqCst) == 0 && guard < 2000 {
                    ctx.yield_now();
                    guard += 1;
                }
            }
            // plain variant with MAYV_AIMU=1: aim at an unlock in progress (cancel races with the hand-off)
            if !cvmode && aimu {
                let want = 1 + (ctx.rand() % 3) as usize;
                let mut guard = 0;
                while UNLOCKS.load(Ordering::SeqCst) < want && guard < 2000 {
                    ctx.yield_now();
                    guard += 1;
                }
            }
            let wait = ctx.rand() % (if cvmode && aim && vi == 0 { 120 } else if !cvmode && aimu { 10 } else { spread.max(1) });
            for _ in 0..wait {
                ctx.yield_now();
            }
            if let H::C(h) = &hs[k] {
                ctx.log("mx.cancel", k as u64, 0, None);
                unsafe { h.coroutine().cancel() };
            }
            if cvmode && aim && vi == 0 {
                may::verif::Hooks::wake(ctx.ctl, HOLD_KEY);
            }
        }
        let mut cancelled_done = 0usize;
        let n = hs.len();
        for (k, h) in hs.into_iter().enumerate() {
            match h {
                H::T(j) => ctx.join(j),
                H::C(j) => match j.join() {
                    Ok(()) => {}
                    Err(_) => {
                        if victims.contains(&k) {
                            cancelled_done += 1;
                        } else {
                            ctx.fail(format!("coroutine actor {k} panicked without being cancelled"));
                        }
                    }
                },
            }
        }
        if DONE.load(Ordering::SeqCst) + cancelled_done != n {
            ctx.fail(format!("{} actors finished + {} cancelled, {} started", DONE.load(Ordering::SeqCst), cancelled_done, n));
        }
        // the mutex must be free and consistent now: main takes it once more (hangs if a hand-off was lost)
        ctx.log("lock.call", 0, 0, None);
        let g = sh.m.lock().unwrap_or_else(|e| e.into_inner());
        ctx.log("lock.ret", 0, 0, None);
        critical(&sh, 99, 0);
        ctx.log("unlock.call", 0, 0, None);
        drop(g);
        ctx.log("unlock.ret", 0, 0, None);
        ctx.log("try.call", 0, 0, None);
        match sh.m.try_lock() {
            Ok(g) => {
                ctx.log("try.ret", 0, 1, None);
                ctx.log("unlock.call", 0, 0, None);
                drop(g);
                ctx.log("unlock.ret", 0, 0, None);
            }
            Err(std::sync::TryLockError::Poisoned(e)) if poisoned_on_purpose() => {
                ctx.log("try.ret", 0, 1, None);
                ctx.log("unlock.call", 0, 0, None);
                drop(e.into_inner());
                ctx.log("unlock.ret", 0, 0, None);
            }
            Err(_) => {
                ctx.log("try.ret", 0, 0, None);
                ctx.fail("final try_lock failed: the mutex is still taken after everybody left".into());
            }
        }
        ctx.record(false);
        let plain = unsafe { *sh.plain.get() };
        let acq = ACQ.load(Ordering::SeqCst) as u64;
        if plain != acq {
            ctx.fail(format!("lost update: plain counter {plain} after {acq} successful acquisitions"));
        }
        if OCC.load(Ordering::SeqCst) != 0 {
            ctx.fail("occupancy not zero at the end".into());
        }
    })
}
