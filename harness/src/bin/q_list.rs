//! C19 scenario: the real may_queue::mpsc_list_v1::Queue (the removable list behind the timers).
//! k producer threads push tagged entries and hand the returned Entry handles (with the is_head flag) to
//! the single consumer thread through a side channel that is not a `may` primitive; the consumer mixes
//! pop / pop_if(predicate on the tag) / peek / is_empty with remove() / is_link() / drop on handles it
//! received (head, middle, last, already consumed ones).  Entry handles are only ever dropped on the
//! consumer thread.
//!
//! Oracles on the implementation (independent of the model):
//!  * every tag is consumed exactly once, by exactly one of pop / pop_if / remove;
//!  * pops come out in push order per producer;
//!  * remove() on a consumed entry returns None; remove() that returns a value returns the handle's own;
//!  * head report: is_head=true => every push that returned before this one was called is consumed and the own
//!    entry is not; a push that provably found the list empty and whose entry is still there must report
//!    is_head=true; when neither the consumer nor another producer made a step during the push the flag is
//!    exactly "list was empty" (these exact checks are counted);
//!  * pop -> None / is_empty -> true only when every completed push is consumed; peek returns an unconsumed tag;
//!  * no panic inside the list, all payloads dropped exactly once at the end.
use may_queue::mpsc_list_v1::{Entry, Queue};
use mayv::*;
use std::collections::BTreeMap;
use std::sync::atomic::{AtomicBool, AtomicUsize, Ordering};
use std::sync::{Arc, Mutex};

fn envn(k: &str, d: usize) -> usize {
    std::env::var(k).ok().and_then(|s| s.parse().ok()).unwrap_or(d)
}

const MAXTAG: usize = 4096;
static DROPS: AtomicUsize = AtomicUsize::new(0);
static DOUBLE_DROP: AtomicUsize = AtomicUsize::new(0);
static DROPPED: [AtomicBool; MAXTAG] = [const { AtomicBool::new(false) }; MAXTAG];

struct Payload(usize);
impl Drop for Payload {
    fn drop(&mut self) {
        DROPS.fetch_add(1, Ordering::Relaxed);
        if self.0 < MAXTAG && DROPPED[self.0].swap(true, Ordering::Relaxed) {
            DOUBLE_DROP.fetch_add(1, Ordering::Relaxed);
        }
    }
}

#[derive(Clone, Copy, PartialEq, Debug)]
enum How {
    Pop,
    PopIf,
    Remove,
}

/// what the test threads know about the list, updated between hook points only (so every update is atomic
/// with the list operation's last shared access as far as the other threads can tell)
#[derive(Default)]
struct Shadow {
    consumed: BTreeMap<usize, How>,
    completed: Vec<usize>,   // tags whose push has returned
    started: usize,          // number of push calls started
    inflight: usize,         // pushes between call and return
    cons_clock: usize,       // consumer API calls + returns (odd = inside a call)
    exact_head_checks: usize,
    head_true: usize,
}

struct Handle {
    tag: usize,
    e: Entry<Payload>,
}

fn node_addr(e: Entry<Payload>) -> (Entry<Payload>, usize) {
    let p = e.into_ptr();
    let a = p as usize;
    (unsafe { Entry::from_ptr(p) }, a)
}

fn main() {
    let mut cfg = Config::from_env();
    cfg.sched_files = vec!["may_queue/src/mpsc_list_v1.rs"];
    let np = envn("MAYV_P", 2);
    let nv = envn("MAYV_N", 4);
    let leave = envn("MAYV_LEAVE", 0); // entries left in the list when it is dropped
    // operation weights of the consumer: pop, pop_if, peek, is_empty, remove, drop, is_link
    let mix: Vec<usize> = std::env::var("MAYV_MIX")
        .unwrap_or_else(|_| "4,3,1,1,4,1,1".into())
        .split(',')
        .filter_map(|x| x.parse().ok())
        .collect();
    let drop_queue_first = envn("MAYV_QDROP_FIRST", 0) == 1;
    assert!(mix.len() == 7 && np * 100 + nv < MAXTAG && nv < 100);
    run(cfg, move |ctx| {
        let q = Arc::new(Queue::<Payload>::new());
        let side: Arc<Mutex<Vec<Handle>>> = Arc::new(Mutex::new(vec![]));
        let sh: Arc<Mutex<Shadow>> = Arc::new(Mutex::new(Shadow::default()));
        let total = np * nv;
        let mut hs = vec![];
        for p in 0..np {
            let (q, side, sh) = (q.clone(), side.clone(), sh.clone());
            hs.push(ctx.spawn(&format!("p{p}"), move || {
                let c = mayv::ctx();
                for i in 0..nv {
                    let tag = (p + 1) * 100 + i;
                    // snapshot for the head-report oracles
                    let (clk0, started0, others0, unconsumed0, before): (usize, usize, usize, usize, Vec<usize>) = {
                        let mut s = sh.lock().unwrap();
                        let unc = s.completed.iter().filter(|t| !s.consumed.contains_key(t)).count();
                        let snap = (s.cons_clock, s.started + 1, s.inflight, unc, s.completed.clone());
                        s.started += 1;
                        s.inflight += 1;
                        snap
                    };
                    c.log("push.call", 0, tag as u64, None);
                    let (e, is_head) = q.push(Payload(tag));
                    let (e, addr) = node_addr(e);
                    c.log("push.ret", is_head as u64, addr as u64, None);
                    {
                        let mut s = sh.lock().unwrap();
                        s.inflight -= 1;
                        let own_consumed = s.consumed.contains_key(&tag);
                        let nobody_else = others0 == 0 && s.started == started0;
                        if is_head {
                            s.head_true += 1;
                            if own_consumed {
                                c.fail(format!("head report: push of {tag} reported is_head=true but the entry was already consumed"));
                            }
                            for t in &before {
                                if !s.consumed.contains_key(t) {
                                    c.fail(format!("head report: push of {tag} reported is_head=true while the earlier entry {t} is still unconsumed"));
                                }
                            }
                        }
                        // the list was certainly empty at the swap, and the entry is still there: the report must be true
                        if nobody_else && unconsumed0 == 0 && !own_consumed && !is_head {
                            c.fail(format!("head report: push of {tag} found the list empty, its entry is unconsumed, but is_head=false (timer thread would sleep past it)"));
                        }
                        // nobody made a step during this push: the flag is exactly "the list was empty"
                        if nobody_else && s.cons_clock == clk0 && clk0 % 2 == 0 {
                            s.exact_head_checks += 1;
                            if is_head != (unconsumed0 == 0) {
                                c.fail(format!("head report: undisturbed push of {tag}: is_head={is_head} but {unconsumed0} unconsumed entries were in the list"));
                            }
                        }
                        s.completed.push(tag);
                    }
                    side.lock().unwrap().push(Handle { tag, e });
                }
            }));
        }
        let want = total - leave.min(total);
        let (q2, side2, sh2) = (q.clone(), side.clone(), sh.clone());
        let cons = ctx.spawn("cons", move || {
            let c = mayv::ctx();
            let mut mine: Vec<Handle> = vec![]; // handles received so far
            let mut popped: Vec<usize> = vec![];
            let mut nconsumed = 0usize;
            let mut tries = 0usize;
            let wsum: usize = mix.iter().sum();
            let tick = |s: &Mutex<Shadow>| s.lock().unwrap().cons_clock += 1;
            let consume = |tag: usize, how: How, c: &Ctx| {
                let mut s = sh2.lock().unwrap();
                if tag / 100 == 0 || tag / 100 > np || tag % 100 >= nv {
                    c.fail(format!("{how:?} returned {tag}, which was never pushed"));
                }
                if let Some(prev) = s.consumed.insert(tag, how) {
                    c.fail(format!("entry {tag} consumed twice: by {prev:?} and by {how:?}"));
                }
            };
            let all_completed_consumed = |c: &Ctx, what: &str| {
                let s = sh2.lock().unwrap();
                for t in &s.completed {
                    if !s.consumed.contains_key(t) {
                        c.fail(format!("{what} although the pushed entry {t} is unconsumed"));
                        break;
                    }
                }
            };
            while nconsumed < want && tries < 4_000 {
                tries += 1;
                mine.append(&mut side2.lock().unwrap());
                let mut r = (c.rand() as usize) % wsum;
                let mut op = 0;
                while r >= mix[op] {
                    r -= mix[op];
                    op += 1;
                }
                if op >= 4 && mine.is_empty() {
                    op = 0;
                }
                match op {
                    0 => {
                        tick(&sh2);
                        c.log("pop.call", 0, 0, None);
                        let r = q2.pop();
                        match &r {
                            Some(p) => {
                                c.log("pop.ret", 1, p.0 as u64, None);
                                consume(p.0, How::Pop, &c);
                                popped.push(p.0);
                                nconsumed += 1;
                            }
                            None => {
                                c.log("pop.ret", 0, 0, None);
                                all_completed_consumed(&c, "pop returned None");
                            }
                        }
                        tick(&sh2);
                        if r.is_none() {
                            c.yield_now();
                        }
                    }
                    1 => {
                        let k = (c.rand() as usize) % (nv + 1);
                        tick(&sh2);
                        c.log("popif.call", 0, k as u64, None);
                        let r = q2.pop_if(&|v: &Payload| v.0 % 100 <= k);
                        match &r {
                            Some(p) => {
                                c.log("popif.ret", 1, p.0 as u64, None);
                                if p.0 % 100 > k {
                                    c.fail(format!("pop_if returned {} although the predicate (seq <= {k}) is false for it", p.0));
                                }
                                consume(p.0, How::PopIf, &c);
                                popped.push(p.0);
                                nconsumed += 1;
                            }
                            None => c.log("popif.ret", 0, 0, None),
                        }
                        tick(&sh2);
                        if r.is_none() {
                            c.yield_now();
                        }
                    }
                    2 => {
                        tick(&sh2);
                        c.log("peek.call", 0, 0, None);
                        let r = unsafe { q2.peek() }.map(|p| p.0);
                        c.log("peek.ret", r.is_some() as u64, r.unwrap_or(0) as u64, None);
                        match r {
                            Some(t) => {
                                if sh2.lock().unwrap().consumed.contains_key(&t) {
                                    c.fail(format!("peek shows the consumed entry {t}"));
                                }
                            }
                            None => all_completed_consumed(&c, "peek returned None"),
                        }
                        tick(&sh2);
                    }
                    3 => {
                        tick(&sh2);
                        c.log("empty.call", 0, 0, None);
                        let r = q2.is_empty();
                        c.log("empty.ret", r as u64, 0, None);
                        if r {
                            all_completed_consumed(&c, "is_empty returned true");
                        } else {
                            let s = sh2.lock().unwrap();
                            if s.started == s.consumed.len() && s.inflight == 0 {
                                c.fail("is_empty returned false although every pushed entry is consumed".into());
                            }
                        }
                        tick(&sh2);
                    }
                    4 => {
                        let i = (c.rand() as usize) % mine.len();
                        let h = mine.swap_remove(i);
                        let was_consumed = sh2.lock().unwrap().consumed.contains_key(&h.tag);
                        tick(&sh2);
                        c.log("remove.call", 0, h.tag as u64, None);
                        let r = h.e.remove();
                        match &r {
                            Some(p) => {
                                c.log("remove.ret", 1, p.0 as u64, None);
                                if was_consumed {
                                    c.fail(format!("remove() of the consumed entry {} returned a value ({})", h.tag, p.0));
                                }
                                if p.0 != h.tag {
                                    c.fail(format!("remove() on the handle of {} returned the value of {}", h.tag, p.0));
                                }
                                consume(p.0, How::Remove, &c);
                                nconsumed += 1;
                            }
                            None => c.log("remove.ret", 0, 0, None),
                        }
                        tick(&sh2);
                    }
                    5 => {
                        let i = (c.rand() as usize) % mine.len();
                        let h = mine.swap_remove(i);
                        tick(&sh2);
                        c.log("drop.call", 0, h.tag as u64, None);
                        drop(h);
                        tick(&sh2);
                    }
                    _ => {
                        let i = (c.rand() as usize) % mine.len();
                        let was_consumed = sh2.lock().unwrap().consumed.get(&mine[i].tag).copied();
                        tick(&sh2);
                        c.log("islink.call", 0, mine[i].tag as u64, None);
                        let r = mine[i].e.is_link();
                        c.log("islink.ret", r as u64, 0, None);
                        if !r && was_consumed.is_none() {
                            c.fail(format!("is_link() is false for the unconsumed entry {}", mine[i].tag));
                        }
                        if r && was_consumed == Some(How::Remove) {
                            c.fail(format!("is_link() is true for the removed entry {}", mine[i].tag));
                        }
                        tick(&sh2);
                    }
                }
            }
            // the remaining handles are dropped here, on the consumer thread (part of the recorded run);
            // with MAYV_QDROP_FIRST=1 they are kept until the queue itself is gone
            mine.append(&mut side2.lock().unwrap());
            if !drop_queue_first {
                while let Some(h) = mine.pop() {
                    c.log("drop.call", 0, h.tag as u64, None);
                    drop(h);
                }
            } else {
                side2.lock().unwrap().append(&mut mine);
            }
            // oracles on the popped sequence
            let mut last = vec![None::<usize>; np + 2];
            for &v in &popped {
                let p = v / 100;
                if p >= 1 && p <= np {
                    if let Some(l) = last[p] {
                        if v <= l {
                            c.fail(format!("producer {p}: entry {v} popped after {l}: push order broken"));
                        }
                    }
                    last[p] = Some(v);
                }
            }
            if nconsumed != want {
                c.fail(format!("consumed {nconsumed} of {want} entries"));
            }
        });
        for h in hs {
            ctx.join(h);
        }
        ctx.join(cons);
        ctx.record(false);
        // late handles (a producer may have finished after the consumer's last look)
        let mut rest: Vec<Handle> = std::mem::take(&mut *side.lock().unwrap());
        if !drop_queue_first {
            rest.clear();
        }
        let before = DROPS.load(Ordering::Relaxed);
        let left = total - sh.lock().unwrap().consumed.len();
        drop(q);
        let after = DROPS.load(Ordering::Relaxed);
        if after - before != left {
            ctx.fail(format!("queue drop released {} payloads, {left} entries were left in the list", after - before));
        }
        rest.clear();
        let s = sh.lock().unwrap();
        if leave == 0 && s.consumed.len() != total {
            ctx.fail(format!("{} of {total} entries consumed", s.consumed.len()));
        }
        let d = DROPS.load(Ordering::Relaxed);
        if d != total {
            ctx.fail(format!("{d} payloads dropped in total, {total} were created"));
        }
        if DOUBLE_DROP.load(Ordering::Relaxed) != 0 {
            ctx.fail("a payload was dropped twice".into());
        }
        println!("STATS head_true={} exact_head_checks={} removed={}", s.head_true, s.exact_head_checks,
                 s.consumed.values().filter(|h| **h == How::Remove).count());
    })
}
