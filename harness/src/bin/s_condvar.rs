//! C11 scenario (Condvar): the real may::sync::Condvar + Mutex under the baton scheduler.
//!
//! MAYV_WAITERS (2-4) waiters, threads and coroutines mixed (MAYV_CTX = mix | co | th), MAYV_ROUNDS rounds each,
//! MAYV_NOTIFIERS notifier threads, MAYV_CONTEND extra actors that only lock / unlock the mutex (contention for
//! the re-lock inside wait), MAYV_CANCEL coroutine waiters cancelled at random points (also while they re-lock a
//! contended mutex: the F1 schedule), MAYV_HOLD schedule points a notifier keeps the mutex after notifying.
//!
//! MAYV_MODE
//!   permit (default)  the predicate pattern: `permits` lives under the mutex; a waiter loops
//!                     { permits > 0 ? take it : wait | wait_timeout(d) | wait_while(permits == 0) }, a timed-out
//!                     waiter may give up; a notifier adds a permit when there is none and somebody wants one, and
//!                     notifies with notify_one / notify_all, under the lock or after unlocking.  Durations and the
//!                     notifier's gaps come from the same small sets, so timeouts race notifications at EQUAL
//!                     virtual times.
//!   exact             raw untimed waits, count-tight: every wait registers (`entered`, under the mutex) before it
//!                     waits; the notifiers issue exactly one notify_one per registered wait, each claimed under
//!                     the mutex while entered > issued (so at least one un-notified party is known to be waiting).
//!                     One lost notification = one waiter that never returns = HANG.
//!   all               generations: all waiters register and wait (wait / wait_while / long wait_timeout) for the
//!                     epoch to change; the notifier bumps the epoch once everybody of the generation registered and
//!                     calls notify_all (under the lock or after).  A waiter left behind = HANG.
//!
//! Oracles on the implementation (independent of the Coq model):
//!  * a notification is never lost: permit mode - a permit is available and an untimed waiter stays inside wait
//!    over many virtual milliseconds; exact / all mode - somebody never returns (the harness reports HANG);
//!  * after wait* returns the caller holds the mutex: every critical section (after lock and after every return of
//!    wait / wait_timeout / wait_while) bumps an occupancy counter that must read 0 on entry and 1 on exit;
//!  * wait_timeout(d) reports timed_out only at or after call time + d on the virtual clock;
//!  * only cancelled coroutines die; the mutex is free and unpoisoned at the end (main locks it, try_lock succeeds).
//!
//! Trace records for the acceptor (kind, obj, val): cv.new; actor(k, kind: 1 thread 2 coroutine) first thing in every
//! actor; wait.call(flags: bit0 timed, dur ns) right before wait / wait_timeout (not available inside wait_while:
//! the acceptor starts those waits at the verify CAS); wait.ret(result: 0 notified 1 timed out, now) right after;
//! cancel(k) right before `cancel()`; dead when a cancelled coroutine unwinds.  Lock / unlock of the mutex are
//! taken from the sites of mutex.rs / poison.rs (Flag::get after an acquisition, the fetch_sub of unlock).
use mayv::*;
use std::alloc::{GlobalAlloc, Layout, System};
use std::sync::atomic::{AtomicBool, AtomicI64, AtomicU64, AtomicUsize, Ordering::SeqCst};
use std::sync::Arc;
use std::time::Duration;

/// never reuse an address: the virtual ThreadPark token of the harness is keyed by address, and the
/// trace normaliser numbers objects by address (a recycled SyncBlocker would alias an old one)
struct Leak;
unsafe impl GlobalAlloc for Leak {
    unsafe fn alloc(&self, l: Layout) -> *mut u8 {
        System.alloc(l)
    }
    unsafe fn dealloc(&self, _p: *mut u8, _l: Layout) {}
}
#[global_allocator]
static GLOBAL: Leak = Leak;

fn envs(k: &str, d: &str) -> String {
    std::env::var(k).unwrap_or_else(|_| d.into())
}
fn envn(k: &str, d: u64) -> u64 {
    std::env::var(k).ok().and_then(|s| s.parse().ok()).unwrap_or(d)
}

const DURS0: [u64; 8] = [0, 1, 999_999, 1_000_000, 1_500_000, 2_000_000, 3_000_000, 10_000_000];
const GAPS0: [u64; 8] = [0, 0, 1_000_000, 1_000_000, 1_000_000, 2_000_000, 2_000_000, 3_000_000];
/// MAYV_DURS / MAYV_GAPS: comma separated nanosecond lists replacing the default sets
fn envlist(k: &str, d: &[u64]) -> Vec<u64> {
    match std::env::var(k) {
        Ok(s) => s.split(',').filter_map(|x| x.trim().parse().ok()).collect(),
        Err(_) => d.to_vec(),
    }
}
static DURS: std::sync::OnceLock<Vec<u64>> = std::sync::OnceLock::new();
static GAPS: std::sync::OnceLock<Vec<u64>> = std::sync::OnceLock::new();
fn durs() -> &'static [u64] {
    DURS.get_or_init(|| envlist("MAYV_DURS", &DURS0))
}
fn gaps() -> &'static [u64] {
    GAPS.get_or_init(|| envlist("MAYV_GAPS", &GAPS0))
}

struct Data {
    permits: u64,
    epoch: u64,
}

struct Sh {
    m: may::sync::Mutex<Data>,
    cv: may::sync::Condvar,
    occ: AtomicUsize,
    want: AtomicI64,       // actors inside the acquire loop of permit mode that have no permit yet
    in_untimed: AtomicI64, // actors inside an untimed wait / wait_while
    entered: AtomicU64,    // exact / all mode: waits registered (incremented under the mutex, before the wait)
    issued: AtomicU64,     // exact mode: notify_one calls claimed
    returned: AtomicU64,   // waits that returned
    notified: AtomicU64,   // waits that returned "notified"
    timedout: AtomicU64,
    done: AtomicU64,       // waiters that finished or were cancelled
    progress: AtomicU64,
    cancelled: AtomicU64,
    stop: AtomicBool,
}

/// the critical section: occupancy must be 0 on entry and 1 on exit
fn critical(sh: &Sh, c: &Ctx, who: usize, what: &str, pts: u64) {
    let o = sh.occ.fetch_add(1, SeqCst);
    if o != 0 {
        c.fail(format!("mutex not held: actor {who} is inside the critical section after {what} together with {o} other holder(s)"));
    }
    for _ in 0..pts {
        c.point();
    }
    let o = sh.occ.fetch_sub(1, SeqCst);
    if o != 1 {
        c.fail(format!("mutex not held: actor {who} leaves the critical section entered after {what}, occupancy was {o}"));
    }
}

/// marks the actor finished also when a cancel panic unwinds it
struct Fin {
    sh: Arc<Sh>,
    wanting: bool,
    untimed: bool,
    finished: bool,
}
impl Drop for Fin {
    fn drop(&mut self) {
        if self.wanting {
            self.sh.want.fetch_sub(1, SeqCst);
        }
        if self.untimed {
            self.sh.in_untimed.fetch_sub(1, SeqCst);
        }
        if !self.finished {
            mayv::ctx().log("dead", 0, 0, None);
            self.sh.cancelled.fetch_add(1, SeqCst);
        }
        self.sh.done.fetch_add(1, SeqCst);
        self.sh.progress.fetch_add(1, SeqCst);
    }
}

struct Rng(u64);
impl Rng {
    fn next(&mut self) -> u64 {
        self.0 ^= self.0 >> 12;
        self.0 ^= self.0 << 25;
        self.0 ^= self.0 >> 27;
        self.0.wrapping_mul(0x2545F4914F6CDD1D) >> 8
    }
    fn pick(&mut self, v: &[u64]) -> u64 {
        v[(self.next() % v.len() as u64) as usize]
    }
}

fn timed_wait<'a>(
    sh: &'a Sh,
    c: &Ctx,
    who: usize,
    is_co: bool,
    g: may::sync::MutexGuard<'a, Data>,
    d: u64,
) -> (may::sync::MutexGuard<'a, Data>, bool) {
    let t0 = c.now();
    c.log("wait.call", 1, d, None);
    let (g, r) = sh.cv.wait_timeout(g, Duration::from_nanos(d)).unwrap();
    let t1 = c.now();
    c.log("wait.ret", r.timed_out() as u64, t1, None);
    sh.returned.fetch_add(1, SeqCst);
    if r.timed_out() {
        sh.timedout.fetch_add(1, SeqCst);
        if t1 < t0 + d {
            c.fail(format!(
                "wait_timeout({d} ns) reported timed_out after only {} ns ({})",
                t1 - t0,
                if is_co { "coroutine" } else { "thread" }
            ));
        }
    } else {
        sh.notified.fetch_add(1, SeqCst);
    }
    critical(sh, c, who, "wait_timeout", 1);
    (g, r.timed_out())
}

fn untimed_wait<'a>(sh: &'a Sh, c: &Ctx, who: usize, fin: &mut Fin, g: may::sync::MutexGuard<'a, Data>) -> may::sync::MutexGuard<'a, Data> {
    fin.untimed = true;
    sh.in_untimed.fetch_add(1, SeqCst);
    c.log("wait.call", 0, 0, None);
    let g = sh.cv.wait(g).unwrap();
    c.log("wait.ret", 0, c.now(), None);
    sh.in_untimed.fetch_sub(1, SeqCst);
    fin.untimed = false;
    sh.returned.fetch_add(1, SeqCst);
    sh.notified.fetch_add(1, SeqCst);
    critical(sh, c, who, "wait", 1);
    g
}

fn waiter(sh: Arc<Sh>, who: usize, rounds: u64, mode: String, seed: u64, nwaiters: u64) {
    let c = mayv::ctx();
    let is_co = may::coroutine::is_coroutine();
    c.log("actor", who as u64, if is_co { 2 } else { 1 }, None);
    let mut fin = Fin { sh: sh.clone(), wanting: false, untimed: false, finished: false };
    let mut r = Rng(seed | 1);
    let wmix = envs("MAYV_WAITMIX", "mix");
    let giveup = envn("MAYV_GIVEUP", 33);
    let ndecoy = envn("MAYV_DECOYS", 1);
    let rounds = if mode == "decoy" && (who as u64) < ndecoy { rounds * 3 } else { rounds };
    for round in 0..rounds {
        let gap = r.pick(gaps());
        if gap > 0 && mode != "exact" {
            c.sleep_ns(gap);
        }
        let mut g = sh.m.lock().unwrap();
        critical(&sh, &c, who, "lock", r.next() % 2);
        match mode.as_str() {
            "exact" => {
                sh.entered.fetch_add(1, SeqCst);
                g = untimed_wait(&sh, &c, who, &mut fin, g);
            }
            "decoy" if (who as u64) < ndecoy => {
                // a decoy: a timed wait that must not swallow a notification - notified: it passes it on itself
                // (under the mutex); timed out or cancelled: wait_timeout has to pass on what it was given
                let d = r.pick(durs());
                let (g2, to) = timed_wait(&sh, &c, who, is_co, g, d);
                g = g2;
                if !to {
                    sh.cv.notify_one();
                    critical(&sh, &c, who, "notify_one", 0);
                }
            }
            "decoy" => {
                sh.entered.fetch_add(1, SeqCst);
                g = untimed_wait(&sh, &c, who, &mut fin, g);
            }
            "all" => {
                let my = g.epoch;
                sh.entered.fetch_add(1, SeqCst);
                match r.next() % 3 {
                    0 => {
                        while g.epoch == my {
                            g = untimed_wait(&sh, &c, who, &mut fin, g);
                        }
                    }
                    1 => {
                        fin.untimed = true;
                        sh.in_untimed.fetch_add(1, SeqCst);
                        g = sh.cv.wait_while(g, |d| d.epoch == my).unwrap();
                        sh.in_untimed.fetch_sub(1, SeqCst);
                        fin.untimed = false;
                        sh.returned.fetch_add(1, SeqCst);
                        critical(&sh, &c, who, "wait_while", 1);
                    }
                    _ => {
                        while g.epoch == my {
                            let (g2, to) = timed_wait(&sh, &c, who, is_co, g, 1_000_000_000);
                            g = g2;
                            if to && g.epoch == my {
                                c.fail(format!("actor {who}: a one second wait_timeout timed out in generation {my} of {nwaiters} waiters"));
                                break;
                            }
                        }
                    }
                }
                if g.epoch == my {
                    c.fail(format!("actor {who} left generation {my} although the epoch did not change"));
                }
            }
            _ => {
                // permit mode
                fin.wanting = true;
                sh.want.fetch_add(1, SeqCst);
                let insist = r.next() % 100 >= giveup;
                loop {
                    if g.permits > 0 {
                        g.permits -= 1;
                        break;
                    }
                    // MAYV_WAITMIX: timed = mostly wait_timeout, untimed = no wait_timeout
                    let kind = match wmix.as_str() {
                        "timed" => [0, 2, 2, 2, 2, 1][(r.next() % 6) as usize],
                        "untimed" => r.next() % 2,
                        _ => r.next() % 4,
                    };
                    match kind {
                        0 => g = untimed_wait(&sh, &c, who, &mut fin, g),
                        1 => {
                            fin.untimed = true;
                            sh.in_untimed.fetch_add(1, SeqCst);
                            g = sh.cv.wait_while(g, |d| d.permits == 0).unwrap();
                            sh.in_untimed.fetch_sub(1, SeqCst);
                            fin.untimed = false;
                            sh.returned.fetch_add(1, SeqCst);
                            critical(&sh, &c, who, "wait_while", 1);
                            if g.permits == 0 {
                                c.fail(format!("actor {who}: wait_while returned although the predicate still holds"));
                            }
                        }
                        _ => {
                            let d = r.pick(durs());
                            let (g2, to) = timed_wait(&sh, &c, who, is_co, g, d);
                            g = g2;
                            if to && !insist {
                                // gives up WITHOUT looking at the predicate again: a notification it was given
                                // must have been passed on by wait_timeout itself
                                break;
                            }
                        }
                    }
                }
                sh.want.fetch_sub(1, SeqCst);
                fin.wanting = false;
            }
        }
        drop(g);
        sh.progress.fetch_add(1, SeqCst);
        let _ = round;
    }
    fin.finished = true;
    drop(fin);
}

fn contender(sh: Arc<Sh>, who: usize, iters: u64, seed: u64) {
    let c = mayv::ctx();
    let is_co = may::coroutine::is_coroutine();
    c.log("actor", who as u64, if is_co { 2 } else { 1 }, None);
    let mut r = Rng(seed | 1);
    for _ in 0..iters {
        if sh.stop.load(SeqCst) {
            break;
        }
        let g = sh.m.lock().unwrap();
        critical(&sh, &c, who, "lock", 1 + r.next() % 3);
        drop(g);
        let gap = r.pick(gaps());
        if gap > 0 {
            c.sleep_ns(gap / 2);
        } else {
            c.point();
        }
    }
}

/// one notification: flavour 0 notify_one under the lock, 1 notify_one after unlocking, 2 notify_all under the
/// lock, 3 notify_all after unlocking.  `change` is applied to the data under the lock.
fn notify(sh: &Sh, c: &Ctx, who: usize, flavour: u64, hold: u64, slow: u64, change: impl FnOnce(&mut Data) -> bool) -> bool {
    let mut g = sh.m.lock().unwrap();
    critical(sh, c, who, "lock", 0);
    if slow > 0 {
        // a slow critical section: virtual time passes while the mutex is held, so waiters time out (or are
        // cancelled) meanwhile and queue up behind the mutex before they can look at their flag
        c.sleep_ns(slow);
    }
    if !change(&mut g) {
        drop(g);
        return false;
    }
    match flavour {
        0 => {
            sh.cv.notify_one();
            critical(sh, c, who, "notify_one", hold);
            drop(g);
        }
        2 => {
            sh.cv.notify_all();
            critical(sh, c, who, "notify_all", hold);
            drop(g);
        }
        1 => {
            drop(g);
            sh.cv.notify_one();
        }
        _ => {
            drop(g);
            sh.cv.notify_all();
        }
    }
    true
}

fn notifier(sh: Arc<Sh>, who: usize, mode: String, seed: u64, nwaiters: u64, total_waits: u64, hold: u64, flav: String, stalls: bool) {
    let c = mayv::ctx();
    c.log("actor", who as u64, 1, None);
    let mut r = Rng(seed | 1);
    // notify_all outside the mutex pops until the queue is empty: with waiters that re-register at once
    // (predicate loops) it only terminates under a fair scheduler, so the priority-based strategy never uses it
    let unfair = envs("MAYV_STRATEGY", "random").starts_with("pct");
    let npoll = envs("MAYV_NPOLL", "mix");
    let slowpct = envn("MAYV_SLOWHOLD", 20);
    let pick_flavour = |r: &mut Rng, all: bool| -> u64 {
        let f = pick_flavour0(&flav, r, all);
        if unfair && f == 3 {
            2
        } else {
            f
        }
    };
    match mode.as_str() {
        "exact" | "decoy" => loop {
            if sh.issued.load(SeqCst) >= total_waits || sh.stop.load(SeqCst) {
                break;
            }
            let f = pick_flavour(&mut r, false) % 2;
            let sh2 = sh.clone();
            let slow = if mode == "decoy" { slow_hold(&mut r, slowpct) } else { 0 };
            let did = notify(&sh, &c, who, f, hold, slow, move |_| {
                // claim one registered, not yet notified wait
                if sh2.entered.load(SeqCst) > sh2.issued.load(SeqCst) {
                    sh2.issued.fetch_add(1, SeqCst);
                    true
                } else {
                    false
                }
            });
            if !did {
                pause(&c, &mut r, &npoll, 1_000_000);
            }
        },
        "all" => {
            let gens = total_waits / nwaiters.max(1);
            for gen in 0..gens {
                loop {
                    if sh.stop.load(SeqCst) {
                        return;
                    }
                    let f = pick_flavour(&mut r, true);
                    let sh2 = sh.clone();
                    let did = notify(&sh, &c, who, f, hold, 0, move |d| {
                        if sh2.entered.load(SeqCst) >= (gen + 1) * nwaiters && d.epoch == gen {
                            d.epoch += 1;
                            true
                        } else {
                            false
                        }
                    });
                    if did {
                        break;
                    }
                    c.sleep_ns(1_000_000);
                }
            }
        }
        _ => {
            // permit mode: supply a permit when there is none and somebody wants one
            let limit: u64 = if stalls { 400_000_000 } else { 25_000_000 };
            let mut since: Option<u64> = None;
            while sh.done.load(SeqCst) < nwaiters && !sh.stop.load(SeqCst) {
                let f = pick_flavour(&mut r, false);
                let sh2 = sh.clone();
                let mut seen = (0u64, 0i64);
                let slow = slow_hold(&mut r, slowpct);
                notify(&sh, &c, who, f, hold, slow, |d| {
                    seen = (d.permits, sh2.in_untimed.load(SeqCst));
                    if d.permits == 0 && sh2.want.load(SeqCst) > 0 {
                        d.permits += 1;
                        true
                    } else {
                        false
                    }
                });
                if seen.0 > 0 && seen.1 > 0 {
                    let t0 = *since.get_or_insert(c.now());
                    if c.now() - t0 > limit {
                        c.fail(format!(
                            "lost notification: {} permit(s) available for {} ns of virtual time while {} untimed waiter(s) stay inside wait",
                            seen.0,
                            c.now() - t0,
                            seen.1
                        ));
                        sh.stop.store(true, SeqCst);
                        break;
                    }
                    // nothing else will happen by itself: let the clock run
                    c.sleep_ns(1_000_000);
                } else {
                    since = None;
                    pause(&c, &mut r, &npoll, 500_000);
                }
            }
        }
    }
}

/// between two polls a notifier either sleeps (virtual time passes) or spins with the polling hint: it stays
/// runnable, so a timeout that comes due meanwhile really races with its next notification (a sleeping thread
/// is woken only when nobody else can run)
fn pause(c: &Ctx, r: &mut Rng, npoll: &str, short: u64) {
    let spin = match npoll {
        "spin" => true,
        "sleep" => false,
        _ => r.next() % 2 == 0,
    };
    if spin {
        for _ in 0..(1 + r.next() % 6) {
            c.yield_now();
        }
    } else {
        let gap = r.pick(gaps());
        c.sleep_ns(if gap == 0 { short } else { gap });
    }
}

fn slow_hold(r: &mut Rng, pct: u64) -> u64 {
    if r.next() % 100 < pct {
        r.pick(gaps()).max(500_000)
    } else {
        0
    }
}

fn pick_flavour0(flav: &str, r: &mut Rng, all: bool) -> u64 {
    match flav {
        "in" => {
            if all {
                2
            } else {
                0
            }
        }
        "out" => {
            if all {
                3
            } else {
                1
            }
        }
        "one" => r.next() % 2,
        _ => {
            if all {
                2 + r.next() % 2
            } else {
                r.next() % 4
            }
        }
    }
}

enum H {
    T(JoinH),
    C(may::coroutine::JoinHandle<()>),
}

fn main() {
    let mut cfg = Config::from_env();
    if envs("MAYV_SCHED", "narrow") == "narrow" {
        cfg.sched_files = vec![
            "src/sync/condvar.rs",
            "src/sync/mutex.rs",
            "src/sync/blocking.rs",
            "src/park.rs",
            "src/cancel.rs",
            "src/sync/poison.rs",
        ];
    }
    let stalls = std::env::var("MAYV_STALL").is_ok() || std::env::var("MAYV_STALL_AT").is_ok();
    let nw = envn("MAYV_WAITERS", 3);
    let rounds = envn("MAYV_ROUNDS", 2);
    let nn = envn("MAYV_NOTIFIERS", 1);
    let ncont = envn("MAYV_CONTEND", 0);
    let ncancel = envn("MAYV_CANCEL", 0) as usize;
    let hold = envn("MAYV_HOLD", 0);
    let mode = envs("MAYV_MODE", "permit");
    let ctx_sel = envs("MAYV_CTX", "mix");
    let flav = envs("MAYV_FLAVOUR", "mix");
    let spread = envn("MAYV_SPREAD", 60);
    run(cfg, move |ctx| {
        let sh = Arc::new(Sh {
            m: may::sync::Mutex::new(Data { permits: 0, epoch: 0 }),
            cv: may::sync::Condvar::new(),
            occ: AtomicUsize::new(0),
            want: AtomicI64::new(0),
            in_untimed: AtomicI64::new(0),
            entered: AtomicU64::new(0),
            issued: AtomicU64::new(0),
            returned: AtomicU64::new(0),
            notified: AtomicU64::new(0),
            timedout: AtomicU64::new(0),
            done: AtomicU64::new(0),
            progress: AtomicU64::new(0),
            cancelled: AtomicU64::new(0),
            stop: AtomicBool::new(false),
        });
        ctx.log("cv.new", 0, 0, None);
        ctx.log("actor", 99, 1, None);
        let mut hs: Vec<(usize, H)> = vec![];
        let mut cos: Vec<usize> = vec![];
        for k in 0..nw as usize {
            let in_co = match ctx_sel.as_str() {
                "co" => true,
                "th" => false,
                "co0" => k == 0,
                _ => ctx.rand() % 2 == 0,
            };
            let (sh2, mode2, seed) = (sh.clone(), mode.clone(), ctx.rand());
            if in_co {
                let h = unsafe { may::coroutine::Builder::new().name(format!("w{k}")).spawn(move || waiter(sh2, k, rounds, mode2, seed, nw)).unwrap() };
                cos.push(hs.len());
                hs.push((k, H::C(h)));
            } else {
                hs.push((k, H::T(ctx.spawn(&format!("w{k}"), move || waiter(sh2, k, rounds, mode2, seed, nw)))));
            }
        }
        let mut others = vec![];
        for k in 0..ncont as usize {
            let (sh2, seed) = (sh.clone(), ctx.rand());
            let who = 20 + k;
            if ctx_sel == "mix" && ctx.rand() % 2 == 0 {
                let h = unsafe { may::coroutine::Builder::new().name(format!("c{k}")).spawn(move || contender(sh2, who, 6, seed)).unwrap() };
                others.push(H::C(h));
            } else {
                others.push(H::T(ctx.spawn(&format!("c{k}"), move || contender(sh2, who, 6, seed))));
            }
        }
        for k in 0..nn as usize {
            let (sh2, mode2, seed, flav2) = (sh.clone(), mode.clone(), ctx.rand(), flav.clone());
            let who = 10 + k;
            // in exact / all mode a single notifier owns the protocol
            if k > 0 && mode == "all" {
                break;
            }
            let total = if mode == "decoy" { nw.saturating_sub(envn("MAYV_DECOYS", 1)) * rounds } else { nw * rounds };
            others.push(H::T(ctx.spawn(&format!("n{k}"), move || notifier(sh2, who, mode2, seed, nw, total, hold, flav2, stalls))));
        }
        // cancel some coroutine waiters at random schedule points (only permit mode tolerates it: the others count)
        let mut victims: Vec<usize> = vec![];
        while victims.len() < ncancel.min(cos.len()) {
            let i = cos[(ctx.rand() as usize) % cos.len()];
            if !victims.contains(&i) {
                victims.push(i);
            }
        }
        for &i in &victims {
            let dt = [0u64, 0, 1_000_000, 2_000_000][(ctx.rand() % 4) as usize];
            if dt > 0 {
                ctx.sleep_ns(dt);
            }
            let spins = ctx.rand() % spread.max(1);
            for _ in 0..spins {
                ctx.yield_now();
            }
            if let (k, H::C(h)) = &hs[i] {
                ctx.log("cancel", *k as u64, 0, None);
                unsafe { h.coroutine().cancel() };
            }
        }
        // join everybody (a waiter that never returns is reported by the harness as HANG)
        let n = hs.len();
        let mut died = 0u64;
        for (i, (k, h)) in hs.into_iter().enumerate() {
            match h {
                H::T(j) => ctx.join(j),
                H::C(j) => {
                    if j.join().is_err() {
                        died += 1;
                        if !victims.contains(&i) {
                            ctx.fail(format!("coroutine waiter {k} panicked without being cancelled"));
                        }
                    }
                }
            }
        }
        sh.stop.store(true, SeqCst);
        for h in others {
            match h {
                H::T(j) => ctx.join(j),
                H::C(j) => {
                    if j.join().is_err() {
                        ctx.fail("a contender coroutine panicked".into());
                    }
                }
            }
        }
        if sh.done.load(SeqCst) != n as u64 || sh.cancelled.load(SeqCst) != died {
            ctx.fail(format!("{} waiters finished ({} cancelled), {n} started, {died} died", sh.done.load(SeqCst), sh.cancelled.load(SeqCst)));
        }
        if mode == "exact" && ncancel == 0 {
            let (e, i, rt) = (sh.entered.load(SeqCst), sh.issued.load(SeqCst), sh.returned.load(SeqCst));
            if e != nw * rounds || i != e || rt != e {
                ctx.fail(format!("exact mode: {e} waits registered, {i} notify_one issued, {rt} waits returned"));
            }
        }
        // the mutex must be free and unpoisoned now: main takes it once more (hangs if it was left locked)
        let g = sh.m.lock();
        match g {
            Ok(g) => {
                critical(&sh, ctx, 99, "final lock", 0);
                drop(g);
            }
            Err(_) => ctx.fail("the mutex is poisoned at the end".into()),
        }
        match sh.m.try_lock() {
            Ok(g) => drop(g),
            Err(_) => ctx.fail("final try_lock failed: the mutex is still taken after everybody left".into()),
        }
        ctx.record(false);
        if sh.occ.load(SeqCst) != 0 {
            ctx.fail("occupancy not zero at the end".into());
        }
        println!(
            "mode={mode} waits_returned={} notified={} timedout={} cancelled={} vtime={}",
            sh.returned.load(SeqCst),
            sh.notified.load(SeqCst),
            sh.timedout.load(SeqCst),
            sh.cancelled.load(SeqCst),
            ctx.now()
        );
    })
}
