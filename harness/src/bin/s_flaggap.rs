//! C10: SyncFlag is a latch - also for waiters that were between their `is_fired()` fast check and their
//! registration when `fire()` ran (fire's wakeup_all finds the queue still empty; each such waiter serves itself when it
//! decrements the fired counter).
//! MAYV_WAITERS waiters (threads / coroutines, MAYV_CTX) call wait() (MAYV_TIMED=1: wait_timeout(1 s), must return true);
//! main fires after 2 ms.  With MAYV_STALL_AT / MAYV_STALL_AT2 on the first access of `SyncFlag::wait_timeout_impl`
//! two waiters are held exactly in that gap.  Oracles: every wait returns true, `is_fired()` stays true, a wait issued
//! afterwards returns at once; nobody hangs.
use mayv::*;
use std::sync::atomic::{AtomicUsize, Ordering::SeqCst};
use std::sync::Arc;
use std::time::Duration;

fn envn(k: &str, d: u64) -> u64 {
    std::env::var(k).ok().and_then(|s| s.parse().ok()).unwrap_or(d)
}

fn main() {
    let cfg = Config::from_env();
    let n = envn("MAYV_WAITERS", 2) as usize;
    let timed = envn("MAYV_TIMED", 0) == 1;
    let ctx_sel = std::env::var("MAYV_CTX").unwrap_or_else(|_| "mix".into());
    run(cfg, move |ctx| {
        let flag = Arc::new(may::sync::SyncFlag::new());
        let ok = Arc::new(AtomicUsize::new(0));
        let mut ths = vec![];
        let mut cos = vec![];
        for i in 0..n {
            let (f2, ok2) = (flag.clone(), ok.clone());
            let body = move || {
                let r = if timed { f2.wait_timeout(Duration::from_secs(1)) } else { f2.wait(); true };
                if r {
                    ok2.fetch_add(1, SeqCst);
                } else {
                    mayv::ctx().fail(format!("waiter {i}: wait_timeout(1 s) returned false on a flag that was fired 2 ms after the call"));
                }
            };
            let in_co = match ctx_sel.as_str() {
                "th" => false,
                "co" => true,
                _ => (ctx.rand() + i as u64) % 2 == 0,
            };
            if in_co {
                cos.push(unsafe { may::coroutine::Builder::new().name(format!("w{i}")).spawn(body).unwrap() });
            } else {
                ths.push(ctx.spawn(&format!("w{i}"), body));
            }
        }
        ctx.sleep_ns(2_000_000);
        flag.fire();
        for h in ths {
            ctx.join(h);
        }
        for h in cos {
            if h.join().is_err() {
                ctx.fail("a waiter coroutine panicked".into());
            }
        }
        if ok.load(SeqCst) != n {
            ctx.fail(format!("{} of {n} waits returned true", ok.load(SeqCst)));
        }
        if !flag.is_fired() {
            ctx.fail("is_fired() is false after fire()".into());
        }
        let t0 = ctx.now();
        flag.wait();
        // generous: the variants with random stalls may hold this thread for 3 x 30 ms
        if ctx.now() > t0 + 200_000_000 {
            ctx.fail("a wait() issued after fire() did not return at once".into());
        }
    })
}
