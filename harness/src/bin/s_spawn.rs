//! C01 scenario: coroutines spawned from threads and from coroutines, with and without Builder options
//! (name, non-default stack size = pool bypassed, id), spawn_local, yield storms (migration between
//! workers by stealing), sleeps (the timer thread resumes the coroutine itself), nested spawn / join inside
//! coroutines, pool reuse, bursts that fill a whole block of a global queue, optional cancellation and
//! panicking bodies.  Everything runs on the REAL runtime under the baton scheduler.
//!
//! Oracles on the implementation (independent of the Coq model):
//!  * every spawned coroutine enters its body exactly once (`exec[j] == 1` at the end, never 2);
//!  * a `running` flag is set on entry of every segment between two yields and cleared before the
//!    yield: finding it set on entry means the closure runs on two threads at once;
//!  * `is_done()` / `wait()` / `join()` never report completion before the body executed its last
//!    statement (`finished[j]`, a std atomic written at the end of the body / by the unwinding guard);
//!  * `join()` returns exactly the value / the panic payload the body ended with, or Cancel (only if a
//!    cancel was requested);
//!  * nobody hangs (harness) and every coroutine that was spawned has finished at the end.
//!
//! Trace records for the acceptor (kind, a, b): cfg(workers) first; sp.call(j, flags) sp.ret(j) around
//! every spawn (flags: 1 local, 2 named, 4 stack size, 8 id, id << 8); tag(j) first statement of body j;
//! fin(j, v) / pan(j, v) last statement; jn.call(j, mode) jn.ret(j, code) (mode 1 = wait(); code 0 for
//! wait, else kind + 4 * v with kind 1 value, 2 panic payload, 3 Cancel); isd.call(j) isd.ret(j, b);
//! cn.call(j).
use mayv::*;
use std::alloc::{GlobalAlloc, Layout, System};
use std::sync::atomic::{AtomicBool, AtomicU32, AtomicU64, AtomicUsize, Ordering::SeqCst};
use std::sync::Arc;
use std::time::Duration;

/// never reuse an address: coroutine identity in the trace is the address of the handle's shared data
struct Leak;
unsafe impl GlobalAlloc for Leak {
    unsafe fn alloc(&self, l: Layout) -> *mut u8 {
        System.alloc(l)
    }
    unsafe fn dealloc(&self, _p: *mut u8, _l: Layout) {}
}
#[global_allocator]
static GLOBAL: Leak = Leak;

fn envs(k: &str, d: &str) -> String {
    std::env::var(k).unwrap_or_else(|_| d.into())
}
fn envn(k: &str, d: u64) -> u64 {
    std::env::var(k).ok().and_then(|s| s.parse().ok()).unwrap_or(d)
}

const MAXC: usize = 400;

struct Sh {
    seed: u64,
    mode: String,
    cancel: bool,
    panic_pct: u64,
    next: AtomicUsize,
    exec: Vec<AtomicU32>,
    running: Vec<AtomicBool>,
    finished: Vec<AtomicBool>,
    cancel_req: Vec<AtomicBool>,
    release: AtomicBool,
    spinning: AtomicBool,
    live: AtomicU64,
}

#[derive(Clone, Copy)]
struct Rng(u64);
impl Rng {
    fn next(&mut self) -> u64 {
        self.0 ^= self.0 >> 12;
        self.0 ^= self.0 << 25;
        self.0 ^= self.0 >> 27;
        self.0.wrapping_mul(0x2545F4914F6CDD1D) >> 8
    }
    fn below(&mut self, n: u64) -> u64 {
        self.next() % n.max(1)
    }
}

/// clears the running flag and marks the body finished also when a panic / cancel unwinds it
struct BodyGuard {
    sh: Arc<Sh>,
    j: usize,
}
impl Drop for BodyGuard {
    fn drop(&mut self) {
        self.sh.finished[self.j].store(true, SeqCst);
        self.sh.running[self.j].store(false, SeqCst);
        self.sh.live.fetch_sub(1, SeqCst);
    }
}

fn enter(sh: &Sh, j: usize, what: &str) {
    if sh.running[j].swap(true, SeqCst) {
        mayv::ctx().fail(format!("coroutine {j} is running on two threads at once ({what})"));
    }
}
fn leave(sh: &Sh, j: usize) {
    sh.running[j].store(false, SeqCst);
}

#[derive(Clone, Copy, PartialEq)]
enum End {
    Ret(u64),
    Pan(u64),
}

fn expected_code(e: End) -> u64 {
    match e {
        End::Ret(v) => 1 + 4 * v,
        End::Pan(v) => 2 + 4 * v,
    }
}

type H = may::coroutine::JoinHandle<u64>;

/// what the body of coroutine j will do is a function of (seed, j)
fn plan_end(sh: &Sh, j: usize) -> End {
    let mut r = Rng((sh.seed ^ (j as u64).wrapping_mul(0x9E3779B97F4A7C15)) | 1);
    r.next();
    let v = 1 + r.below(7) + (j as u64 % 3);
    if r.below(100) < sh.panic_pct {
        End::Pan(v)
    } else {
        End::Ret(v)
    }
}

fn spawn_one(sh: &Arc<Sh>, depth: u32, r: &mut Rng, force_flags: Option<u64>) -> (usize, H) {
    let c = mayv::ctx();
    let j = sh.next.fetch_add(1, SeqCst);
    assert!(j < MAXC);
    let in_co = may::coroutine::is_coroutine();
    let mut flags = match force_flags {
        Some(f) => f,
        None => {
            let mut f = 0;
            if r.below(6) == 0 {
                f |= 1; // spawn_local
            }
            if r.below(3) == 0 {
                f |= 2;
            }
            if r.below(5) == 0 {
                f |= 4;
            }
            if r.below(5) == 0 {
                f |= 8 | (r.below(5) << 8);
            }
            f
        }
    };
    if flags & 1 != 0 {
        flags &= 7; // id is not used by spawn_local
    }
    let mut b = may::coroutine::Builder::new();
    if flags & 2 != 0 {
        b = b.name(format!("co{j}"));
    }
    if flags & 4 != 0 {
        b = b.stack_size(0x4000 + 0x800);
    }
    if flags & 8 != 0 {
        b = b.id((flags >> 8) as usize);
    }
    let sh2 = sh.clone();
    let end = plan_end(sh, j);
    sh.live.fetch_add(1, SeqCst);
    let body = move || -> u64 { body(sh2, j, depth, end) };
    c.log("sp.call", j as u64, flags, None);
    let h = unsafe {
        if flags & 1 != 0 {
            b.spawn_local(body)
        } else {
            b.spawn(body)
        }
    }
    .expect("spawn");
    c.log("sp.ret", j as u64, in_co as u64, None);
    (j, h)
}

fn body(sh: Arc<Sh>, j: usize, depth: u32, end: End) -> u64 {
    let c = mayv::ctx();
    c.log("tag", j as u64, 0, None);
    if sh.exec[j].fetch_add(1, SeqCst) != 0 {
        c.fail(format!("closure of coroutine {j} entered more than once"));
    }
    if sh.finished[j].load(SeqCst) {
        c.fail(format!("closure of coroutine {j} entered after it had finished"));
    }
    enter(&sh, j, "entry");
    let _g = BodyGuard { sh: sh.clone(), j };
    let mut r = Rng((sh.seed.wrapping_mul(31) ^ (j as u64).wrapping_mul(0xD1B54A32D192ED03)) | 1);
    r.next();
    let mut kids: Vec<(usize, H)> = vec![];
    let nops = match sh.mode.as_str() {
        "storm" => 6 + r.below(10),
        "pool" | "burst" => r.below(2),
        _ => 1 + r.below(5),
    };
    for _ in 0..nops {
        let k = r.below(10);
        match k {
            0..=3 => {
                leave(&sh, j);
                may::coroutine::yield_now();
                enter(&sh, j, "after yield");
            }
            4 if sh.mode != "storm" => {
                let ns = [1u64, 1_000_000, 1_500_000, 3_000_000][r.below(4) as usize];
                leave(&sh, j);
                may::coroutine::sleep(Duration::from_nanos(ns));
                enter(&sh, j, "after sleep");
            }
            5 | 6 if depth < 2 && sh.mode != "burst" && sh.next.load(SeqCst) + 8 < MAXC / 2 => {
                let kid = spawn_one(&sh, depth + 1, &mut r, None);
                kids.push(kid);
            }
            7 if !kids.is_empty() => {
                let (k, h) = kids.remove(0);
                leave(&sh, j);
                join_check(&sh, k, h, &mut r);
                enter(&sh, j, "after join");
            }
            8 if !kids.is_empty() && sh.cancel => {
                let (k, h) = &kids[0];
                request_cancel(&sh, *k, h);
            }
            _ => {
                c.yield_now();
            }
        }
    }
    // the remaining children: join most of them, detach the others
    while let Some((k, h)) = kids.pop() {
        if r.below(4) == 0 {
            drop(h);
        } else {
            leave(&sh, j);
            join_check(&sh, k, h, &mut r);
            enter(&sh, j, "after join");
        }
    }
    // last statements of the body
    sh.finished[j].store(true, SeqCst);
    leave(&sh, j);
    match end {
        End::Ret(v) => {
            c.log("fin", j as u64, v, None);
            v
        }
        End::Pan(v) => {
            c.log("pan", j as u64, v, None);
            std::panic::panic_any(v)
        }
    }
}

fn request_cancel(sh: &Sh, k: usize, h: &H) {
    let c = mayv::ctx();
    sh.cancel_req[k].store(true, SeqCst);
    c.log("cn.call", k as u64, 0, None);
    unsafe { h.coroutine().cancel() };
}

/// poll is_done, maybe wait(), then join(): none may report completion before the body's last statement
fn join_check(sh: &Sh, k: usize, h: H, r: &mut Rng) {
    let c = mayv::ctx();
    let polls = r.below(4);
    for _ in 0..polls {
        c.log("isd.call", k as u64, 0, None);
        let d = h.is_done();
        c.log("isd.ret", k as u64, d as u64, None);
        if d && !sh.finished[k].load(SeqCst) {
            c.fail(format!("is_done() of coroutine {k} is true before its body finished"));
        }
        if d {
            break;
        }
        c.yield_now();
    }
    if r.below(3) == 0 {
        c.log("jn.call", k as u64, 1, None);
        h.wait();
        c.log("jn.ret", k as u64, 0, None);
        if !sh.finished[k].load(SeqCst) {
            c.fail(format!("wait() on coroutine {k} returned before its body finished"));
        }
        c.log("isd.call", k as u64, 0, None);
        let d = h.is_done();
        c.log("isd.ret", k as u64, d as u64, None);
        if !d {
            c.fail(format!("is_done() of coroutine {k} is false after wait() returned"));
        }
    }
    c.log("jn.call", k as u64, 0, None);
    let res = h.join();
    let code = match &res {
        Ok(v) => 1 + 4 * *v,
        Err(e) => match e.downcast_ref::<u64>() {
            Some(v) => 2 + 4 * *v,
            // generator::Error::Cancel is not nameable from here: anything that is not a message
            None => {
                if e.downcast_ref::<String>().is_some() || e.downcast_ref::<&str>().is_some() {
                    7
                } else {
                    3
                }
            }
        },
    };
    c.log("jn.ret", k as u64, code, None);
    if !sh.finished[k].load(SeqCst) {
        c.fail(format!("join() of coroutine {k} returned before its body finished"));
    }
    if sh.exec[k].load(SeqCst) != 1 {
        c.fail(format!("join() of coroutine {k} returned but its body was entered {} times", sh.exec[k].load(SeqCst)));
    }
    let exp = expected_code(plan_end(sh, k));
    if code == 3 {
        if !sh.cancel_req[k].load(SeqCst) {
            c.fail(format!("join() of coroutine {k} reports Cancel but nobody cancelled it"));
        }
    } else if code != exp {
        c.fail(format!("join() of coroutine {k} returned code {code}, the body ended with code {exp} (1 value, 2 panic; + 4 * v)"));
    }
}

fn main() {
    let mut cfg = Config::from_env();
    cfg.max_steps = envn("MAYV_MAX_STEPS", 1_500_000);
    let n = envn("MAYV_N", 4) as usize;
    let nthreads = envn("MAYV_THREADS", 1) as usize;
    let workers = cfg.workers as u64;
    let sh = Arc::new(Sh {
        seed: cfg.seed,
        mode: envs("MAYV_MODE", "mix"),
        cancel: envn("MAYV_CANCEL", 0) != 0,
        panic_pct: envn("MAYV_PANIC", 15),
        next: AtomicUsize::new(1),
        exec: (0..MAXC).map(|_| AtomicU32::new(0)).collect(),
        running: (0..MAXC).map(|_| AtomicBool::new(false)).collect(),
        finished: (0..MAXC).map(|_| AtomicBool::new(false)).collect(),
        cancel_req: (0..MAXC).map(|_| AtomicBool::new(false)).collect(),
        release: AtomicBool::new(false),
        spinning: AtomicBool::new(false),
        live: AtomicU64::new(0),
    });
    std::panic::set_hook(Box::new(|_| {}));
    run(cfg, move |ctx| {
        if sh.mode == "pool" {
            may::config().set_pool_capacity(2);
        }
        ctx.log("cfg", workers, 0, None);
        let mut r = Rng(sh.seed.wrapping_mul(0x2545F4914F6CDD1D) | 1);
        r.next();
        // the scheduler is created by the first spawn under a std `Once`: do it before other threads exist
        {
            let (k, h) = spawn_one(&sh, 2, &mut r, Some(0));
            join_check(&sh, k, h, &mut r);
        }
        match sh.mode.as_str() {
            "burst" => burst(ctx, &sh, &mut r, n),
            "pool" => {
                // many short coroutines one after the other: the pooled stacks are reused
                for _ in 0..n {
                    let (k, h) = spawn_one(&sh, 2, &mut r, Some(0));
                    join_check(&sh, k, h, &mut r);
                }
            }
            _ => {
                // top-level spawners: main and some scenario threads
                let mut ths = vec![];
                for t in 0..nthreads.saturating_sub(1) {
                    let sh2 = sh.clone();
                    let mut r2 = Rng(r.next() | 1);
                    let per = n / nthreads;
                    ths.push(ctx.spawn(&format!("sp{t}"), move || top(&sh2, &mut r2, per)));
                }
                top(&sh, &mut r, n - (n / nthreads) * nthreads.saturating_sub(1));
                for t in ths {
                    ctx.join(t);
                }
            }
        }
        // detached coroutines must finish too
        let mut rounds = 0;
        while sh.live.load(SeqCst) != 0 {
            ctx.sleep_ns(1_000_000);
            rounds += 1;
            if rounds > 400 {
                let missing: Vec<usize> = (1..sh.next.load(SeqCst)).filter(|&j| !sh.finished[j].load(SeqCst)).collect();
                ctx.fail(format!("coroutines {missing:?} were spawned but never finished"));
                break;
            }
        }
        for j in 1..sh.next.load(SeqCst) {
            let e = sh.exec[j].load(SeqCst);
            if e != 1 {
                ctx.fail(format!("closure of coroutine {j} was entered {e} times"));
            }
        }
        ctx.record(false);
    })
}

fn top(sh: &Arc<Sh>, r: &mut Rng, n: usize) {
    let c = mayv::ctx();
    let mut hs: Vec<(usize, H)> = vec![];
    for _ in 0..n {
        let kid = spawn_one(sh, 0, r, None);
        hs.push(kid);
        if r.below(3) == 0 {
            c.yield_now();
        }
        if sh.cancel && r.below(4) == 0 {
            let i = r.below(hs.len() as u64) as usize;
            let (k, h) = &hs[i];
            request_cancel(sh, *k, h);
        }
    }
    while !hs.is_empty() {
        let i = r.below(hs.len() as u64) as usize;
        let (k, h) = hs.remove(i);
        if r.below(6) == 0 {
            drop(h);
        } else {
            join_check(sh, k, h, r);
        }
    }
}

/// one worker: bring the global queue's consumer index to a block boundary (64), keep the worker busy with a
/// spinning coroutine, push more than a block of new coroutines, release: collect_global gets a full batch
fn burst(ctx: &Ctx, sh: &Arc<Sh>, r: &mut Rng, n: usize) {
    for _ in 0..63 {
        let (k, h) = spawn_one(sh, 2, r, Some(0));
        join_check(sh, k, h, r);
    }
    let sh2 = sh.clone();
    let j = sh.next.fetch_add(1, SeqCst);
    sh.live.fetch_add(1, SeqCst);
    ctx.log("sp.call", j as u64, 0, None);
    let spinner = unsafe {
        may::coroutine::spawn(move || -> u64 {
            let c = mayv::ctx();
            c.log("tag", j as u64, 0, None);
            sh2.exec[j].fetch_add(1, SeqCst);
            let _g = BodyGuard { sh: sh2.clone(), j };
            sh2.spinning.store(true, SeqCst);
            while !sh2.release.load(SeqCst) {
                c.yield_now();
            }
            sh2.finished[j].store(true, SeqCst);
            c.log("fin", j as u64, 0, None);
            0
        })
    };
    ctx.log("sp.ret", j as u64, 0, None);
    while !sh.spinning.load(SeqCst) {
        ctx.yield_now();
    }
    let mut hs = vec![];
    for _ in 0..n {
        hs.push(spawn_one(sh, 2, r, Some(0)));
    }
    sh.release.store(true, SeqCst);
    ctx.log("jn.call", j as u64, 0, None);
    let res = spinner.join();
    ctx.log("jn.ret", j as u64, 1, None);
    if res.ok() != Some(0) {
        ctx.fail("the spinner's join did not return its value".into());
    }
    for (k, h) in hs {
        join_check(sh, k, h, r);
    }
}
