//! C11: a notify_one that meets a waiter whose timeout fires at the same moment is not lost: either that waiter reports
//! "notified", or the notification is passed on to the next waiter.
//!
//! W waits with wait_timeout(1 ms), W2 waits without a timeout; N calls notify_one at 0.5 ms WITHOUT holding the mutex
//! (allowed, as in std) and is held inside it (site-directed stall at `SyncBlocker::unpark`, i.e. after it has popped W)
//! until long after W's timeout.  Oracles: if W reports a timeout, W2 must have been woken by that one notification;
//! if W reports "notified", W2 is still waiting (and is released by a second notify at the end); nobody hangs; the
//! mutex is held by each waiter when its wait returns (occupancy).
//! The time line is scripted (W2 is waiting 300 us before the notify): not for variants with random stalls, in which W2
//! may register after the notification and legitimately miss it.
use mayv::*;
use std::sync::atomic::{AtomicBool, AtomicUsize, Ordering::SeqCst};
use std::sync::Arc;
use std::time::Duration;

fn envn(k: &str, d: u64) -> u64 {
    std::env::var(k).ok().and_then(|s| s.parse().ok()).unwrap_or(d)
}

fn main() {
    let cfg = Config::from_env();
    let w_co = envn("MAYV_WCO", 1) == 1;
    let w2_co = envn("MAYV_W2CO", 0) == 1;
    run(cfg, move |ctx| {
        let pair = Arc::new((may::sync::Mutex::new(0u32), may::sync::Condvar::new()));
        let occ = Arc::new(AtomicUsize::new(0));
        let w_state = Arc::new(AtomicUsize::new(0)); // 1 = timed out, 2 = notified
        let w2_done = Arc::new(AtomicBool::new(false));
        let (p1, o1, ws) = (pair.clone(), occ.clone(), w_state.clone());
        let wbody = move || {
            let (m, cv) = &*p1;
            let g = m.lock().unwrap();
            let (g, r) = cv.wait_timeout(g, Duration::from_millis(1)).unwrap();
            if o1.fetch_add(1, SeqCst) != 0 {
                mayv::ctx().fail("W: wait_timeout returned without the mutex (somebody else is inside)".into());
            }
            ws.store(if r.timed_out() { 1 } else { 2 }, SeqCst);
            o1.fetch_sub(1, SeqCst);
            drop(g);
        };
        let (p2, o2, d2) = (pair.clone(), occ.clone(), w2_done.clone());
        let w2body = move || {
            let (m, cv) = &*p2;
            let g = m.lock().unwrap();
            let g = cv.wait(g).unwrap();
            if o2.fetch_add(1, SeqCst) != 0 {
                mayv::ctx().fail("W2: wait returned without the mutex (somebody else is inside)".into());
            }
            d2.store(true, SeqCst);
            o2.fetch_sub(1, SeqCst);
            drop(g);
        };
        enum H {
            T(JoinH),
            C(may::coroutine::JoinHandle<()>),
        }
        let spawn = |ctx: &Ctx, co: bool, name: &str, f: Box<dyn FnOnce() + Send>| -> H {
            if co {
                H::C(unsafe { may::coroutine::Builder::new().name(name.into()).spawn(f).unwrap() })
            } else {
                H::T(ctx.spawn(name, f))
            }
        };
        let hw = spawn(ctx, w_co, "W", Box::new(wbody));
        ctx.sleep_ns(200_000);
        let hw2 = spawn(ctx, w2_co, "W2", Box::new(w2body));
        ctx.sleep_ns(300_000);
        let p3 = pair.clone();
        let n = ctx.spawn("N", move || p3.1.notify_one());
        // long after W's timeout and after any directed stall of N
        ctx.sleep_ns(60_000_000);
        ctx.join(n);
        match w_state.load(SeqCst) {
            1 => {
                if !w2_done.load(SeqCst) {
                    ctx.fail("the notification was lost: W reports a timeout and W2, still waiting, was not woken by the notify_one".into());
                }
            }
            2 => {
                if w2_done.load(SeqCst) {
                    ctx.fail("one notify_one released two waiters".into());
                }
            }
            _ => ctx.fail("W has not returned 59 ms after its 1 ms timeout".into()),
        }
        // release whoever is still waiting
        pair.1.notify_all();
        for h in [hw, hw2] {
            match h {
                H::T(j) => ctx.join(j),
                H::C(j) => {
                    if j.join().is_err() {
                        ctx.fail("a waiter coroutine panicked".into());
                    }
                }
            }
        }
    })
}
