//! C01 (progress half) scenario: the WORKER LOOP and its wake-up protocol on the real runtime.
//!
//! MAYV_MODE=idle (the mode `./check C01` runs): the idle poll of the workers is made LONG
//! (`may::config().set_timeout_ns(MAYV_TMO)`, default one hour of virtual time) before the scheduler starts, so that the
//! periodic re-poll of `epoll_wait` cannot mask a lost wake-up.  Scenario threads (non-workers: every spawn and every
//! unpark from them goes through `schedule_global`: push into a worker's mpsc queue + eventfd write) spawn coroutines in
//! rounds separated by pauses in which all workers go idle; the coroutines yield, sleep (the timer thread resumes them and
//! re-schedules them globally at their next yield), spawn and join children, and wake each other through a channel.
//!   Oracles on the implementation:
//!   * every spawned coroutine enters its body exactly once and finishes (join returns its value);
//!   * PROMPTNESS in virtual time: a coroutine finishes within (what it slept + MAYV_SLACK, default 2 s) of its spawn,
//!     a joiner returns within the slack of the end of the body: a coroutine left behind in a queue by a sleeping worker
//!     either hangs the run (harness: HANG) or is found an hour late;
//!   * nobody hangs (harness).
//!
//! MAYV_MODE=starve (the schedule of model witness `global_queue_starves`; finding F34, repaired by e723520): one worker;
//! coroutine A polls a flag with `yield_now()`; then coroutine B, which sets the flag, is spawned from a thread (global queue
//! of the only worker).  Before the fix the worker never left `'work: loop { local.pop() ... }` of run_queued_tasks and B
//! never ran; now B runs after GLOBAL_INTERVAL polls of A.  Oracle: B runs within 2 s of virtual time (STARVED otherwise).
//!
//! MAYV_MODE=iotimer (the schedule of model witness `timer_state`; finding F34): one worker; coroutine B blocks in a UDP
//! recv with a long read timeout (keeps an I/O timer pending); coroutine A's recv times out after 5 ms, the timeout handler
//! (schedule_timer, after run_queued_tasks) resumes it, it calls `yield_now()` (local push) and notes when it runs again.
//! Before the fix that was when B's timer fired (10 s); now at once (select returns Some(0) while the local queue is not
//! empty).  Oracle: A runs again within 1 s of virtual time (LATE otherwise).
//!
//! MAYV_MODE=spin (budget of run_queued_tasks, fix e723520): MAYV_N (default 300) yields of one coroutine whose local queue
//! never runs dry (plus a second coroutine spawned from the main thread half-way): the worker must look at its global queue
//! every GLOBAL_INTERVAL run_coroutine calls and go back to its selector after RUN_BUDGET of them, and select must return
//! Some(0) then.  Oracle: the second coroutine runs within 2 s of virtual time.
//!
//! MAYV_MODE=storm (work stealing under trace acceptance): MAYV_N (default 8) coroutines spawned from two threads yield 6..15
//! times each, some spawn and join a child: with 3 or 4 workers most of them migrate through steal_into.  Oracles: exactly
//! once, join value, promptness.
//!
//! Trace acceptance (acceptor `schedloop`, coq/Rt/SchedLoopAccept.v): every spawn is bracketed by `sp.call(j)` / `sp.ret(j)`
//! records, the run starts with `cfg(workers, idle poll ns)`; with MAYV_ATOMIC_SPMC=1 the hooks of may_queue/src/spmc.rs are
//! not schedule points (the local run queues are the atomic FIFOs of C04: pop / steal_into / has_tasks and the pure record
//! that follows them are one step), everything else still is.
use mayv::*;
use std::sync::atomic::{AtomicBool, AtomicU32, AtomicU64, Ordering::SeqCst};
use std::sync::Arc;
use std::time::Duration;

fn envs(k: &str, d: &str) -> String {
    std::env::var(k).unwrap_or_else(|_| d.into())
}
fn envn(k: &str, d: u64) -> u64 {
    std::env::var(k).ok().and_then(|s| s.parse().ok()).unwrap_or(d)
}

#[derive(Clone, Copy)]
struct Rng(u64);
impl Rng {
    fn next(&mut self) -> u64 {
        self.0 ^= self.0 >> 12;
        self.0 ^= self.0 << 25;
        self.0 ^= self.0 >> 27;
        self.0.wrapping_mul(0x2545F4914F6CDD1D) >> 8
    }
    fn below(&mut self, n: u64) -> u64 {
        self.next() % n.max(1)
    }
}

const MAXC: usize = 256;

struct Sh {
    seed: u64,
    slack: u64,
    next: AtomicU32,
    exec: Vec<AtomicU32>,
    spawned_at: Vec<AtomicU64>,
    done_at: Vec<AtomicU64>,
    slept: Vec<AtomicU64>,
    finished: Vec<AtomicBool>,
}

type H = may::coroutine::JoinHandle<u64>;

/// ids of the coroutines the oracles of mode idle do not track (warm-up, starve, iotimer, spin)
static AUXJ: AtomicU32 = AtomicU32::new(300);

/// every spawn is bracketed by sp.call / sp.ret records (the acceptor takes ASpawn at the fetch_add in between)
fn logged<T>(j: u64, f: impl FnOnce() -> T) -> T {
    let c = mayv::ctx();
    c.log("sp.call", j, 0, None);
    let r = f();
    c.log("sp.ret", j, 0, None);
    r
}
fn auxj() -> u64 {
    AUXJ.fetch_add(1, SeqCst) as u64
}

/// body of coroutine j: a function of (seed, j)
fn body(sh: &Arc<Sh>, j: usize, depth: u32) -> u64 {
    let c = mayv::ctx();
    let e = sh.exec[j].fetch_add(1, SeqCst);
    if e != 0 {
        c.fail(format!("closure of coroutine {j} entered {} times", e + 1));
    }
    let mut r = Rng((sh.seed ^ (j as u64).wrapping_mul(0x9E3779B97F4A7C15)) | 1);
    r.next();
    let steps = 1 + r.below(4);
    for _ in 0..steps {
        match r.below(6) {
            0 | 1 => may::coroutine::yield_now(),
            2 => {
                // the timer thread resumes the coroutine on its own stack; the next yield re-schedules it globally
                let d = 100_000 + r.below(3_000_000);
                sh.slept[j].fetch_add(d, SeqCst);
                may::coroutine::sleep(Duration::from_nanos(d));
                may::coroutine::yield_now();
            }
            3 if depth < 2 => {
                // child spawned from a coroutine (schedule_global as well), joined here: the joiner is unparked by the
                // child's worker (local push) or by the timer thread (global push)
                let (k, h) = spawn_one(sh, depth + 1);
                join_check(sh, k, h);
                sh.slept[j].fetch_add(sh.slept[k].load(SeqCst) + sh.slack / 4, SeqCst);
            }
            4 => {
                // wake-up through a channel from a freshly spawned sender
                let (tx, rx) = may::sync::mpsc::channel::<u64>();
                let (k, h) = spawn_with(sh, depth + 1, move || {
                    tx.send(7).ok();
                });
                let v = rx.recv().unwrap_or(0);
                if v != 7 {
                    c.fail(format!("coroutine {j}: channel delivered {v}"));
                }
                join_check(sh, k, h);
                sh.slept[j].fetch_add(sh.slack / 4, SeqCst);
            }
            _ => {}
        }
    }
    sh.done_at[j].store(c.now(), SeqCst);
    sh.finished[j].store(true, SeqCst);
    100 + j as u64
}

fn spawn_with<F: FnOnce() + Send + 'static>(sh: &Arc<Sh>, _depth: u32, f: F) -> (usize, H) {
    let c = mayv::ctx();
    let j = sh.next.fetch_add(1, SeqCst) as usize;
    assert!(j < MAXC);
    sh.spawned_at[j].store(c.now(), SeqCst);
    let sh2 = sh.clone();
    let h = logged(j as u64, || unsafe {
        may::coroutine::spawn(move || -> u64 {
            let c = mayv::ctx();
            let e = sh2.exec[j].fetch_add(1, SeqCst);
            if e != 0 {
                c.fail(format!("closure of coroutine {j} entered {} times", e + 1));
            }
            f();
            sh2.done_at[j].store(c.now(), SeqCst);
            sh2.finished[j].store(true, SeqCst);
            100 + j as u64
        })
    });
    (j, h)
}

fn spawn_one(sh: &Arc<Sh>, depth: u32) -> (usize, H) {
    let c = mayv::ctx();
    let j = sh.next.fetch_add(1, SeqCst) as usize;
    assert!(j < MAXC);
    sh.spawned_at[j].store(c.now(), SeqCst);
    let sh2 = sh.clone();
    let h = logged(j as u64, || unsafe { may::coroutine::spawn(move || body(&sh2, j, depth)) });
    (j, h)
}

fn join_check(sh: &Arc<Sh>, j: usize, h: H) {
    let c = mayv::ctx();
    match h.join() {
        Ok(v) if v == 100 + j as u64 => {}
        Ok(v) => c.fail(format!("join of coroutine {j} returned {v}")),
        Err(_) => c.fail(format!("join of coroutine {j} returned an error")),
    }
    if !sh.finished[j].load(SeqCst) {
        c.fail(format!("join of coroutine {j} returned before its body finished"));
    }
    let late = c.now().saturating_sub(sh.done_at[j].load(SeqCst));
    if late > sh.slack {
        c.fail(format!("joiner of coroutine {j} was woken {late} ns after the body finished (idle poll, lost wake-up?)"));
    }
}

fn mode_idle(ctx: &Ctx, sh: &Arc<Sh>) {
    let rounds = envn("MAYV_ROUNDS", 3);
    let per = envn("MAYV_N", 3);
    let nthreads = envn("MAYV_THREADS", 1);
    let mut r = Rng(sh.seed.wrapping_mul(0x2545F4914F6CDD1D) | 1);
    r.next();
    // more scenario threads spawn concurrently
    let mut ths = vec![];
    for t in 1..nthreads {
        let sh2 = sh.clone();
        let mut r2 = Rng(r.next() | 1);
        ths.push(ctx.spawn(&format!("sp{t}"), move || spawner(&sh2, &mut r2, rounds, per)));
    }
    spawner(sh, &mut r, rounds, per);
    for t in ths {
        ctx.join(t);
    }
    let n = sh.next.load(SeqCst) as usize;
    for j in 1..n {
        let e = sh.exec[j].load(SeqCst);
        if e != 1 {
            ctx.fail(format!("closure of coroutine {j} was entered {e} times"));
        }
        if !sh.finished[j].load(SeqCst) {
            ctx.fail(format!("coroutine {j} was spawned but never finished"));
            continue;
        }
        let took = sh.done_at[j].load(SeqCst).saturating_sub(sh.spawned_at[j].load(SeqCst));
        let bound = sh.slept[j].load(SeqCst) + sh.slack;
        if took > bound {
            ctx.fail(format!(
                "coroutine {j} finished {took} ns after its spawn, it slept {} ns: left behind in a run queue by a sleeping worker?",
                sh.slept[j].load(SeqCst)
            ));
        }
    }
}

fn spawner(sh: &Arc<Sh>, r: &mut Rng, rounds: u64, per: u64) {
    let c = mayv::ctx();
    for _ in 0..rounds {
        // let every worker run out of work and block in epoll_wait
        c.sleep_ns(200_000 + r.below(20_000_000));
        let mut hs = vec![];
        for _ in 0..per {
            hs.push(spawn_one(sh, 0));
            if r.below(3) == 0 {
                c.sleep_ns(r.below(400_000));
            }
        }
        while !hs.is_empty() {
            let i = r.below(hs.len() as u64) as usize;
            let (k, h) = hs.remove(i);
            join_check(sh, k, h);
        }
    }
}

/// the schedule of model witness `global_queue_starves` on the real code
fn mode_starve(ctx: &Ctx) {
    let flag = Arc::new(AtomicBool::new(false));
    let started = Arc::new(AtomicBool::new(false));
    let polls = Arc::new(AtomicU64::new(0));
    let (f1, s1, p1) = (flag.clone(), started.clone(), polls.clone());
    let a = logged(auxj(), || unsafe {
        may::coroutine::spawn(move || {
            s1.store(true, SeqCst);
            while !f1.load(SeqCst) {
                p1.fetch_add(1, SeqCst);
                may::coroutine::yield_now();
            }
        })
    });
    while !started.load(SeqCst) {
        ctx.yield_now();
    }
    let t0 = ctx.now();
    println!("A polls its flag with yield_now() on the only worker; spawning B (sets the flag) from the main thread at t={t0}");
    let f2 = flag.clone();
    let b = logged(auxj(), || unsafe { may::coroutine::spawn(move || f2.store(true, SeqCst)) });
    // a watchdog thread reports what A has done so far, should the run be cut off by the step budget
    let p2 = polls.clone();
    let f3 = flag.clone();
    ctx.spawn("watch", move || {
        let c = mayv::ctx();
        for _ in 0..40 {
            c.sleep_ns(50_000_000);
            if f3.load(SeqCst) {
                return;
            }
            println!("t={} ns: B has not run, A has polled {} times", c.now(), p2.load(SeqCst));
        }
        c.fail(format!("STARVED: after 2 s B (in the global queue of the only worker, eventfd written) has not run; A polled {} times", p2.load(SeqCst)));
        mayv::finish(mayv::ctl(), 2);
    });
    b.join().ok();
    a.join().ok();
    println!("B ran and A finished at t={} (polls {})", ctx.now(), polls.load(SeqCst));
}

/// the schedule of model witness `timer_state` on the real code
fn mode_iotimer(ctx: &Ctx) {
    let long = envn("MAYV_LONG", 10_000_000_000);
    let resumed_after = Arc::new(AtomicU64::new(0));
    let ra = resumed_after.clone();
    // B: keeps an I/O timer pending on the only worker
    let sb = may::net::UdpSocket::bind("127.0.0.1:0").expect("bind");
    let addr_b = sb.local_addr().unwrap();
    let b = logged(auxj(), || unsafe {
        may::coroutine::spawn(move || {
            sb.set_read_timeout(Some(Duration::from_nanos(long))).unwrap();
            let mut buf = [0u8; 8];
            let _ = sb.recv(&mut buf);
        })
    });
    let a = logged(auxj(), || unsafe {
        may::coroutine::spawn(move || {
            let c = mayv::ctx();
            let sa = may::net::UdpSocket::bind("127.0.0.1:0").expect("bind");
            sa.set_read_timeout(Some(Duration::from_millis(5))).unwrap();
            let mut buf = [0u8; 8];
            let r = sa.recv(&mut buf);
            let t1 = c.now();
            println!("A: recv returned {:?} at t={t1} ns; yield_now()", r.map_err(|e| e.kind()));
            may::coroutine::yield_now();
            let t2 = c.now();
            ra.store(t2 - t1, SeqCst);
            println!("A: running again at t={t2} ns ({} ns after the yield)", t2 - t1);
            // let B go
            sa.send_to(&[1u8; 8], addr_b).ok();
        })
    });
    a.join().ok();
    b.join().ok();
    let d = resumed_after.load(SeqCst);
    if d > 1_000_000_000 {
        ctx.fail(format!("LATE: a coroutine that yielded after an I/O timeout ran again {d} ns later (next I/O timer), not at once"));
    }
}

/// yield storm on several workers: stealing
fn mode_storm(ctx: &Ctx, sh: &Arc<Sh>) {
    let per = envn("MAYV_N", 8);
    let sh2 = sh.clone();
    let other = ctx.spawn("sp1", move || storm_spawner(&sh2, per / 2, 1));
    storm_spawner(sh, per - per / 2, 2);
    ctx.join(other);
    let n = sh.next.load(SeqCst) as usize;
    for j in 1..n {
        let e = sh.exec[j].load(SeqCst);
        if e != 1 {
            ctx.fail(format!("closure of coroutine {j} was entered {e} times"));
        }
        if !sh.finished[j].load(SeqCst) {
            ctx.fail(format!("coroutine {j} was spawned but never finished"));
        }
    }
}

fn storm_body(sh: &Arc<Sh>, j: usize, depth: u32) -> u64 {
    let c = mayv::ctx();
    let e = sh.exec[j].fetch_add(1, SeqCst);
    if e != 0 {
        c.fail(format!("closure of coroutine {j} entered {} times", e + 1));
    }
    let mut r = Rng((sh.seed ^ (j as u64).wrapping_mul(0x9E3779B97F4A7C15)) | 1);
    r.next();
    let n = 6 + r.below(10);
    for i in 0..n {
        may::coroutine::yield_now();
        if depth < 1 && i == n / 2 && r.below(3) == 0 {
            let (k, h) = storm_spawn(sh, depth + 1);
            join_check(sh, k, h);
        }
    }
    sh.done_at[j].store(c.now(), SeqCst);
    sh.finished[j].store(true, SeqCst);
    100 + j as u64
}

fn storm_spawn(sh: &Arc<Sh>, depth: u32) -> (usize, H) {
    let c = mayv::ctx();
    let j = sh.next.fetch_add(1, SeqCst) as usize;
    assert!(j < MAXC);
    sh.spawned_at[j].store(c.now(), SeqCst);
    let sh2 = sh.clone();
    let h = if depth == 0 && std::env::var("MAYV_PIN").is_ok() {
        // everything into the global queue of worker 0 (Builder::id -> schedule_global_with_id): the others steal
        c.log("sp.call", j as u64, 8, None);
        let h = unsafe { may::coroutine::Builder::new().id(0).spawn(move || storm_body(&sh2, j, depth)) }.expect("spawn");
        c.log("sp.ret", j as u64, 0, None);
        h
    } else {
        logged(j as u64, || unsafe { may::coroutine::spawn(move || storm_body(&sh2, j, depth)) })
    };
    (j, h)
}

fn storm_spawner(sh: &Arc<Sh>, n: u64, salt: u64) {
    let c = mayv::ctx();
    let mut r = Rng((sh.seed.wrapping_mul(0x2545F4914F6CDD1D) ^ salt) | 1);
    r.next();
    let mut hs = vec![];
    for _ in 0..n {
        hs.push(storm_spawn(sh, 0));
        if r.below(4) == 0 {
            c.sleep_ns(r.below(200_000));
        }
    }
    while !hs.is_empty() {
        let i = r.below(hs.len() as u64) as usize;
        let (k, h) = hs.remove(i);
        join_check(sh, k, h);
    }
}

/// budget and interval of run_queued_tasks: a local queue that never runs dry
fn mode_spin(ctx: &Ctx) {
    let n = envn("MAYV_N", 300);
    let half = Arc::new(AtomicBool::new(false));
    let done = Arc::new(AtomicBool::new(false));
    // a thread with a pending deadline at any time: the harness treats a worker in its zero-timeout idle wait (select
    // returned Some(0), the poll found nothing) as an idle poller and lets virtual time pass only for somebody else's sake
    let d2 = done.clone();
    let tick = ctx.spawn("tick", move || {
        let c = mayv::ctx();
        while !d2.load(SeqCst) {
            c.sleep_ns(200_000);
        }
    });
    let h1 = half.clone();
    let a = logged(auxj(), || unsafe {
        may::coroutine::spawn(move || {
            for i in 0..n {
                if i == n / 2 {
                    h1.store(true, SeqCst);
                }
                may::coroutine::yield_now();
            }
        })
    });
    while !half.load(SeqCst) {
        ctx.sleep_ns(100_000);
    }
    let t0 = ctx.now();
    let ran = Arc::new(AtomicU64::new(0));
    let r1 = ran.clone();
    let b = logged(auxj(), || unsafe {
        may::coroutine::spawn(move || {
            r1.store(mayv::ctx().now().max(1), SeqCst);
        })
    });
    b.join().ok();
    let d = ran.load(SeqCst).saturating_sub(t0);
    if d > 2_000_000_000 {
        ctx.fail(format!("STARVED: a coroutine in the global queue of a busy worker ran {d} ns after its spawn"));
    }
    a.join().ok();
    done.store(true, SeqCst);
    ctx.join(tick);
}

extern "C" {
    fn close(fd: i32) -> i32;
}

fn main() {
    let mode = envs("MAYV_MODE", "idle");
    let mut cfg = Config::from_env();
    if mode == "iotimer" {
        for fd in 3..64 {
            unsafe { close(fd) };
        }
        cfg.poll_io = true;
    }
    // acceptor-tied runs: the local run queues are atomic (every hooked file but may_queue/src/spmc.rs is a schedule point)
    if std::env::var("MAYV_ATOMIC_SPMC").is_ok() {
        cfg.sched_files = vec![
            "may_queue/src/atomic.rs", "may_queue/src/mpsc.rs", "may_queue/src/mpsc_list.rs", "may_queue/src/mpsc_list_v1.rs",
            "may_queue/src/spsc.rs", "src/cancel.rs", "src/config.rs", "src/coroutine_impl.rs", "src/cqueue.rs", "src/io/mod.rs",
            "src/io/sys/unix/cancel.rs", "src/io/sys/unix/co_io.rs", "src/io/sys/unix/epoll.rs", "src/io/sys/unix/mod.rs",
            "socket_peek.rs", "socket_read.rs", "socket_write.rs", "socket_write_vectored.rs", "tcp_listener_accept.rs",
            "tcp_stream_connect.rs", "udp_recv_from.rs", "udp_send_to.rs", "unix_listener_accept.rs", "unix_recv_from.rs",
            "unix_send_to.rs", "unix_stream_connect.rs", "wait_io.rs", "src/join.rs", "src/net/tcp.rs", "src/net/udp.rs",
            "src/park.rs", "src/pool.rs", "src/scheduler.rs", "src/scoped.rs", "src/sleep.rs", "src/sync/atomic_dur.rs",
            "src/sync/atomic_option.rs", "src/sync/blocking.rs", "src/sync/condvar.rs", "src/sync/delay_drop.rs",
            "src/sync/fast_blocking.rs", "src/sync/mpmc.rs", "src/sync/mpsc.rs", "src/sync/mutex.rs", "src/sync/poison.rs",
            "src/sync/rwlock.rs", "src/sync/semphore.rs", "src/sync/spsc.rs", "src/sync/sync_flag.rs", "src/timeout_list.rs",
            "src/yield_now.rs",
        ];
    }
    // the idle poll of the workers: must be set before the scheduler is created
    let tmo = envn("MAYV_TMO", if mode == "idle" { 3_600_000_000_000 } else { 10_000_000 });
    may::config().set_timeout_ns(tmo);
    let sh = Arc::new(Sh {
        seed: cfg.seed,
        slack: envn("MAYV_SLACK", 2_000_000_000),
        next: AtomicU32::new(1),
        exec: (0..MAXC).map(|_| AtomicU32::new(0)).collect(),
        spawned_at: (0..MAXC).map(|_| AtomicU64::new(0)).collect(),
        done_at: (0..MAXC).map(|_| AtomicU64::new(0)).collect(),
        slept: (0..MAXC).map(|_| AtomicU64::new(0)).collect(),
        finished: (0..MAXC).map(|_| AtomicBool::new(false)).collect(),
    });
    std::panic::set_hook(Box::new(|_| {}));
    let workers = cfg.workers;
    run(cfg, move |ctx| {
        ctx.log("cfg", workers as u64, tmo, None);
        // the scheduler is created by the first spawn under a std `Once`: do it before other threads exist; up to one spawn
        // per worker so that every worker has left its first select (the one without a timeout) in some runs and not in others
        for _ in 0..(1 + sh.seed as usize % workers.max(1)) {
            let h = logged(auxj(), || unsafe { may::coroutine::spawn(|| {}) });
            let _ = h.join();
        }
        match mode.as_str() {
            "idle" => mode_idle(ctx, &sh),
            "starve" => mode_starve(ctx),
            "iotimer" => mode_iotimer(ctx),
            "spin" => mode_spin(ctx),
            "storm" => mode_storm(ctx, &sh),
            o => panic!("MAYV_MODE={o}"),
        }
        ctx.record(false);
    })
}
