//! C06 / C07 scenario: the real may::sync::{mpsc, spsc, mpmc} channels under the baton scheduler.
//!
//! MAYV_KIND=mpsc|spsc|mpmc, MAYV_SENDERS (1-3; spsc 1), MAYV_RECEIVERS (1-3, mpmc only), MAYV_MSGS (per
//! sender, 1..80: > 64 crosses a queue block), MAYV_CTX=th|co|mix (thread / coroutine endpoints, by seed),
//! MAYV_RECV=recv|try|timed|iter|mix, MAYV_CLONE=1 (senders make short-lived clones while sending),
//! MAYV_KEEP=1 (main keeps one more Sender and drops it at a seeded moment), MAYV_RXDROP=k (every receiver
//! is dropped after k values, values left behind), MAYV_DROPSPIN=n (a sender passes up to n schedule
//! points between its last send and its drop), MAYV_HOLD=1 (a sender stays alive until everything
//! sent so far was received), MAYV_AGAIN=1 (after Disconnected the receiver calls
//! again), MAYV_SCHED=narrow|wide|mpmc (schedule points: the sync layer only = atomic queue operations, every
//! hooked access incl. the queue internals, or src/sync/mpmc.rs only = atomic semaphore calls).
//! MAYV_RXCANCEL=1|2: receiver 0 is a coroutine and is CANCELLED by main at a seeded moment (blocked in recv / recv_timeout,
//! about to block, or between calls); the senders keep their Sender alive until the cancelled coroutine has been joined
//! (1: the cancel itself must end the blocked call) or until cancel() has returned (2: spsc, whose Park does not register
//! with the cancel data - the cancel is found when a send / the sender's drop resumes the coroutine; 3: the cancel is sent
//! only when the target is certainly suspended in its blocking call - everything sent has been received and virtual time
//! has passed; spsc: senders released after cancel() as in 2).  The Receiver is owned by the coroutine: the unwinding
//! drops it (drop_port / drop_rx).
//! MAYV_SPUR=n (spsc, thread receiver): a noise thread unparks the receiver's OS thread up to n times at seeded moments -
//! for the receiver these are spurious returns of std::thread::park().
//!
//! Oracles on the implementation (independent of the Coq models); payloads are tagged (handle, seq)
//! and count their own drops:
//!  * every payload ends in exactly one of {received by one receiver call, returned by a failed send,
//!    dropped by the channel} and is dropped exactly once; nothing is received that was not sent;
//!  * per sender the sequence numbers a receiver sees increase (mpsc/spsc: without gaps);
//!  * Disconnected only when no Sender is alive and (single receiver) everything sent was received;
//!  * a receive call started after the last Sender drop returned answers a value or Disconnected,
//!    never Empty / Timeout; a hang (receiver never woken) is reported by the harness as HANG;
//!  * send fails only once every Receiver drop has begun, gives the value back, and a send started
//!    after the last Receiver drop returned fails; what was sent before the last Receiver's drop began
//!    is gone (received or dropped) when that drop returns;
//!  * MAYV_HOLD: with every sender idle but alive, everything sent is received (the receiver is
//!    woken by the send itself, not by a later send or by the disconnect).
//!  * MAYV_RXCANCEL: the join of the cancelled receiver returns Err with the Cancel payload (not a message, not Ok) while
//!    every Sender is still alive; nothing is lost: the accounting oracle above holds (what the cancelled receiver did not
//!    take is received by another receiver or dropped exactly once by the channel); mpmc: the other receivers get
//!    everything else and all see Disconnected (a permit granted to the cancelled waiter is passed on).
//!  * recv_timeout never answers Timeout before `timeout` has passed since the call (virtual clock).
//!
//! Trace records for the acceptors (kind, obj, val): chan.new; send.call(h, seq) send.ret(h, ok);
//! clone.call(h, newh) clone.ret(h, newh); dropc.call(h) dropc.ret(h); try.call try.ret(k, v);
//! recv.call(co | r<<1) recv.ret(k, v); rt.call(co | r<<1, dur) rt.ret(k, v); dropp.call(r<<1) dropp.ret; clonerx.call(r, r2) clonerx.ret;
//! k: 0 Ok, 1 Empty, 2 Disconnected, 4 Timeout, 5 left by the Cancel panic; v = h * 1000 + seq.
//! clk(now_ns) is logged right before rt.call and right before rt.ret: the virtual clock for the timed models.
use mayv::*;
use std::alloc::{GlobalAlloc, Layout, System};
use std::sync::atomic::{AtomicI64, AtomicU64, AtomicUsize, Ordering::SeqCst};
use std::sync::mpsc::{RecvTimeoutError, TryRecvError};
use std::sync::Arc;
use std::time::Duration;

/// never reuse an address: blockers are numbered by address in the normalised trace and the
/// virtual ThreadPark token of the harness is keyed by address
struct Leak;
unsafe impl GlobalAlloc for Leak {
    unsafe fn alloc(&self, l: Layout) -> *mut u8 {
        System.alloc(l)
    }
    unsafe fn dealloc(&self, _p: *mut u8, _l: Layout) {}
}
#[global_allocator]
static GLOBAL: Leak = Leak;

fn envs(k: &str, d: &str) -> String {
    std::env::var(k).unwrap_or_else(|_| d.into())
}
fn envn(k: &str, d: u64) -> u64 {
    std::env::var(k).ok().and_then(|s| s.parse().ok()).unwrap_or(d)
}

const MAXH: usize = 64;
const MAXI: usize = 96;
#[allow(clippy::declare_interior_mutable_const)]
const Z: AtomicUsize = AtomicUsize::new(0);
#[allow(clippy::declare_interior_mutable_const)]
const ROW: [AtomicUsize; MAXI] = [Z; MAXI];
static CREATED: [[AtomicUsize; MAXI]; MAXH] = [ROW; MAXH];
static RECEIVED: [[AtomicUsize; MAXI]; MAXH] = [ROW; MAXH];
static RETURNED: [[AtomicUsize; MAXI]; MAXH] = [ROW; MAXH];
static OKSENT: [[AtomicUsize; MAXI]; MAXH] = [ROW; MAXH];
static DROPS: [[AtomicUsize; MAXI]; MAXH] = [ROW; MAXH];
static RAWDROPS: [[AtomicUsize; MAXI]; MAXH] = [ROW; MAXH]; // dropped while still inside the channel

static NEXT_H: AtomicU64 = AtomicU64::new(1);
static TX_UPPER: AtomicI64 = AtomicI64::new(1); // +1 before clone, -1 after drop returned   (>= real count)
static TX_LOWER: AtomicI64 = AtomicI64::new(1); // +1 before clone, -1 before drop is called (0 is necessary for Disconnected)
static RX_UPPER: AtomicI64 = AtomicI64::new(1);
static RX_LOWER: AtomicI64 = AtomicI64::new(1);
static NOK: AtomicU64 = AtomicU64::new(0); // sends that returned Ok
static NRECV: AtomicU64 = AtomicU64::new(0);
static NDISC: AtomicU64 = AtomicU64::new(0);
static SNAP: std::sync::Mutex<Vec<(usize, usize)>> = std::sync::Mutex::new(Vec::new());
static RELEASE: AtomicU64 = AtomicU64::new(0); // MAYV_RXCANCEL: the senders may drop their Sender now
static RXTHREAD: std::sync::Mutex<Option<may::verif::thread::Thread>> = std::sync::Mutex::new(None); // MAYV_SPUR
static RXDONE: AtomicU64 = AtomicU64::new(0);

struct P {
    h: u32,
    i: u32,
    st: u8, // 0 in flight, 1 received, 2 returned to the sender
}
impl P {
    fn new(h: u64, i: u64) -> P {
        CREATED[h as usize][i as usize].fetch_add(1, SeqCst);
        P { h: h as u32, i: i as u32, st: 0 }
    }
}
impl Drop for P {
    fn drop(&mut self) {
        DROPS[self.h as usize][self.i as usize].fetch_add(1, SeqCst);
        if self.st == 0 {
            RAWDROPS[self.h as usize][self.i as usize].fetch_add(1, SeqCst);
        }
    }
}

enum Tx {
    Mpsc(may::sync::mpsc::Sender<P>),
    Spsc(may::sync::spsc::Sender<P>),
    Mpmc(may::sync::mpmc::Sender<P>),
}
enum Rx {
    Mpsc(may::sync::mpsc::Receiver<P>),
    Spsc(may::sync::spsc::Receiver<P>),
    Mpmc(may::sync::mpmc::Receiver<P>),
}
impl Tx {
    fn send(&self, p: P) -> Result<(), P> {
        match self {
            Tx::Mpsc(t) => t.send(p).map_err(|e| e.0),
            Tx::Spsc(t) => t.send(p).map_err(|e| e.0),
            Tx::Mpmc(t) => t.send(p).map_err(|e| e.0),
        }
    }
    fn can_clone(&self) -> bool {
        !matches!(self, Tx::Spsc(_))
    }
    fn dup(&self) -> Tx {
        match self {
            Tx::Mpsc(t) => Tx::Mpsc(t.clone()),
            Tx::Mpmc(t) => Tx::Mpmc(t.clone()),
            Tx::Spsc(_) => unreachable!(),
        }
    }
}
impl Rx {
    fn recv(&self) -> Result<P, ()> {
        match self {
            Rx::Mpsc(r) => r.recv().map_err(|_| ()),
            Rx::Spsc(r) => r.recv().map_err(|_| ()),
            Rx::Mpmc(r) => r.recv().map_err(|_| ()),
        }
    }
    fn try_recv(&self) -> Result<P, TryRecvError> {
        match self {
            Rx::Mpsc(r) => r.try_recv(),
            Rx::Spsc(r) => r.try_recv(),
            Rx::Mpmc(r) => r.try_recv(),
        }
    }
    fn has_timeout(&self) -> bool {
        !matches!(self, Rx::Spsc(_))
    }
    fn recv_timeout(&self, d: Duration) -> Result<P, RecvTimeoutError> {
        match self {
            Rx::Mpsc(r) => r.recv_timeout(d),
            Rx::Mpmc(r) => r.recv_timeout(d),
            Rx::Spsc(_) => unreachable!(),
        }
    }
    fn iter_next(&self) -> Option<P> {
        match self {
            Rx::Mpsc(r) => r.iter().next(),
            Rx::Spsc(r) => r.iter().next(),
            Rx::Mpmc(r) => r.iter().next(),
        }
    }
}

fn xs(r: &mut u64) -> u64 {
    *r ^= *r >> 12;
    *r ^= *r << 25;
    *r ^= *r >> 27;
    r.wrapping_mul(0x2545F4914F6CDD1D) >> 8
}

/// one Sender handle: log + drop with the bookkeeping of the oracles
fn drop_tx(c: &Ctx, h: u64, tx: Tx) {
    TX_LOWER.fetch_sub(1, SeqCst);
    c.log("dropc.call", h, 0, None);
    drop(tx);
    c.log("dropc.ret", h, 0, None);
    TX_UPPER.fetch_sub(1, SeqCst);
}
fn clone_tx(c: &Ctx, h: u64, tx: &Tx) -> (u64, Tx) {
    let nh = NEXT_H.fetch_add(1, SeqCst);
    TX_UPPER.fetch_add(1, SeqCst);
    TX_LOWER.fetch_add(1, SeqCst);
    c.log("clone.call", h, nh, None);
    let t = tx.dup();
    c.log("clone.ret", h, nh, None);
    (nh, t)
}
/// returns false when the channel is closed for sending
fn send_one(c: &Ctx, h: u64, seq: &mut u64, tx: &Tx) -> bool {
    let i = *seq;
    let rx_gone_before = RX_UPPER.load(SeqCst) == 0;
    let p = P::new(h, i);
    c.log("send.call", h, i, None);
    let r = tx.send(p);
    c.log("send.ret", h, r.is_ok() as u64, None);
    match r {
        Ok(()) => {
            OKSENT[h as usize][i as usize].fetch_add(1, SeqCst);
            NOK.fetch_add(1, SeqCst);
            *seq += 1;
            if rx_gone_before {
                c.fail(format!("send({h},{i}) returned Ok although every Receiver had been dropped before the call"));
            }
            true
        }
        Err(mut p) => {
            if RX_LOWER.load(SeqCst) != 0 {
                c.fail(format!("send({h},{i}) failed although a Receiver is alive"));
            }
            if (p.h as u64, p.i as u64) != (h, i) || p.st != 0 {
                c.fail(format!("send({h},{i}) failed and gave back a different value ({},{})", p.h, p.i));
            }
            p.st = 2;
            RETURNED[h as usize][i as usize].fetch_add(1, SeqCst);
            false
        }
    }
}

fn sender(h: u64, tx: Tx, msgs: u64, clones: bool, seed: u64) {
    let c = mayv::ctx();
    let mut r = seed | 1;
    let mut seq = 0u64;
    let mut n = 0;
    // MAYV_PACE=1: sends are spread over virtual time so that they land around the receivers' timeouts
    // (0, 50 us, 1 ms, 3 ms after rounding up to whole milliseconds: 0 / 1 / 1 / 3 ms)
    let pace = envn("MAYV_PACE", 0) != 0;
    while n < msgs {
        if pace {
            let d = [0u64, 900_000, 999_000, 1_000_000, 1_001_000, 1_100_000, 2_000_000, 3_000_000][(xs(&mut r) % 8) as usize];
            if d > 0 {
                if may::coroutine::is_coroutine() {
                    may::coroutine::sleep(Duration::from_nanos(d));
                } else {
                    c.sleep_ns(d);
                }
            }
        }
        if clones && tx.can_clone() && xs(&mut r) % 5 == 0 {
            // a short-lived clone sends the next value(s)
            let (nh, t2) = clone_tx(&c, h, &tx);
            let mut s2 = 0u64;
            let k = 1 + xs(&mut r) % 2;
            let mut open = true;
            for _ in 0..k {
                if !send_one(&c, nh, &mut s2, &t2) {
                    open = false;
                    break;
                }
            }
            drop_tx(&c, nh, t2);
            if !open {
                break;
            }
            n += 1;
            continue;
        }
        if !send_one(&c, h, &mut seq, &tx) {
            break;
        }
        n += 1;
    }
    // MAYV_HOLD: keep this Sender alive until everything sent so far has been received, so that no
    // later send / drop can stand in for the wake-up of the last send (C06: woken by the send itself)
    if envn("MAYV_HOLD", 0) != 0 {
        let mut rounds = 0;
        while NRECV.load(SeqCst) < NOK.load(SeqCst) && RX_UPPER.load(SeqCst) > 0 {
            rounds += 1;
            if rounds > 200 {
                c.fail(format!(
                    "values are queued ({} sent Ok, {} received) and the receiver is not woken although no sender is sending",
                    NOK.load(SeqCst),
                    NRECV.load(SeqCst)
                ));
                break;
            }
            if may::coroutine::is_coroutine() {
                may::coroutine::sleep(Duration::from_millis(1));
            } else {
                c.sleep_ns(1_000_000);
            }
        }
    }
    // MAYV_RXCANCEL: no Disconnected (and no wake-up by a drop) before the cancel has done its work
    if envn("MAYV_RXCANCEL", 0) != 0 {
        let mut rounds = 0;
        while RELEASE.load(SeqCst) == 0 {
            rounds += 1;
            if rounds > 300 {
                c.fail("the cancelled receiver was not joined within 300 ms of virtual time although every Sender is alive".into());
                break;
            }
            if may::coroutine::is_coroutine() {
                may::coroutine::sleep(Duration::from_millis(1));
            } else {
                c.sleep_ns(1_000_000);
            }
        }
    }
    // the drop of this Sender lands at a seeded moment of what the receivers are doing
    let spin = envn("MAYV_DROPSPIN", 0);
    if spin > 0 {
        for _ in 0..xs(&mut r) % spin {
            c.point();
        }
    }
    drop_tx(&c, h, tx);
}

struct RxPlan {
    mode: String,
    drop_after: u64, // 0 = until Disconnected
    again: bool,
    single: bool, // single receiver kind: per-sender sequences have no gaps
}

/// logs `<kind>(5, 0)` when the call it guards is left by unwinding (the Cancel panic of a cancelled coroutine)
struct InCall {
    kind: &'static str,
    armed: bool,
    clk: bool,
}
impl InCall {
    fn new(kind: &'static str, clk: bool) -> InCall {
        InCall { kind, armed: true, clk }
    }
    fn done(mut self) {
        self.armed = false;
    }
}
impl Drop for InCall {
    fn drop(&mut self) {
        if self.armed {
            let c = mayv::ctx();
            if self.clk {
                c.log("clk", c.now(), 0, None);
            }
            c.log(self.kind, 5, 0, None);
        }
    }
}

/// the Receiver with the bookkeeping of its drop: also runs when the owning coroutine is cancelled
struct RxGuard {
    rx: Option<Rx>,
    kk: u64,
}
impl Drop for RxGuard {
    fn drop(&mut self) {
        let c = mayv::ctx();
        // what was sent Ok before every Receiver's drop had begun must be gone once all these drops returned
        if RX_LOWER.fetch_sub(1, SeqCst) == 1 {
            let mut before = vec![];
            for h in 0..MAXH {
                for i in 0..MAXI {
                    if OKSENT[h][i].load(SeqCst) == 1 {
                        before.push((h, i));
                    }
                }
            }
            *SNAP.lock().unwrap() = before;
        }
        c.log("dropp.call", self.kk, 0, None);
        drop(self.rx.take());
        c.log("dropp.ret", 0, 0, None);
        if RX_UPPER.fetch_sub(1, SeqCst) == 1 {
            for (h, i) in SNAP.lock().unwrap().iter().copied() {
                if RECEIVED[h][i].load(SeqCst) + DROPS[h][i].load(SeqCst) == 0 {
                    c.fail(format!("({h},{i}) was sent before the last Receiver was dropped and is still alive after that drop returned"));
                    break;
                }
            }
        }
        RXDONE.fetch_add(1, SeqCst);
    }
}

fn got(c: &Ctx, mut p: P, last: &mut [i64; MAXH], single: bool) {
    let (h, i) = (p.h as usize, p.i as usize);
    if CREATED[h][i].load(SeqCst) == 0 {
        c.fail(format!("received ({h},{i}) which was never sent"));
    }
    if RETURNED[h][i].load(SeqCst) != 0 {
        c.fail(format!("received ({h},{i}) although its send failed"));
    }
    if RECEIVED[h][i].fetch_add(1, SeqCst) != 0 {
        c.fail(format!("({h},{i}) received twice"));
    }
    if p.st != 0 {
        c.fail(format!("({h},{i}) came out of the channel in state {}", p.st));
    }
    if (i as i64) <= last[h] || (single && i as i64 != last[h] + 1) {
        c.fail(format!("order: ({h},{i}) received after ({h},{})", last[h]));
    }
    last[h] = i as i64;
    p.st = 1;
    NRECV.fetch_add(1, SeqCst);
}

fn disconnected(c: &Ctx, single: bool, mine: u64) {
    NDISC.fetch_add(1, SeqCst);
    if TX_LOWER.load(SeqCst) != 0 {
        c.fail("Disconnected although a Sender is alive".into());
    }
    if single && mine != NOK.load(SeqCst) {
        c.fail(format!("Disconnected after {mine} values although {} sends returned Ok", NOK.load(SeqCst)));
    }
}

fn receiver(k: u64, rx: Rx, plan: RxPlan, seed: u64) {
    let c = mayv::ctx();
    let co = may::coroutine::is_coroutine() as u64;
    // receiver handle in bits 1.. of the call events (mpmc acceptor); bit 0: coroutine
    let kk = k << 1;
    let guard = RxGuard { rx: Some(rx), kk };
    let rx = guard.rx.as_ref().unwrap();
    if co == 0 && k == 0 && envn("MAYV_SPUR", 0) != 0 {
        *RXTHREAD.lock().unwrap() = Some(may::verif::thread::current());
    }
    let mut r = seed | 1;
    let mut last = [-1i64; MAXH];
    let mut mine = 0u64;
    let mut disc_seen = 0;
    loop {
        if plan.drop_after > 0 && mine >= plan.drop_after {
            break;
        }
        let mut m = plan.mode.as_str();
        if m == "mix" {
            m = ["recv", "try", "timed", "iter"][(xs(&mut r) % 4) as usize];
        }
        if m == "timed" && !rx.has_timeout() {
            m = "recv";
        }
        let tx_gone_before = TX_UPPER.load(SeqCst) == 0;
        // outcome: 0 value, 1 empty / timeout (try again), 2 disconnected
        let out = match m {
            "try" => {
                c.log("try.call", kk, 0, None);
                let g = InCall::new("try.ret", false);
                let x = rx.try_recv();
                g.done();
                match x {
                    Ok(p) => {
                        c.log("try.ret", 0, p.h as u64 * 1000 + p.i as u64, None);
                        got(&c, p, &mut last, plan.single);
                        0
                    }
                    Err(TryRecvError::Empty) => {
                        c.log("try.ret", 1, 0, None);
                        1
                    }
                    Err(TryRecvError::Disconnected) => {
                        c.log("try.ret", 2, 0, None);
                        2
                    }
                }
            }
            "timed" => {
                let d = [0u64, 1_000_000, 3_000_000, 50_000][(xs(&mut r) % 4) as usize];
                let t0 = c.now();
                c.log("clk", t0, 0, None);
                c.log("rt.call", co | kk, d, None);
                let g = InCall::new("rt.ret", true);
                let x = rx.recv_timeout(Duration::from_nanos(d));
                g.done();
                let t1 = c.now();
                c.log("clk", t1, 0, None);
                match x {
                    Ok(p) => {
                        c.log("rt.ret", 0, p.h as u64 * 1000 + p.i as u64, None);
                        got(&c, p, &mut last, plan.single);
                        0
                    }
                    Err(RecvTimeoutError::Timeout) => {
                        c.log("rt.ret", 4, 0, None);
                        if t1 - t0 < d {
                            c.fail(format!("recv_timeout({d} ns) answered Timeout after {} ns", t1 - t0));
                        }
                        1
                    }
                    Err(RecvTimeoutError::Disconnected) => {
                        c.log("rt.ret", 2, 0, None);
                        2
                    }
                }
            }
            _ => {
                c.log("recv.call", co | kk, 0, None);
                let g = InCall::new("recv.ret", false);
                let x = if m == "iter" { rx.iter_next().ok_or(()) } else { rx.recv() };
                g.done();
                match x {
                    Ok(p) => {
                        c.log("recv.ret", 0, p.h as u64 * 1000 + p.i as u64, None);
                        got(&c, p, &mut last, plan.single);
                        0
                    }
                    Err(()) => {
                        c.log("recv.ret", 2, 0, None);
                        2
                    }
                }
            }
        };
        match out {
            0 => mine += 1,
            1 => {
                if tx_gone_before {
                    c.fail(format!("{m}: Empty/Timeout although every Sender had been dropped before the call"));
                }
                // polling: let the others run (a coroutine must give its worker back, or a
                // sender coroutine may never get one)
                if co != 0 {
                    may::coroutine::yield_now();
                } else {
                    c.yield_now();
                }
            }
            _ => {
                disconnected(&c, plan.single, mine);
                disc_seen += 1;
                if !plan.again || disc_seen >= 3 {
                    break;
                }
            }
        }
    }
    drop(guard);
}

/// MAYV_SPUR: unparks the receiver's OS thread at seeded moments (spurious returns of its thread::park())
fn noise(n: u64, seed: u64) {
    let c = mayv::ctx();
    let mut r = seed | 1;
    for _ in 0..n {
        for _ in 0..xs(&mut r) % 12 {
            c.point();
        }
        if xs(&mut r) % 4 == 0 {
            c.sleep_ns(200_000);
        }
        if RXDONE.load(SeqCst) != 0 {
            break;
        }
        let t = RXTHREAD.lock().unwrap().clone();
        if let Some(t) = t {
            t.unpark();
        }
    }
}

fn main() {
    let mut cfg = Config::from_env();
    if envs("MAYV_SCHED", "narrow") == "mpmc" {
        // only the channel's own accesses are schedule points: every Semphore call is atomic up to its park
        cfg.sched_files = vec!["src/sync/mpmc.rs"];
    } else if envs("MAYV_SCHED", "narrow") == "narrow" {
        cfg.sched_files = vec![
            "src/sync/mpsc.rs",
            "src/sync/spsc.rs",
            "src/sync/mpmc.rs",
            "src/sync/semphore.rs",
            "src/sync/blocking.rs",
            "src/park.rs",
            "src/cancel.rs",
        ];
    }
    let kind = envs("MAYV_KIND", "mpsc");
    let nsend = if kind == "spsc" { 1 } else { envn("MAYV_SENDERS", 2).clamp(1, 3) };
    let nrecv = if kind == "mpmc" { envn("MAYV_RECEIVERS", 2).clamp(1, 3) } else { 1 };
    let msgs = envn("MAYV_MSGS", 3).clamp(0, 80);
    let ctx_sel = envs("MAYV_CTX", "mix");
    let mode = envs("MAYV_RECV", "recv");
    let clones = envn("MAYV_CLONE", 0) != 0;
    let keep = envn("MAYV_KEEP", 0) != 0 && kind != "spsc";
    let rxcancel = envn("MAYV_RXCANCEL", 0);
    let rxdrop = if rxcancel != 0 { 0 } else { envn("MAYV_RXDROP", 0) };
    let again = envn("MAYV_AGAIN", 0) != 0;
    let spur = if kind == "spsc" { envn("MAYV_SPUR", 0) } else { 0 };
    run(cfg, move |ctx| {
        let (tx0, rx0) = match kind.as_str() {
            "spsc" => {
                let (t, r) = may::sync::spsc::channel::<P>();
                (Tx::Spsc(t), Rx::Spsc(r))
            }
            "mpmc" => {
                let (t, r) = may::sync::mpmc::channel::<P>();
                (Tx::Mpmc(t), Rx::Mpmc(r))
            }
            _ => {
                let (t, r) = may::sync::mpsc::channel::<P>();
                (Tx::Mpsc(t), Rx::Mpsc(r))
            }
        };
        ctx.log("chan.new", 0, 0, None);
        let pick = |c: &Ctx| match ctx_sel.as_str() {
            "co" => true,
            "th" => false,
            _ => c.rand() % 2 == 0,
        };
        let mut joins: Vec<Box<dyn FnOnce()>> = vec![];
        let mut start = |name: String, in_co: bool, body: Box<dyn FnOnce() + Send + 'static>| {
            if in_co {
                let h = unsafe { may::coroutine::Builder::new().name(name).spawn(body).unwrap() };
                joins.push(Box::new(move || {
                    if h.join().is_err() {
                        mayv::ctx().fail("actor coroutine panicked".into());
                    }
                }));
            } else {
                let h = ctx.spawn(&name, body);
                joins.push(Box::new(move || mayv::ctx().join(h)));
            }
        };
        // receivers first (mpmc: clones of the Receiver made by main)
        let mut rxs = vec![];
        for k in 1..nrecv {
            if let Rx::Mpmc(r) = &rx0 {
                RX_UPPER.fetch_add(1, SeqCst);
                RX_LOWER.fetch_add(1, SeqCst);
                ctx.log("clonerx.call", 0, k, None);
                let r2 = r.clone();
                ctx.log("clonerx.ret", 0, k, None);
                rxs.push(Rx::Mpmc(r2));
            }
        }
        rxs.insert(0, rx0);
        // sender handles: 0 is the original, the others are clones made by main
        let mut txs = vec![];
        for _ in 1..nsend {
            txs.push(clone_tx(ctx, 0, &tx0));
        }
        let kept = if keep { Some(clone_tx(ctx, 0, &tx0)) } else { None };
        txs.insert(0, (0, tx0));
        let mut target = None;
        for (k, rx) in rxs.into_iter().enumerate() {
            let plan = RxPlan { mode: mode.clone(), drop_after: rxdrop, again, single: nrecv == 1 };
            let seed = ctx.rand();
            let in_co = pick(ctx);
            if rxcancel != 0 && k == 0 {
                // the coroutine that will be cancelled; it owns its Receiver
                let h = unsafe { may::coroutine::Builder::new().name("r0".into()).spawn(move || receiver(0, rx, plan, seed)).unwrap() };
                target = Some(h);
                continue;
            }
            start(format!("r{k}"), in_co, Box::new(move || receiver(k as u64, rx, plan, seed)));
        }
        if spur > 0 {
            let seed = ctx.rand();
            start("noise".into(), false, Box::new(move || noise(spur, seed)));
        }
        for (h, tx) in txs {
            let seed = ctx.rand();
            let in_co = pick(ctx);
            start(format!("s{h}"), in_co, Box::new(move || sender(h, tx, msgs, clones, seed)));
        }
        if let Some(target) = target {
            // the canceller: a seeded virtual time and a seeded number of schedule points, then cancel()
            if rxcancel == 3 {
                // only once the target is certainly suspended in its blocking call: everything sent was received
                // and virtual time has passed since (it passes only when nobody is runnable)
                let mut rounds = 0;
                while NRECV.load(SeqCst) < nsend * msgs && rounds < 200 {
                    rounds += 1;
                    ctx.sleep_ns(1_000_000);
                }
                ctx.sleep_ns(2_000_000);
            } else {
                let when = ctx.rand() % 6;
                if when > 0 {
                    ctx.sleep_ns(when * 600_000);
                }
            }
            for _ in 0..ctx.rand() % 60 {
                ctx.point();
            }
            unsafe { target.coroutine().cancel() };
            if rxcancel == 2 || (rxcancel == 3 && kind == "spsc") {
                RELEASE.store(1, SeqCst);
            }
            match target.join() {
                // mode 2 releases the senders right after cancel(): a receiver that was not blocked may see
                // Disconnected without passing a cancellation point and finish normally
                Ok(()) => {
                    if rxcancel != 2 {
                        ctx.fail("the cancelled receiver coroutine finished normally although every Sender was alive".into())
                    }
                }
                Err(e) => {
                    // the Cancel error is not a string payload; an ordinary panic is
                    if let Some(m) = e.downcast_ref::<&str>().map(|s| s.to_string()).or_else(|| e.downcast_ref::<String>().cloned()) {
                        ctx.fail(format!("the cancelled receiver ended with a panic: {m}"));
                    }
                }
            }
            if RXDONE.load(SeqCst) == 0 {
                ctx.fail("the cancelled receiver did not drop its Receiver".into());
            }
            RELEASE.store(1, SeqCst);
        }
        if let Some((h, t)) = kept {
            // the last Sender may be this one: dropped by main at a seeded moment
            let spins = ctx.rand() % 60;
            for _ in 0..spins {
                ctx.point();
            }
            if ctx.rand() % 3 == 0 {
                ctx.sleep_ns(2_000_000);
            }
            drop_tx(ctx, h, t);
        }
        for j in joins {
            j();
        }
        ctx.record(false);
        // every endpoint is gone: the channel has been freed
        let mut created = 0;
        for h in 0..MAXH {
            for i in 0..MAXI {
                let cr = CREATED[h][i].load(SeqCst);
                if cr == 0 {
                    continue;
                }
                created += 1;
                let (rc, rt, ok, dr, raw) = (
                    RECEIVED[h][i].load(SeqCst),
                    RETURNED[h][i].load(SeqCst),
                    OKSENT[h][i].load(SeqCst),
                    DROPS[h][i].load(SeqCst),
                    RAWDROPS[h][i].load(SeqCst),
                );
                if cr != 1 {
                    ctx.fail(format!("scenario bug: ({h},{i}) created {cr} times"));
                }
                if dr != 1 {
                    ctx.fail(format!("({h},{i}) dropped {dr} times (received {rc}, returned {rt}, dropped inside the channel {raw})"));
                }
                if ok == 1 && rc + raw != 1 {
                    ctx.fail(format!("({h},{i}) was sent Ok but received {rc} times and dropped by the channel {raw} times"));
                }
                if ok == 0 && (rt != 1 || rc != 0) {
                    ctx.fail(format!("({h},{i}) was not sent Ok but returned {rt} times, received {rc} times"));
                }
            }
        }
        let want_disc = if rxcancel != 0 { nrecv - 1 } else { nrecv };
        if rxdrop == 0 && NDISC.load(SeqCst) < want_disc {
            ctx.fail(format!("only {} of {want_disc} receivers saw Disconnected", NDISC.load(SeqCst)));
        }
        println!(
            "kind={kind} created={created} ok={} received={} disconnected={} vtime={}",
            NOK.load(SeqCst),
            NRECV.load(SeqCst),
            NDISC.load(SeqCst),
            ctx.now()
        );
    })
}

#[allow(dead_code)]
fn unused(_: Arc<()>) {}
