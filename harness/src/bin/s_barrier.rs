//! C11 scenario (Barrier / WaitGroup): the real may::sync::Barrier and WaitGroup (clients of Condvar + Mutex) under
//! the baton scheduler.
//!
//! MAYV_KIND=barrier (default): Barrier(n), n = MAYV_N (2..4) parties, threads and coroutines mixed (MAYV_CTX), each
//!   passes MAYV_GENS (1..3) generations with random gaps (sleeps and schedule points) in between.
//!   Oracles: exactly one leader per generation; nobody passes generation g before all n parties have announced
//!   their arrival at g (a counter bumped right before `wait()`); every party passes every generation (else HANG);
//!   a party never passes generation g + 1 before it passed g (program order) and the number of parties that passed
//!   g is n at the end.
//!   MAYV_PARTIES=p (default n; a multiple of n, with MAYV_GENS=1: with several calls per party the last generation
//!   could be left with calls of one party only, a deadlock of the scenario): MORE parties than n share the barrier, so the set of
//!   parties of a generation differs from generation to generation (re-use by anybody).  A party does not know which
//!   generation it joins, so the oracles count: the k-th return from wait() overall needs n * ceil(k / n) announced
//!   arrivals (nobody passes before its generation is complete), the number of leaders never exceeds the number of
//!   complete generations, and at the end every call has returned and there was one leader per n arrivals.
//! MAYV_KIND=wg: a WaitGroup with MAYV_N worker handles (clones made by main) + main's own; every worker either drops
//!   its handle after a random delay, or clones once more and drops both at different times, or calls wait();
//!   main finally waits (or drops, MAYV_MAINWAIT=0).
//!   Oracles: a wait never returns while a handle exists whose release (drop or wait) has not even begun (`begun` is
//!   bumped right before every drop / wait call, `total` right before every clone); every wait returns once all
//!   handles are released (else HANG).
//!
//! Trace records for the product acceptor (Sync/BarrierAccept.v: BarrierModel / WaitGroupModel over CondvarModel): cv.new;
//! actor(k, kind) first thing in every actor; the API records bar.new(n, gens), bar.arrive(g, who) right before
//! Barrier::wait, bar.leave(g, leader) right after it, wg.new, wg.clone / wg.drop / wg.wait (who) right before the call,
//! wg.done(who) right after WaitGroup::wait returned, wg.give(k) when the creator has made the clone it moves to worker k.
//! Lock / unlock / wait / notify_all are recognised from the sites of mutex.rs, poison.rs and condvar.rs.
use mayv::*;
use std::alloc::{GlobalAlloc, Layout, System};
use std::sync::atomic::{AtomicU64, Ordering::SeqCst};
use std::sync::Arc;

struct Leak;
unsafe impl GlobalAlloc for Leak {
    unsafe fn alloc(&self, l: Layout) -> *mut u8 {
        System.alloc(l)
    }
    unsafe fn dealloc(&self, _p: *mut u8, _l: Layout) {}
}
#[global_allocator]
static GLOBAL: Leak = Leak;

fn envs(k: &str, d: &str) -> String {
    std::env::var(k).unwrap_or_else(|_| d.into())
}
fn envn(k: &str, d: u64) -> u64 {
    std::env::var(k).ok().and_then(|s| s.parse().ok()).unwrap_or(d)
}

const GAPS: [u64; 8] = [0, 0, 0, 1_000_000, 1_000_000, 2_000_000, 3_000_000, 500_000];

struct Rng(u64);
impl Rng {
    fn next(&mut self) -> u64 {
        self.0 ^= self.0 >> 12;
        self.0 ^= self.0 << 25;
        self.0 ^= self.0 >> 27;
        self.0.wrapping_mul(0x2545F4914F6CDD1D) >> 8
    }
}

fn pause(c: &Ctx, r: &mut Rng) {
    match r.next() % 3 {
        0 => {
            let g = GAPS[(r.next() % GAPS.len() as u64) as usize];
            if g > 0 {
                c.sleep_ns(g);
            }
        }
        1 => {
            for _ in 0..(r.next() % 5) {
                c.point();
            }
        }
        _ => {}
    }
}

enum H {
    T(JoinH),
    C(may::coroutine::JoinHandle<()>),
}

fn spawn_actor(ctx: &Ctx, in_co: bool, name: String, f: impl FnOnce() + Send + 'static) -> H {
    if in_co {
        H::C(unsafe { may::coroutine::Builder::new().name(name).spawn(f).unwrap() })
    } else {
        H::T(ctx.spawn(&name, f))
    }
}

// ---------------------------------------------------------------------------------------------- barrier

struct Bar {
    b: may::sync::Barrier,
    n: u64,
    free: bool,                 // more parties than n: generations are anonymous
    arrived_total: AtomicU64,
    passed_total: AtomicU64,
    leaders_total: AtomicU64,
    arrived: Vec<AtomicU64>,
    passed: Vec<AtomicU64>,
    leaders: Vec<AtomicU64>,
}

fn party(sh: Arc<Bar>, who: usize, gens: u64, seed: u64) {
    let c = mayv::ctx();
    let is_co = may::coroutine::is_coroutine();
    c.log("actor", who as u64, if is_co { 2 } else { 1 }, None);
    let mut r = Rng(seed | 1);
    if sh.free {
        for _ in 0..gens {
            pause(&c, &mut r);
            sh.arrived_total.fetch_add(1, SeqCst);
            c.log("bar.arrive", 255, who as u64, None);
            let res = sh.b.wait();
            c.log("bar.leave", 255, res.is_leader() as u64, None);
            let p = sh.passed_total.fetch_add(1, SeqCst) + 1;
            let a = sh.arrived_total.load(SeqCst);
            if p > (a / sh.n) * sh.n {
                c.fail(format!("party {who}: return number {p} from Barrier::wait when only {a} arrivals were announced (n = {})", sh.n));
            }
            if res.is_leader() {
                let l = sh.leaders_total.fetch_add(1, SeqCst) + 1;
                if l > a / sh.n {
                    c.fail(format!("party {who}: leader number {l} with only {a} arrivals announced (n = {})", sh.n));
                }
            }
        }
        return;
    }
    for g in 0..gens as usize {
        pause(&c, &mut r);
        if g > 0 && sh.passed[g - 1].load(SeqCst) == 0 {
            c.fail(format!("party {who} arrives at generation {g} but nobody has passed generation {}", g - 1));
        }
        sh.arrived[g].fetch_add(1, SeqCst);
        c.log("bar.arrive", g as u64, who as u64, None);
        let res = sh.b.wait();
        c.log("bar.leave", g as u64, res.is_leader() as u64, None);
        let a = sh.arrived[g].load(SeqCst);
        if a != sh.n {
            c.fail(format!("party {who} passed generation {g} when only {a} of {} parties had arrived", sh.n));
        }
        if g + 1 < sh.arrived.len() && sh.passed[g + 1].load(SeqCst) > 0 {
            c.fail(format!("generation {} was passed before party {who} passed generation {g}", g + 1));
        }
        if res.is_leader() {
            let l = sh.leaders[g].fetch_add(1, SeqCst);
            if l != 0 {
                c.fail(format!("generation {g} has a second leader (party {who})"));
            }
        }
        sh.passed[g].fetch_add(1, SeqCst);
    }
}

// ---------------------------------------------------------------------------------------------- wait group

struct Wg {
    total: AtomicU64,  // handles ever created (bumped before the clone)
    begun: AtomicU64,  // handles whose drop / wait has begun (bumped right before the call)
    waits_done: AtomicU64,
}

fn wg_wait(sh: &Wg, c: &Ctx, who: usize, wg: may::sync::WaitGroup) {
    sh.begun.fetch_add(1, SeqCst);
    c.log("wg.wait", who as u64, 0, None);
    wg.wait();
    c.log("wg.done", who as u64, 0, None);
    let (t, b) = (sh.total.load(SeqCst), sh.begun.load(SeqCst));
    if b < t {
        c.fail(format!("WaitGroup::wait of actor {who} returned while {} of {t} handles are still alive and untouched", t - b));
    }
    sh.waits_done.fetch_add(1, SeqCst);
}
fn wg_drop(sh: &Wg, c: &Ctx, who: usize, wg: may::sync::WaitGroup) {
    sh.begun.fetch_add(1, SeqCst);
    c.log("wg.drop", who as u64, 0, None);
    drop(wg);
}

fn worker(sh: Arc<Wg>, who: usize, wg: may::sync::WaitGroup, seed: u64) {
    let c = mayv::ctx();
    let is_co = may::coroutine::is_coroutine();
    c.log("actor", who as u64, if is_co { 2 } else { 1 }, None);
    let mut r = Rng(seed | 1);
    pause(&c, &mut r);
    match r.next() % 4 {
        0 => wg_wait(&sh, &c, who, wg),
        1 => {
            sh.total.fetch_add(1, SeqCst);
            c.log("wg.clone", who as u64, 0, None);
            let w2 = wg.clone();
            pause(&c, &mut r);
            wg_drop(&sh, &c, who, wg);
            pause(&c, &mut r);
            if r.next() % 2 == 0 {
                wg_drop(&sh, &c, who, w2);
            } else {
                wg_wait(&sh, &c, who, w2);
            }
        }
        _ => {
            pause(&c, &mut r);
            wg_drop(&sh, &c, who, wg);
        }
    }
}

fn main() {
    let mut cfg = Config::from_env();
    if envs("MAYV_SCHED", "narrow") == "narrow" {
        cfg.sched_files = vec![
            "src/sync/condvar.rs",
            "src/sync/mutex.rs",
            "src/sync/blocking.rs",
            "src/park.rs",
            "src/cancel.rs",
            "src/sync/poison.rs",
        ];
    }
    let kind = envs("MAYV_KIND", "barrier");
    let n = envn("MAYV_N", 3);
    let gens = envn("MAYV_GENS", 2);
    let ctx_sel = envs("MAYV_CTX", "mix");
    let main_wait = envn("MAYV_MAINWAIT", 1) == 1;
    run(cfg, move |ctx| {
        ctx.log("cv.new", 0, 0, None);
        ctx.log("actor", 99, 1, None);
        let pick_co = |ctx: &Ctx| match ctx_sel.as_str() {
            "co" => true,
            "th" => false,
            _ => ctx.rand() % 2 == 0,
        };
        let mut hs = vec![];
        if kind == "wg" {
            let sh = Arc::new(Wg { total: AtomicU64::new(1), begun: AtomicU64::new(0), waits_done: AtomicU64::new(0) });
            ctx.log("wg.new", 0, 0, None);
            let wg = may::sync::WaitGroup::new();
            for k in 0..n as usize {
                sh.total.fetch_add(1, SeqCst);
                ctx.log("wg.clone", 99, 0, None);
                let w = wg.clone();
                ctx.log("wg.give", k as u64, 0, None);
                let (sh2, seed, in_co) = (sh.clone(), ctx.rand(), pick_co(ctx));
                hs.push(spawn_actor(ctx, in_co, format!("w{k}"), move || worker(sh2, k, w, seed)));
            }
            let mut r = Rng(ctx.rand() | 1);
            pause(ctx, &mut r);
            if main_wait {
                wg_wait(&sh, ctx, 99, wg);
            } else {
                wg_drop(&sh, ctx, 99, wg);
            }
            for h in hs {
                match h {
                    H::T(j) => ctx.join(j),
                    H::C(j) => {
                        if j.join().is_err() {
                            ctx.fail("a worker coroutine panicked".into());
                        }
                    }
                }
            }
            ctx.record(false);
            let (t, b) = (sh.total.load(SeqCst), sh.begun.load(SeqCst));
            if t != b {
                ctx.fail(format!("{t} handles created, {b} released"));
            }
            println!("kind=wg handles={t} waits={} vtime={}", sh.waits_done.load(SeqCst), ctx.now());
        } else {
            if envn("MAYV_ZERO", 0) == 1 {
                // Barrier::new(0) behaves like Barrier::new(1) (as std's does): every arrival is a generation of its own,
                // its caller the leader, and nobody waits.  Oracle-only (the model has n >= 1); a blocked wait is a hang.
                ctx.record(false);
                let b = Arc::new(may::sync::Barrier::new(0));
                let mut hs2 = vec![];
                for k in 0..2usize {
                    let (b2, in_co) = (b.clone(), k == 0);
                    hs2.push(spawn_actor(ctx, in_co, format!("z{k}"), move || {
                        for g in 0..3 {
                            if !b2.wait().is_leader() {
                                mayv::ctx().fail(format!("Barrier::new(0): arrival {g} of party {k} was released without being the leader of its generation"));
                            }
                        }
                    }));
                }
                for h in hs2 {
                    match h {
                        H::T(j) => ctx.join(j),
                        H::C(j) => {
                            if j.join().is_err() {
                                ctx.fail("a party coroutine panicked".into());
                            }
                        }
                    }
                }
                println!("kind=barrier n=0 vtime={}", ctx.now());
                return;
            }
            let mk = |k: u64| (0..k).map(|_| AtomicU64::new(0)).collect::<Vec<_>>();
            let parties = envn("MAYV_PARTIES", n);
            let free = parties != n;
            assert!(!free || (parties % n == 0 && gens == 1), "MAYV_PARTIES must be a multiple of MAYV_N and MAYV_GENS = 1");
            let sh = Arc::new(Bar {
                b: may::sync::Barrier::new(n as usize),
                n,
                free,
                arrived_total: AtomicU64::new(0),
                passed_total: AtomicU64::new(0),
                leaders_total: AtomicU64::new(0),
                arrived: mk(gens),
                passed: mk(gens),
                leaders: mk(gens),
            });
            ctx.log("bar.new", n, gens, None);
            for k in 0..parties as usize {
                let (sh2, seed, in_co) = (sh.clone(), ctx.rand(), pick_co(ctx));
                hs.push(spawn_actor(ctx, in_co, format!("p{k}"), move || party(sh2, k, gens, seed)));
            }
            for h in hs {
                match h {
                    H::T(j) => ctx.join(j),
                    H::C(j) => {
                        if j.join().is_err() {
                            ctx.fail("a party coroutine panicked".into());
                        }
                    }
                }
            }
            ctx.record(false);
            if free {
                let (a, p, l) = (sh.arrived_total.load(SeqCst), sh.passed_total.load(SeqCst), sh.leaders_total.load(SeqCst));
                if a != parties * gens || p != a || l != a / n {
                    ctx.fail(format!("{a} arrivals, {p} returns, {l} leaders (n = {n})"));
                }
            }
            for g in 0..(if free { 0 } else { gens as usize }) {
                let (l, p) = (sh.leaders[g].load(SeqCst), sh.passed[g].load(SeqCst));
                if l != 1 || p != n {
                    ctx.fail(format!("generation {g}: {l} leader(s), {p} of {n} parties passed"));
                }
            }
            println!("kind=barrier n={n} gens={gens} vtime={}", ctx.now());
        }
    })
}
