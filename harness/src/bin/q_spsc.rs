//! C03 scenario (spsc): the real may_queue::spsc::Queue, one producer thread, one consumer thread
//! mixing pop / bulk_pop / len / is_empty / peek (MAYV_OPS = pop | bulk | mix), after a sequential
//! push/pop phase of MAYV_OFF values by main (so that blocks get consumed and `alloc_node` has
//! something to recycle; MAYV_BATCH values are pushed before they are taken out again, so that several
//! blocks are chained and later recycled without refreshing `last_head`) and MAYV_PRE values pushed by main and left in the queue (backlog: the
//! consumer's head block stays behind, fresh blocks must be allocated).
//! Values are the push sequence numbers 1,2,3.. wrapped in a payload with a drop counter.
//! Oracles on the implementation: the k-th value handed out is k (exactly once, in push order,
//! nothing invented), bulk_pop stays within a block, "empty" only if every push that returned before
//! the call had been consumed, len between (pushes returned before the call - consumed) and
//! (pushes started before the return - consumed), drop releases exactly what was left.
use mayv::*;
use std::sync::atomic::{AtomicUsize, Ordering};
use std::sync::Arc;

fn envn(k: &str, d: usize) -> usize {
    std::env::var(k).ok().and_then(|s| s.parse().ok()).unwrap_or(d)
}

static DROPS: AtomicUsize = AtomicUsize::new(0);
static GOT: AtomicUsize = AtomicUsize::new(0);
static STARTED: AtomicUsize = AtomicUsize::new(0); // pushes called
static DONE: AtomicUsize = AtomicUsize::new(0); // pushes returned
static TAKEN: AtomicUsize = AtomicUsize::new(0); // values the consumer has been handed (published after each call)
struct Payload(usize);
impl Drop for Payload {
    fn drop(&mut self) {
        DROPS.fetch_add(1, Ordering::Relaxed);
    }
}

fn push(c: &Ctx, q: &may_queue::spsc::Queue<Payload>) {
    let v = STARTED.fetch_add(1, Ordering::Relaxed) + 1;
    c.log("push.call", 0, v as u64, None);
    q.push(Payload(v));
    c.log("push.ret", 0, 0, None);
    DONE.fetch_add(1, Ordering::Relaxed);
}

/// len() called by the pushing thread: between (pushed - taken at the return, a consumer call in flight
/// may have taken up to a block more) and (pushed - taken at the call)
fn producer_len(c: &Ctx, q: &may_queue::spsc::Queue<Payload>) {
    let pushed = DONE.load(Ordering::Relaxed);
    let taken_before = TAKEN.load(Ordering::Relaxed);
    c.log("plen.call", 0, 0, None);
    let l = q.len();
    c.log("plen.ret", 0, l as u64, None);
    let taken_after = TAKEN.load(Ordering::Relaxed);
    if l + taken_before > pushed || l + taken_after + may_queue::spsc::BLOCK_SIZE < pushed {
        c.fail(format!("producer len {l} outside [{}, {}]", pushed.saturating_sub(taken_after + 32), pushed - taken_before));
    }
}

/// one consumer operation; `got` = number of values handed out so far (they were 1..=got)
fn consume(c: &Ctx, q: &may_queue::spsc::Queue<Payload>, mode: u64, got: &mut usize) {
    let done_before = DONE.load(Ordering::Relaxed);
    match mode {
        0 => {
            c.log("pop.call", 0, 0, None);
            match q.pop() {
                Some(p) => {
                    c.log("pop.ret", 1, p.0 as u64, None);
                    if p.0 != *got + 1 {
                        c.fail(format!("pop returned {} but {} is the next value in push order", p.0, *got + 1));
                    }
                    *got += 1;
                }
                None => {
                    c.log("pop.ret", 0, 0, None);
                    if done_before > *got {
                        c.fail(format!("pop returned None although {} pushed values were not yet consumed", done_before - *got));
                    }
                    c.yield_now();
                }
            }
        }
        1 => {
            c.log("bulk.call", 0, 0, None);
            let v = q.bulk_pop();
            for (i, p) in v.iter().enumerate() {
                c.log("bulk.item", i as u64, p.0 as u64, None);
            }
            c.log("bulk.ret", v.len() as u64, 0, None);
            if v.is_empty() {
                if done_before > *got {
                    c.fail(format!("bulk_pop returned nothing although {} pushed values were not yet consumed", done_before - *got));
                }
                c.yield_now();
            }
            if v.len() > may_queue::spsc::BLOCK_SIZE || (!v.is_empty() && *got / 32 != (*got + v.len() - 1) / 32) {
                c.fail(format!("bulk_pop returned {} values starting at index {}: more than the rest of the block", v.len(), *got));
            }
            for p in v {
                if p.0 != *got + 1 {
                    c.fail(format!("bulk_pop returned {} but {} is the next value in push order", p.0, *got + 1));
                }
                *got += 1;
            }
        }
        2 => {
            c.log("len.call", 0, 0, None);
            let l = q.len();
            c.log("len.ret", 0, l as u64, None);
            let started_after = STARTED.load(Ordering::Relaxed);
            if l + *got < done_before || l + *got > started_after {
                c.fail(format!("len {l} outside [{}, {}]", done_before.saturating_sub(*got), started_after - *got));
            }
        }
        3 => {
            c.log("empty.call", 0, 0, None);
            let e = q.is_empty();
            c.log("empty.ret", 0, e as u64, None);
            let started_after = STARTED.load(Ordering::Relaxed);
            if e && done_before > *got {
                c.fail(format!("is_empty although {} pushed values were not yet consumed", done_before - *got));
            }
            if !e && started_after == *got {
                c.fail("not is_empty although nothing was pushed beyond what was consumed".to_string());
            }
        }
        _ => {
            c.log("peek.call", 0, 0, None);
            let r = unsafe { q.peek() }.map(|p| p.0);
            c.log("peek.ret", r.is_some() as u64, r.unwrap_or(0) as u64, None);
            match r {
                Some(v) => {
                    if v != *got + 1 {
                        c.fail(format!("peek saw {v} but {} is the next value in push order", *got + 1));
                    }
                }
                None => {
                    if done_before > *got {
                        c.fail(format!("peek saw nothing although {} pushed values were not yet consumed", done_before - *got));
                    }
                }
            }
        }
    }
}

fn main() {
    let mut cfg = Config::from_env();
    cfg.sched_files = vec!["may_queue/src/spsc.rs", "may_queue/src/atomic.rs"];
    let nv = envn("MAYV_N", 70);
    let off = envn("MAYV_OFF", 0);
    let pre = envn("MAYV_PRE", 0);
    let batch = envn("MAYV_BATCH", 1); // the offset phase pushes this many values, then takes them out again
    let batch_bulk = envn("MAYV_BATCH_BULK", 0) != 0; // ... with bulk_pop
    let ops = std::env::var("MAYV_OPS").unwrap_or_else(|_| "mix".to_string());
    let plen = envn("MAYV_PLEN", 0); // the producer calls len() before one push in MAYV_PLEN
    let leave = envn("MAYV_LEAVE", 0); // values left in the queue when it is dropped
    run(cfg, move |ctx| {
        let q = Arc::new(may_queue::spsc::Queue::<Payload>::new());
        // starting offset: sequential push/pop by main (part of the trace)
        let mut got0 = 0usize;
        let mut sent = 0usize;
        while sent < off {
            let n = batch.max(1).min(off - sent);
            for _ in 0..n {
                push(ctx, &q);
            }
            sent += n;
            let mut guard = 0;
            while got0 < sent && guard < 10 * n + 10 {
                guard += 1;
                let mode = if batch_bulk { 1 } else { 0 };
                consume(ctx, &q, mode, &mut got0);
            }
        }
        TAKEN.store(got0, Ordering::Relaxed);
        if got0 != off {
            ctx.fail(format!("offset phase: {got0} of {off} values came back"));
        }
        // backlog
        for _ in 0..pre {
            push(ctx, &q);
        }
        let total = off + pre + nv;
        let want = total - leave.min(pre + nv);
        let qp = q.clone();
        let prod = ctx.spawn("prod", move || {
            let c = mayv::ctx();
            for _ in 0..nv {
                if plen > 0 && c.rand() % plen as u64 == 0 {
                    producer_len(&c, &qp);
                }
                push(&c, &qp);
            }
        });
        let qc = q.clone();
        let cons = ctx.spawn("cons", move || {
            let c = mayv::ctx();
            let mut got = got0;
            let mut tries = 0usize;
            while got < want && tries < 200_000 {
                tries += 1;
                let mode = match ops.as_str() {
                    "pop" => 0,
                    "bulk" => 1,
                    _ => match c.rand() % 8 {
                        0 | 1 | 2 => 0,
                        3 | 4 => 1,
                        5 => 2,
                        6 => 3,
                        _ => 4,
                    },
                };
                // never take more than `want`: a bulk_pop could, so finish with single pops
                let mode = if mode == 1 && want - got < 32 && leave > 0 { 0 } else { mode };
                consume(&c, &qc, mode, &mut got);
                TAKEN.store(got, Ordering::Relaxed);
            }
            if got != want {
                c.fail(format!("consumed {got} of {want} values"));
            }
            GOT.store(got, Ordering::Relaxed);
        });
        ctx.join(prod);
        ctx.join(cons);
        ctx.record(false);
        let before = DROPS.load(Ordering::Relaxed);
        drop(q);
        let after = DROPS.load(Ordering::Relaxed);
        let left = total - GOT.load(Ordering::Relaxed);
        if after - before != left {
            ctx.fail(format!("queue drop released {} payloads, {} were left", after - before, left));
        }
        if after != total {
            ctx.fail(format!("{} payloads dropped in total, {} were created", after, total));
        }
    })
}
