//! C15 differential driver: random operation sequences (with / store / yield+migrate / end / spawn on a
//! reused pooled stack, thread-context accesses) on the REAL `coroutine_local!` under the baton scheduler.
//! Prints `CASE cap ids ops.. => outputs..` (ids = 1: which pooled stack a spawn got is compared too); the check replays the sequence through the Gallina interpreter
//! `MayV.Rt.LocalDiff.local_run` (which drives LocalModel.step) by vm_compute and compares.
//!
//! ops (see coq/Rt/LocalDiff.v): 1 q | 2 q t k | 3 q t k v | 4 q t | 5 t k | 6 t k v | 7 q t
//! `t` of a coroutine operation is the worker thread the coroutine was running on when it did it (between its
//! operations it is parked in its command channel, or yields explicitly (op 7), and is resumed by whichever
//! worker picks it up, so migration is whatever the schedule does).
//!
//! Oracles on the implementation (independent of the model):
//!  * a value seen through `with` was created by the coroutine (incarnation) / thread that looks at it;
//!  * it is the value this owner stored last (or the initialiser's), also after yields and migrations;
//!  * the initialiser ran exactly once per (owner, key) that was accessed, never otherwise;
//!  * when a coroutine has ended every value it created has been dropped exactly once (and none before the end);
//!  * a new coroutine on a reused stack starts with no values (its first access runs the initialiser).
use mayv::*;
use std::cell::Cell;
use std::sync::atomic::{AtomicUsize, Ordering::SeqCst};
use std::sync::{Arc, Mutex};

fn envn(k: &str, d: u64) -> u64 {
    std::env::var(k).ok().and_then(|s| s.parse().ok()).unwrap_or(d)
}

const NK: usize = 4; // keys 0..2 are used by the operations, key 3 is touched by every coroutine first
const MAXO: usize = 96; // owners: coroutine incarnations 0.., threads MAXO-2, MAXO-1
#[allow(clippy::declare_interior_mutable_const)]
const Z: AtomicUsize = AtomicUsize::new(0);
#[allow(clippy::declare_interior_mutable_const)]
const ZR: [AtomicUsize; NK] = [Z; NK];
static INITS: [[AtomicUsize; NK]; MAXO] = [ZR; MAXO];
static DROPS: [[AtomicUsize; NK]; MAXO] = [ZR; MAXO];
/// the owner on whose behalf the next access is made (operations are serialised by the driver)
static CUR_OWNER: AtomicUsize = AtomicUsize::new(0);

struct Val {
    owner: usize,
    key: usize,
    cell: Cell<i64>,
}
impl Val {
    fn new(key: usize) -> Val {
        let owner = CUR_OWNER.load(SeqCst);
        INITS[owner][key].fetch_add(1, SeqCst);
        Val { owner, key, cell: Cell::new(100 * (key as i64 + 1)) }
    }
}
impl Drop for Val {
    fn drop(&mut self) {
        DROPS[self.owner][self.key].fetch_add(1, SeqCst);
    }
}
may::coroutine_local!(static K0: Val = Val::new(0));
may::coroutine_local!(static K1: Val = Val::new(1));
may::coroutine_local!(static K2: Val = Val::new(2));
may::coroutine_local!(static K3: Val = Val::new(3));

fn with_key<R>(k: usize, f: impl FnOnce(&Val) -> R) -> R {
    match k {
        0 => K0.with(f),
        1 => K1.with(f),
        2 => K2.with(f),
        _ => K3.with(f),
    }
}

/// one access on behalf of `owner`; returns (value seen before the store, initialiser ran)
fn access(owner: usize, k: usize, store: Option<i64>) -> (i64, i64) {
    CUR_OWNER.store(owner, SeqCst);
    let before = INITS[owner][k].load(SeqCst);
    let total_before: usize = (0..MAXO).map(|o| INITS[o][k].load(SeqCst)).sum();
    let (v, vo, vk) = with_key(k, |val| {
        let v = val.cell.get();
        if let Some(x) = store {
            val.cell.set(x);
        }
        (if store.is_some() { val.cell.get() } else { v }, val.owner, val.key)
    });
    let c = mayv::ctx();
    if vo != owner {
        c.fail(format!("owner {owner} sees through key {k} a value created by owner {vo}"));
    }
    if vk != k {
        c.fail(format!("key {k} gives the value of key {vk}"));
    }
    let ran = INITS[owner][k].load(SeqCst) - before;
    let total: usize = (0..MAXO).map(|o| INITS[o][k].load(SeqCst)).sum();
    if total - total_before != ran {
        c.fail(format!("access of owner {owner} to key {k} ran the initialiser for somebody else"));
    }
    (v, ran as i64)
}

/// a command for a coroutine / the helper thread and its answer
#[derive(Clone, Copy)]
struct Req {
    op: u64,
    k: usize,
    v: i64,
}
#[derive(Clone, Copy, Default)]
struct Rep {
    val: i64,
    ran: i64,
    t: u64,
    stack: usize,
}
struct Cmd {
    tx: may::sync::mpsc::Sender<Req>,
    rx: may::sync::mpsc::Receiver<Rep>,
}
const OP_WITH: u64 = 2;
const OP_SET: u64 = 3;
const OP_END: u64 = 4;
const OP_YIELD: u64 = 7;

/// body of a coroutine incarnation / helper thread: execute commands until END.  Between two commands a
/// coroutine is parked in the command channel (and is resumed by whichever worker picks it up).
fn serve(rx: may::sync::mpsc::Receiver<Req>, tx: may::sync::mpsc::Sender<Rep>, owner: usize, coroutine: bool) {
    let x = 0u8;
    let stack = &x as *const u8 as usize;
    while let Ok(Req { op, k, v }) = rx.recv() {
        if coroutine != may::coroutine::is_coroutine() {
            mayv::ctx().fail("is_coroutine() is wrong".into());
        }
        let mut rep = Rep { stack, ..Default::default() };
        match op {
            OP_WITH | OP_SET => {
                rep.t = mayv::tid() as u64;
                let (val, ran) = access(owner, k, if op == OP_SET { Some(v) } else { None });
                rep.val = val;
                rep.ran = ran;
            }
            OP_YIELD => {
                for _ in 0..v {
                    may::coroutine::yield_now();
                }
                rep.t = mayv::tid() as u64;
            }
            _ => {
                rep.t = mayv::tid() as u64;
                let _ = tx.send(rep);
                return;
            }
        }
        let _ = tx.send(rep);
    }
}

fn new_cmd(owner: usize, coroutine: bool) -> (Cmd, Box<dyn FnOnce() + Send>) {
    let (tx, rx) = may::sync::mpsc::channel::<Req>();
    let (tx2, rx2) = may::sync::mpsc::channel::<Rep>();
    (Cmd { tx, rx: rx2 }, Box::new(move || serve(rx, tx2, owner, coroutine)))
}

struct Slot {
    owner: usize,
    cm: Cmd,
    h: may::coroutine::JoinHandle<()>,
    shadow: [Option<i64>; NK],
}

fn main() {
    let cfg = Config::from_env();
    let n = envn("MAYV_N", 30);
    let cap = envn("MAYV_CAP", 1) as usize;
    let nslots = envn("MAYV_SLOTS", 3) as usize;
    run(cfg, move |ctx| {
        may::config().set_pool_capacity(cap);
        let ids = cap >= nslots;
        let ops: Arc<Mutex<Vec<i128>>> = Arc::new(Mutex::new(vec![cap as i128, ids as i128]));
        let outs: Arc<Mutex<Vec<i128>>> = Arc::new(Mutex::new(vec![]));
        let mut slots: Vec<Option<Slot>> = (0..nslots).map(|_| None).collect();
        let mut next_owner = 0usize;
        let mut stacks: Vec<usize> = vec![];
        let mut migrations = 0u64;
        let mut reuse = 0u64;
        let mut last_t: Vec<u64> = vec![u64::MAX; nslots];
        // the helper thread (owner MAXO-1, model thread 1001); main is owner MAXO-2, model thread 1000
        let (hcm, hbody) = new_cmd(MAXO - 1, false);
        let helper = ctx.spawn("helper", hbody);
        let mut tshadow: [[Option<i64>; NK]; 2] = [[None; NK]; 2];

        let send = |cm: &Cmd, op: u64, k: usize, v: i64| -> Rep {
            cm.tx.send(Req { op, k, v }).expect("command channel");
            cm.rx.recv().expect("reply channel")
        };
        let check_val = |who: String, k: usize, seen: i64, ran: i64, shadow: &mut Option<i64>, store: Option<i64>| {
            let c = mayv::ctx();
            match *shadow {
                None => {
                    if ran != 1 {
                        c.fail(format!("{who}: first access to key {k} did not run the initialiser"));
                    }
                    if store.is_none() && seen != 100 * (k as i64 + 1) {
                        c.fail(format!("{who}: first access to key {k} sees {seen}, not the initial value"));
                    }
                }
                Some(x) => {
                    if ran != 0 {
                        c.fail(format!("{who}: the initialiser of key {k} ran again"));
                    }
                    if store.is_none() && seen != x {
                        c.fail(format!("{who}: key {k} holds {seen} but this owner stored {x} last"));
                    }
                }
            }
            *shadow = Some(store.unwrap_or(seen));
        };

        let end_slot = |q: usize, slots: &mut Vec<Option<Slot>>, ops: &Arc<Mutex<Vec<i128>>>, outs: &Arc<Mutex<Vec<i128>>>| {
            let sl = slots[q].take().unwrap();
            let c = mayv::ctx();
            for k in 0..NK {
                if DROPS[sl.owner][k].load(SeqCst) != 0 {
                    c.fail(format!("a value of key {k} was dropped while its coroutine was still running"));
                }
            }
            let t = send(&sl.cm, OP_END, 0, 0).t;
            ops.lock().unwrap().extend([4, q as i128, t as i128]);
            if sl.h.join().is_err() {
                c.fail("coroutine ended with a panic".into());
            }
            // drop_coroutine runs after the join was triggered: wait until the values are gone
            let expect: usize = (0..NK).map(|k| INITS[sl.owner][k].load(SeqCst)).sum();
            let mut spins = 0;
            while (0..NK).map(|k| DROPS[sl.owner][k].load(SeqCst)).sum::<usize>() < expect && spins < 2000 {
                c.yield_now();
                spins += 1;
            }
            for k in 0..NK {
                let (i, d) = (INITS[sl.owner][k].load(SeqCst), DROPS[sl.owner][k].load(SeqCst));
                if i != d {
                    c.fail(format!("key {k}: {i} values created by the coroutine, {d} dropped after its end"));
                }
                if i != sl.shadow[k].is_some() as usize {
                    c.fail(format!("key {k}: initialiser ran {i} times for one coroutine"));
                }
                outs.lock().unwrap().push(d as i128);
            }
        };

        for step in 0..n + 1 {
            let r = ctx.rand();
            let q = (r % nslots as u64) as usize;
            let k = ((r >> 8) % 3) as usize;
            let v = 1 + ((r >> 16) % 50) as i64;
            let choice = if step == n { 99 } else { (r >> 24) % 16 };
            if std::env::var("MAYV_DBG").is_ok() {
                eprintln!("step {step} choice {choice} q {q} k {k}");
            }
            match choice {
                99 => {
                    for q in 0..nslots {
                        if slots[q].is_some() {
                            end_slot(q, &mut slots, &ops, &outs);
                        }
                    }
                }
                0..=8 if slots[q].is_none() => {
                    // spawn: the body touches key 3 first, so that the end of drop_coroutine is observable
                    let owner = next_owner;
                    next_owner += 1;
                    let (cm, body) = new_cmd(owner, true);
                    let h = unsafe { may::coroutine::spawn(body) };
                    ops.lock().unwrap().extend([1, q as i128]);
                    let mut sl = Slot { owner, cm, h, shadow: [None; NK] };
                    let rep = send(&sl.cm, OP_WITH, 3, 0);
                    let st = rep.stack;
                    let ix = match stacks.iter().position(|a| a.abs_diff(st) < 0x10000) {
                        Some(ix) => {
                            reuse += 1;
                            ix
                        }
                        None => {
                            stacks.push(st);
                            stacks.len() - 1
                        }
                    };
                    let t = rep.t;
                    last_t[q] = t;
                    let (seen, ran) = (rep.val, rep.ran);
                    check_val(format!("new coroutine {owner}"), 3, seen, ran, &mut sl.shadow[3], None);
                    ops.lock().unwrap().extend([2, q as i128, t as i128, 3]);
                    outs.lock().unwrap().extend([if ids { ix as i128 } else { 0 }, seen as i128, ran as i128]);
                    slots[q] = Some(sl);
                }
                0..=5 | 6..=8 => {
                    // with / store by the coroutine in slot q
                    let store = if choice >= 4 { Some(v) } else { None };
                    let sl = slots[q].as_mut().unwrap();
                    let rep = send(&sl.cm, if store.is_some() { OP_SET } else { OP_WITH }, k, v);
                    let t = rep.t;
                    if last_t[q] != t {
                        migrations += 1;
                    }
                    last_t[q] = t;
                    let (seen, ran) = (rep.val, rep.ran);
                    check_val(format!("coroutine {}", sl.owner), k, seen, ran, &mut sl.shadow[k], store);
                    match store {
                        None => {
                            ops.lock().unwrap().extend([2, q as i128, t as i128, k as i128]);
                            outs.lock().unwrap().extend([seen as i128, ran as i128]);
                        }
                        Some(x) => {
                            ops.lock().unwrap().extend([3, q as i128, t as i128, k as i128, x as i128]);
                            outs.lock().unwrap().push(ran as i128);
                        }
                    }
                }
                9 => {
                    if slots[q].is_some() {
                        end_slot(q, &mut slots, &ops, &outs);
                    }
                }
                10 => {
                    // explicit yield_now (1..3 times): the coroutine goes through the run queues
                    if let Some(sl) = slots[q].as_ref() {
                        let t = send(&sl.cm, OP_YIELD, 0, 1 + (v % 3)).t;
                        if last_t[q] != t {
                            migrations += 1;
                        }
                        last_t[q] = t;
                        ops.lock().unwrap().extend([7, q as i128, t as i128]);
                    }
                }
                _ => {
                    // thread context: main (1000) or the helper thread (1001)
                    let th = ((r >> 30) & 1) as usize;
                    let store = if choice >= 14 { Some(v) } else { None };
                    let (seen, ran) = if th == 0 {
                        access(MAXO - 2, k, store)
                    } else {
                        let rep = send(&hcm, if store.is_some() { OP_SET } else { OP_WITH }, k, v);
                        (rep.val, rep.ran)
                    };
                    check_val(format!("thread {th}"), k, seen, ran, &mut tshadow[th][k], store);
                    match store {
                        None => {
                            ops.lock().unwrap().extend([5, 1000 + th as i128, k as i128]);
                            outs.lock().unwrap().extend([seen as i128, ran as i128]);
                        }
                        Some(x) => {
                            ops.lock().unwrap().extend([6, 1000 + th as i128, k as i128, x as i128]);
                            outs.lock().unwrap().push(ran as i128);
                        }
                    }
                }
            }
        }
        send(&hcm, OP_END, 0, 0);
        ctx.join(helper);
        // nothing of a coroutine was dropped twice in the meantime, thread values are still there
        for o in 0..next_owner {
            for k in 0..NK {
                let (i, d) = (INITS[o][k].load(SeqCst), DROPS[o][k].load(SeqCst));
                if i != d || i > 1 {
                    ctx.fail(format!("incarnation {o} key {k}: created {i} dropped {d} at the end of the run"));
                }
            }
        }
        for k in 0..NK {
            if DROPS[MAXO - 2][k].load(SeqCst) != 0 {
                ctx.fail("a value of the main thread's fallback map was dropped while the thread runs".into());
            }
        }
        let s = |v: &Vec<i128>| v.iter().map(|x| x.to_string()).collect::<Vec<_>>().join(" ");
        println!("CASE {} => {}", s(&ops.lock().unwrap()), s(&outs.lock().unwrap()));
        println!("STATS migrations={migrations} stack_reuse={reuse} incarnations={next_owner}");
    })
}
