//! C08 scenario: every timed API of may under the virtual clock, in coroutine and thread context,
//! with durations from a structured set and the awaited event landing before / at / after the deadline.
//! Oracles: a wait that reports "timed out" never returns before call + d; every timed wait returns
//! (hang detector); without injected stalls it returns no later than d + 1 ms (+ eps) after the call.
use mayv::*;
use std::sync::Arc;
use std::time::Duration;

fn envs(k: &str, d: &str) -> String {
    std::env::var(k).unwrap_or_else(|_| d.into())
}
fn envn(k: &str, d: u64) -> u64 {
    std::env::var(k).ok().and_then(|s| s.parse().ok()).unwrap_or(d)
}

const DURS: [u64; 9] = [0, 1, 999_999, 1_000_000, 1_000_001, 1_500_000, 1_900_000, 10_000_000, 3_000_000];

#[derive(Clone)]
struct Shared {
    sem: Arc<may::sync::Semphore>,
    flag: Arc<may::sync::SyncFlag>,
    tx: may::sync::mpsc::Sender<u32>,
    mx: Arc<may::sync::Mutex<u32>>,
    cv: Arc<may::sync::Condvar>,
}

/// one timed call; returns (timed_out, event_seen)
fn timed_call(api: &str, d: u64, sh: &Shared, rx: &Option<may::sync::mpsc::Receiver<u32>>) -> bool {
    let dur = Duration::from_nanos(d);
    match api {
        "sleep" => {
            may::coroutine::sleep(dur);
            true
        }
        "sem" => !sh.sem.wait_timeout(dur),
        "flag" => !sh.flag.wait_timeout(dur),
        "chan" => rx.as_ref().unwrap().recv_timeout(dur).is_err(),
        "cond" => {
            let g = sh.mx.lock().unwrap();
            let (g, r) = sh.cv.wait_timeout(g, dur).unwrap();
            drop(g);
            r.timed_out()
        }
        "park" => {
            may::coroutine::park_timeout(dur);
            true // may wake spuriously: only "returns at all" and the upper bound are checked
        }
        _ => unreachable!(),
    }
}

fn main() {
    let cfg = Config::from_env();
    let stalls = std::env::var("MAYV_STALL").is_ok() || std::env::var("MAYV_STALL_AT").is_ok();
    let api_sel = envs("MAYV_API", "mix");
    let ctx_sel = envs("MAYV_CTX", "mix");
    let nact = envn("MAYV_ACTORS", 3) as usize;
    let rounds = envn("MAYV_ROUNDS", 3);
    run(cfg, move |ctx| {
        let (tx, rx) = may::sync::mpsc::channel::<u32>();
        let sh = Shared {
            sem: Arc::new(may::sync::Semphore::new(0)),
            flag: Arc::new(may::sync::SyncFlag::new()),
            tx,
            mx: Arc::new(may::sync::Mutex::new(0)),
            cv: Arc::new(may::sync::Condvar::new()),
        };
        let apis_all = ["sleep", "sem", "chan", "cond", "park", "flag"];
        let mut rx_opt = Some(rx);
        let mut joins: Vec<Box<dyn FnOnce()>> = vec![];
        let mut used: Vec<&'static str> = vec![];
        for a in 0..nact {
            let api: &'static str = if api_sel == "mix" { apis_all[(ctx.rand() % 5) as usize] } else { apis_all.iter().copied().find(|x| *x == api_sel).expect("api") };
            // the channel has a single receiver
            let api = if api == "chan" && rx_opt.is_none() { "sem" } else { api };
            let in_co = match ctx_sel.as_str() {
                "co" => true,
                "th" => false,
                _ => ctx.rand() % 2 == 0,
            } || api == "park";
            let in_co = in_co && true;
            let rxa = if api == "chan" { rx_opt.take() } else { None };
            used.push(api);
            let sh2 = sh.clone();
            let seed_d = ctx.rand();
            let body = move || {
                let c = mayv::ctx();
                for r in 0..rounds {
                    let d = DURS[((seed_d >> (r * 4)) % DURS.len() as u64) as usize];
                    if api == "sleep" && !may::coroutine::is_coroutine() {
                        // thread::sleep falls back to the virtual thread sleep as well
                    }
                    let t0 = c.now();
                    c.log("timed.call", a as u64, d, None);
                    let timed_out = timed_call(api, d, &sh2, &rxa);
                    let t1 = c.now();
                    c.log("timed.ret", a as u64, timed_out as u64, None);
                    let el = t1 - t0;
                    if timed_out && api != "park" && el < d {
                        c.fail(format!("{api}({d} ns) in {} reported a timeout after only {el} ns", if may::coroutine::is_coroutine() { "coroutine" } else { "thread" }));
                    }
                    if !stalls && el > d + 1_000_000 + 200_000 && api != "cond" {
                        c.fail(format!("{api}({d} ns) returned only after {el} ns although nothing delayed it"));
                    }
                }
            };
            if in_co {
                let h = unsafe { may::coroutine::Builder::new().name(format!("a{a}")).spawn(body).unwrap() };
                joins.push(Box::new(move || {
                    if h.join().is_err() {
                        mayv::ctx().fail("actor coroutine panicked".into());
                    }
                }));
            } else {
                let h = ctx.spawn(&format!("a{a}"), body);
                joins.push(Box::new(move || mayv::ctx().join(h)));
            }
        }
        // the event source: posts / sends / notifies at random virtual times around the deadlines
        let sh3 = sh.clone();
        let nev = envn("MAYV_EVENTS", 3);
        let ev = ctx.spawn("ev", move || {
            let c = mayv::ctx();
            for _ in 0..nev {
                let dt = [0u64, 500_000, 1_000_000, 1_500_000, 2_000_000, 10_000_000][(c.rand() % 6) as usize];
                c.sleep_ns(dt);
                match c.rand() % 4 {
                    0 => sh3.sem.post(),
                    1 => {
                        let _ = sh3.tx.send(7);
                    }
                    2 => {
                        let g = sh3.mx.lock().unwrap();
                        sh3.cv.notify_all();
                        drop(g);
                    }
                    _ => sh3.sem.post(),
                }
            }
        });
        for j in joins {
            j();
        }
        ctx.join(ev);
    })
}
