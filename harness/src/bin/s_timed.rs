//! C08 scenario: every timed API of may under the virtual clock, in coroutine and thread context,
//! with durations from a structured set and the awaited event landing before / at / after the deadline.
//! Oracles: a wait that reports "timed out" never returns before call + d; every timed wait returns
//! (hang detector); without injected stalls it returns no later than d + 1 ms (+ eps) after the call.
use mayv::*;
use std::alloc::{GlobalAlloc, Layout, System};
use std::sync::Arc;
use std::time::Duration;

/// never reuse an address: the virtual ThreadPark token of the harness is keyed by the address of the ThreadPark, a
/// late unpark of a Blocker that is gone must not reach a later one that happens to get the same address
struct Leak;
unsafe impl GlobalAlloc for Leak {
    unsafe fn alloc(&self, l: Layout) -> *mut u8 {
        System.alloc(l)
    }
    unsafe fn dealloc(&self, _p: *mut u8, _l: Layout) {}
}
#[global_allocator]
static GLOBAL: Leak = Leak;

fn envs(k: &str, d: &str) -> String {
    std::env::var(k).unwrap_or_else(|_| d.into())
}
fn envn(k: &str, d: u64) -> u64 {
    std::env::var(k).ok().and_then(|s| s.parse().ok()).unwrap_or(d)
}

const DURS: [u64; 9] = [0, 1, 999_999, 1_000_000, 1_000_001, 1_500_000, 1_900_000, 10_000_000, 3_000_000];

#[derive(Clone)]
struct Shared {
    sem: Arc<may::sync::Semphore>,
    flag: Arc<may::sync::SyncFlag>,
    tx: may::sync::mpsc::Sender<u32>,
    mx: Arc<may::sync::Mutex<u32>>,
    cv: Arc<may::sync::Condvar>,
    mtx: may::sync::mpmc::Sender<u32>,
    mrx: may::sync::mpmc::Receiver<u32>,
}

fn nap(d: u64) {
    if may::coroutine::is_coroutine() {
        may::coroutine::sleep(Duration::from_nanos(d));
    } else {
        mayv::ctx().sleep_ns(d);
    }
}

/// one timed call; returns timed_out; `woken` is set when the call may have been woken without data before its
/// deadline (before fix 3916da2 the deadline loops then parked for the full timeout again; the bound is d + 1 ms again)
fn timed_call(api: &str, d: u64, sh: &Shared, rx: &Option<may::sync::mpsc::Receiver<u32>>, woken: &mut bool) -> bool {
    let dur = Duration::from_nanos(d);
    match api {
        "mpmc" => sh.mrx.recv_timeout(dur).is_err(),
        "cq" => {
            // Cqueue::poll(Some(d)): one arm may deliver an event, one may finish without an event (the poller is woken
            // without data), one never ends by itself (the cqueue is never Finished)
            let c = mayv::ctx();
            let offs = [d / 2, d, d + 700_000, 2 * d + 2_500_000, 20_000_000];
            let e_norm = offs[(c.rand() % 5) as usize];
            let e_done = offs[(c.rand() % 5) as usize];
            let with_norm = c.rand() % 2 == 0;
            let with_done = c.rand() % 2 == 0;
            *woken = with_done && e_done <= d;
            may::cqueue::scope(|cq| {
                if with_norm {
                    cq.add(0, move |es| {
                        nap(e_norm);
                        es.send(0);
                    });
                }
                if with_done {
                    cq.add(1, move |_es| {
                        nap(e_done);
                    });
                }
                cq.add(2, move |_es| {
                    may::coroutine::sleep(Duration::from_secs(3600));
                });
                matches!(cq.poll(Some(dur)), Err(may::cqueue::PollError::Timeout))
            })
        }
        "sleep" => {
            may::coroutine::sleep(dur);
            true
        }
        "sem" => !sh.sem.wait_timeout(dur),
        "flag" => !sh.flag.wait_timeout(dur),
        "chan" => rx.as_ref().unwrap().recv_timeout(dur).is_err(),
        "cond" => {
            let g = sh.mx.lock().unwrap();
            let (g, r) = sh.cv.wait_timeout(g, dur).unwrap();
            drop(g);
            r.timed_out()
        }
        "park" => {
            may::coroutine::park_timeout(dur);
            true // may wake spuriously: only "returns at all" and the upper bound are checked
        }
        _ => unreachable!(),
    }
}

fn main() {
    let cfg = Config::from_env();
    let stalls = std::env::var("MAYV_STALL").is_ok() || std::env::var("MAYV_STALL_AT").is_ok();
    let api_sel = envs("MAYV_API", "mix");
    let ctx_sel = envs("MAYV_CTX", "mix");
    let nact = envn("MAYV_ACTORS", 3) as usize;
    let rounds = envn("MAYV_ROUNDS", 3);
    run(cfg, move |ctx| {
        // initialise the runtime from this thread alone: its lazy initialisation (a std Once) must not be entered by two
        // scenario threads at once - the second would wait for the Once in the OS while it holds the baton
        if api_sel == "cq" {
            let h = unsafe { may::coroutine::Builder::new().name("warmup".into()).spawn(|| {}).unwrap() };
            let _ = h.join();
        }
        let (tx, rx) = may::sync::mpsc::channel::<u32>();
        let (mtx, mrx) = may::sync::mpmc::channel::<u32>();
        let sh = Shared {
            mtx,
            mrx,
            sem: Arc::new(may::sync::Semphore::new(0)),
            flag: Arc::new(may::sync::SyncFlag::new()),
            tx,
            mx: Arc::new(may::sync::Mutex::new(0)),
            cv: Arc::new(may::sync::Condvar::new()),
        };
        let apis_all = ["sleep", "sem", "chan", "cond", "park", "flag", "cq", "mpmc"];
        let mut rx_opt = Some(rx);
        let mut joins: Vec<Box<dyn FnOnce()>> = vec![];
        let mut used: Vec<&'static str> = vec![];
        for a in 0..nact {
            let api: &'static str = if api_sel == "mix" { apis_all[(ctx.rand() % 5) as usize] } else { apis_all.iter().copied().find(|x| *x == api_sel).expect("api") };
            // the channel has a single receiver
            let api = if api == "chan" && rx_opt.is_none() { "sem" } else { api };
            let in_co = match ctx_sel.as_str() {
                "co" => true,
                "th" => false,
                _ => ctx.rand() % 2 == 0,
            } || api == "park";
            let in_co = in_co && true;
            let rxa = if api == "chan" { rx_opt.take() } else { None };
            used.push(api);
            let sh2 = sh.clone();
            let seed_d = ctx.rand();
            let body = move || {
                let c = mayv::ctx();
                for r in 0..rounds {
                    let d = DURS[((seed_d >> (r * 4)) % DURS.len() as u64) as usize];
                    if api == "sleep" && !may::coroutine::is_coroutine() {
                        // thread::sleep falls back to the virtual thread sleep as well
                    }
                    let t0 = c.now();
                    c.log("timed.call", a as u64, d, None);
                    let mut woken = false;
                    let timed_out = timed_call(api, d, &sh2, &rxa, &mut woken);
                    let t1 = c.now();
                    c.log("timed.ret", a as u64, timed_out as u64, None);
                    let el = t1 - t0;
                    if timed_out && api != "park" && el < d {
                        c.fail(format!("{api}({d} ns) in {} reported a timeout after only {el} ns", if may::coroutine::is_coroutine() { "coroutine" } else { "thread" }));
                    }
                    if !stalls && el > d + 1_000_000 + 200_000 && api != "cond" {
                        c.fail(format!("{api}({d} ns) returned only after {el} ns although nothing delayed it{}", if woken { " (it was woken without data before the deadline)" } else { "" }));
                    }
                }
            };
            if in_co {
                let h = unsafe { may::coroutine::Builder::new().name(format!("a{a}")).spawn(body).unwrap() };
                joins.push(Box::new(move || {
                    if h.join().is_err() {
                        mayv::ctx().fail("actor coroutine panicked".into());
                    }
                }));
            } else {
                let h = ctx.spawn(&format!("a{a}"), body);
                joins.push(Box::new(move || mayv::ctx().join(h)));
            }
        }
        // the event source: posts / sends / notifies at random virtual times around the deadlines
        let sh3 = sh.clone();
        let nev = envn("MAYV_EVENTS", 3);
        let nkinds: u64 = if api_sel == "mpmc" { 5 } else { 4 };
        let ev = ctx.spawn("ev", move || {
            let c = mayv::ctx();
            for _ in 0..nev {
                let dt = [0u64, 500_000, 1_000_000, 1_500_000, 2_000_000, 10_000_000][(c.rand() % 6) as usize];
                c.sleep_ns(dt);
                match c.rand() % nkinds {
                    4 => {
                        let _ = sh3.mtx.send(9);
                    }
                    0 => sh3.sem.post(),
                    1 => {
                        let _ = sh3.tx.send(7);
                    }
                    2 => {
                        let g = sh3.mx.lock().unwrap();
                        sh3.cv.notify_all();
                        drop(g);
                    }
                    _ => sh3.sem.post(),
                }
            }
        });
        for j in joins {
            j();
        }
        ctx.join(ev);
    })
}
