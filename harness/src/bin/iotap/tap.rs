//! System-call tap of the I/O scenarios (C17 / C18): what the trace acceptor of IoModel needs and the hooks of /repo
//! do not record - the KERNEL's answers, which are inputs of the model.
//!
//! The scenario binary defines the libc entry points `read / write / recv / send / recvfrom / sendto / close /
//! shutdown` itself (an executable's own definition of a symbol takes precedence over the one in libc.so, for the
//! calls of std, nix and may alike; the real call is made through `syscall(2)`).  A call on a descriptor that the
//! scenario registered with `track` is logged at the moment the system call returns, i.e. inside the same
//! uninterrupted stretch of the calling thread under the baton scheduler:
//!     io.now  0                      clock                 (virtual clock, unit 10 us)
//!     io.sys  f + 256 * op           n | 2^32 + errno      (op 0 read-like, 1 write-like, 2 close of a stream socket,
//!                                                           3 shutdown(Write), 4 close of a datagram socket)
//! where f is the MODEL descriptor (connection c = descriptors 2c, 2c+1).  Calls on other descriptors (the trace file,
//! stdout, the selector's eventfd, untracked sockets) and all calls while the tap is off are passed through untouched.
//! Nothing here changes a result or errno.  The API-level events (`io.call`, `io.ret`, `io.actor`, `io.cancel`) are
//! logged by the scenario through the helpers below.
#![allow(dead_code)]
use std::sync::atomic::{AtomicBool, AtomicU32, Ordering};

static ON: AtomicBool = AtomicBool::new(false);
const NFD: usize = 1024;
#[allow(clippy::declare_interior_mutable_const)]
const Z: AtomicU32 = AtomicU32::new(0);
static FDTAB: [AtomicU32; NFD] = [Z; NFD];
/// ns per unit of the logged clock
pub const UNIT: u64 = 10_000;
const ERR: u64 = 1 << 32;

extern "C" {
    fn syscall(n: i64, ...) -> i64;
    fn __errno_location() -> *mut i32;
}
const SYS_READ: i64 = 0;
const SYS_WRITE: i64 = 1;
const SYS_CLOSE: i64 = 3;
const SYS_SENDTO: i64 = 44;
const SYS_RECVFROM: i64 = 45;
const SYS_SHUTDOWN: i64 = 48;

/// MAYV_TAP=1 and a trace is recorded: switch the tap on (call inside `run`, the harness must be up)
pub fn enable() -> bool {
    let on = std::env::var("MAYV_TAP").map(|v| v == "1").unwrap_or(false);
    ON.store(on, Ordering::SeqCst);
    on
}
pub fn on() -> bool {
    ON.load(Ordering::Relaxed)
}
/// register a socket: raw descriptor -> model descriptor
pub fn track(raw: i32, f: u64, dgram: bool) {
    if on() && (raw as usize) < NFD {
        FDTAB[raw as usize].store((f as u32 + 1) | ((dgram as u32) << 16), Ordering::SeqCst);
    }
}
fn lookup(raw: i32) -> Option<(u64, bool)> {
    if !on() || raw < 0 || raw as usize >= NFD {
        return None;
    }
    let v = FDTAB[raw as usize].load(Ordering::Relaxed);
    if v == 0 {
        None
    } else {
        Some((((v & 0xffff) - 1) as u64, v >> 16 != 0))
    }
}
fn log2(kind: &'static str, a: u64, b: u64) {
    let c = mayv::ctx();
    c.log("io.now", 0, c.now() / UNIT, None);
    c.log(kind, a, b, None);
}
fn logsys(f: u64, op: u64, r: i64) {
    unsafe {
        let e = *__errno_location();
        let v = if r >= 0 { r as u64 } else { ERR + e as u64 };
        log2("io.sys", f + 256 * op, v);
        *__errno_location() = e;
    }
}

// ---- API-level events --------------------------------------------------------------------------------------------
/// a read-like call (read, recv, accept): `n` = size of the buffer (stream) ; timeout as armed (ns, whole ms)
pub fn call_rd(f: u64, dgram: bool, to_ns: Option<u64>, n: usize) {
    if on() {
        let to = to_ns.map(|t| t / UNIT + 1).unwrap_or(0);
        log2("io.call", f + 512 + 1024 * dgram as u64, (to << 36) | (n as u64 & 0xffff));
    }
}
/// a write-like call: the data are elements off .. off + n of the stream / message number `off`
pub fn call_wr(f: u64, dgram: bool, off: u64, n: usize) {
    if on() {
        log2("io.call", f + 256 + 1024 * dgram as u64, ((off & 0xfffff) << 16) | (n as u64 & 0xffff));
    }
}
/// the call returned Ok(n): for a read the elements off .. off + n (the scenario compared the bytes), message `off`
pub fn ret_ok(f: u64, off: u64, n: usize) {
    if on() {
        log2("io.ret", f, ((off & 0xfffff) << 16) | (n as u64 & 0xffff));
    }
}
pub fn ret_timeout(f: u64) {
    if on() {
        log2("io.ret", f + 256, 0);
    }
}
pub fn ret_err(f: u64) {
    if on() {
        log2("io.ret", f + 512, 0);
    }
}
/// first event of a trace: the capacity (elements) of every tracked pipe, as measured by the scenario
pub fn cap(n: u64) {
    if on() {
        mayv::ctx().log("io.cap", n, 0, None);
    }
}
/// how many writes of `chunk` bytes a fresh unix stream connection with the given SO_SNDBUF request takes before it
/// answers EAGAIN (every write is one skb charged to the sender until the peer has read it completely)
pub fn probe_stream_capacity(chunk: usize, setbuf: &dyn Fn(i32)) -> u64 {
    use std::io::Write;
    use std::os::unix::io::AsRawFd;
    let (mut a, b) = std::os::unix::net::UnixStream::pair().expect("probe pair");
    setbuf(a.as_raw_fd());
    setbuf(b.as_raw_fd());
    a.set_nonblocking(true).expect("nonblocking");
    let buf = vec![0u8; chunk];
    let mut n = 0u64;
    while n < 100_000 {
        match a.write(&buf) {
            Ok(k) if k == chunk => n += 1,
            _ => break,
        }
    }
    drop(b);
    n
}
/// the calling coroutine is victim `k` of a later `cancel(k)`
pub fn actor(k: u64) {
    if on() {
        mayv::ctx().log("io.actor", k, 0, None);
    }
}
pub fn cancel(k: u64) {
    if on() {
        mayv::ctx().log("io.cancel", k, 0, None);
    }
}

// ---- the interposed libc entry points ------------------------------------------------------------------------------
#[no_mangle]
pub unsafe extern "C" fn read(fd: i32, buf: *mut u8, len: usize) -> isize {
    let r = syscall(SYS_READ, fd as i64, buf, len);
    if let Some((f, _)) = lookup(fd) {
        logsys(f, 0, r);
    }
    r as isize
}
#[no_mangle]
pub unsafe extern "C" fn recv(fd: i32, buf: *mut u8, len: usize, flags: i32) -> isize {
    let r = syscall(SYS_RECVFROM, fd as i64, buf, len, flags as i64, 0i64, 0i64);
    if let Some((f, _)) = lookup(fd) {
        logsys(f, 0, r);
    }
    r as isize
}
#[no_mangle]
pub unsafe extern "C" fn recvfrom(fd: i32, buf: *mut u8, len: usize, flags: i32, addr: *mut u8, alen: *mut u32) -> isize {
    let r = syscall(SYS_RECVFROM, fd as i64, buf, len, flags as i64, addr, alen);
    if let Some((f, _)) = lookup(fd) {
        logsys(f, 0, r);
    }
    r as isize
}
#[no_mangle]
pub unsafe extern "C" fn write(fd: i32, buf: *const u8, len: usize) -> isize {
    let r = syscall(SYS_WRITE, fd as i64, buf, len);
    if let Some((f, _)) = lookup(fd) {
        logsys(f, 1, r);
    }
    r as isize
}
#[no_mangle]
pub unsafe extern "C" fn send(fd: i32, buf: *const u8, len: usize, flags: i32) -> isize {
    let r = syscall(SYS_SENDTO, fd as i64, buf, len, flags as i64, 0i64, 0i64);
    if let Some((f, _)) = lookup(fd) {
        logsys(f, 1, r);
    }
    r as isize
}
#[no_mangle]
pub unsafe extern "C" fn sendto(fd: i32, buf: *const u8, len: usize, flags: i32, addr: *const u8, alen: u32) -> isize {
    let r = syscall(SYS_SENDTO, fd as i64, buf, len, flags as i64, addr, alen as i64);
    if let Some((f, _)) = lookup(fd) {
        logsys(f, 1, r);
    }
    r as isize
}
#[no_mangle]
pub unsafe extern "C" fn close(fd: i32) -> i32 {
    let t = lookup(fd);
    if t.is_some() {
        FDTAB[fd as usize].store(0, Ordering::SeqCst);
    }
    let r = syscall(SYS_CLOSE, fd as i64);
    if let Some((f, dg)) = t {
        logsys(f, if dg { 4 } else { 2 }, r);
    }
    r as i32
}
#[no_mangle]
pub unsafe extern "C" fn shutdown(fd: i32, how: i32) -> i32 {
    let r = syscall(SYS_SHUTDOWN, fd as i64, how as i64);
    if let Some((f, dg)) = lookup(fd) {
        if how != 0 && !dg {
            logsys(f, 3, r);
        }
    }
    r as i32
}
