//! System-call tap of the I/O scenarios (C17 / C18): what the trace acceptor of IoModel needs and the hooks of /repo
//! do not record - the KERNEL's answers, which are inputs of the model.
//!
//! The scenario binary defines the libc entry points `read / write / recv / send / recvfrom / sendto / close /
//! shutdown` itself (an executable's own definition of a symbol takes precedence over the one in libc.so, for the
//! calls of std, nix and may alike; the real call is made through `syscall(2)`).  A call on a descriptor that the
//! scenario registered with `track` is logged at the moment the system call returns, i.e. inside the same
//! uninterrupted stretch of the calling thread under the baton scheduler:
//!     io.now  0                      clock                 (virtual clock, unit 10 us)
//!     io.sys  f + 256 * op           n | 2^32 + errno      (op 0 read-like, 1 write-like, 2 close of a stream socket,
//!                                                           3 shutdown(Write), 4 close of a datagram socket)
//!                                                           5 accept on a listener: the value is the MODEL descriptor of
//!                                                             the connecting socket whose connection was handed over,
//!                                                           6 connect, 7 close of a listener)
//! where f is the MODEL descriptor (connection c = descriptors 2c, 2c+1).  accept / accept4 / connect are interposed
//! the same way.  A connecting socket is created inside may (`{Unix,Tcp}StreamConnect::new`): the scenario announces
//! "the next connect of this coroutine / thread is model descriptor f towards listener l" (`pend_connect`), the
//! interposed `connect` registers the raw descriptor at its first call and appends f to the arrival order of l (both
//! kernels queue connections in the order the connects were issued: unix sockets inside the call, loopback TCP inside
//! the call's softirq); the interposed accept takes the head of that order and registers the new descriptor as the
//! peer of the connecting one (MODEL descriptor f ^ 1) when the listener was registered with `track_accepted`.  Calls on other descriptors (the trace file,
//! stdout, the selector's eventfd, untracked sockets) and all calls while the tap is off are passed through untouched.
//! Nothing here changes a result or errno.  The API-level events (`io.call`, `io.ret`, `io.actor`, `io.cancel`) are
//! logged by the scenario through the helpers below.
#![allow(dead_code)]
use std::sync::atomic::{AtomicBool, AtomicU32, AtomicU64, Ordering};
use std::sync::Mutex;

static ON: AtomicBool = AtomicBool::new(false);
/// descriptor tables without logging (accept / connect scenarios need the arrival order for their oracles in untapped runs too)
static TABLES: AtomicBool = AtomicBool::new(false);
const NFD: usize = 1024;
#[allow(clippy::declare_interior_mutable_const)]
const Z: AtomicU32 = AtomicU32::new(0);
static FDTAB: [AtomicU32; NFD] = [Z; NFD];
/// ns per unit of the logged clock
pub const UNIT: u64 = 10_000;
const ERR: u64 = 1 << 32;

extern "C" {
    fn syscall(n: i64, ...) -> i64;
    fn __errno_location() -> *mut i32;
}
const SYS_READ: i64 = 0;
const SYS_WRITE: i64 = 1;
const SYS_CLOSE: i64 = 3;
const SYS_CONNECT: i64 = 42;
const SYS_ACCEPT: i64 = 43;
const SYS_ACCEPT4: i64 = 288;
const SYS_SENDTO: i64 = 44;
const SYS_RECVFROM: i64 = 45;
const SYS_SHUTDOWN: i64 = 48;

/// MAYV_TAP=1 and a trace is recorded: switch the tap on (call inside `run`, the harness must be up)
pub fn enable() -> bool {
    let on = std::env::var("MAYV_TAP").map(|v| v == "1").unwrap_or(false);
    ON.store(on, Ordering::SeqCst);
    on
}
pub fn on() -> bool {
    ON.load(Ordering::Relaxed)
}
pub fn tables(on: bool) {
    TABLES.store(on, Ordering::SeqCst);
}
fn tabs() -> bool {
    ON.load(Ordering::Relaxed) || TABLES.load(Ordering::Relaxed)
}
const K_STREAM: u32 = 0;
const K_DGRAM: u32 = 1;
const K_LISTEN: u32 = 2;
const K_LISTEN_TRACK: u32 = 3;
/// register a socket: raw descriptor -> model descriptor
pub fn track(raw: i32, f: u64, dgram: bool) {
    track_kind(raw, f, if dgram { K_DGRAM } else { K_STREAM });
}
fn track_kind(raw: i32, f: u64, kind: u32) {
    if tabs() && raw >= 0 && (raw as usize) < NFD {
        FDTAB[raw as usize].store((f as u32 + 1) | (kind << 16), Ordering::SeqCst);
    }
}
/// register a listener; `accepted`: the sockets it hands out are registered as the peers of the connecting ones
pub fn track_listener(raw: i32, l: u64, accepted: bool) {
    track_kind(raw, l, if accepted { K_LISTEN_TRACK } else { K_LISTEN });
    ARRIVAL.lock().unwrap().retain(|x| x.0 != l);
}
pub fn untrack(raw: i32) {
    if raw >= 0 && (raw as usize) < NFD {
        FDTAB[raw as usize].store(0, Ordering::SeqCst);
    }
}
fn lookup_kind(raw: i32) -> Option<(u64, u32)> {
    if !tabs() || raw < 0 || raw as usize >= NFD {
        return None;
    }
    let v = FDTAB[raw as usize].load(Ordering::Relaxed);
    if v == 0 {
        None
    } else {
        Some((((v & 0xffff) - 1) as u64, v >> 16))
    }
}
fn lookup(raw: i32) -> Option<(u64, bool)> {
    lookup_kind(raw).map(|(f, k)| (f, k == K_DGRAM))
}
/// (listener, connecting descriptor) in the order the connects were issued
static ARRIVAL: Mutex<Vec<(u64, u64)>> = Mutex::new(Vec::new());
/// (coroutine identity or thread key, connecting descriptor, listener): announced connects
static PENDING: Mutex<Vec<(u64, u64, u64)>> = Mutex::new(Vec::new());
/// (listener, connecting descriptor) of the latest accept per listener
static LASTACC: Mutex<Vec<(u64, u64)>> = Mutex::new(Vec::new());
static THREAD_KEY: AtomicU64 = AtomicU64::new(0);
fn who() -> u64 {
    let c = may::verif::current_co_id();
    if c != 0 {
        c
    } else {
        // a plain thread: the address of a thread local
        thread_local!(static K: u8 = 0);
        K.with(|k| k as *const u8 as u64) | 1
    }
}
/// the next `connect` system call of the calling coroutine / thread on an unregistered descriptor is model descriptor
/// `f`, towards listener `l`
pub fn pend_connect(f: u64, l: u64) {
    if tabs() {
        let w = who();
        let mut p = PENDING.lock().unwrap();
        p.retain(|x| x.0 != w);
        p.push((w, f, l));
    }
    let _ = &THREAD_KEY;
}
/// the connecting descriptor whose connection the latest accept on listener `l` handed over
pub fn last_accepted(l: u64) -> Option<u64> {
    LASTACC.lock().unwrap().iter().rev().find(|x| x.0 == l).map(|x| x.1)
}
fn log2(kind: &'static str, a: u64, b: u64) {
    if !on() {
        return;
    }
    let c = mayv::ctx();
    c.log("io.now", 0, c.now() / UNIT, None);
    c.log(kind, a, b, None);
}
fn logsys(f: u64, op: u64, r: i64) {
    unsafe {
        let e = *__errno_location();
        let v = if r >= 0 { r as u64 } else { ERR + e as u64 };
        log2("io.sys", f + 256 * op, v);
        *__errno_location() = e;
    }
}

// ---- API-level events --------------------------------------------------------------------------------------------
/// a read-like call (read, recv, accept): `n` = size of the buffer (stream) ; timeout as armed (ns, whole ms)
pub fn call_rd(f: u64, dgram: bool, to_ns: Option<u64>, n: usize) {
    if on() {
        let to = to_ns.map(|t| t / UNIT + 1).unwrap_or(0);
        log2("io.call", f + 512 + 1024 * dgram as u64, (to << 36) | (n as u64 & 0xffff));
    }
}
/// a write-like call: the data are elements off .. off + n of the stream / message number `off`
pub fn call_wr(f: u64, dgram: bool, off: u64, n: usize) {
    if on() {
        log2("io.call", f + 256 + 1024 * dgram as u64, ((off & 0xfffff) << 16) | (n as u64 & 0xffff));
    }
}
/// accept on listener `l`
pub fn call_acc(l: u64) {
    if on() {
        log2("io.call", l + 512 + 2048, 0);
    }
}
/// connect of descriptor `f` towards listener `l`; timeout as armed by the kernel half (ns)
pub fn call_co(f: u64, l: u64, to_ns: Option<u64>) {
    if on() {
        let to = to_ns.map(|t| t / UNIT + 1).unwrap_or(0);
        log2("io.call", f + 512 + 4096, (to << 36) | (l & 0xffff));
    }
}
/// the call returned Ok(n): for a read the elements off .. off + n (the scenario compared the bytes), message `off`
pub fn ret_ok(f: u64, off: u64, n: usize) {
    if on() {
        log2("io.ret", f, ((off & 0xfffff) << 16) | (n as u64 & 0xffff));
    }
}
pub fn ret_timeout(f: u64) {
    if on() {
        log2("io.ret", f + 256, 0);
    }
}
pub fn ret_err(f: u64) {
    if on() {
        log2("io.ret", f + 512, 0);
    }
}
/// first event of a trace: the capacity (elements) of every tracked pipe, as measured by the scenario
pub fn cap(n: u64) {
    if on() {
        mayv::ctx().log("io.cap", n, 0, None);
    }
}
/// how many writes of `chunk` bytes a fresh unix stream connection with the given SO_SNDBUF request takes before it
/// answers EAGAIN (every write is one skb charged to the sender until the peer has read it completely)
pub fn probe_stream_capacity(chunk: usize, setbuf: &dyn Fn(i32)) -> u64 {
    use std::io::Write;
    use std::os::unix::io::AsRawFd;
    let (mut a, b) = std::os::unix::net::UnixStream::pair().expect("probe pair");
    setbuf(a.as_raw_fd());
    setbuf(b.as_raw_fd());
    a.set_nonblocking(true).expect("nonblocking");
    let buf = vec![0u8; chunk];
    let mut n = 0u64;
    while n < 100_000 {
        match a.write(&buf) {
            Ok(k) if k == chunk => n += 1,
            _ => break,
        }
    }
    drop(b);
    n
}
/// the calling coroutine is victim `k` of a later `cancel(k)`
pub fn actor(k: u64) {
    if on() {
        mayv::ctx().log("io.actor", k, 0, None);
    }
}
pub fn cancel(k: u64) {
    if on() {
        mayv::ctx().log("io.cancel", k, 0, None);
    }
}

// ---- the interposed libc entry points ------------------------------------------------------------------------------
#[no_mangle]
pub unsafe extern "C" fn read(fd: i32, buf: *mut u8, len: usize) -> isize {
    let r = syscall(SYS_READ, fd as i64, buf, len);
    if let Some((f, _)) = lookup(fd) {
        logsys(f, 0, r);
    }
    r as isize
}
#[no_mangle]
pub unsafe extern "C" fn recv(fd: i32, buf: *mut u8, len: usize, flags: i32) -> isize {
    let r = syscall(SYS_RECVFROM, fd as i64, buf, len, flags as i64, 0i64, 0i64);
    if let Some((f, _)) = lookup(fd) {
        logsys(f, 0, r);
    }
    r as isize
}
#[no_mangle]
pub unsafe extern "C" fn recvfrom(fd: i32, buf: *mut u8, len: usize, flags: i32, addr: *mut u8, alen: *mut u32) -> isize {
    let r = syscall(SYS_RECVFROM, fd as i64, buf, len, flags as i64, addr, alen);
    if let Some((f, _)) = lookup(fd) {
        logsys(f, 0, r);
    }
    r as isize
}
#[no_mangle]
pub unsafe extern "C" fn write(fd: i32, buf: *const u8, len: usize) -> isize {
    let r = syscall(SYS_WRITE, fd as i64, buf, len);
    if let Some((f, _)) = lookup(fd) {
        logsys(f, 1, r);
    }
    r as isize
}
#[no_mangle]
pub unsafe extern "C" fn send(fd: i32, buf: *const u8, len: usize, flags: i32) -> isize {
    let r = syscall(SYS_SENDTO, fd as i64, buf, len, flags as i64, 0i64, 0i64);
    if let Some((f, _)) = lookup(fd) {
        logsys(f, 1, r);
    }
    r as isize
}
#[no_mangle]
pub unsafe extern "C" fn sendto(fd: i32, buf: *const u8, len: usize, flags: i32, addr: *const u8, alen: u32) -> isize {
    let r = syscall(SYS_SENDTO, fd as i64, buf, len, flags as i64, addr, alen as i64);
    if let Some((f, _)) = lookup(fd) {
        logsys(f, 1, r);
    }
    r as isize
}
#[no_mangle]
pub unsafe extern "C" fn close(fd: i32) -> i32 {
    let t = lookup_kind(fd);
    if t.is_some() {
        FDTAB[fd as usize].store(0, Ordering::SeqCst);
    }
    let r = syscall(SYS_CLOSE, fd as i64);
    if let Some((f, k)) = t {
        logsys(f, if k == K_DGRAM { 4 } else if k == K_STREAM { 2 } else { 7 }, r);
    }
    r as i32
}
unsafe fn after_accept(fd: i32, r: i64) {
    if let Some((l, k)) = lookup_kind(fd) {
        if k != K_LISTEN && k != K_LISTEN_TRACK {
            return;
        }
        let e = *__errno_location();
        if r >= 0 {
            let c = {
                let mut q = ARRIVAL.lock().unwrap();
                q.iter().position(|x| x.0 == l).map(|i| q.remove(i).1)
            };
            match c {
                Some(c) => {
                    if k == K_LISTEN_TRACK {
                        track_kind(r as i32, c ^ 1, K_STREAM);
                    }
                    LASTACC.lock().unwrap().push((l, c));
                    log2("io.sys", l + 256 * 5, c);
                }
                // a connection nobody announced: no model descriptor; the acceptor rejects the value
                None => log2("io.sys", l + 256 * 5, 0xffff),
            }
        } else {
            log2("io.sys", l + 256 * 5, ERR + e as u64);
        }
        *__errno_location() = e;
    }
}
#[no_mangle]
pub unsafe extern "C" fn accept4(fd: i32, addr: *mut u8, alen: *mut u32, flags: i32) -> i32 {
    let r = syscall(SYS_ACCEPT4, fd as i64, addr, alen, flags as i64);
    after_accept(fd, r);
    r as i32
}
#[no_mangle]
pub unsafe extern "C" fn accept(fd: i32, addr: *mut u8, alen: *mut u32) -> i32 {
    let r = syscall(SYS_ACCEPT, fd as i64, addr, alen);
    after_accept(fd, r);
    r as i32
}
#[no_mangle]
pub unsafe extern "C" fn connect(fd: i32, addr: *const u8, alen: u32) -> i32 {
    let r = syscall(SYS_CONNECT, fd as i64, addr, alen as i64);
    if tabs() {
        let e = *__errno_location();
        if lookup_kind(fd).is_none() {
            // the first connect of an announced connecting socket
            let w = who();
            let p = {
                let mut p = PENDING.lock().unwrap();
                p.iter().position(|x| x.0 == w).map(|i| p.remove(i))
            };
            if let Some((_, f, l)) = p {
                track_kind(fd, f, K_STREAM);
                if r == 0 || e == 115 {
                    ARRIVAL.lock().unwrap().push((l, f));
                }
            }
        }
        if let Some((f, k)) = lookup_kind(fd) {
            if k == K_STREAM {
                *__errno_location() = e;
                logsys(f, 6, r);
            }
        }
        *__errno_location() = e;
    }
    r as i32
}
#[no_mangle]
pub unsafe extern "C" fn shutdown(fd: i32, how: i32) -> i32 {
    let r = syscall(SYS_SHUTDOWN, fd as i64, how as i64);
    if let Some((f, dg)) = lookup(fd) {
        if how != 0 && !dg {
            logsys(f, 3, r);
        }
    }
    r as i32
}
