//! Replay on the REAL clock (no harness, no hooks installed: every shim is a pass-through) of the two observations of the
//! C08 callers work.  Not run by ./check; `cargo run --offline --bin r_timed_late` in /verif/harness.
//!
//! Before fix 3916da2 / 03f0e0d: 180 ms and a panic; since then: 100 ms and Ok(1) after 200 ms (findings F35 / F36).
//!
//! 1. Cqueue::poll(Some(100 ms)) with one select coroutine that FINISHES after 80 ms (no event) and one that goes on:
//!    the poller is woken by the Done event, finds nothing to return, and parks for the FULL timeout again
//!    (`cur.park(timeout)` instead of what is left until the deadline): Timeout is reported after about 180 ms.
//!    Model witness: C08_callers_code_loop_prompt_refuted; the same loop is in mpsc::Receiver::recv_max_until.
//! 2. `Instant::now() + timeout` in recv_max_until / poll panics for a timeout that overflows the Instant
//!    (std's recv_timeout uses checked_add and waits for ever instead).
use std::time::{Duration, Instant};

fn main() {
    may::config().set_workers(2);
    let h = unsafe {
        may::coroutine::spawn(|| {
            may::cqueue::scope(|cq| {
                cq.add(0, |_es| {
                    may::coroutine::sleep(Duration::from_millis(80));
                });
                cq.add(1, |_es| {
                    may::coroutine::sleep(Duration::from_secs(5));
                });
                let t0 = Instant::now();
                let r = cq.poll(Some(Duration::from_millis(100)));
                println!("Cqueue::poll(Some(100 ms)) -> {:?} after {:?}", r.err(), t0.elapsed());
            });
        })
    };
    h.join().unwrap();
    let (tx, rx) = may::sync::mpsc::channel::<u32>();
    std::thread::spawn(move || {
        std::thread::sleep(Duration::from_millis(200));
        let _ = tx.send(1);
    });
    let t0 = Instant::now();
    let r = std::panic::catch_unwind(std::panic::AssertUnwindSafe(|| rx.recv_timeout(Duration::MAX)));
    match r {
        Err(_) => println!("recv_timeout(Duration::MAX) -> PANIC (overflow when adding duration to instant)"),
        Ok(v) => println!("recv_timeout(Duration::MAX) -> {:?} after {:?} (a message was sent after 200 ms)", v, t0.elapsed()),
    }
}
