//! C06 / C07: every blocked mpmc receiver observes the disconnect, also the ones that were between their failed
//! try_recv and the registration in the semaphore when the last Sender was dropped.
//!
//! `drop_tx` posts the semaphore only until its value is positive; a receiver that consumes that permit and finds the
//! queue empty with no sender left passes the permit on (`sem.post()`), so that the next receiver gets it in turn.
//! MAYV_RECV receivers (threads and coroutines, MAYV_CTX = mix | th | co) call recv(); MAYV_MSGS values are sent
//! first; the only Sender is dropped after 2 ms of virtual time.  With MAYV_STALL_AT / MAYV_STALL_AT2 on the first
//! access of `Semphore::wait_timeout_impl` (occurrences 1 and 2) two receivers are held exactly in that gap.
//! Oracles: every receiver returns (hang detector), the values are received exactly once, everybody else gets
//! Disconnected.
use mayv::*;
use std::sync::atomic::{AtomicUsize, Ordering::SeqCst};
use std::sync::Arc;

fn envn(k: &str, d: u64) -> u64 {
    std::env::var(k).ok().and_then(|s| s.parse().ok()).unwrap_or(d)
}

fn main() {
    let cfg = Config::from_env();
    let nrecv = envn("MAYV_RECV", 2) as usize;
    let msgs = envn("MAYV_MSGS", 0) as usize;
    let ctx_sel = std::env::var("MAYV_CTX").unwrap_or_else(|_| "mix".into());
    run(cfg, move |ctx| {
        let (tx, rx) = may::sync::mpmc::channel::<usize>();
        let got = Arc::new(AtomicUsize::new(0));
        let disc = Arc::new(AtomicUsize::new(0));
        let mut ths = vec![];
        let mut cos = vec![];
        for i in 0..nrecv {
            let (rx2, got2, disc2) = (rx.clone(), got.clone(), disc.clone());
            let body = move || loop {
                match rx2.recv() {
                    Ok(_) => {
                        got2.fetch_add(1, SeqCst);
                    }
                    Err(_) => {
                        disc2.fetch_add(1, SeqCst);
                        break;
                    }
                }
            };
            let in_co = match ctx_sel.as_str() {
                "th" => false,
                "co" => true,
                _ => (ctx.rand() + i as u64) % 2 == 0,
            };
            if in_co {
                cos.push(unsafe { may::coroutine::Builder::new().name(format!("r{i}")).spawn(body).unwrap() });
            } else {
                ths.push(ctx.spawn(&format!("r{i}"), body));
            }
        }
        drop(rx);
        let s = ctx.spawn("sender", move || {
            let c = mayv::ctx();
            for k in 0..msgs {
                tx.send(k).expect("send");
            }
            c.sleep_ns(2_000_000);
            drop(tx);
        });
        ctx.join(s);
        for h in ths {
            ctx.join(h);
        }
        for h in cos {
            if h.join().is_err() {
                ctx.fail("a receiver coroutine panicked".into());
            }
        }
        let (g, d) = (got.load(SeqCst), disc.load(SeqCst));
        if g != msgs || d != nrecv {
            ctx.fail(format!("{g} of {msgs} values received, {d} of {nrecv} receivers saw the disconnect"));
        }
    })
}
