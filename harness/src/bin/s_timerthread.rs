//! C08 scenario (timer-thread wake-up protocol): the REAL `may::verif::TimerThread<usize>` with its own
//! timer thread (`run`), 1-4 adder/remover threads, virtual time, durations from a small set so that
//! equal and different intervals mix.
//!
//! Oracles (on the implementation, independent of the model):
//!   * a timer never fires before `now_at_call + dur` (virtual clock);
//!   * a timer fires at most once;
//!   * a timer whose handle was never passed to `del_timer` fires exactly once - nobody sleeps through it
//!     (the run ends only after every such deadline has passed, hangs are found by the harness);
//!   * without MAYV_STALL nothing delays the timer thread, so such a timer fires no later than
//!     deadline + SLACK;
//!   * a timer that was removed (its handle went through `del_timer` and the timer had not fired when the
//!     run ended, or it fired) fires at most once and never after the end-of-run barrier;
//!     a removed timer that is still alive when the request is served and is not the last of its list
//!     can no longer fire: this is decided by the model acceptor (events 32/33 of `Entry::remove`).
//!
//! MAYV_CHAIN=n (with MAYV_CHAINERS=c chain threads, default 1; MAYV_ADDERS may be 0 then): a chain thread adds a timer of
//! ONE fixed interval (1 ms, the 2nd chain thread 1.5 ms), parks until the handler of that very timer wakes it, and adds the
//! next timer of the same interval at once - n times.  The interval list is re-used exactly when its last pending timer
//! has just fired: the new head is pushed while the timer thread retires / re-arms the list's heap entry
//! (TimeOutList::schedule_timer: pop_if -> None, peek -> None, is_empty re-check, in_use).  MAYV_SCHED=tl restricts the
//! schedule points to timeout_list.rs and mpsc_list_v1.rs.  Oracle: a chain timer that has not fired CHAIN_LOST (0.5 s,
//! more than all the stalls a run can get) after its deadline is lost (reported, and the chain stops).
//!
//! Events for the acceptor (coq/Rt/TimerThreadAccept.v):
//!   tt.add.call (dur*1024 + id, now)   tt.add.ret (id, now)   tt.del.call (id, now)   tt.del.ret (id, now)
//!   tt.fire (id, now)                  tt.now (0, now) after every virtual sleep
use may::verif::{TimeoutHandleOf, TimerThread};
use mayv::*;
use std::sync::{Arc, Mutex};
use std::time::Duration;

fn envn(k: &str, d: u64) -> u64 {
    std::env::var(k).ok().and_then(|s| s.parse().ok()).unwrap_or(d)
}

const DURSETS: [&[u64]; 5] = [
    &[1_000_000, 2_000_000, 1_000_000, 500_000],
    &[0, 1, 1_000_000, 0],
    &[1_000_000],
    &[3_000_000, 1_000_000, 2_000_000, 0],
    &[1_500_000, 1_500_000, 3_000_000],
];
const GAPS: [u64; 6] = [0, 0, 500_000, 1_000_000, 1_500_000, 2_000_000];
/// Without stalls virtual time passes while everybody is blocked - then a parked timer thread wakes exactly at its
/// deadline - or, rarely, in polling quanta of 20 us while every runnable thread has just lost a lock race (the
/// harness cannot tell that from polling).  10 000 runs of the unchanged tree: 97% of the runs 0, 3% one quantum,
/// 3 runs two, 1 run three.  All durations and gaps of the scenario are multiples of 0.5 ms, so a timer thread that
/// sleeps through a deadline is late by at least 0.5 ms: the oracle allows 0.25 ms.
const SLACK: u64 = 250_000;
const CHAIN_DURS: [u64; 2] = [1_000_000, 1_500_000];
const CHAIN_LOST: u64 = 500_000_000;

#[derive(Default, Clone)]
struct Tm {
    deadline: u64,
    added: bool,
    del_called: bool,
    fired: Vec<u64>,
}

struct Shared {
    tm: Vec<Tm>,
    pool: Vec<(usize, TimeoutHandleOf<usize>)>,
    kept: Vec<TimeoutHandleOf<usize>>,
    chainers: Vec<Option<may::verif::thread::Thread>>,
}

fn main() {
    let mut cfg = Config::from_env();
    if std::env::var("MAYV_SCHED").map_or(false, |s| s == "tl") {
        cfg.sched_files = vec!["src/timeout_list.rs", "may_queue/src/mpsc_list_v1.rs"];
    }
    let chain = envn("MAYV_CHAIN", 0).min(12) as usize;
    let nchain = if chain > 0 { envn("MAYV_CHAINERS", 1).clamp(1, 2) as usize } else { 0 };
    let stalls = std::env::var("MAYV_STALL").is_ok() || std::env::var("MAYV_STALL_AT").is_ok();
    let nact = envn("MAYV_ADDERS", 3).clamp(if chain > 0 { 0 } else { 1 }, 4) as usize;
    let ops = envn("MAYV_OPS", 4).clamp(1, 12) as usize;
    let durset = DURSETS[(envn("MAYV_DURSET", 0) as usize) % DURSETS.len()];
    let del_pct = envn("MAYV_DEL", 30);
    let gap_pct = envn("MAYV_GAP", 50);
    let late_timer = envn("MAYV_LATE_TIMER", 0) != 0;
    run(cfg, move |ctx| {
        let tt: Arc<TimerThread<usize>> = Arc::new(TimerThread::new());
        let sh = Arc::new(Mutex::new(Shared { tm: vec![Tm::default(); 1 + nact * ops + nchain * chain], pool: vec![], kept: vec![], chainers: vec![None; nchain] }));
        let chain_base = 1 + nact * ops;
        let spawn_timer = |ctx: &Ctx| {
            let tt2 = tt.clone();
            let sh2 = sh.clone();
            ctx.spawn("timer", move || {
                let handler = move |id: usize| {
                    let c = mayv::ctx();
                    let now = c.now();
                    c.log("tt.fire", id as u64, now, None);
                    let mut g = sh2.lock().unwrap();
                    if id == 0 || id >= g.tm.len() || !g.tm[id].added {
                        c.fail(format!("the handler ran for timer {id} that was never added"));
                        return;
                    }
                    if now < g.tm[id].deadline {
                        c.fail(format!("timer {id} fired at {now}, before its deadline {}", g.tm[id].deadline));
                    }
                    if !g.tm[id].fired.is_empty() {
                        c.fail(format!("timer {id} fired twice (at {} and at {now})", g.tm[id].fired[0]));
                    }
                    g.tm[id].fired.push(now);
                    // a chain timer: its chain thread adds the next timer of the same interval right now
                    let w = if id >= chain_base { g.chainers[(id - chain_base) / chain].clone() } else { None };
                    drop(g);
                    if let Some(w) = w {
                        w.unpark();
                    }
                };
                tt2.run(&handler);
            })
        };
        let mut timer_h = None;
        let mut timer_start = 0u64;
        if !late_timer {
            timer_h = Some(spawn_timer(ctx));
        }
        let mut hs = vec![];
        for a in 0..nact {
            let tt2 = tt.clone();
            let sh2 = sh.clone();
            hs.push(ctx.spawn(&format!("a{a}"), move || {
                let c = mayv::ctx();
                for k in 0..ops {
                    if c.rand() % 100 < gap_pct {
                        let g = GAPS[(c.rand() % GAPS.len() as u64) as usize];
                        if g > 0 {
                            c.sleep_ns(g);
                            c.log("tt.now", 0, c.now(), None);
                        }
                    }
                    let want_del = c.rand() % 100 < del_pct;
                    let victim = if want_del {
                        let mut g = sh2.lock().unwrap();
                        if g.pool.is_empty() {
                            None
                        } else {
                            let i = (c.rand() as usize) % g.pool.len();
                            Some(g.pool.swap_remove(i))
                        }
                    } else {
                        None
                    };
                    match victim {
                        Some((id, h)) => {
                            let now = c.now();
                            sh2.lock().unwrap().tm[id].del_called = true;
                            c.log("tt.del.call", id as u64, now, None);
                            tt2.del_timer(h);
                            c.log("tt.del.ret", id as u64, c.now(), None);
                        }
                        None => {
                            let id = 1 + a * ops + k;
                            let d = durset[(c.rand() % durset.len() as u64) as usize];
                            let now = c.now();
                            {
                                let mut g = sh2.lock().unwrap();
                                g.tm[id].added = true;
                                g.tm[id].deadline = now + d;
                            }
                            c.log("tt.add.call", d * 1024 + id as u64, now, None);
                            let h = tt2.add_timer(Duration::from_nanos(d), id);
                            c.log("tt.add.ret", id as u64, c.now(), None);
                            let mut g = sh2.lock().unwrap();
                            // some handles are offered for removal, the others are kept alive to the end
                            if c.rand() % 100 < 70 {
                                g.pool.push((id, h));
                            } else {
                                g.kept.push(h);
                            }
                        }
                    }
                }
            }));
        }
        for ci in 0..nchain {
            let tt2 = tt.clone();
            let sh2 = sh.clone();
            hs.push(ctx.spawn(&format!("c{ci}"), move || {
                let c = mayv::ctx();
                sh2.lock().unwrap().chainers[ci] = Some(may::verif::thread::current());
                let d = CHAIN_DURS[ci % CHAIN_DURS.len()];
                for k in 0..chain {
                    let id = chain_base + ci * chain + k;
                    let now = c.now();
                    {
                        let mut g = sh2.lock().unwrap();
                        g.tm[id].added = true;
                        g.tm[id].deadline = now + d;
                    }
                    c.log("tt.add.call", d * 1024 + id as u64, now, None);
                    let h = tt2.add_timer(Duration::from_nanos(d), id);
                    c.log("tt.add.ret", id as u64, c.now(), None);
                    sh2.lock().unwrap().kept.push(h);
                    // wait for the handler of this timer
                    loop {
                        if !sh2.lock().unwrap().tm[id].fired.is_empty() {
                            break;
                        }
                        let t = c.now();
                        if t > now + d + CHAIN_LOST {
                            c.fail(format!("chain timer {id} (interval {d} ns, added at {now} when the previous timer of this interval had just fired) has not fired {} ns after its deadline: it was pushed as the head of its interval list but no heap entry was installed for the list (lost timer, every later timer of the interval is lost with it)", t - now - d));
                            return;
                        }
                        may::verif::thread::park_timeout(Duration::from_nanos(now + d + CHAIN_LOST + 1 - t));
                    }
                    c.log("tt.now", 0, c.now(), None);
                }
            }));
        }
        if late_timer {
            // the timer thread starts after some timers are already there
            ctx.sleep_ns(500_000);
            ctx.log("tt.now", 0, ctx.now(), None);
            timer_start = ctx.now();
            timer_h = Some(spawn_timer(ctx));
        }
        for h in hs {
            ctx.join(h);
        }
        // end-of-run barrier: past every deadline (and past every injected stall)
        let last = sh.lock().unwrap().tm.iter().filter(|t| t.added).map(|t| t.deadline).max().unwrap_or(0);
        let margin = if stalls { 200_000_000 } else { 1_000_000 };
        let now = ctx.now();
        if last + margin > now {
            ctx.sleep_ns(last + margin - now);
        }
        ctx.log("tt.now", 0, ctx.now(), None);
        let g = sh.lock().unwrap();
        for (id, t) in g.tm.iter().enumerate() {
            if !t.added {
                continue;
            }
            if t.fired.len() > 1 {
                ctx.fail(format!("timer {id} fired {} times", t.fired.len()));
            }
            if !t.del_called && t.fired.is_empty() {
                ctx.fail(format!("timer {id} (deadline {}) was never removed and never fired: the timer thread slept through it", t.deadline));
            }
            if let Some(&f) = t.fired.first() {
                if f < t.deadline {
                    ctx.fail(format!("timer {id} fired at {f}, before its deadline {}", t.deadline));
                }
                // (a timer thread that starts late serves what is overdue at once)
                if !stalls && f > t.deadline.max(timer_start) + SLACK {
                    ctx.fail(format!("timer {id} (deadline {}) fired only at {f} although nothing delayed the timer thread", t.deadline));
                }
            }
        }
        if std::env::var("MAYV_TT_STATS").is_ok() {
            let worst = g.tm.iter().filter(|t| t.added).filter_map(|t| t.fired.first().map(|f| f.saturating_sub(t.deadline.max(timer_start)))).max().unwrap_or(0);
            println!("STATS worst_lateness={worst}");
        }
        drop(g);
        let _ = timer_h;
    })
}
