//! C17 scenario: network I/O of may on real sockets under the baton scheduler.
//!
//! MAYV_SOCK = unixstream | unixdgram | tcp | udp, MAYV_CONNS = 1..3 connections, each with one writer and one
//! reader endpoint.  MAYV_WR / MAYV_RD = co | th | mix: the endpoint runs in a coroutine or in a plain thread
//! (plain threads go through the proxy coroutine of src/io/thread.rs).  Readiness is the real kernel's (epoll is
//! polled with timeout 0 at the worker's idle point), scheduling and time are the harness's.
//!
//! Stream sockets: the writer sends a seeded pseudo-random byte stream of 0 .. MAYV_SIZE bytes in chunks of
//! 1 .. MAYV_CHUNK bytes (MAYV_WRALL=1: `write_all`), then closes its end (MAYV_CLOSE = drop | shutdown); the reader
//! reads with buffers of 1 .. MAYV_BUF bytes until it sees 0.  MAYV_SOCKBUF=n sets SO_SNDBUF/SO_RCVBUF (the kernel
//! rounds up to its minimum: a few KB), so that writers block on a full buffer and readers on an empty one.
//! MAYV_DUPLEX=1: every endpoint both writes its own stream and reads the peer's on the two halves of `split()`.
//! Datagram sockets: MAYV_MSGS datagrams of 0 .. MAYV_CHUNK bytes; the reader's buffer is at least as large.
//!
//! MAYV_SOCK = unixaccept | tcpaccept: MAYV_LISTENERS listeners (unix: a path under /tmp; tcp: loopback, ephemeral port),
//! each with one acceptor coroutine, and MAYV_CONNS connector coroutines (`UnixStream::connect` / `TcpStream::connect`),
//! each starting after a seeded delay of at most MAYV_CLATE ns (acceptors: MAYV_ALATE), so that acceptors block on an
//! empty backlog and connections wait in the backlog.  unix: every connector then sends its stream and the server side
//! of the accepted connection (a coroutine per connection) reads it to the end.  tcp: MAYV_REFUSE=1 adds a connector
//! towards a port nobody listens on (must fail with ConnectionRefused); MAYV_NAG=n wakes the blocked acceptor n times
//! without a connection (oracle-only: WaitIoWaker is not part of IoModel).  Oracles: accept hands out every connection
//! exactly once and the one the kernel queued at that position (unix: the stream of the accepted socket is the stream
//! of that connector, byte by byte; tcp: the peer port of the accepted socket is the local port of that connector);
//! connect returns Ok exactly for the connectors towards a listener; nobody hangs.
//!
//! Oracles (on the implementation):
//!  * every byte arrives unmodified and in order: each received byte is compared with the generator at its stream
//!    offset (the first differing offset is reported); total and rolling hash are compared at the end
//!  * a write reports 1 ..= len bytes; a read reports 1 ..= buffer length, 0 only after the writer closed and only
//!    when everything sent has been received
//!  * datagrams keep their boundaries: the k-th receive returns exactly the k-th datagram (size and content)
//!  * nobody stays suspended: a hang is reported by the harness (a missed readiness edge)
use mayv::*;
use std::io::{Read, Write};
use std::os::unix::io::AsRawFd;
use std::sync::atomic::{AtomicBool, AtomicU64, Ordering};
use std::sync::Arc;

// the system-call tap: results of the non-blocking calls on tracked sockets, for the trace acceptor of IoModel
#[path = "iotap/tap.rs"]
mod tap;
/// "not tracked"
const NOF: u64 = u64::MAX;

/// O_NONBLOCK of a descriptor (every socket handed to a coroutine must have it: may's io loops rely on EAGAIN)
fn fd_nonblocking(fd: std::os::unix::io::RawFd) -> bool {
    extern "C" {
        fn fcntl(fd: i32, cmd: i32, ...) -> i32;
    }
    let fl = unsafe { fcntl(fd, 3) }; // F_GETFL
    fl >= 0 && (fl & 0o4000) != 0 // O_NONBLOCK (linux)
}

fn envs(k: &str, d: &str) -> String {
    std::env::var(k).unwrap_or_else(|_| d.into())
}
fn envn(k: &str, d: u64) -> u64 {
    std::env::var(k).ok().and_then(|s| s.parse().ok()).unwrap_or(d)
}

extern "C" {
    fn setsockopt(fd: i32, level: i32, name: i32, val: *const core::ffi::c_void, len: u32) -> i32;
}
const SOL_SOCKET: i32 = 1;
const SO_SNDBUF: i32 = 7;
const SO_RCVBUF: i32 = 8;
fn set_sockbuf(fd: i32, n: u64) {
    if n == 0 {
        return;
    }
    let v: i32 = n as i32;
    unsafe {
        setsockopt(fd, SOL_SOCKET, SO_SNDBUF, &v as *const i32 as *const _, 4);
        setsockopt(fd, SOL_SOCKET, SO_RCVBUF, &v as *const i32 as *const _, 4);
    }
}

/// private xorshift generator of one endpoint (seeded on main from the scheduler's generator)
struct Rng(u64);
impl Rng {
    fn next(&mut self) -> u64 {
        self.0 ^= self.0 >> 12;
        self.0 ^= self.0 << 25;
        self.0 ^= self.0 >> 27;
        self.0.wrapping_mul(0x2545F4914F6CDD1D)
    }
    fn range(&mut self, lo: u64, hi: u64) -> u64 {
        lo + self.next() % (hi - lo + 1)
    }
}

/// a schedule point of the scenario between two API calls.  Successive calls that succeed on the fast path pass
/// the single hooked access `IoData::reset` again and again, which the harness would take for a spin loop.
#[inline(never)]
fn brk() {
    may::verif::point("app.op", 0, 0);
}

/// byte `off` of the stream with seed `s`
#[inline]
fn gen(s: u64, off: u64) -> u8 {
    let x = (off.wrapping_add(s)).wrapping_mul(0x9E3779B97F4A7C15);
    ((x >> 29) ^ (x >> 47) ^ off) as u8
}
#[inline]
fn roll(h: u64, b: u8) -> u64 {
    (h ^ b as u64).wrapping_mul(0x100000001b3)
}

/// what the two ends of one direction of a connection share
struct Dir {
    seed: u64,
    total: u64,
    sent: AtomicU64,
    sent_hash: AtomicU64,
    closed: AtomicBool,
    // datagrams: sizes in order
    sizes: Vec<usize>,
}

fn write_stream<W: Write>(w: &mut W, d: &Dir, rng: &mut Rng, maxchunk: u64, wrall: bool, who: &str, tf: u64) {
    let c = mayv::ctx();
    let mut off = 0u64;
    let mut h = 0xcbf29ce484222325u64;
    let mut buf = vec![0u8; maxchunk as usize];
    while off < d.total {
        let n = if envn("MAYV_CHUNKED", 0) != 0 { maxchunk } else { rng.range(1, maxchunk) }.min(d.total - off) as usize;
        for i in 0..n {
            buf[i] = gen(d.seed, off + i as u64);
        }
        brk();
        if wrall {
            if let Err(e) = w.write_all(&buf[..n]) {
                c.fail(format!("{who}: write_all of {n} bytes at offset {off} failed: {e}"));
                return;
            }
            for i in 0..n {
                h = roll(h, buf[i]);
            }
            off += n as u64;
        } else {
            if tf != NOF {
                tap::call_wr(tf, false, off, n);
            }
            let res = w.write(&buf[..n]);
            if tf != NOF {
                match &res {
                    Ok(k) => tap::ret_ok(tf, off, *k),
                    Err(_) => tap::ret_err(tf),
                }
            }
            match res {
                Ok(k) if k >= 1 && k <= n => {
                    for i in 0..k {
                        h = roll(h, buf[i]);
                    }
                    off += k as u64;
                }
                Ok(k) => {
                    c.fail(format!("{who}: write of {n} bytes at offset {off} reported {k}"));
                    return;
                }
                Err(e) => {
                    c.fail(format!("{who}: write of {n} bytes at offset {off} failed: {e}"));
                    return;
                }
            }
        }
        d.sent.store(off, Ordering::SeqCst);
    }
    d.sent_hash.store(h, Ordering::SeqCst);
}

fn read_stream<R: Read>(r: &mut R, d: &Dir, rng: &mut Rng, maxbuf: u64, who: &str, tf: u64) {
    let c = mayv::ctx();
    let mut off = 0u64;
    let mut h = 0xcbf29ce484222325u64;
    let mut buf = vec![0u8; maxbuf as usize];
    let mut bad = false;
    loop {
        let n = if envn("MAYV_CHUNKED", 0) != 0 { maxbuf as usize } else { rng.range(1, maxbuf) as usize };
        brk();
        if tf != NOF {
            tap::call_rd(tf, false, None, n);
        }
        let res = r.read(&mut buf[..n]);
        if tf != NOF {
            match &res {
                Ok(k) => tap::ret_ok(tf, off, *k),
                Err(_) => tap::ret_err(tf),
            }
        }
        match res {
            Ok(0) => {
                if !d.closed.load(Ordering::SeqCst) {
                    c.fail(format!("{who}: read returned 0 at offset {off} although the writer has not closed (sent so far {})", d.sent.load(Ordering::SeqCst)));
                }
                break;
            }
            Ok(k) if k <= n => {
                for i in 0..k {
                    let e = gen(d.seed, off + i as u64);
                    if buf[i] != e && !bad {
                        bad = true;
                        c.fail(format!("{who}: stream differs first at offset {}: got {:#04x} expected {:#04x}", off + i as u64, buf[i], e));
                    }
                    h = roll(h, buf[i]);
                }
                off += k as u64;
                if off > d.sent.load(Ordering::SeqCst).max(d.total) {
                    c.fail(format!("{who}: received {off} bytes, more than were sent"));
                    break;
                }
            }
            Ok(k) => {
                c.fail(format!("{who}: read into {n} bytes reported {k}"));
                break;
            }
            Err(e) => {
                c.fail(format!("{who}: read at offset {off} failed: {e}"));
                break;
            }
        }
    }
    if off != d.total {
        c.fail(format!("{who}: end of stream after {off} bytes, {} were sent", d.total));
    } else if !bad && h != d.sent_hash.load(Ordering::SeqCst) {
        c.fail(format!("{who}: rolling hash of the received stream differs from the sent one"));
    }
}

fn msg_byte(seed: u64, k: usize, i: usize) -> u8 {
    gen(seed ^ ((k as u64) << 32), i as u64)
}

fn send_msgs(send: &dyn Fn(&[u8]) -> std::io::Result<usize>, d: &Dir, who: &str, tf: u64) {
    let c = mayv::ctx();
    for (k, &sz) in d.sizes.iter().enumerate() {
        let buf: Vec<u8> = (0..sz).map(|i| msg_byte(d.seed, k, i)).collect();
        brk();
        if tf != NOF {
            tap::call_wr(tf, true, k as u64, sz);
        }
        let res = send(&buf);
        if tf != NOF {
            match &res {
                Ok(n) => tap::ret_ok(tf, k as u64, *n),
                Err(_) => tap::ret_err(tf),
            }
        }
        match res {
            Ok(n) if n == sz => {}
            Ok(n) => c.fail(format!("{who}: send of datagram {k} ({sz} bytes) reported {n}")),
            Err(e) => {
                c.fail(format!("{who}: send of datagram {k} ({sz} bytes) failed: {e}"));
                return;
            }
        }
        d.sent.store(k as u64 + 1, Ordering::SeqCst);
    }
}

fn recv_msgs(recv: &dyn Fn(&mut [u8]) -> std::io::Result<usize>, d: &Dir, rng: &mut Rng, maxmsg: u64, who: &str, tf: u64) {
    let c = mayv::ctx();
    let mut buf = vec![0u8; (maxmsg + 64) as usize];
    // MAYV_RDSLOW=n: the receiver pauses before every n-th receive, so that the sender runs into a full queue
    let rdslow = envn("MAYV_RDSLOW", 0) as usize;
    for (k, &sz) in d.sizes.iter().enumerate() {
        let n = rng.range(maxmsg.max(1), maxmsg + 64) as usize;
        if rdslow != 0 && k % rdslow == 0 {
            may::coroutine::sleep(std::time::Duration::from_micros(300));
        }
        brk();
        if tf != NOF {
            tap::call_rd(tf, true, None, n);
        }
        let res = recv(&mut buf[..n]);
        if tf != NOF {
            match &res {
                Ok(got) => tap::ret_ok(tf, k as u64, *got),
                Err(_) => tap::ret_err(tf),
            }
        }
        match res {
            Ok(got) => {
                if got != sz {
                    c.fail(format!("{who}: datagram {k} has {got} bytes, {sz} were sent (boundary lost)"));
                    return;
                }
                if let Some(i) = (0..sz).find(|&i| buf[i] != msg_byte(d.seed, k, i)) {
                    c.fail(format!("{who}: datagram {k} differs first at offset {i}"));
                    return;
                }
            }
            Err(e) => {
                c.fail(format!("{who}: receive of datagram {k} failed: {e}"));
                return;
            }
        }
    }
}

type Job = Box<dyn FnOnce() + Send + 'static>;

/// MAYV_SOCK = unixaccept | tcpaccept (see the head of the file)
#[allow(clippy::too_many_arguments)]
fn accept_jobs(ctx: &Ctx, tcp: bool, conns: usize, maxsize: u64, maxchunk: u64, maxbuf: u64, tap_on: bool) -> Vec<(String, bool, Job)> {
    use std::sync::Mutex;
    tap::tables(true);
    let nl = (envn("MAYV_LISTENERS", 1) as usize).max(1);
    let clate = envn("MAYV_CLATE", 400_000);
    let alate = envn("MAYV_ALATE", 400_000);
    let refuse = tcp && envn("MAYV_REFUSE", 0) == 1;
    const LBASE: u64 = 200;
    let mut jobs: Vec<(String, bool, Job)> = vec![];
    let dirs: Arc<Vec<Arc<Dir>>> = Arc::new(
        (0..conns)
            .map(|_| {
                let seed = ctx.rand();
                let total = if tcp { 0 } else { match ctx.rand() % 6 { 0 => 0, 1 => 1 + ctx.rand() % 16, _ => ctx.rand() % (maxsize + 1) } };
                Arc::new(Dir { seed, total, sent: AtomicU64::new(0), sent_hash: AtomicU64::new(0), closed: AtomicBool::new(false), sizes: vec![] })
            })
            .collect(),
    );
    // tcp: local port of connector j (0: not connected yet), (connecting descriptor, peer port) of every accepted socket
    let ports: Arc<Vec<AtomicU64>> = Arc::new((0..conns).map(|_| AtomicU64::new(0)).collect());
    let accepted: Arc<Mutex<Vec<(u64, u64)>>> = Arc::new(Mutex::new(vec![]));
    enum Addr {
        U(std::path::PathBuf),
        T(std::net::SocketAddr),
    }
    let mut addrs: Vec<Addr> = vec![];
    for i in 0..nl {
        let l = LBASE + 2 * i as u64;
        let cnt = (0..conns).filter(|j| j % nl == i).count();
        let late = if alate > 0 { ctx.rand() % (alate + 1) } else { 0 };
        let (dirs, accepted) = (dirs.clone(), accepted.clone());
        let seeds: Vec<u64> = (0..conns).map(|_| ctx.rand() | 1).collect();
        if tcp {
            let lst = may::net::TcpListener::bind("127.0.0.1:0").expect("bind");
            tap::track_listener(lst.as_raw_fd(), l, false);
            addrs.push(Addr::T(lst.local_addr().expect("addr")));
            // MAYV_NAG=n: a helper wakes whoever is suspended on the listener n times without a connection
            // (WaitIoWaker::wakeup): the acceptor goes through the retry loop of `done()` with an accept that finds nothing
            let nag = envn("MAYV_NAG", 0);
            if nag > 0 {
                use may::io::WaitIo;
                let wk = lst.waker();
                let gap = envn("MAYV_NAGGAP", 200_000);
                jobs.push((format!("l{i}.nag"), true, Box::new(move || {
                    for _ in 0..nag {
                        may::coroutine::sleep(std::time::Duration::from_nanos(gap));
                        wk.wakeup();
                    }
                })));
            }
            jobs.push((format!("l{i}.acc"), true, Box::new(move || {
                let c = mayv::ctx();
                if late > 0 {
                    may::coroutine::sleep(std::time::Duration::from_nanos(late));
                }
                for k in 0..cnt {
                    brk();
                    tap::call_acc(l);
                    match lst.accept() {
                        Ok((s, peer)) => {
                            let who = tap::last_accepted(l).unwrap_or(0xffff);
                            tap::ret_ok(l, 0, who as usize);
                            if may::coroutine::is_coroutine() && !fd_nonblocking(s.as_raw_fd()) {
                                c.fail(format!("acceptor {i}: accept number {k} returned a socket in blocking mode to a coroutine (its first read would block the worker thread instead of the coroutine)"));
                            }
                            accepted.lock().unwrap().push((who, peer.port() as u64));
                            drop(s);
                        }
                        Err(e) => {
                            tap::ret_err(l);
                            c.fail(format!("acceptor {i}: accept number {k} failed: {e}"));
                            return;
                        }
                    }
                }
                drop(lst);
            })));
        } else {
            let path = std::path::PathBuf::from(format!("/tmp/mayv_{}_{i}.sock", std::process::id()));
            let _ = std::fs::remove_file(&path);
            let lst = may::os::unix::net::UnixListener::bind(&path).expect("bind");
            tap::track_listener(lst.as_raw_fd(), l, true);
            addrs.push(Addr::U(path.clone()));
            jobs.push((format!("l{i}.acc"), true, Box::new(move || {
                let c = mayv::ctx();
                if late > 0 {
                    may::coroutine::sleep(std::time::Duration::from_nanos(late));
                }
                let mut handlers = vec![];
                for k in 0..cnt {
                    brk();
                    tap::call_acc(l);
                    match lst.accept() {
                        Ok((mut s, _)) => {
                            let who = tap::last_accepted(l).unwrap_or(0xffff);
                            tap::ret_ok(l, 0, who as usize);
                            if may::coroutine::is_coroutine() && !fd_nonblocking(s.as_raw_fd()) {
                                c.fail(format!("acceptor {i}: accept number {k} returned a socket in blocking mode to a coroutine (its first read would block the worker thread instead of the coroutine)"));
                            }
                            let j = (who / 2) as usize;
                            if who == 0xffff || j >= dirs.len() {
                                c.fail(format!("acceptor {i}: accept number {k} returned a connection nobody issued"));
                                return;
                            }
                            accepted.lock().unwrap().push((who, 0));
                            let d = dirs[j].clone();
                            let sd = seeds[j];
                            let h = unsafe {
                                may::coroutine::Builder::new().name(format!("l{i}.srv{j}")).spawn(move || {
                                    read_stream(&mut s, &d, &mut Rng(sd), maxbuf, "server", if tap_on { who ^ 1 } else { NOF });
                                }).unwrap()
                            };
                            handlers.push(h);
                        }
                        Err(e) => {
                            tap::ret_err(l);
                            c.fail(format!("acceptor {i}: accept number {k} failed: {e}"));
                            return;
                        }
                    }
                }
                for h in handlers {
                    if h.join().is_err() {
                        c.fail(format!("acceptor {i}: a server side coroutine panicked"));
                    }
                }
                drop(lst);
                let _ = std::fs::remove_file(&path);
            })));
        }
    }
    let addrs = Arc::new(addrs);
    for j in 0..conns {
        let f = 2 * j as u64;
        let i = j % nl;
        let l = LBASE + 2 * i as u64;
        let late = if clate > 0 { ctx.rand() % (clate + 1) } else { 0 };
        let sd = ctx.rand() | 1;
        let (dirs, addrs, ports) = (dirs.clone(), addrs.clone(), ports.clone());
        jobs.push((format!("c{j}.conn"), true, Box::new(move || {
            let c = mayv::ctx();
            if late > 0 {
                may::coroutine::sleep(std::time::Duration::from_nanos(late));
            }
            brk();
            tap::pend_connect(f, l);
            match &addrs[i] {
                Addr::U(path) => {
                    // UnixStreamConnect::subscribe always arms a 2 s timer
                    tap::call_co(f, l, Some(2_000_000_000));
                    match may::os::unix::net::UnixStream::connect(path) {
                        Ok(mut s) => {
                            tap::ret_ok(f, 0, 0);
                            let d = dirs[j].clone();
                            write_stream(&mut s, &d, &mut Rng(sd), maxchunk, false, "client", if tap_on { f } else { NOF });
                            d.closed.store(true, Ordering::SeqCst);
                            drop(s);
                        }
                        Err(e) => {
                            tap::ret_err(f);
                            c.fail(format!("connector {j}: connect failed: {e}"));
                        }
                    }
                }
                Addr::T(addr) => {
                    tap::call_co(f, l, None);
                    match may::net::TcpStream::connect(addr) {
                        Ok(s) => {
                            tap::ret_ok(f, 0, 0);
                            ports[j].store(s.local_addr().map(|a| a.port() as u64).unwrap_or(0), Ordering::SeqCst);
                            drop(s);
                        }
                        Err(e) => {
                            tap::ret_err(f);
                            c.fail(format!("connector {j}: connect failed: {e}"));
                        }
                    }
                }
            }
        })));
    }
    if refuse {
        // a port nobody listens on and nobody else can get (check runs scenario processes in parallel): a socket that
        // is bound but does not listen, kept open until the process ends
        let dead = unsafe {
            #[repr(C)]
            struct SockaddrIn {
                family: u16,
                port: u16,
                addr: u32,
                zero: [u8; 8],
            }
            extern "C" {
                fn socket(d: i32, t: i32, p: i32) -> i32;
                fn bind(fd: i32, addr: *const SockaddrIn, len: u32) -> i32;
                fn getsockname(fd: i32, addr: *mut SockaddrIn, len: *mut u32) -> i32;
            }
            let fd = socket(2, 1, 0);
            let mut a = SockaddrIn { family: 2, port: 0, addr: u32::from_ne_bytes([127, 0, 0, 1]), zero: [0; 8] };
            assert!(fd >= 0 && bind(fd, &a, 16) == 0, "bind of the dead port");
            let mut len = 16u32;
            assert!(getsockname(fd, &mut a, &mut len) == 0);
            std::net::SocketAddr::from(([127, 0, 0, 1], u16::from_be(a.port)))
        };
        let f = 2 * conns as u64;
        let late = if clate > 0 { ctx.rand() % (clate + 1) } else { 0 };
        jobs.push(("refused.conn".into(), true, Box::new(move || {
            let c = mayv::ctx();
            if late > 0 {
                may::coroutine::sleep(std::time::Duration::from_nanos(late));
            }
            brk();
            tap::pend_connect(f, 250);
            tap::call_co(f, 250, None);
            match may::net::TcpStream::connect(dead) {
                Ok(_) => {
                    tap::ret_ok(f, 0, 0);
                    c.fail("connect to a port nobody listens on returned Ok".to_string());
                }
                Err(e) => {
                    tap::ret_err(f);
                    if e.kind() != std::io::ErrorKind::ConnectionRefused {
                        c.fail(format!("connect to a port nobody listens on failed with {e}, expected ConnectionRefused"));
                    }
                }
            }
        })));
    }
    // the final comparison runs after everybody has been joined: as the last job to be joined
    {
        let (ports, accepted) = (ports.clone(), accepted.clone());
        ACCEPT_FINAL.lock().unwrap().replace(Box::new(move || {
            let c = mayv::ctx();
            let mut acc = accepted.lock().unwrap().clone();
            if acc.len() != conns {
                c.fail(format!("{} connections accepted, {conns} connectors", acc.len()));
            }
            acc.sort();
            for w in acc.windows(2) {
                if w[0].0 == w[1].0 {
                    c.fail(format!("the connection of descriptor {} was accepted twice", w[0].0));
                }
            }
            if tcp {
                for (who, port) in acc {
                    let j = (who / 2) as usize;
                    if j < ports.len() && ports[j].load(Ordering::SeqCst) != port {
                        c.fail(format!("accept handed out the connection from port {port} at the position of connector {j} (port {})", ports[j].load(Ordering::SeqCst)));
                    }
                }
            }
        }));
    }
    jobs
}
static ACCEPT_FINAL: std::sync::Mutex<Option<Box<dyn FnOnce() + Send>>> = std::sync::Mutex::new(None);

/// What to do with a half of a split stream once its direction is done: drop it (default), which closes a dup of a
/// socket whose other half is still in use.  Before the repair "CoIo deregisters its fd from the selector before
/// closing it" (finding F15) that left a dangling epoll registration and later events were written through the
/// freed `EventData` (notes/c1718/repro/src/splitdrop.rs): every duplex run crashed at random.  MAYV_SPLITKEEP=1
/// keeps the halves until the process ends instead.
fn park_half<T>(half: T) {
    if envn("MAYV_SPLITKEEP", 0) == 1 {
        std::mem::forget(half);
    } else {
        drop(half);
    }
}

/// A plain-thread endpoint.  A thread that used may's I/O owns a thread-local proxy coroutine whose destructor runs
/// when the OS thread exits, i.e. after the harness has already passed the baton on: those accesses would race with
/// the baton holder.  Therefore the thread reports its end through a wake key and then blocks for good (without a
/// deadline, so the hang detector still works); the process leaves through `_exit`.
fn spawn_thread_endpoint(ctx: &Ctx, name: &str, idx: usize, job: Job) -> Box<dyn FnOnce()> {
    use may::verif::Hooks;
    const DONE_KEY: usize = 0x6000_0000;
    const REST_KEY: usize = 0x6100_0000;
    let _ = ctx.spawn(name, move || {
        job();
        let h: &dyn Hooks = mayv::ctl();
        h.wake(DONE_KEY + idx);
        h.block(REST_KEY + idx, None);
    });
    Box::new(move || {
        let h: &dyn Hooks = mayv::ctl();
        h.block(DONE_KEY + idx, None);
    })
}

extern "C" {
    fn close(fd: i32) -> i32;
}

fn main() {
    // descriptor numbers decide which selector serves a socket (fd % workers): do not let descriptors inherited from
    // the caller (e.g. the lock file of `flock`) shift them, the run must be a function of (env, seed) only
    for fd in 3..64 {
        unsafe { close(fd) };
    }
    let mut cfg = Config::from_env();
    cfg.poll_io = true;
    // MAYV_SCHED_FILES=a.rs,b.rs: only hooks in these files are schedule (and stall) points
    if let Ok(l) = std::env::var("MAYV_SCHED_FILES") {
        cfg.sched_files = l.split(',').filter(|x| !x.is_empty()).map(|x| &*Box::leak(x.to_string().into_boxed_str())).collect();
    }
    let sock = envs("MAYV_SOCK", "unixstream");
    let conns = envn("MAYV_CONNS", 1) as usize;
    let maxsize = envn("MAYV_SIZE", 20_000);
    let maxchunk = envn("MAYV_CHUNK", 3000).max(1);
    let maxbuf = envn("MAYV_BUF", 3000).max(1);
    let sockbuf = envn("MAYV_SOCKBUF", 1);
    let wr_sel = envs("MAYV_WR", "mix");
    let rd_sel = envs("MAYV_RD", "mix");
    let wrall = envn("MAYV_WRALL", 0) == 1;
    let duplex = envn("MAYV_DUPLEX", 0) == 1;
    let close_how = envs("MAYV_CLOSE", "mix");
    let nmsgs = envn("MAYV_MSGS", 12) as usize;
    // MAYV_NAG=n (plain stream connections): a helper coroutine wakes whoever is suspended on the reader's socket n
    // times (WaitIoWaker::wakeup: a readiness report without data, like the "writable" edge of the same descriptor),
    // MAYV_NAGGAP ns apart: the reader goes through the retry loop of `done()` with a read that finds nothing.
    // MAYV_WRLATE / MAYV_RDLATE=ns: the writer / reader starts late (the other side blocks first / the buffers fill up).
    // MAYV_MINSIZE=n: no stream is shorter than n bytes.
    let nag = envn("MAYV_NAG", 0);
    let naggap = envn("MAYV_NAGGAP", 200_000);
    let wrlate = envn("MAYV_WRLATE", 0);
    let rdlate = envn("MAYV_RDLATE", 0);
    let minsize = envn("MAYV_MINSIZE", 0);
    // MAYV_CHUNKED=s (stream sockets): every write offers exactly s bytes and every read asks for exactly s bytes, so
    // that "the socket buffer is full" is a function of the number of unread writes (measured on a probe connection
    // and announced to the trace acceptor): the variant in which the acceptor follows blocked WRITERS
    let chunked = envn("MAYV_CHUNKED", 0);
    let (maxchunk, maxbuf) = if chunked != 0 { (chunked, chunked) } else { (maxchunk, maxbuf) };
    run(cfg, move |ctx| {
        let tap_on = tap::enable();
        if tap_on && chunked != 0 {
            let n = tap::probe_stream_capacity(chunked as usize, &|fd| set_sockbuf(fd, sockbuf));
            tap::cap(n * chunked);
        }
        // Every worker leaves its first `select` before the scenario starts: that first call has no timeout, and under
        // the harness only `wakeup` ends a virtual wait - a kernel event for a descriptor of a worker that nobody has
        // woken yet would never be polled (a false HANG of the harness, not of may: the real epoll_wait returns).
        // Spawning from this (non-worker) thread wakes the workers round-robin.
        for _ in 0..envn("MAYV_WORKERS", 2) {
            let h = unsafe { may::coroutine::spawn(|| {}) };
            let _ = h.join();
        }
        let mut jobs: Vec<(String, bool, Job)> = vec![];
        let pick = |sel: &str, r: u64| match sel {
            "co" => true,
            "th" => false,
            _ => r % 2 == 0,
        };
        if sock == "unixaccept" || sock == "tcpaccept" {
            jobs = accept_jobs(ctx, sock == "tcpaccept", conns, maxsize, maxchunk, maxbuf, tap_on);
        }
        for cn in 0..(if sock == "unixaccept" || sock == "tcpaccept" { 0 } else { conns }) {
            let mk_dir = |ctx: &Ctx, dgram: bool| {
                let seed = ctx.rand();
                let total = match ctx.rand() % 8 {
                    0 => 0,
                    1 => 1 + ctx.rand() % 16,
                    _ => ctx.rand() % (maxsize + 1),
                };
                let total = if chunked != 0 { total / chunked * chunked } else { total.max(minsize) };
                let sizes: Vec<usize> = if dgram {
                    (0..nmsgs).map(|_| if ctx.rand() % 6 == 0 { 0 } else { (ctx.rand() % (maxchunk + 1)) as usize }).collect()
                } else {
                    vec![]
                };
                Arc::new(Dir { seed, total, sent: AtomicU64::new(0), sent_hash: AtomicU64::new(0), closed: AtomicBool::new(false), sizes })
            };
            let w_co = pick(&wr_sel, ctx.rand());
            let r_co = pick(&rd_sel, ctx.rand());
            let shut = match close_how.as_str() {
                "drop" => false,
                "shutdown" => true,
                _ => ctx.rand() % 2 == 0,
            };
            let (rs1, rs2, rs3, rs4) = (ctx.rand() | 1, ctx.rand() | 1, ctx.rand() | 1, ctx.rand() | 1);
            // model descriptors of this connection (MAYV_TAP=1: sockets of plain, non-split unix connections are tracked)
            let tracked = tap_on && ((sock == "unixstream" && !duplex && !wrall) || sock == "unixdgram");
            let (tfa, tfb) = if tracked { (2 * cn as u64, 2 * cn as u64 + 1) } else { (NOF, NOF) };
            match sock.as_str() {
                "unixstream" | "tcp" => {
                    // the two connected stream endpoints, as boxed Read + Write + split
                    let ab = mk_dir(ctx, false);
                    let ba = mk_dir(ctx, false);
                    macro_rules! stream_jobs {
                        ($a:expr, $b:expr, $shutdown:expr) => {{
                            let (mut a, mut b) = ($a, $b);
                            if duplex {
                                use may::io::SplitIo;
                                let (mut ar, mut aw) = a.split().expect("split");
                                let (mut br, mut bw) = b.split().expect("split");
                                let (d1, d2, d3, d4) = (ab.clone(), ab.clone(), ba.clone(), ba.clone());
                                jobs.push((format!("c{cn}.aw"), w_co, Box::new(move || {
                                    write_stream(&mut aw, &d1, &mut Rng(rs1), maxchunk, wrall, "a.writer", NOF);
                                    d1.closed.store(true, Ordering::SeqCst);
                                    let _ = $shutdown(aw.inner(), std::net::Shutdown::Write);
                                    park_half(aw);
                                })));
                                jobs.push((format!("c{cn}.br"), r_co, Box::new(move || {
                                    read_stream(&mut br, &d2, &mut Rng(rs2), maxbuf, "b.reader", NOF);
                                    park_half(br);
                                })));
                                jobs.push((format!("c{cn}.bw"), r_co, Box::new(move || {
                                    write_stream(&mut bw, &d3, &mut Rng(rs3), maxchunk, wrall, "b.writer", NOF);
                                    d3.closed.store(true, Ordering::SeqCst);
                                    let _ = $shutdown(bw.inner(), std::net::Shutdown::Write);
                                    park_half(bw);
                                })));
                                jobs.push((format!("c{cn}.ar"), w_co, Box::new(move || {
                                    read_stream(&mut ar, &d4, &mut Rng(rs4), maxbuf, "a.reader", NOF);
                                    park_half(ar);
                                })));
                            } else {
                                let (d1, d2) = (ab.clone(), ab.clone());
                                if nag > 0 {
                                    use may::io::WaitIo;
                                    let wk = b.waker();
                                    jobs.push((format!("c{cn}.nag"), true, Box::new(move || {
                                        for _ in 0..nag {
                                            may::coroutine::sleep(std::time::Duration::from_nanos(naggap));
                                            wk.wakeup();
                                        }
                                    })));
                                }
                                jobs.push((format!("c{cn}.w"), w_co, Box::new(move || {
                                    if wrlate > 0 {
                                        may::coroutine::sleep(std::time::Duration::from_nanos(wrlate));
                                    }
                                    write_stream(&mut a, &d1, &mut Rng(rs1), maxchunk, wrall, "writer", tfa);
                                    d1.closed.store(true, Ordering::SeqCst);
                                    if shut {
                                        let _ = $shutdown(&a, std::net::Shutdown::Write);
                                        // keep the socket open until the peer is done reading? no: dropping after shutdown is the normal use
                                    }
                                    drop(a);
                                })));
                                jobs.push((format!("c{cn}.r"), r_co, Box::new(move || {
                                    if rdlate > 0 {
                                        may::coroutine::sleep(std::time::Duration::from_nanos(rdlate));
                                    }
                                    read_stream(&mut b, &d2, &mut Rng(rs2), maxbuf, "reader", tfb);
                                })));
                            }
                        }};
                    }
                    if sock == "unixstream" {
                        let (a, b) = may::os::unix::net::UnixStream::pair().expect("pair");
                        set_sockbuf(a.as_raw_fd(), sockbuf);
                        set_sockbuf(b.as_raw_fd(), sockbuf);
                        if tap_on && !duplex && !wrall {
                            tap::track(a.as_raw_fd(), tfa, false);
                            tap::track(b.as_raw_fd(), tfb, false);
                        }
                        stream_jobs!(a, b, |s: &may::os::unix::net::UnixStream, how| s.shutdown(how));
                    } else {
                        // loopback TCP on an ephemeral port: accept in a coroutine, connect from main
                        let l = may::net::TcpListener::bind("127.0.0.1:0").expect("bind");
                        let addr = l.local_addr().expect("addr");
                        let acc = unsafe { may::coroutine::Builder::new().name(format!("c{cn}.acc")).spawn(move || l.accept().map(|x| x.0)).unwrap() };
                        let a = may::net::TcpStream::connect(addr).expect("connect");
                        let b = match acc.join() {
                            Ok(Ok(s)) => s,
                            other => {
                                ctx.fail(format!("accept failed: {:?}", other.map(|r| r.map(|_| ()))));
                                return;
                            }
                        };
                        set_sockbuf(a.as_raw_fd(), sockbuf);
                        set_sockbuf(b.as_raw_fd(), sockbuf);
                        a.set_nodelay(true).ok();
                        b.set_nodelay(true).ok();
                        stream_jobs!(a, b, |s: &may::net::TcpStream, how| s.shutdown(how));
                    }
                }
                "unixdgram" => {
                    let d = mk_dir(ctx, true);
                    let (a, b) = may::os::unix::net::UnixDatagram::pair().expect("pair");
                    set_sockbuf(a.as_raw_fd(), sockbuf);
                    set_sockbuf(b.as_raw_fd(), sockbuf);
                    if tap_on {
                        tap::track(a.as_raw_fd(), tfa, true);
                        tap::track(b.as_raw_fd(), tfb, true);
                    }
                    let (d1, d2) = (d.clone(), d.clone());
                    jobs.push((format!("c{cn}.w"), w_co, Box::new(move || {
                        send_msgs(&|m| a.send(m), &d1, "sender", tfa);
                        d1.closed.store(true, Ordering::SeqCst);
                    })));
                    jobs.push((format!("c{cn}.r"), r_co, Box::new(move || {
                        recv_msgs(&|m| b.recv(m), &d2, &mut Rng(rs2), maxchunk, "receiver", tfb);
                    })));
                }
                "udp" => {
                    let d = mk_dir(ctx, true);
                    let a = may::net::UdpSocket::bind("127.0.0.1:0").expect("bind");
                    let b = may::net::UdpSocket::bind("127.0.0.1:0").expect("bind");
                    let (aa, ba) = (a.local_addr().unwrap(), b.local_addr().unwrap());
                    let connected = ctx.rand() % 2 == 0;
                    if connected {
                        a.connect(ba).expect("connect");
                        b.connect(aa).expect("connect");
                    }
                    let (d1, d2) = (d.clone(), d.clone());
                    jobs.push((format!("c{cn}.w"), w_co, Box::new(move || {
                        if connected {
                            send_msgs(&|m| a.send(m), &d1, "sender", NOF);
                        } else {
                            send_msgs(&|m| a.send_to(m, ba), &d1, "sender", NOF);
                        }
                        d1.closed.store(true, Ordering::SeqCst);
                    })));
                    jobs.push((format!("c{cn}.r"), r_co, Box::new(move || {
                        if connected {
                            recv_msgs(&|m| b.recv(m), &d2, &mut Rng(rs2), maxchunk, "receiver", NOF);
                        } else {
                            recv_msgs(
                                &|m| {
                                    b.recv_from(m).map(|(n, from)| {
                                        if from != aa {
                                            mayv::ctx().fail(format!("receiver: datagram from {from}, expected {aa}"));
                                        }
                                        n
                                    })
                                },
                                &d2,
                                &mut Rng(rs2),
                                maxchunk,
                                "receiver",
                                NOF,
                            );
                        }
                    })));
                }
                other => panic!("MAYV_SOCK={other}"),
            }
        }
        // start the endpoints in a seeded order
        let mut order: Vec<usize> = (0..jobs.len()).collect();
        for i in (1..order.len()).rev() {
            let j = (ctx.rand() % (i as u64 + 1)) as usize;
            order.swap(i, j);
        }
        let mut slots: Vec<Option<(String, bool, Job)>> = jobs.into_iter().map(Some).collect();
        let mut joins: Vec<Box<dyn FnOnce()>> = vec![];
        for i in order {
            let (name, in_co, job) = slots[i].take().unwrap();
            if in_co {
                let h = unsafe { may::coroutine::Builder::new().name(name.clone()).spawn(job).unwrap() };
                joins.push(Box::new(move || {
                    if h.join().is_err() {
                        mayv::ctx().fail(format!("endpoint coroutine {name} panicked"));
                    }
                }));
            } else {
                joins.push(spawn_thread_endpoint(ctx, &name, i, job));
            }
        }
        for j in joins {
            j();
        }
        if let Some(f) = ACCEPT_FINAL.lock().unwrap().take() {
            f();
        }
    })
}
