//! C02 scenario: park / unpark never loses a wake-up.
//!
//! One parker does MAYV_NP rounds of park on
//!   MAYV_MODE=co   its own coroutine handle (`may::coroutine::park` / `park_timeout`: the shared per-coroutine Park),
//!   MAYV_MODE=blk  a fresh `may::sync::Blocker` per round inside a coroutine (a fresh `Park`: what every primitive uses),
//!   MAYV_MODE=thr  a `may::sync::Blocker` of a plain thread (`ThreadPark`), fresh per round with MAYV_FRESH=1.
//! Round r (1-based) uses timeout MAYV_TO[r-1] (micro seconds, `n` = none) and is unparked by the unparkers
//! whose entry in MAYV_UNP (a list of `<kind><round>`: kind t = thread, c = coroutine, s = the parker itself
//! before it parks) names that round.  An unparker waits until the parker has announced the round (so its
//! unpark is issued after the previous park returned), waits a seeded delay and unparks.
//! MAYV_CANCEL=r: a thread cancels the parker coroutine during round r.
//!
//! Oracles (on the implementation, independent of the model):
//!  * a park that was given an unpark after the previous park returned, returns (otherwise the harness reports HANG)
//!  * every timed park returns by call + d + 1 ms (+ the injected stall time)
//!  * a fresh blocker never reports Timeout before call + d, Ok only if an unpark was issued for it,
//!    Canceled only if the cancel was issued
//!  * the join of a cancelled parker returns Err, a cancelled parker never gets past its next park
use mayv::*;
use std::sync::atomic::{AtomicBool, AtomicUsize, Ordering};
use std::sync::{Arc, Mutex};
use std::time::Duration;

fn envs(k: &str, d: &str) -> String {
    std::env::var(k).unwrap_or_else(|_| d.to_string())
}
fn envn(k: &str, d: usize) -> usize {
    std::env::var(k).ok().and_then(|s| s.parse().ok()).unwrap_or(d)
}

struct Shared {
    round: AtomicUsize,      // last round announced by the parker
    done: AtomicBool,        // the parker is gone
    cancel_issued: AtomicBool, // the cancel call has started
    cancel_done: AtomicBool,   // the cancel call has returned
    unparks: Vec<AtomicUsize>, // per round: unparks issued
    gens: Vec<AtomicUsize>,    // per round: generation of the blocker parked on (0 = the coroutine's own Park)
    blk: Vec<Mutex<Option<Arc<may::sync::Blocker>>>>, // per round: the blocker parked on (blk / thr mode)
    co: Mutex<Option<may::coroutine::Coroutine>>, // the parker's handle (co mode)
    sems: Vec<may::sync::Semphore>, // per round: releases the coroutine unparkers of that round (a spinning coroutine would starve its worker's global queue)
    ncou: Vec<AtomicUsize>,         // per round: number of coroutine unparkers
}

struct DoneGuard(Arc<Shared>);
impl Drop for DoneGuard {
    fn drop(&mut self) {
        self.0.done.store(true, Ordering::SeqCst);
        // nobody may be left waiting for a round that never comes
        let last = self.0.round.load(Ordering::SeqCst);
        for r in last + 1..self.0.sems.len() {
            for _ in 0..self.0.ncou[r].load(Ordering::SeqCst) {
                self.0.sems[r].post();
            }
        }
    }
}

#[derive(Clone, Copy, PartialEq, Debug)]
enum Mode {
    Co,
    Blk,
    Thr,
}

/// the slack a timed call may take on top of its duration: rounding to ms plus whatever the harness injected
fn stall_budget() -> u64 {
    match std::env::var("MAYV_STALL") {
        Err(_) => 0,
        Ok(s) => {
            let p: Vec<&str> = s.split(':').collect();
            if p[0].parse::<u64>().unwrap_or(0) == 0 {
                return 0;
            }
            let v: Vec<u64> = p.get(1).map(|x| x.split(',').filter_map(|y| y.parse().ok()).collect()).unwrap_or_default();
            let m = if v.is_empty() { 30_000_000 } else { *v.iter().max().unwrap() };
            m * envn("MAYV_MAX_STALLS", 3) as u64
        }
    }
}

fn parker_body(sh: Arc<Shared>, mode: Mode, tos: Vec<Option<u64>>, selfun: Vec<bool>, fresh: bool, cancel_round: usize) {
    let ign = envn("MAYV_IGN", 0) == 1;
    let c = mayv::ctx();
    let _g = DoneGuard(sh.clone());
    let np = tos.len();
    // a park that first has to wait for the kernel half of the previous one spins (yield_now); the harness lets
    // virtual time pass for a spinning thread, up to the next pending deadline (idle poll of a worker: 10 ms)
    let slack = stall_budget() + 45_000_000;
    c.log("parker", may::verif::current_co_id(), c.now(), None);
    let mut cur: Option<Arc<may::sync::Blocker>> = None;
    let mut curgen = 0usize;
    for r in 1..=np {
        let d = tos[r - 1];
        if mode != Mode::Co {
            if cur.is_none() || fresh || r == 1 {
                let b = Arc::new(may::sync::Blocker::new(ign));
                c.log(if ign { "blk.newi" } else { "blk.new" }, r as u64, c.now(), None);
                cur = Some(b);
                curgen = r;
            }
            sh.gens[r].store(curgen, Ordering::SeqCst);
            *sh.blk[r].lock().unwrap() = cur.clone();
        }
        // announce the round: from now on the unparkers of this round may fire
        sh.round.store(r, Ordering::SeqCst);
        for _ in 0..sh.ncou[r].load(Ordering::SeqCst) {
            sh.sems[r].post();
        }
        if selfun[r - 1] {
            sh.unparks[r].fetch_add(1, Ordering::SeqCst);
            c.log("unpark.call", sh.gens[r].load(Ordering::SeqCst) as u64, c.now(), None);
            match mode {
                Mode::Co => may::coroutine::current().unpark(),
                _ => cur.as_ref().unwrap().unpark(),
            }
            c.log("unpark.ret", r as u64, c.now(), None);
        }
        let t0 = c.now();
        // a = duration in ns + 1, 0 = none
        c.log("park.call", d.map(|x| x * 1000 + 1).unwrap_or(0), t0, None);
        let verdict: u64 = match mode {
            Mode::Co => {
                match d {
                    None => may::coroutine::park(),
                    Some(us) => may::coroutine::park_timeout(Duration::from_micros(us)),
                }
                3
            }
            _ => match cur.as_ref().unwrap().park(d.map(Duration::from_micros)) {
                Ok(()) => 0,
                Err(may::coroutine::ParkError::Timeout) => 1,
                Err(may::coroutine::ParkError::Canceled) => 2,
            },
        };
        let t1 = c.now();
        c.log("park.ret", verdict, t1, None);
        if let Some(us) = d {
            let bound = t0 + us * 1000 + 1_000_000 + slack;
            if t1 > bound {
                c.fail(format!("timed-park-late mode={mode:?} round={r} d={us}us call={t0} ret={t1} bound={bound}"));
            }
        }
        // verdict oracles: only a park on a fresh Park / a ThreadPark promises them
        let fresh_park = mode == Mode::Thr || fresh;
        if fresh_park {
            match verdict {
                0 => {
                    // all unparks of this blocker: the rounds that used it
                    let mut n = 0;
                    for q in 1..=r {
                        if fresh && q != r {
                            continue;
                        }
                        n += sh.unparks[q].load(Ordering::SeqCst);
                    }
                    if n == 0 {
                        c.fail(format!("park-ok-without-unpark mode={mode:?} round={r}"));
                    }
                }
                1 => match d {
                    None => c.fail(format!("timeout-without-deadline mode={mode:?} round={r}")),
                    Some(us) => {
                        if t1 < t0 + us * 1000 {
                            c.fail(format!("timeout-early mode={mode:?} round={r} d={us}us call={t0} ret={t1}"));
                        }
                    }
                },
                2 => {
                    if !sh.cancel_issued.load(Ordering::SeqCst) {
                        c.fail(format!("canceled-without-cancel mode={mode:?} round={r}"));
                    }
                }
                _ => {}
            }
        }
        if mode == Mode::Co && verdict == 3 && cancel_round != 0 {
            // nothing: coroutine::park swallows the verdict, the cancel shows as a panic at the next yield
        }
    }
    if cancel_round != 0 && mode != Mode::Thr {
        // a cancelled coroutine never gets past its next park
        while !sh.cancel_done.load(Ordering::SeqCst) {
            may::coroutine::yield_now();
        }
        if mode == Mode::Blk {
            // the coroutine's own Park has not been used so far: a fresh Park for the model
            c.log("blk.new", (np + 1) as u64, c.now(), None);
        }
        c.log("park.call", 1_000_001, c.now(), None);
        may::coroutine::park_timeout(Duration::from_millis(1));
        c.log("park.ret", 3, c.now(), None);
        c.fail("cancelled-parker-returned-from-park".to_string());
    }
}

fn wait_round(sh: &Shared, r: usize, co: bool) -> bool {
    let c = mayv::ctx();
    if co {
        sh.sems[r].wait();
        return sh.round.load(Ordering::SeqCst) >= r;
    }
    loop {
        if sh.round.load(Ordering::SeqCst) >= r {
            return true;
        }
        if sh.done.load(Ordering::SeqCst) {
            return false;
        }
        if co {
            may::coroutine::yield_now();
        } else {
            c.yield_now();
        }
    }
}

fn delay(co: bool, ns: u64) {
    if ns == 0 {
        return;
    }
    if co {
        may::coroutine::sleep(Duration::from_nanos(ns));
    } else {
        mayv::ctx().sleep_ns(ns);
    }
}

fn unparker_body(sh: Arc<Shared>, mode: Mode, r: usize, co: bool, dly: u64) {
    let c = mayv::ctx();
    if !wait_round(&sh, r, co) {
        return;
    }
    delay(co, dly);
    sh.unparks[r].fetch_add(1, Ordering::SeqCst);
    c.log("unpark.call", sh.gens[r].load(Ordering::SeqCst) as u64, c.now(), None);
    match mode {
        Mode::Co => {
            let h = sh.co.lock().unwrap().clone();
            h.expect("parker handle").unpark();
        }
        _ => {
            let b = sh.blk[r].lock().unwrap().clone();
            b.expect("blocker of the round").unpark();
        }
    }
    c.log("unpark.ret", r as u64, c.now(), None);
}

fn main() {
    let cfg = Config::from_env();
    let mode = match envs("MAYV_MODE", "co").as_str() {
        "blk" => Mode::Blk,
        "thr" => Mode::Thr,
        _ => Mode::Co,
    };
    // timeouts per round in micro seconds
    let tos: Vec<Option<u64>> = envs("MAYV_TO", "n").split(',').map(|s| s.trim().parse::<u64>().ok()).collect();
    let np = tos.len();
    let fresh = envn("MAYV_FRESH", if mode == Mode::Blk { 1 } else { 0 }) == 1;
    let cancel_round = if mode == Mode::Thr { 0 } else { envn("MAYV_CANCEL", 0) };
    // unparkers: e.g. "t1,c1,t2,s3"
    let unp: Vec<(char, usize)> = envs("MAYV_UNP", "t1")
        .split(',')
        .filter(|s| !s.trim().is_empty())
        .map(|s| {
            let s = s.trim();
            (s.chars().next().unwrap(), s[1..].parse::<usize>().unwrap_or(1))
        })
        .collect();
    let mut selfun = vec![false; np];
    for &(k, r) in &unp {
        if k == 's' && r >= 1 && r <= np {
            selfun[r - 1] = true;
        }
    }
    run(cfg, move |ctx| {
        let sh = Arc::new(Shared {
            round: AtomicUsize::new(0),
            done: AtomicBool::new(false),
            cancel_issued: AtomicBool::new(false),
            cancel_done: AtomicBool::new(false),
            unparks: (0..np + 2).map(|_| AtomicUsize::new(0)).collect(),
            gens: (0..np + 2).map(|_| AtomicUsize::new(0)).collect(),
            blk: (0..np + 2).map(|_| Mutex::new(None)).collect(),
            co: Mutex::new(None),
            sems: (0..np + 2).map(|_| may::sync::Semphore::new(0)).collect(),
            ncou: (0..np + 2).map(|_| AtomicUsize::new(0)).collect(),
        });
        for &(k, r) in &unp {
            if k == 'c' && r >= 1 && r <= np {
                sh.ncou[r].fetch_add(1, Ordering::SeqCst);
            }
        }
        // seeded delays
        let delays = [0u64, 0, 0, 300_000, 1_200_000, 2_500_000];
        let mut cos = vec![];
        let mut ths = vec![];
        // the parker
        let mut pj = None;
        let mut pt = None;
        if mode == Mode::Thr {
            let (s2, t2, su) = (sh.clone(), tos.clone(), selfun.clone());
            pt = Some(ctx.spawn("parker", move || parker_body(s2, mode, t2, su, fresh, 0)));
        } else {
            let (s2, t2, su) = (sh.clone(), tos.clone(), selfun.clone());
            let h = unsafe {
                may::coroutine::Builder::new()
                    .name("parker".into())
                    .spawn(move || parker_body(s2, mode, t2, su, fresh, cancel_round))
                    .unwrap()
            };
            *sh.co.lock().unwrap() = Some(h.coroutine().clone());
            pj = Some(h);
        }
        for (i, &(k, r)) in unp.iter().enumerate() {
            if r < 1 || r > np {
                continue;
            }
            let dly = delays[(ctx.rand() % delays.len() as u64) as usize];
            let s2 = sh.clone();
            match k {
                't' => ths.push(ctx.spawn(&format!("u{i}"), move || unparker_body(s2, mode, r, false, dly))),
                'c' => cos.push(unsafe {
                    may::coroutine::Builder::new()
                        .name(format!("u{i}"))
                        .spawn(move || unparker_body(s2, mode, r, true, dly))
                        .unwrap()
                }),
                _ => {}
            }
        }
        if cancel_round != 0 {
            let s2 = sh.clone();
            let dly = delays[(ctx.rand() % delays.len() as u64) as usize];
            ths.push(ctx.spawn("canceller", move || {
                let c = mayv::ctx();
                if !wait_round(&s2, cancel_round, false) {
                    // the parker is gone already: it still has to meet the cancel in its last park
                }
                delay(false, dly);
                let h = s2.co.lock().unwrap().clone().expect("parker handle");
                s2.cancel_issued.store(true, Ordering::SeqCst);
                c.log("cancel.call", 0, c.now(), None);
                unsafe { h.cancel() };
                s2.cancel_done.store(true, Ordering::SeqCst);
                c.log("cancel.ret", 0, c.now(), None);
            }));
        }
        if let Some(h) = pj {
            let r = h.join();
            if cancel_round != 0 && r.is_ok() {
                ctx.fail("join-of-cancelled-coroutine-returned-ok".to_string());
            }
            if cancel_round == 0 && r.is_err() {
                ctx.fail("parker-coroutine-panicked".to_string());
            }
        }
        if let Some(t) = pt {
            ctx.join(t);
        }
        for h in cos {
            let _ = h.join();
        }
        for t in ths {
            ctx.join(t);
        }
        ctx.record(false);
    })
}
